import KoordVerif.Proofs.C04Permit
import KoordVerif.Proofs.C04ExtConc
import KoordVerif.Proofs.C04ExtGroup
import KoordVerif.Proofs.C04ExtRace
import KoordVerif.Proofs.C04ExtWire
import KoordVerif.Proofs.C04ExtCreate
import KoordVerif.Proofs.C04ExtGone
import KoordVerif.Proofs.C04ExtPolicy
import KoordVerif.Proofs.C04ExtRsv
/-
C04 — gang scheduling is all-or-nothing across the whole gang group (property theorems).

The model (Model/C04.lean) is the Go code of pkg/scheduler/plugins/coscheduling/core as written
(after fix bbde960 in setChild).  All theorems quantify over EVERY model state `s` (reachable or not),
every pod, every gang and every configuration; the history theorems quantify over every list of
entry-point calls in any order.  Notation: `held g` = the number of members the gang's match policy
counts (waiting, or waiting + bound under waiting-and-running).

 A. Permit
   permit_success_iff           Success  <->  every gang of the group is valid at the instant of return
   validForPermit_iff           the validity test spelled out for the three policies
   permit_release_min_held      Success and the group not once-satisfied  ->  every gang holds >= min
   permit_wait_parks            otherwise the pod waits: nobody is released, the pod is parked
   permit_success_releases_all  on Success exactly the parked members of the group are released
   permit_not_found             gang unknown: PodGroupNotFound, nothing changes
   allow_only_from_successful_permit   no other entry point ever releases a waiting pod
   release_sound                any released pod's OWN group is valid (consistent group declarations)
 B. strict mode
   unreserve_strict_rejects_all / postFilter_strict_rejects_all / unreserve_lenient_rejects_none
 C. partition of the members
   base_inv_all_histories       after ANY history: pending ∩ waiting = ∅ and member ⊆ pending ∪ waiting ∪ bound
   partition_inv_partial        exactly-one, for histories in which Permit is never called for a pod
                                that is bound (the scheduler never does: framework contract)
   partition_needs_contract     the unrestricted statement is false (kernel-checked witness)
   stale_update_keeps_bound_out_of_pending   the repaired defect (C04:pod-in-two-sets), as a theorem
 D. Permit without a cache-wide lock (small-step)
   permit_snapshot              each gang was valid at the moment it was inspected
   permit_snapshot_atomic       with no interleaved event the small-step loop is the atomic test
   permit_race_witness          a racing delete can make the atomic statement false at return
   permit_race_bound            the strongest statement for that race: at return the i-th gang is gone (only if a
                                deletion of one of its members raced), exempt, or holds min minus the number of
                                deletions of ITS members delivered after ITS inspection
   permit_race_unraced_valid    hence a gang with no such deletion is still valid at return
   nodupSets_all_histories      the hypothesis of the two (the key sets are duplicate-free) holds in every reachable state
 E. goroutines racing on one gang, at critical-section granularity (Proofs/C04ExtConc.lean)
   setChild_atomic_safe         setChild = ONE critical section (a regenerated fact): under EVERY interleaving of
                                informer / scheduling / binding goroutines no member is ever in two sets
   setChild_atomic_partition_at_barrier   ... and at every barrier (all goroutines returned) the FULL partition holds
   setChild_split_counterexample   setChild split into decide | insert: an interleaving with Permit leaves the pod
                                pending AND waiting (and with PostBind pending AND bound)
   setChild_split_sequentially_same   ... although the two shapes agree whenever nothing runs in between
 F. the groups annotation (parsing glue in the model: parseGroups / groupOrSelf; Proofs/C04ExtGroup.lean)
   groups_empty_shapes_mean_self   absent / "" / null / [] / not JSON  =>  the gang is a group of its own
   groups_list_taken_literally     a non-empty JSON list is the group (sorted)
   group_never_empty            after ANY history no cached gang has an empty group: no vacuous group loop
   permit_release_own_min       a gang that is a group of its own is released only when IT holds its minimum
 G. from the informer to the GangCache: the handler NewPodGroupManager registers (model: deliverDel; Proofs/C04ExtWire.lean)
   direct_wiring_forwards_understood   the code's wiring (the ResourceEventHandlerFuncs literal itself — a regenerated
                                fact): every shape onPodDelete / onPodGroupDelete understands reaches it
   ignored_shape_is_nop         a shape they do not understand changes nothing
   delivered_delete_removes     after a delivered delete — the object OR a re-list tombstone — the pod is in none of
                                children / pending / waiting / bound of its gang
   delivered_delete_not_counted ... and is not counted by isGangValidForPermit any more
   deleted_pod_stays_out        ... and it stays out of every set of every cached gang through ANY later history of
                                events and calls for other pods (the harness' "gone" pods: what its release clause
                                subtracts from the cache's sets is empty on the model, Proofs/C04ExtGone.lean)
   filtered_wiring_drops_tombstone   behind a type filter the tombstone never reaches onPodDelete
   tombstone_lost_counterexample     ... and Permit then releases with 2 live members of min 3 (only-waiting) / 1 of
                                min 3 (waiting-and-running), where the code's wiring answers Wait
 H. get-or-create of a Gang under racing informer goroutines (small-step; Proofs/C04ExtCreate.lean)
   getOrCreate_atomic_unique    lookup + NewGang + store in ONE critical section (a regenerated fact): at every
                                instant every goroutine that holds a Gang for an id holds THE cached one
   newGang_race_atomic_safe     ... so once the pod informer's and the PodGroup informer's goroutines are done, every
                                added pod is a pending child of the cached gang and every gang whose PodGroup was
                                added is initialised — any number of goroutines, any schedule
   getOrCreate_split_counterexample   read-locked fast path + unchecked store: both goroutines miss, one Gang replaces
                                the other: the pod is in no set of the cached gang, or the cached gang is never
                                initialised; sequentially the two shapes agree
 I. which match policy and which mode are in force (glue in the model: getMatchPolicy / resolvePolicy / normStrict and
    the configured CoschedulingArgs.DefaultMatchPolicy `State.dflt`; Proofs/C04ExtPolicy.lean)
   match_policy_annotation_before_alias   the annotation unless missing / empty, else its alias — never a default of its own
   absent_policy_takes_configured_default / illegal_policy_takes_configured_default / declared_legal_policy_wins
                                nothing (legal) declared => the policy the scheduler was CONFIGURED with
   mode_nonstrict_only_when_spelled_exactly   NonStrict only for the exact spelling; every other value (missing, empty,
                                garbage, strict / STRICT / nonstrict / NONSTRICT) is Strict
   configured_default_never_changes / policy_legal_or_configured_default   over ANY history
   undeclared_gangs_follow_configured_default   ANY history in which no object declares a legal policy: every initialised
                                gang runs under the configured default
   configured_default_governs_release   ... so under a configured only-waiting / waiting-and-running default a release
                                needs every gang of the group at its minimum: no once-satisfied exemption, a lone
                                replacement member of a bound gang waits
   absent_read_as_once_satisfied_counterexample   a getter answering once-satisfied for "nothing declared" releases the
                                lone replacement member with 1 < min 2 on an only-waiting scheduler
   mode_spellings_reject_like_strict / mode_stored_as_written_counterexample   `strict` etc. reject the parked member
                                like `Strict`; read as NonStrict the member keeps waiting
   base_inv_any_default / partition_reachable_any_default_partial / group_never_empty_any_default   the history theorems
                                of C and F from `initWith d`, i.e. under every configured default (the partition one
                                is partial for the same reason as partition_inv_partial: hypothesis ContractOK)
 J. Reservations that are gang members (adapter glue in the model: Rsv / reservePodHasNode / deliverRsv — what
    reservationutil.NewReservePod + NewReservationToPodEventHandler hand to the pod handler; Proofs/C04ExtRsv.lean)
   requested_node_is_not_a_binding   the node a Reservation REQUESTS (spec.template.spec.nodeName) never reaches the cache
   unscheduled_reservation_binds_nothing   a Reservation without status.nodeName — pinned or not, any phase, add or update,
                                ANY cache state — brings no pod into any bound set
   scheduled_reservation_is_assigned_pod   a scheduled one is a pod WITH node name (update: unless terminated)
   bound_only_after_binding     after ANY history a pod is in a bound set only if an event showed its node name or its
                                PostBind ran (the harness' own `bound` flag is a superset of the cache's bound sets)
   reserve_pod_bound_only_when_scheduled   ... in particular a reserve pod all of whose events were deliveries of an
                                unscheduled Reservation, through any history of other events and calls
   pinned_pending_reservation_waits   end to end: pending Reservation that pins a node + first ordinary member of min 3: Wait
   requested_node_read_as_binding_counterexample   "already bound" read off the reservation-node annotation: the pending
                                Reservation is bound, the group once-satisfied, the first member released with 1 of min 3
-/
namespace KoordVerif.C04

/-! ## A. Permit -/

/-- the number of members of a gang that hold resources, as the gang's match policy counts them -/
def held (g : Gang) : Nat :=
  if g.policy = 1 then g.ps.waiting.length + g.ps.bound.length else g.ps.waiting.length

/-- isGangValidForPermit, spelled out: initialised, and the minimum is held — or (once-satisfied
    policy only) the group was satisfied before. -/
theorem validForPermit_iff (s : State) (g : Gang) :
    validForPermit s g = true ↔
      g.init = true ∧ (g.min ≤ (held g : Int) ∨ (g.policy ≠ 0 ∧ g.policy ≠ 1 ∧ infoSat s g.info = true)) := by
  unfold validForPermit held
  rcases hp : g.policy with _ | _ | k
  · simp
  · simp
  · simp

theorem allValid_iff (s : State) (grp : List GangId) :
    allValid s grp = true ↔
      ∀ h ∈ grp, ∃ gh, findGang s.gangs h = some gh ∧ validForPermit s gh = true := by
  unfold allValid
  rw [List.all_eq_true]
  constructor
  · intro H h hh
    have := H h hh
    split at this
    next gh e => exact ⟨gh, e, this⟩
    next => exact absurd this (by simp)
  · intro H h hh
    obtain ⟨gh, e, hv⟩ := H h hh
    rw [e]; exact hv

/-- the gang of the pod after Permit: the pod has been added to its waiting set, nothing else -/
theorem permit_gang_after (s : State) (p : Pod) (id : GangId) (g : Gang) (hg : findGang s.gangs id = some g) :
    findGang (permit s p id).1.gangs id = some (g.addAssumed p) := by
  have e := findGang_assumed s p id g hg
  obtain ⟨h1, h2⟩ := permit_spec s p id g hg
  by_cases hv : allValid (assumed s p id) g.group = true
  · rw [h1 hv]; exact e
  · rw [h2 (by simpa using hv)]; exact e

/-- T1. Permit answers Success iff, in the state it returns in, every gang of the pod's gang group is
    in the cache and valid for permit. -/
theorem permit_success_iff (s : State) (p : Pod) (id : GangId) (g : Gang) (hg : findGang s.gangs id = some g) :
    (permit s p id).2.verdict = 0 ↔ allValid (permit s p id).1 g.group = true := by
  obtain ⟨h1, h2⟩ := permit_spec s p id g hg
  by_cases hv : allValid (assumed s p id) g.group = true
  · rw [h1 hv]
    simp only [true_iff]
    rw [← hv]
    exact allValid_congr rfl rfl _
  · have hv' : allValid (assumed s p id) g.group = false := by simpa using hv
    rw [h2 hv']
    have e := allValid_congr (s := parked (assumed s p id) p id) (t := assumed s p id) rfl rfl g.group
    simp only
    rw [e, hv']
    decide

/-- Permit answers Success (0) or Wait (1) for a cached gang -/
theorem permit_verdict (s : State) (p : Pod) (id : GangId) (g : Gang) (hg : findGang s.gangs id = some g) :
    (permit s p id).2.verdict = 0 ∨ (permit s p id).2.verdict = 1 := by
  obtain ⟨h1, h2⟩ := permit_spec s p id g hg
  by_cases hv : allValid (assumed s p id) g.group = true
  · rw [h1 hv]; exact Or.inl rfl
  · rw [h2 (by simpa using hv)]; exact Or.inr rfl

/-- The property's first sentence.  If Permit releases the pod, then at that instant every gang of its
    gang group is cached, initialised and — unless that gang's group has been satisfied before —
    holds at least its minimum number of members (waiting, or waiting + bound under
    waiting-and-running). -/
theorem permit_release_min_held (s : State) (p : Pod) (id : GangId) (g : Gang)
    (hg : findGang s.gangs id = some g) (hv : (permit s p id).2.verdict = 0) :
    ∀ h ∈ g.group, ∃ gh, findGang (permit s p id).1.gangs h = some gh ∧ gh.init = true ∧
      (infoSat (permit s p id).1 gh.info = false → gh.min ≤ (held gh : Int)) := by
  have hall := (permit_success_iff s p id g hg).mp hv
  intro h hh
  obtain ⟨gh, e, hval⟩ := (allValid_iff _ _).mp hall h hh
  obtain ⟨hi, hm⟩ := (validForPermit_iff _ _).mp hval
  refine ⟨gh, e, hi, ?_⟩
  intro hs
  rcases hm with hm | ⟨_, _, hsat⟩
  · exact hm
  · rw [hs] at hsat; exact absurd hsat (by decide)

/-- "otherwise it waits": not Success means Wait — no pod is released and the pod is parked in the
    framework's waiting map. -/
theorem permit_wait_parks (s : State) (p : Pod) (id : GangId) (g : Gang) (hg : findGang s.gangs id = some g)
    (hv : (permit s p id).2.verdict ≠ 0) :
    (permit s p id).2.verdict = 1 ∧ (permit s p id).2.allowed = [] ∧ (p, id) ∈ (permit s p id).1.fw := by
  obtain ⟨h1, h2⟩ := permit_spec s p id g hg
  by_cases hval : allValid (assumed s p id) g.group = true
  · rw [h1 hval] at hv; exact absurd rfl hv
  · rw [h2 (by simpa using hval)]
    exact ⟨rfl, rfl, by simp [parked]⟩

/-- all, not some: on Success exactly the parked pods of the gangs of the group are allowed, and
    none of them stays parked. -/
theorem permit_success_releases_all (s : State) (p : Pod) (id : GangId) (g : Gang)
    (hg : findGang s.gangs id = some g) (hv : (permit s p id).2.verdict = 0) :
    (∀ q, q ∈ (permit s p id).2.allowed ↔ ∃ h, (q, h) ∈ s.fw ∧ h ∈ g.group) ∧
    (∀ e ∈ (permit s p id).1.fw, e.2 ∉ g.group) := by
  obtain ⟨h1, h2⟩ := permit_spec s p id g hg
  by_cases hval : allValid (assumed s p id) g.group = true
  · rw [h1 hval]
    constructor
    · intro q
      exact mem_fwHit (s := assumed s p id)
    · intro e he
      exact (mem_fwDrop.mp he).2
  · rw [h2 (by simpa using hval)] at hv
    simp at hv

/-- gang not in the cache: PodGroupNotFound, no state change, nobody released -/
theorem permit_not_found (s : State) (p : Pod) (id : GangId) (hg : findGang s.gangs id = none) :
    permit s p id = (s, { verdict := 2 }) := by
  unfold permit
  rw [hg]

/-- Release from the permit stage happens nowhere else: an entry point that issues a
    `WaitingPod.Allow` is a Permit call that answered Success. -/
theorem allow_only_from_successful_permit (s : State) (op : Op) (h : (step s op).2.allowed ≠ []) :
    ∃ p id, op = .permit p id ∧ (step s op).2.verdict = 0 := by
  cases op with
  | permit p id =>
    refine ⟨p, id, rfl, ?_⟩
    simp only [step] at h ⊢
    cases hg : findGang s.gangs id with
    | none => rw [permit_not_found s p id hg] at h; exact absurd rfl h
    | some g =>
      rcases permit_verdict s p id g hg with h0 | h1
      · exact h0
      · exact absurd (permit_wait_parks s p id g hg (by rw [h1]; decide)).2.1 h
  | unreserve p id =>
    simp only [step] at h
    cases hg : findGang s.gangs id with
    | none =>
      have : findGang (fwRemove s p).gangs id = none := hg
      unfold unreserve at h
      simp only [this] at h
      exact absurd rfl h
    | some g =>
      obtain ⟨h1, h2⟩ := unreserve_spec s p id g hg
      by_cases hc : exempt s g = false ∧ g.strict = true
      · rw [h1 hc] at h; exact absurd rfl h
      · rw [h2 hc] at h; exact absurd rfl h
  | postFilter p id =>
    simp only [step] at h
    cases hg : findGang s.gangs id with
    | none =>
      unfold postFilter at h
      simp only [hg] at h
      exact absurd rfl h
    | some g =>
      obtain ⟨h1, h2⟩ := postFilter_spec s id g hg
      by_cases hc : exempt s g = false ∧ g.strict = true
      · rw [h1 hc] at h; exact absurd rfl h
      · rw [h2 hc] at h; exact absurd rfl h
  | pgAdd _ _ => exact absurd rfl h
  | pgUpd _ _ => exact absurd rfl h
  | pgDel _ => exact absurd rfl h
  | podEvt _ _ _ _ => exact absurd rfl h
  | podDel _ _ => exact absurd rfl h
  | postBind _ _ => exact absurd rfl h
  | nop => exact absurd rfl h

/-- gang-group declarations are consistent: every cached gang of a gang's group declares the same group -/
def GroupConsistent (s : State) : Prop :=
  ∀ g ∈ s.gangs, ∀ h ∈ g.group, ∀ gh, findGang s.gangs h = some gh → gh.group = g.group

/-- Every pod released by a successful Permit — the pod itself or a parked member of another gang —
    belongs to a gang whose OWN declared gang group is entirely valid at that instant. -/
theorem release_sound (s : State) (p : Pod) (id : GangId) (g : Gang) (hg : findGang s.gangs id = some g)
    (hv : (permit s p id).2.verdict = 0) (hc : GroupConsistent (permit s p id).1) :
    ∀ h ∈ g.group, ∀ gh, findGang (permit s p id).1.gangs h = some gh →
      allValid (permit s p id).1 gh.group = true := by
  intro h hh gh hgh
  have hafter := permit_gang_after s p id g hg
  have hmem := (mem_of_findGang hafter).1
  have := hc (g.addAssumed p) hmem h hh gh hgh
  rw [this]
  exact (permit_success_iff s p id g hg).mp hv

/-! ## B. strict mode: a failed or rolled-back member rejects the whole group -/

/-- Unreserve of a member of a strict gang (not exempted by once-satisfied): every pod parked at
    Permit that belongs to a gang of the group gets `Reject`, and none stays parked. -/
theorem unreserve_strict_rejects_all (s : State) (p : Pod) (id : GangId) (g : Gang)
    (hg : findGang s.gangs id = some g) (hs : g.strict = true) (he : exempt s g = false) :
    (∀ q h, (q, h) ∈ s.fw → q ≠ p → h ∈ g.group → q ∈ (unreserve s p id).2.rejected) ∧
    (∀ e ∈ (unreserve s p id).1.fw, e.2 ∉ g.group) := by
  rw [(unreserve_spec s p id g hg).1 ⟨he, hs⟩]
  constructor
  · intro q h hm hq hh
    apply (mem_fwHit (s := unassumed s p id)).mpr
    refine ⟨h, ?_, hh⟩
    simp [unassumed, fwRemove, List.mem_filter, hm, hq]
  · intro e hm
    exact (mem_fwDrop.mp hm).2

/-- AfterPostFilter (the member found no node), same statement -/
theorem postFilter_strict_rejects_all (s : State) (id : GangId) (g : Gang)
    (hg : findGang s.gangs id = some g) (hs : g.strict = true) (he : exempt s g = false) :
    (∀ q h, (q, h) ∈ s.fw → h ∈ g.group → q ∈ (postFilter s id).2.rejected) ∧
    (∀ e ∈ (postFilter s id).1.fw, e.2 ∉ g.group) := by
  rw [(postFilter_spec s id g hg).1 ⟨he, hs⟩]
  constructor
  · intro q h hm hh
    exact mem_fwHit.mpr ⟨h, hm, hh⟩
  · intro e hm
    exact (mem_fwDrop.mp hm).2

/-- the exemption is exactly "once-satisfied policy and the group was satisfied before" -/
theorem exempt_iff (s : State) (g : Gang) : exempt s g = true ↔ g.policy = 2 ∧ infoSat s g.info = true := by
  unfold exempt
  simp

/-- non-strict mode or exempted: Unreserve only rolls the pod back, nobody is rejected -/
theorem unreserve_lenient_rejects_none (s : State) (p : Pod) (id : GangId) (g : Gang)
    (hg : findGang s.gangs id = some g) (h : g.strict = false ∨ exempt s g = true) :
    (unreserve s p id).2.rejected = [] ∧ (unreserve s p id).1 = unassumed s p id := by
  have hc : ¬ (exempt s g = false ∧ g.strict = true) := by
    rintro ⟨h1, h2⟩
    rcases h with h | h
    · rw [h] at h2; exact absurd h2 (by decide)
    · rw [h] at h1; exact absurd h1 (by decide)
  rw [(unreserve_spec s p id g hg).2 hc]
  exact ⟨rfl, rfl⟩

/-! ## C. partition of the members -/

/-- PARTITION, unconditional part.  After ANY sequence of entry-point calls, in any order, from any
    state in which it held: no member is both pending and waiting, and every member is in at least
    one of pending / waiting / bound. -/
theorem base_inv_run (s : State) (ops : List Op) (h : AllG PodSets.Base s.gangs) :
    AllG PodSets.Base (run s ops).gangs := by
  induction ops generalizing s with
  | nil => exact h
  | cons o os ih =>
    exact ih _ (step_allG base_setInv (Q := fun _ _ => True)
      (fun g p hg _ => base_addAssumed g p hg) s o h (fun _ _ _ _ _ _ => trivial))

theorem base_inv_all_histories (ops : List Op) : AllG PodSets.Base (run init ops).gangs :=
  base_inv_run init ops (fun g hg => by simp [init] at hg)

/-- spelled out -/
theorem member_in_some_set (ops : List Op) (g : Gang) (hg : g ∈ (run init ops).gangs) (p : Pod)
    (hp : p ∈ g.ps.children) : p ∈ g.ps.pending ∨ p ∈ g.ps.waiting ∨ p ∈ g.ps.bound :=
  (base_inv_all_histories ops g hg).2 p hp

theorem pending_waiting_disjoint (ops : List Op) (g : Gang) (hg : g ∈ (run init ops).gangs) (p : Pod)
    (hp : p ∈ g.ps.pending) : p ∉ g.ps.waiting :=
  (base_inv_all_histories ops g hg).1 p hp

/-- The framework contract the full partition needs: Permit is never called for a pod that the
    gang already has in its bound set (the scheduler does not schedule an assigned pod). -/
def ContractOK : State → List Op → Prop
  | _, [] => True
  | s, o :: os =>
    (∀ p id, o = .permit p id → NotBound s.gangs id p) ∧ ContractOK (step s o).1 os

/-- executable form of `ContractOK` (for the non-vacuity examples) -/
def opOKb (s : State) : Op → Bool
  | .permit p id => s.gangs.all (fun g => !(g.id == id) || !(decide (p ∈ g.ps.bound)))
  | _ => true

def contractOKb : State → List Op → Bool
  | _, [] => true
  | s, o :: os => opOKb s o && contractOKb (step s o).1 os

theorem contractOK_of_b (s : State) (ops : List Op) (h : contractOKb s ops = true) : ContractOK s ops := by
  induction ops generalizing s with
  | nil => trivial
  | cons o os ih =>
    simp only [contractOKb, Bool.and_eq_true] at h
    refine ⟨?_, ih _ h.2⟩
    intro p id e g hg hid
    subst e
    have := List.all_eq_true.mp h.1 g hg
    simp [hid] at this
    exact this

/-
FULL STATEMENT (properties.jsonl): "A member pod is always in exactly one of the pending, waiting or
bound sets of its gang, whatever order pod events, permits, roll-backs, binds and deletions arrive in."
  theorem partition_inv : ∀ ops, AllG PodSets.Part (run init ops).gangs
is FALSE for the model and the code (`partition_needs_contract` below): a Permit issued for a pod
that is already bound puts it into waiting AND bound.  What is proved is the statement for every
history that respects `ContractOK`; pod events, PodGroup events, roll-backs, binds and deletions are
unrestricted, in particular stale pod updates without a node name after PostBind.
-/
theorem partition_inv_partial (s : State) (ops : List Op) (h : AllG PodSets.Part s.gangs)
    (hc : ContractOK s ops) : AllG PodSets.Part (run s ops).gangs := by
  induction ops generalizing s with
  | nil => exact h
  | cons o os ih =>
    obtain ⟨h1, h2⟩ := hc
    exact ih _ (step_allG part_setInv (Q := fun g p => p ∉ g.bound)
      (fun g p hg hb => part_addAssumed g p hg hb) s o h
      (fun p id e g hg hid => h1 p id e g hg hid)) h2

theorem partition_reachable_partial (ops : List Op) (hc : ContractOK init ops) :
    AllG PodSets.Part (run init ops).gangs :=
  partition_inv_partial init ops (fun g hg => by simp [init] at hg) hc

/-- exactly one: what `Part` says about a member -/
theorem part_exactly_one (g : PodSets) (h : g.Part) (p : Pod) (hp : p ∈ g.children) :
    (p ∈ g.pending ∧ p ∉ g.waiting ∧ p ∉ g.bound) ∨
    (p ∉ g.pending ∧ p ∈ g.waiting ∧ p ∉ g.bound) ∨
    (p ∉ g.pending ∧ p ∉ g.waiting ∧ p ∈ g.bound) := by
  obtain ⟨h1, h2, h3, hc⟩ := h
  rcases hc p hp with h | h | h
  · exact Or.inl ⟨h, h1 p h, h3 p h⟩
  · exact Or.inr (Or.inl ⟨fun hq => h1 p hq h, h, h2 p h⟩)
  · exact Or.inr (Or.inr ⟨fun hq => h3 p hq h, fun hq => h2 p hq h, h⟩)

/-- a history that breaks the contract: pod 0 of gang 0 is reported bound by the informer, then
    Permit is called for it -/
def breachHistory : List Op :=
  [.pgAdd 0 { min := 1, policy := 0, mode := 1, group := [] }, .podEvt 0 0 true none, .permit 0 0]

/-- the unrestricted partition statement is false: after `breachHistory` pod 0 is waiting and bound -/
theorem partition_needs_contract : ¬ ∀ ops, AllG PodSets.Part (run init ops).gangs := by
  intro h
  have hg : (run init breachHistory).gangs ≠ [] := by decide
  cases hgs : (run init breachHistory).gangs with
  | nil => exact hg hgs
  | cons g t =>
    have hw : (0 : Nat) ∈ g.ps.waiting := by
      have : ∀ g' ∈ (run init breachHistory).gangs, (0 : Nat) ∈ g'.ps.waiting := by decide
      exact this g (by rw [hgs]; exact List.mem_cons_self)
    have hb : (0 : Nat) ∈ g.ps.bound := by
      have : ∀ g' ∈ (run init breachHistory).gangs, (0 : Nat) ∈ g'.ps.bound := by decide
      exact this g (by rw [hgs]; exact List.mem_cons_self)
    exact (h breachHistory g (by rw [hgs]; exact List.mem_cons_self)).2.1 0 hw hb

/-- The repaired defect (known finding C04:pod-in-two-sets, fix bbde960) as a theorem: a pod update
    that does not carry a node name never makes a bound member pending. -/
theorem stale_update_keeps_bound_out_of_pending (g : PodSets) (p : Pod) (hb : p ∈ g.bound) :
    (g.setChild p false).pending = g.pending ∧ (g.setChild p false).bound = g.bound := by
  unfold PodSets.setChild
  simp [hb]

/-- non-vacuity: a contract-respecting history with a two-member release, a PostBind, a stale pod
    update after it (the repaired order), a roll-back and a deletion. -/
def sampleHistory : List Op :=
  [.pgAdd 0 { min := 2, policy := 0, mode := 1, group := [0, 1] },
   .podEvt 10 1 false (some (true, { min := 1, policy := 3, mode := 2, group := [1, 0] })),
   .podEvt 0 0 false none, .podEvt 1 0 false none,
   .permit 0 0, .permit 10 1, .permit 1 0,
   .postBind 0 0, .podEvt 0 0 false none, .unreserve 1 0, .podDel 10 1]

example : ContractOK init sampleHistory := contractOK_of_b _ _ (by decide)

example : (step (run init (sampleHistory.take 6)) (.permit 1 0)).2 = { verdict := 0, allowed := [10, 0] } := by
  decide

example : ∃ g ∈ (run init (sampleHistory.take 9)).gangs, g.ps.bound = [0] ∧ g.ps.pending = [] := by
  decide

/-! ## D. Permit holds no cache-wide lock: small-step statement -/

/-- The loop of Permit with an arbitrary state change (an informer handler or another scheduling
    goroutine, at lock-section granularity) before every inspection.  Returns the verdict, the
    final state and the (state, gang) pairs at the moments of inspection. -/
def inspectLoop : State → List GangId → List (State → State) → Bool × State × List (State × GangId)
  | s, [], _ => (true, s, [])
  | s, h :: hs, envs =>
    let s' := (envs.headD id) s
    match findGang s'.gangs h with
    | some gh =>
      if validForPermit s' gh then
        let r := inspectLoop s' hs envs.tail
        (r.1, r.2.1, (s', h) :: r.2.2)
      else (false, s', [])
    | none => (false, s', [])

/-- T4. If the small-step Permit succeeds then every gang of the group was inspected, in order, and
    was valid at the moment it was inspected — whatever ran in between. -/
theorem permit_snapshot (s : State) (grp : List GangId) (envs : List (State → State))
    (h : (inspectLoop s grp envs).1 = true) :
    (inspectLoop s grp envs).2.2.map (·.2) = grp ∧
    ∀ e ∈ (inspectLoop s grp envs).2.2, ∃ gh, findGang e.1.gangs e.2 = some gh ∧ validForPermit e.1 gh = true := by
  induction grp generalizing s envs with
  | nil => simp [inspectLoop]
  | cons a t ih =>
    unfold inspectLoop at h ⊢
    simp only at h ⊢
    split at h
    next gh e =>
      by_cases hv : validForPermit (envs.headD id s) gh = true
      · rw [if_pos hv] at h ⊢
        obtain ⟨i1, i2⟩ := ih _ _ h
        refine ⟨by simp only [List.map_cons, List.cons.injEq, true_and]; exact i1, ?_⟩
        intro x hx
        simp only [List.mem_cons] at hx
        rcases hx with rfl | hx
        · exact ⟨gh, e, hv⟩
        · exact i2 x hx
      · rw [if_neg hv] at h
        simp at h
    next => simp at h

/-- with nothing interleaved the small-step loop is the atomic test of `permit` -/
theorem permit_snapshot_atomic (s : State) (grp : List GangId) :
    (inspectLoop s grp []).1 = allValid s grp ∧ (inspectLoop s grp []).2.1 = s := by
  induction grp with
  | nil => simp [inspectLoop, allValid]
  | cons a t ih =>
    unfold inspectLoop
    simp only [List.headD_nil, id, List.tail_nil]
    have e : allValid s (a :: t) = ((match findGang s.gangs a with
        | some gh => validForPermit s gh
        | none => false) && allValid s t) := by
      unfold allValid
      rfl
    rw [e]
    split
    next gh _ =>
      by_cases hv : validForPermit s gh = true
      · simp [hv, ih.1, ih.2]
      · simp [hv]
    next => simp

/-- two gangs (min 1 each) in one group, one waiting pod each -/
def raceState : State :=
  run init [.pgAdd 0 { min := 1, policy := 0, mode := 1, group := [0, 1] },
            .pgAdd 1 { min := 1, policy := 0, mode := 1, group := [0, 1] },
            .podEvt 0 0 false none, .podEvt 10 1 false none, .permit 10 1]

/-- The atomic statement does NOT survive real interleavings: a pod deletion that lands between
    the inspection of gang 0 and gang 1 lets the small-step Permit succeed although, at return,
    gang 0 no longer holds its minimum.  (`permit_snapshot` is the honest statement there.) -/
theorem permit_race_witness :
    let s1 := assumed raceState 0 0
    let r := inspectLoop s1 [0, 1] [id, fun s => podDel s 0 0]
    r.1 = true ∧ allValid r.2.1 [0, 1] = false := by
  decide

/-! ### D'. how far a gang can have shrunk when the racy Permit returns -/

theorem headD_delBatch (dels : List (List (Pod × GangId))) (s : State) :
    ((dels.map delBatch).headD id) s = delBatch (dels.headD []) s := by
  cases dels <;> rfl

theorem tail_delBatch (dels : List (List (Pod × GangId))) : (dels.map delBatch).tail = dels.tail.map delBatch := by
  cases dels <;> rfl

theorem inspectLoop_cons (s : State) (a : GangId) (t : List GangId) (envs : List (State → State)) :
    inspectLoop s (a :: t) envs =
      match findGang ((envs.headD id) s).gangs a with
      | some gh =>
        if validForPermit ((envs.headD id) s) gh then
          ((inspectLoop ((envs.headD id) s) t envs.tail).1, (inspectLoop ((envs.headD id) s) t envs.tail).2.1,
            ((envs.headD id) s, a) :: (inspectLoop ((envs.headD id) s) t envs.tail).2.2)
        else (false, (envs.headD id) s, [])
      | none => (false, (envs.headD id) s, []) := by
  rw [inspectLoop] <;> rfl

/-- one step of the small-step loop when it goes on -/
theorem inspectLoop_cons_true (s : State) (a : GangId) (t : List GangId) (dels : List (List (Pod × GangId)))
    (hs : (inspectLoop s (a :: t) (dels.map delBatch)).1 = true) :
    ∃ gh, findGang (delBatch (dels.headD []) s).gangs a = some gh ∧
      validForPermit (delBatch (dels.headD []) s) gh = true ∧
      (inspectLoop (delBatch (dels.headD []) s) t (dels.tail.map delBatch)).1 = true ∧
      (inspectLoop s (a :: t) (dels.map delBatch)).2.1 =
        (inspectLoop (delBatch (dels.headD []) s) t (dels.tail.map delBatch)).2.1 := by
  rw [inspectLoop_cons] at hs ⊢
  simp only [headD_delBatch, tail_delBatch] at hs ⊢
  split at hs
  next gh e =>
    by_cases hv : validForPermit (delBatch (dels.headD []) s) gh = true
    · rw [if_pos hv] at hs
      refine ⟨gh, e, hv, hs, ?_⟩
      rw [if_pos hv]
    · rw [if_neg hv] at hs
      simp at hs
  next => simp at hs

/-- From the start of the small-step loop to its successful return every gang shrank by at most the
    pod deletions that were delivered for it while the loop ran. -/
theorem inspectLoop_shrunk (s : State) (grp : List GangId) (dels : List (List (Pod × GangId)))
    (hn : NodupSets s) (hs : (inspectLoop s grp (dels.map delBatch)).1 = true) (h : GangId) :
    Shrunk s (inspectLoop s grp (dels.map delBatch)).2.1 h (racing h (dels.take grp.length).flatten) := by
  induction grp generalizing s dels with
  | nil =>
    simp only [inspectLoop, List.length_nil, List.take_zero, List.flatten_nil]
    exact Shrunk.refl s h
  | cons a t ih =>
    obtain ⟨gh, _, _, h1, h2⟩ := inspectLoop_cons_true s a t dels hs
    rw [h2]
    have hn' := delBatch_nodup (dels.headD []) s hn
    have s1 := shrunk_delBatch (dels.headD []) s h hn
    have s2 := ih (delBatch (dels.headD []) s) dels.tail hn' h1
    have := s1.trans s2
    have e : racing h (dels.take (a :: t).length).flatten =
        racing h (dels.headD []) + racing h (dels.tail.take t.length).flatten := by
      cases dels with
      | nil => simp [racing]
      | cons d ds => simp [racing_append]
    rw [e]
    exact this

/-- valid when inspected + shrunk by at most k since  =>  what is left at return -/
theorem valid_after_shrunk (s t : State) (a : GangId) (gs : Gang) (k : Nat)
    (hg : findGang s.gangs a = some gs) (hv : validForPermit s gs = true) (hsh : Shrunk s t a k) :
    (findGang t.gangs a = none ∧ 1 ≤ k) ∨
    ∃ gt, findGang t.gangs a = some gt ∧ gt.init = true ∧
      (gt.min ≤ (held gt : Int) + ((if gt.policy = 1 then 2 * k else k : Nat) : Int) ∨
        (gt.policy ≠ 0 ∧ gt.policy ≠ 1 ∧ infoSat t gt.info = true)) := by
  obtain ⟨hinf, _, hgs⟩ := hsh
  obtain ⟨hi, hm⟩ := (validForPermit_iff s gs).mp hv
  rcases hgs gs hg with h0 | ⟨gt, hgt, a1, a2, a3, a4, a5, a6⟩
  · exact Or.inl h0
  · right
    refine ⟨gt, hgt, a1.trans hi, ?_⟩
    rcases hm with hm | ⟨p0, p1, hsat⟩
    · left
      rw [a2]
      unfold held at hm ⊢
      rw [a3]
      by_cases hp : gs.policy = 1
      · simp only [hp, if_true] at hm ⊢
        omega
      · simp only [hp, if_false] at hm ⊢
        omega
    · right
      rw [a3, a4]
      exact ⟨p0, p1, by rw [infoSat_congr (s := t) (t := s) hinf]; exact hsat⟩

/-- STRONGEST STATEMENT FOR THE RACY CASE (pod deletions racing the loop of Permit).  `dels[j]` are the
    deletions the informer goroutine delivers just before the j-th inspection.  If the small-step
    Permit succeeds then, in the state it returns in, the i-th gang of the group
      * has left the cache — only possible if a deletion of one of its members raced, or
      * is initialised and holds its minimum minus the number k of deletions of ITS members delivered
        AFTER it was inspected (2k under waiting-and-running, where one pod can count twice), or
      * is exempt (once-satisfied policy and the group was satisfied before).
    In particular a gang none of whose members was deleted after its inspection is still valid. -/
theorem permit_race_bound (s : State) (grp : List GangId) (dels : List (List (Pod × GangId)))
    (hn : NodupSets s) (hs : (inspectLoop s grp (dels.map delBatch)).1 = true)
    (i : Nat) (hi : i < grp.length) :
    (findGang (inspectLoop s grp (dels.map delBatch)).2.1.gangs grp[i] = none ∧
        1 ≤ racing grp[i] ((dels.drop (i + 1)).take (grp.length - (i + 1))).flatten) ∨
    ∃ gt, findGang (inspectLoop s grp (dels.map delBatch)).2.1.gangs grp[i] = some gt ∧ gt.init = true ∧
      (gt.min ≤ (held gt : Int) +
          ((if gt.policy = 1 then 2 * racing grp[i] ((dels.drop (i + 1)).take (grp.length - (i + 1))).flatten
            else racing grp[i] ((dels.drop (i + 1)).take (grp.length - (i + 1))).flatten : Nat) : Int) ∨
        (gt.policy ≠ 0 ∧ gt.policy ≠ 1 ∧
          infoSat (inspectLoop s grp (dels.map delBatch)).2.1 gt.info = true)) := by
  induction grp generalizing s dels i with
  | nil => exact absurd hi (by simp)
  | cons a t ih =>
    obtain ⟨gh, hg, hv, h1, h2⟩ := inspectLoop_cons_true s a t dels hs
    rw [h2]
    have hn' := delBatch_nodup (dels.headD []) s hn
    cases i with
    | zero =>
      have hsh := inspectLoop_shrunk (delBatch (dels.headD []) s) t dels.tail hn' h1 a
      have e : ((dels.drop (0 + 1)).take ((a :: t).length - (0 + 1))) = dels.tail.take t.length := by
        simp [List.drop_one]
      simp only [List.getElem_cons_zero]
      rw [e]
      exact valid_after_shrunk _ _ a gh _ hg hv hsh
    | succ j =>
      have hj : j < t.length := by simpa using hi
      have := ih (delBatch (dels.headD []) s) dels.tail hn' h1 j hj
      have e : ((dels.drop (j + 1 + 1)).take ((a :: t).length - (j + 1 + 1))) =
          (dels.tail.drop (j + 1)).take (t.length - (j + 1)) := by
        cases dels with
        | nil => simp
        | cons d ds => simp
      simp only [List.getElem_cons_succ]
      rw [e]
      exact this

/-- non-vacuity, on the race of `permit_race_witness`: gang 0 is inspected, then its only member is
    deleted; at return it holds 0 = min 1 - 1 racing deletion -/
example : racing 0 (([[], [(0, 0)]].drop 1).take 1).flatten = 1 := by decide

/-- a gang none of whose members was deleted after its inspection is still valid when Permit returns -/
theorem permit_race_unraced_valid (s : State) (grp : List GangId) (dels : List (List (Pod × GangId)))
    (hn : NodupSets s) (hs : (inspectLoop s grp (dels.map delBatch)).1 = true)
    (i : Nat) (hi : i < grp.length)
    (h0 : racing grp[i] ((dels.drop (i + 1)).take (grp.length - (i + 1))).flatten = 0) :
    ∃ gt, findGang (inspectLoop s grp (dels.map delBatch)).2.1.gangs grp[i] = some gt ∧
      validForPermit (inspectLoop s grp (dels.map delBatch)).2.1 gt = true := by
  rcases permit_race_bound s grp dels hn hs i hi with ⟨_, h1⟩ | ⟨gt, hg, hi', hm⟩
  · rw [h0] at h1; exact absurd h1 (by decide)
  · refine ⟨gt, hg, (validForPermit_iff _ gt).mpr ⟨hi', ?_⟩⟩
    rw [h0] at hm
    rcases hm with hm | hm
    · left
      simpa using hm
    · exact Or.inr hm

theorem nodup_sIns (x : Nat) (l : List Nat) (h : l.Nodup) : (sIns x l).Nodup := by
  unfold sIns
  split
  · exact h
  next hx => exact List.nodup_cons.mpr ⟨hx, h⟩

def PodSets.ND (g : PodSets) : Prop := g.waiting.Nodup ∧ g.bound.Nodup

theorem setChild_waiting (g : PodSets) (p : Pod) (n : Bool) : (g.setChild p n).waiting = g.waiting := by
  unfold PodSets.setChild
  simp only
  split <;> rfl

theorem setChild_bound (g : PodSets) (p : Pod) (n : Bool) : (g.setChild p n).bound = g.bound := by
  unfold PodSets.setChild
  simp only
  split <;> rfl

theorem nd_setInv : SetInv PodSets.ND := by
  refine ⟨?_, ?_, ?_, ?_, ?_, ?_⟩
  · simp [PodSets.ND, PodSets.empty]
  · intro g p h
    unfold PodSets.ND
    rw [setChild_waiting, setChild_bound]
    exact h
  · intro g p h
    unfold PodSets.ND PodSets.addBound
    simp only
    rw [setChild_waiting, setChild_bound]
    exact ⟨nodup_sDel _ _ h.1, nodup_sIns _ _ h.2⟩
  · intro g p h
    exact ⟨nodup_sDel _ _ h.1, nodup_sIns _ _ h.2⟩
  · intro g p h
    unfold PodSets.ND PodSets.delAssumed at *
    split
    · exact ⟨nodup_sDel _ _ h.1, h.2⟩
    · exact h
  · intro g p h
    exact ⟨nodup_sDel _ _ h.1, nodup_sDel _ _ h.2⟩

/-- the hypothesis of `permit_race_bound` holds in every reachable state -/
theorem nodupSets_all_histories (ops : List Op) : NodupSets (run init ops) := by
  have key : ∀ (s : State) (ops : List Op), AllG PodSets.ND s.gangs → AllG PodSets.ND (run s ops).gangs := by
    intro s ops
    induction ops generalizing s with
    | nil => exact fun h => h
    | cons o os ih =>
      intro h
      exact ih _ (step_allG nd_setInv (Q := fun _ _ => True)
        (fun g p hg _ => ⟨nodup_sIns _ _ hg.1, hg.2⟩) s o h (fun _ _ _ _ _ _ => trivial))
  exact key init ops (fun g hg => by simp [init] at hg)

/-! ## E. goroutines racing on one gang (critical-section granularity) -/

/-- Informer, scheduling and binding goroutines, any number of them, each making any sequence of
    calls; `setChild` is ONE critical section (`start 1`; Ties: `tie_setChild_sections`).  Under EVERY
    schedule of the critical sections that respects the framework contract at the instant of each
    addAssumedPod (Permit is not run for a pod in the bound set), at EVERY instant no member is in two
    of pending / waiting / bound.  (Schedules may stop anywhere: the statement is about every prefix.) -/
theorem setChild_atomic_safe (g : PodSets) (progs : List (List Call)) (sched : List Nat)
    (hg : g.Disj) (hc : (start 1 g progs).contract sched = true) :
    ((start 1 g progs).run sched).g.Disj :=
  run_whole_disj _ sched (start_one_allWhole g progs) hg hc

/-- ... and at every BARRIER (all goroutines have returned from all their calls) the full partition
    holds: every member is in exactly one of pending / waiting / bound.  (Between `setChild` and
    `addBoundPod` of one onPodAdd a bound pod is transiently in no set: `Conf.CovX`.) -/
theorem setChild_atomic_partition_at_barrier (g : PodSets) (progs : List (List Call)) (sched : List Nat)
    (hg : g.Part) (hc : (start 1 g progs).contract sched = true)
    (hq : ((start 1 g progs).run sched).quiescent) :
    ((start 1 g progs).run sched).g.Part := by
  have hd := setChild_atomic_safe g progs sched (part_disj hg) hc
  have hcov : (start 1 g progs).CovX := by
    intro q hq'
    rcases hg.2.2.2 q hq' with h | h | h
    · exact Or.inl h
    · exact Or.inr (Or.inl h)
    · exact Or.inr (Or.inr (Or.inl h))
  have := covX_quiescent _ hq
    (run_covX _ sched (start_one_allWhole g progs) (start_one_allWF g progs) hcov hc (part_disj hg))
  exact ⟨hd.1, hd.2.1, hd.2.2, this⟩

/-- The same statement is FALSE when setChild is two critical sections (decide not-waiting /
    not-bound; unlock; re-lock; insert into PendingChildren): informer `decide`, scheduler
    `addAssumedPod`, informer `insert` leaves pod 0 pending AND waiting. -/
theorem setChild_split_counterexample :
    ¬ ∀ (g : PodSets) (progs : List (List Call)) (sched : List Nat), g.Disj →
        (start 2 g progs).contract sched = true → ((start 2 g progs).run sched).g.Disj := by
  intro h
  have hd : splitG0.Disj := by
    simp [PodSets.Disj, PodSets.D1, PodSets.D2, PodSets.D3, splitG0]
  have hc : (start 2 splitG0 splitProgs).contract splitSched = true := by decide
  have hr : ((start 2 splitG0 splitProgs).run splitSched).g =
      { children := [0], pending := [0], waiting := [0], bound := [] } := by decide
  have := h splitG0 splitProgs splitSched hd hc
  rw [hr] at this
  exact this.1 0 (by simp) (by simp)

/-- the same race against PostBind (a re-created pod whose previous incarnation is being bound):
    pending AND bound -/
example : ((start 2 splitG0 splitProgsBind).run splitSched).g =
    { children := [0], pending := [0], waiting := [], bound := [0] } := by decide

/-- the one-section shape under the very same schedule: waiting only -/
example : ((start 1 splitG0 splitProgs).run splitSched).g =
    { children := [0], pending := [], waiting := [0], bound := [] } := by decide

/-- Why no sequential test can see the split: run back to back, the two sections ARE setChild. -/
theorem setChild_split_sequentially_same (g : PodSets) (p : Pod) (n l : Bool) :
    ((Sec.setChildInsert p).exec ((Sec.setChildDecide p n).exec g l).1 ((Sec.setChildDecide p n).exec g l).2).1
      = g.setChild p n := by
  simp only [Sec.exec, PodSets.setChild]
  by_cases h : n = false ∧ p ∉ g.waiting ∧ p ∉ g.bound
  · simp [h]
  · simp [h]

/-! ## F. the groups annotation -/

/-- every shape of the groups annotation that does not name anybody — no annotation, the empty
    string, `null`, `[]`, an empty list, not JSON — makes the gang a gang group of its own -/
theorem groups_empty_shapes_mean_self (d : Nat) (g : Gang) (c : Cfg) (b : Bool) (h : c.gshape ≠ 4 ∨ c.group = []) :
    (applyCfg d g c b).group = [g.id] := by
  have e : groupOrSelf g.id (parseGroups c.gshape c.group) = [g.id] := by
    unfold parseGroups
    split <;> simp_all [groupOrSelf]
  simp only [applyCfg, e]
  simp [sortNat, insSorted]

/-- a non-empty JSON list is taken literally (sorted: util.GetGangGroupId sorts the gang's slice in place) -/
theorem groups_list_taken_literally (d : Nat) (g : Gang) (c : Cfg) (b : Bool) (h : c.gshape = 4) (hne : c.group ≠ []) :
    (applyCfg d g c b).group = sortNat c.group := by
  have e : groupOrSelf g.id (parseGroups c.gshape c.group) = c.group := by
    rw [h]
    cases hc : c.group with
    | nil => exact absurd hc hne
    | cons x xs => simp [parseGroups, groupOrSelf]
  simp only [applyCfg, e]

/-- After ANY history no cached gang has an empty gang group: the loops "for every gang of the group"
    (Permit, rejectGangGroup, AllowGangGroup) are never vacuous. -/
theorem group_never_empty (ops : List Op) : ∀ g ∈ (run init ops).gangs, g.group ≠ [] :=
  groupNE_run init ops (fun g hg => by simp [init] at hg)

/-- a gang that is a group of its own is released only when IT holds its minimum (or was satisfied before) -/
theorem permit_release_own_min (s : State) (p : Pod) (id : GangId) (g : Gang)
    (hg : findGang s.gangs id = some g) (hself : g.group = [id]) (hv : (permit s p id).2.verdict = 0) :
    (g.addAssumed p).init = true ∧
      (infoSat (permit s p id).1 g.info = false → g.min ≤ (held (g.addAssumed p) : Int)) := by
  obtain ⟨gh, e, hi, hm⟩ := permit_release_min_held s p id g hg hv id (by rw [hself]; simp)
  rw [permit_gang_after s p id g hg] at e
  cases e
  exact ⟨hi, hm⟩

/-! ## G. from the informer to the GangCache -/

theorem direct_wiring_forwards_understood (shape : Nat) (op : Op) (h : delUnderstood shape = true) :
    deliverDel 0 shape op = op := by
  simp [deliverDel, handlerForwardsDel, h]

theorem ignored_shape_is_nop (wiring shape : Nat) (op : Op) (h : delUnderstood shape = false) :
    deliverDel wiring shape op = .nop := by
  simp [deliverDel, h]

theorem filtered_wiring_drops_tombstone (op : Op) (s : State) :
    deliverDel 1 1 op = .nop ∧ step s (deliverDel 1 1 op) = (s, {}) := by
  have h : deliverDel 1 1 op = .nop := by simp [deliverDel, handlerForwardsDel]
  exact ⟨h, by rw [h]; rfl⟩

/-- The registered handler forwards, onPodDelete understands: after the delete event of pod `p` — delivered as the
    object or as a re-list tombstone — `p` is in none of the sets of its gang. -/
theorem delivered_delete_removes (s : State) (p : Pod) (id : GangId) (shape : Nat) (hs : delUnderstood shape = true)
    (g : Gang) (hg : findGang (step s (deliverDel 0 shape (.podDel p id))).1.gangs id = some g) :
    p ∉ g.ps.children ∧ p ∉ g.ps.pending ∧ p ∉ g.ps.waiting ∧ p ∉ g.ps.bound := by
  rw [direct_wiring_forwards_understood shape _ hs] at hg
  exact podDel_removes s p id g hg

/-- the hypothesis of `delivered_delete_removes` is satisfiable: the gang is still cached after the tombstone of a
    waiting member has been delivered -/
example : ∃ g, findGang (run init (ghostWaiting 0 0)).gangs 0 = some g ∧ g.ps.waiting = [1] := by decide

/-- the sizes isGangValidForPermit reads after a delivered delete count live members only: the deleted pod is in
    neither list (the lists are duplicate-free in every reachable state, `nodupSets_all_histories`) -/
theorem delivered_delete_not_counted (s : State) (p : Pod) (id : GangId) (shape : Nat) (hs : delUnderstood shape = true)
    (g : Gang) (hg : findGang (step s (deliverDel 0 shape (.podDel p id))).1.gangs id = some g) :
    (g.ps.waiting.filter (fun q => q != p)).length = g.ps.waiting.length ∧
    (g.ps.bound.filter (fun q => q != p)).length = g.ps.bound.length := by
  obtain ⟨_, _, hw, hb⟩ := delivered_delete_removes s p id shape hs g hg
  constructor
  · rw [List.filter_eq_self.mpr]
    intro q hq
    have : q ≠ p := fun e => hw (e ▸ hq)
    simpa using this
  · rw [List.filter_eq_self.mpr]
    intro q hq
    have : q ≠ p := fun e => hb (e ▸ hq)
    simpa using this

/-- A handler that filters by object type loses re-list tombstones, and then the gang is released below its minimum:
    only-waiting, min 3: Permit(pod 3) = Success with pods 1 and 3 alive; waiting-and-running, min 3: Permit(pod 4) =
    Success with pod 4 alone.  With the code's wiring (0) both Permits answer Wait. -/
theorem tombstone_lost_counterexample :
    (step (run init (ghostWaiting 1 0)) (.permit 3 0)).2.verdict = 0 ∧
    (step (run init (ghostWaiting 0 0)) (.permit 3 0)).2.verdict = 1 ∧
    (step (run init (ghostBound 1)) (.permit 4 0)).2.verdict = 0 ∧
    (step (run init (ghostBound 0)) (.permit 4 0)).2.verdict = 1 := by
  decide

/-- After the delete event of pod `q` of gang `id` was handed over by the registered handler — the object or a re-list
    tombstone — `q` is in none of children / pending / waiting / bound of ANY cached gang, and it stays out through every
    later history of informer events and scheduling calls that are for other pods (any order, any gangs).
    `hother`: the pod was in no other gang's sets (a pod's gang does not change during its life). -/
theorem deleted_pod_stays_out (s : State) (q : Pod) (id : GangId) (shape : Nat) (hs : delUnderstood shape = true)
    (hother : ∀ g ∈ s.gangs, g.id ≠ id → g.ps.Absent q) (ops : List Op) (hops : ∀ op ∈ ops, op.pod? ≠ some q) :
    ∀ g ∈ (run (step s (deliverDel 0 shape (.podDel q id))).1 ops).gangs, g.ps.Absent q := by
  rw [direct_wiring_forwards_understood shape _ hs]
  exact run_keeps_absent q ops _ hops (podDel_makes_absent q s id hother)

/-- the hypotheses are satisfiable on a history in which the pod held resources: pod 2 waits at Permit, is deleted
    (tombstone), then pod 3 goes through Permit -/
example : (∀ g ∈ (run init ((ghostWaiting 0 0).take 6)).gangs, g.id ≠ 0 → g.ps.Absent 2) ∧
    (∃ g ∈ (run init ((ghostWaiting 0 0).take 6)).gangs, 2 ∈ g.ps.waiting) ∧
    (∀ op ∈ [Op.permit 3 0], op.pod? ≠ some 2) := by decide

/-! ## H. get-or-create of a Gang under racing informer goroutines -/

theorem getOrCreate_atomic_unique (progs : List (GangId × CAct)) (sched : List Nat) :
    ∀ t ∈ ((cStart progs).run 1 sched).ts, 2 ≤ t.pc →
      cLookup ((cStart progs).run 1 sched).cache t.gid = some t.obj :=
  (cinv_run _ sched (cinv_start progs)).holds

theorem newGang_race_atomic_safe (progs : List (GangId × CAct)) (sched : List Nat)
    (hq : ((cStart progs).run 1 sched).quiescent) :
    ∀ pr ∈ progs, ∃ x, cachedGang ((cStart progs).run 1 sched) pr.1 = some x ∧ pr.2.holds x := by
  intro pr hpr
  have hinv := cinv_run _ sched (cinv_start progs)
  have hp : pr ∈ ((cStart progs).run 1 sched).ts.map (fun t => (t.gid, t.act)) := by
    rw [run_progs, start_progs]; exact hpr
  obtain ⟨t, ht, rfl⟩ := List.mem_map.mp hp
  have h3 := hq t ht
  obtain ⟨x, hx, hh⟩ := hinv.done t ht (by omega)
  refine ⟨x, ?_, hh⟩
  unfold cachedGang
  rw [hinv.holds t ht (by omega)]
  exact hx

/-- the hypothesis of `newGang_race_atomic_safe` is satisfiable: a schedule in which the two goroutines interleave at
    every step ends with both done; the cached gang then has the pod and is initialised -/
example : ((cStart raceProgs).run 1 raceSchedPodLost).quiescent ∧
    cachedGang ((cStart raceProgs).run 1 raceSchedPodLost) 0 =
      some { oid := 0, init := true, children := [7], pending := [7] } := by
  unfold CConf.quiescent
  decide

theorem getOrCreate_split_counterexample :
    ((cStart raceProgs).run 2 raceSchedPodLost).quiescent ∧
    cachedGang ((cStart raceProgs).run 2 raceSchedPodLost) 0 = some { oid := 1, init := true, children := [], pending := [] } ∧
    ((cStart raceProgs).run 2 raceSchedInitLost).quiescent ∧
    cachedGang ((cStart raceProgs).run 2 raceSchedInitLost) 0 = some { oid := 1, init := false, children := [7], pending := [7] } ∧
    cachedGang ((cStart raceProgs).run 2 raceSchedSeq) 0 = cachedGang ((cStart raceProgs).run 1 raceSchedSeq) 0 ∧
    cachedGang ((cStart raceProgs).run 1 raceSchedPodLost) 0 = some { oid := 0, init := true, children := [7], pending := [7] } := by
  unfold CConf.quiescent
  decide

/-! ## I. which match policy and which mode are in force -/

/-- GetGangMatchPolicy: the match-policy annotation counts unless it is missing or empty; only then the alias annotation
    is read — and nothing else: with both missing the answer is "" (token 3 / 5), never a policy of its own. -/
theorem match_policy_annotation_before_alias (a b : Nat) :
    (polEmpty a = false → getMatchPolicy a b = a) ∧ (polEmpty a = true → getMatchPolicy a b = b) := by
  unfold getMatchPolicy
  constructor <;> intro h <;> simp [h]

/-- A gang whose objects declare NO match policy (annotation and alias missing or empty) gets the policy the scheduler
    was CONFIGURED with (CoschedulingArgs.DefaultMatchPolicy), whatever that is — not the built-in once-satisfied. -/
theorem absent_policy_takes_configured_default (d : Nat) (g : Gang) (c : Cfg) (b : Bool)
    (h : polEmpty (getMatchPolicy c.policy c.palias) = true) : (applyCfg d g c b).policy = d := by
  have h2 : 2 < getMatchPolicy c.policy c.palias := by
    rcases (polEmpty_iff _).mp h with e | e <;> omega
  exact resolvePolicy_not_legal d _ h2

/-- ... and so does a gang that declares something that is none of the three policies -/
theorem illegal_policy_takes_configured_default (d : Nat) (g : Gang) (c : Cfg) (b : Bool)
    (h : 2 < getMatchPolicy c.policy c.palias) : (applyCfg d g c b).policy = d :=
  resolvePolicy_not_legal d _ h

/-- a legal declared policy wins over the configured default -/
theorem declared_legal_policy_wins (d : Nat) (g : Gang) (c : Cfg) (b : Bool)
    (h : getMatchPolicy c.policy c.palias ≤ 2) : (applyCfg d g c b).policy = getMatchPolicy c.policy c.palias :=
  resolvePolicy_legal d _ h

/-- the hypotheses are satisfiable: no annotation at all under a scheduler configured with only-waiting; an empty
    annotation with a legal alias; an illegal annotation beats a legal alias (and falls to the default) -/
example : (applyCfg 0 (newGang 0 0) { min := 2, policy := 3, mode := 2, group := [] } false).policy = 0 ∧
    (applyCfg 0 (newGang 0 0) { min := 2, policy := 5, mode := 2, group := [], palias := 1 } false).policy = 1 ∧
    (applyCfg 0 (newGang 0 0) { min := 2, policy := 4, mode := 2, group := [], palias := 1 } false).policy = 0 := by
  decide

/-- The mode annotation is compared EXACTLY: a gang is NonStrict only when the annotation is spelled `NonStrict`;
    missing, empty, garbage, `strict` / `STRICT` and even `nonstrict` / `NONSTRICT` all mean Strict. -/
theorem mode_nonstrict_only_when_spelled_exactly (d : Nat) (g : Gang) (c : Cfg) (b : Bool) :
    (applyCfg d g c b).strict = false ↔ c.mode = 0 :=
  normStrict_iff c.mode

/-- the configured default is fixed at construction: no event or call changes it -/
theorem configured_default_never_changes (d : Nat) (ops : List Op) : (run (initWith d) ops).dflt = d := by
  rw [run_dflt]
  rfl

/-- After ANY history on a scheduler configured with default `d`, the policy of every initialised gang is one of the
    three legal ones (then it was declared, or is `d`) or `d` itself. -/
theorem policy_legal_or_configured_default (d : Nat) (ops : List Op) :
    ∀ g ∈ (run (initWith d) ops).gangs, g.init = true → g.policy ≤ 2 ∨ g.policy = d := by
  have h := polQ_run (Q := fun t => t ≤ 2 ∨ t = d) (initWith d) ops
    (fun _ _ c _ => resolvePolicy_dom _ _) (fun g hg => by simp [initWith_gangs] at hg)
  exact h

/-- After ANY history in which no object declares a legal match policy, every initialised gang runs under the
    CONFIGURED default. -/
theorem undeclared_gangs_follow_configured_default (d : Nat) (ops : List Op) (hu : Undeclared ops) :
    ∀ g ∈ (run (initWith d) ops).gangs, g.init = true → g.policy = d := by
  have h := polQ_run (Q := fun t => t = d) (initWith d) ops
    (fun op hop c hc => resolvePolicy_not_legal _ _ (hu op hop c hc)) (fun g hg => by simp [initWith_gangs] at hg)
  exact h

/-- The seeded miss, as a theorem.  Scheduler configured with only-waiting (d = 0) or waiting-and-running (d = 1), no
    gang declares a policy: after ANY history, whenever Permit releases a pod, EVERY gang of its group holds its minimum
    at that instant — there is no once-satisfied exemption, however many members were bound before. -/
theorem configured_default_governs_release (d : Nat) (hd : d ≤ 1) (ops : List Op) (hu : Undeclared ops)
    (p : Pod) (id : GangId) (g : Gang) (hg : findGang (run (initWith d) ops).gangs id = some g)
    (hv : (permit (run (initWith d) ops) p id).2.verdict = 0) :
    ∀ h ∈ g.group, ∃ gh, findGang (permit (run (initWith d) ops) p id).1.gangs h = some gh ∧
      gh.policy = d ∧ gh.min ≤ (held gh : Int) := by
  have hall := (permit_success_iff _ p id g hg).mp hv
  have hinv : AllGang (PolQ (fun t => t = d)) (step (run (initWith d) ops) (.permit p id)).1.gangs :=
    polQ_step _ _ (fun c hc => by simp [Op.cfgs] at hc) (undeclared_gangs_follow_configured_default d ops hu)
  intro h hh
  obtain ⟨gh, e, hval⟩ := (allValid_iff _ _).mp hall h hh
  obtain ⟨hi, hm⟩ := (validForPermit_iff _ _).mp hval
  have hp : gh.policy = d := hinv gh (mem_of_findGang e).1 hi
  refine ⟨gh, e, hp, ?_⟩
  rcases hm with hm | ⟨h0, h1, _⟩
  · exact hm
  · exfalso
    rw [hp] at h0 h1
    omega

/-- two members of gang 0 (min 2, nothing declared) are released and bound, then a replacement member comes alone -/
def replacementHistory (c : Cfg) : List Op :=
  [.pgAdd 0 c, .podEvt 0 0 false none, .podEvt 1 0 false none, .permit 0 0, .permit 1 0, .postBind 0 0,
   .postBind 1 0, .podEvt 2 0 false none]

/-- non-vacuity of `configured_default_governs_release`, and what the configured default decides: on a scheduler
    configured with only-waiting the lone replacement member WAITS; the first round was a release of both members. -/
example : Undeclared (replacementHistory { min := 2, policy := 3, mode := 2, group := [], gshape := 0 }) ∧
    (step (run (initWith 0) ((replacementHistory { min := 2, policy := 3, mode := 2, group := [], gshape := 0 }).take 4))
      (.permit 1 0)).2 = { verdict := 0, allowed := [0] } ∧
    (permit (run (initWith 0) (replacementHistory { min := 2, policy := 3, mode := 2, group := [], gshape := 0 })) 2 0).2.verdict
      = 1 := by
  refine ⟨?_, by decide, by decide⟩
  intro op hop c hc
  simp only [replacementHistory, List.mem_cons, List.mem_nil_iff, or_false] at hop
  rcases hop with rfl | rfl | rfl | rfl | rfl | rfl | rfl | rfl <;> simp [Op.cfgs] at hc <;> subst hc <;> decide

/-- If "nothing declared" were read as "once-satisfied declared" BEFORE the configured default is consulted (a getter
    that answers the documented default instead of ""), the same history on the same only-waiting scheduler releases
    the lone replacement member although its gang holds 1 < min 2. -/
theorem absent_read_as_once_satisfied_counterexample :
    let asDeclared : Cfg := { min := 2, policy := 2, mode := 2, group := [], gshape := 0 }
    let r := permit (run (initWith 0) (replacementHistory asDeclared)) 2 0
    r.2.verdict = 0 ∧ ∃ g, findGang r.1.gangs 0 = some g ∧ g.min = 2 ∧ g.ps.waiting = [2] := by
  decide

/-- member 0 of a gang (min 2) whose mode annotation is `c.mode` parks at Permit, member 1 finds no node -/
def strictFailureHistory (mode : Nat) : List Op :=
  [.pgAdd 0 { min := 2, policy := 0, mode := mode, group := [], gshape := 0 }, .podEvt 0 0 false none,
   .podEvt 1 0 false none, .permit 0 0]

/-- `strict`, `STRICT` (token 5), `nonstrict` (6), garbage (3), "" (4) and no annotation (2): the parked member is
    rejected when another member fails, exactly as for `Strict` (1) -/
theorem mode_spellings_reject_like_strict :
    ∀ m ∈ [1, 2, 3, 4, 5, 6], (step (run init (strictFailureHistory m)) (.postFilter 1 0)).2.rejected = [0] := by
  decide

/-- Were the legality test case-insensitive while the stored value stays as written (so that `== Strict` fails
    later), a gang spelled `strict` would behave as the exact `NonStrict` does: the parked member keeps waiting. -/
theorem mode_stored_as_written_counterexample :
    (step (run init (strictFailureHistory 0)) (.postFilter 1 0)).2.rejected = [] ∧
    (step (run init (strictFailureHistory 0)) (.postFilter 1 0)).1.fw = [(0, 0)] := by
  decide

/-- The history theorems of sections C and F hold on a scheduler configured with ANY default match policy (the harness
    runs its histories from `initWith d`, d = only-waiting / waiting-and-running / once-satisfied / empty). -/
theorem base_inv_any_default (d : Nat) (ops : List Op) : AllG PodSets.Base (run (initWith d) ops).gangs :=
  base_inv_run (initWith d) ops (fun g hg => by simp [initWith_gangs] at hg)

theorem partition_reachable_any_default_partial (d : Nat) (ops : List Op) (hc : ContractOK (initWith d) ops) :
    AllG PodSets.Part (run (initWith d) ops).gangs :=
  partition_inv_partial (initWith d) ops (fun g hg => by simp [initWith_gangs] at hg) hc

theorem group_never_empty_any_default (d : Nat) (ops : List Op) : ∀ g ∈ (run (initWith d) ops).gangs, g.group ≠ [] :=
  groupNE_run (initWith d) ops (fun g hg => by simp [initWith_gangs] at hg)

/-! ## J. Reservations that are gang members -/

/-- The code's adapter never looks at the node a Reservation REQUESTS (spec.template.spec.nodeName): the pod event the
    GangCache sees is the same whether the template pins a node or not. -/
theorem requested_node_is_not_a_binding (upd : Bool) (r : Rsv) (b : Bool) (p : Pod) (g : GangId)
    (anno : Option (Bool × Cfg)) :
    deliverRsv 0 upd { r with req := b } p g anno = deliverRsv 0 upd r p g anno := by
  simp [deliverRsv, reservePodHasNode, reservePodTerminated]

/-- the delivery of an unscheduled Reservation is not a binding event -/
theorem unscheduled_reservation_not_binding (upd : Bool) (r : Rsv) (hr : r.sched = false) (p : Pod) (g : GangId)
    (anno : Option (Bool × Cfg)) : (deliverRsv 0 upd r p g anno).binds? = none :=
  deliverRsv_unscheduled_binds_none upd r hr p g anno

/-- A Reservation that is NOT scheduled (status.nodeName empty) — pinned to a node or not, whatever its phase, add or
    update, in ANY state of the cache — brings no pod into the bound set of any gang: a reserve-pod member counts as
    bound only once its Reservation is actually scheduled. -/
theorem unscheduled_reservation_binds_nothing (s : State) (upd : Bool) (r : Rsv) (hr : r.sched = false) (p : Pod)
    (g : GangId) (anno : Option (Bool × Cfg)) (q : Pod) (h : AllG (PodSets.Unbound q) s.gangs) :
    AllG (PodSets.Unbound q) (step s (deliverRsv 0 upd r p g anno)).1.gangs :=
  step_keeps_unbound q s _ (by rw [unscheduled_reservation_not_binding upd r hr]; simp) h

/-- A scheduled Reservation is, for the GangCache, a pod WITH node name: on add whatever its phase (onPodAdd does not look
    at the phase), on update unless it is terminated (succeeded / failed: onPodUpdate drops the event). -/
theorem scheduled_reservation_is_assigned_pod (r : Rsv) (hr : r.sched = true) (p : Pod) (g : GangId)
    (anno : Option (Bool × Cfg)) :
    deliverRsv 0 false r p g anno = .podEvt p g true anno ∧
    (r.phase = 0 → deliverRsv 0 true r p g anno = .podEvt p g true anno) ∧
    (r.phase ≠ 0 → deliverRsv 0 true r p g anno = .nop) := by
  refine ⟨by simp [deliverRsv, reservePodHasNode, hr], ?_, ?_⟩
  · intro h; simp [deliverRsv, reservePodHasNode, reservePodTerminated, hr, h]
  · intro h; simp [deliverRsv, reservePodTerminated, h]

/-- After ANY history (any configured default) a pod is in the bound set of a cached gang only if some event showed its
    node name or its PostBind ran.  This is what the oracle's own `bound` flag records: it is a superset of the cache's
    bound sets, so "a reserve pod in the bound set that the harness never saw scheduled" cannot happen on the model. -/
theorem bound_only_after_binding (d : Nat) (ops : List Op) (q : Pod) (hops : ∀ op ∈ ops, op.binds? ≠ some q) :
    AllG (PodSets.Unbound q) (run (initWith d) ops).gangs :=
  run_keeps_unbound q ops (initWith d) hops (fun g hg => by simp [initWith_gangs] at hg)

/-- every op of the history is either the delivery of an unscheduled Reservation as reserve pod `q`, or does not bind `q` -/
def RsvUnscheduled (q : Pod) (ops : List Op) : Prop :=
  ∀ op ∈ ops, (∃ upd r g anno, r.sched = false ∧ op = deliverRsv 0 upd r q g anno) ∨ op.binds? ≠ some q

/-- A reserve pod whose Reservation was never shown scheduled (and that never went through PostBind) is in no bound
    set, through ANY history of other events and calls — whatever node its template requests. -/
theorem reserve_pod_bound_only_when_scheduled (d : Nat) (ops : List Op) (q : Pod) (h : RsvUnscheduled q ops) :
    AllG (PodSets.Unbound q) (run (initWith d) ops).gangs := by
  apply bound_only_after_binding
  intro op hop
  rcases h op hop with ⟨upd, r, g, anno, hr, rfl⟩ | h
  · rw [unscheduled_reservation_not_binding upd r hr]; simp
  · exact h

/-- End to end, the code's rule: a pending Reservation member that pins a node is a PENDING child; the first ordinary
    member of the gang (min 3) waits at Permit under each of the three match policies. -/
theorem pinned_pending_reservation_waits :
    ∀ pol ∈ [0, 1, 2],
      (permit (run init (pinnedReservationHistory 0 pol)) 2 0).2.verdict = 1 ∧
      ∃ g, findGang (run init (pinnedReservationHistory 0 pol)).gangs 0 = some g ∧ 1 ∈ g.ps.pending ∧ g.ps.bound = [] := by
  decide

/-- non-vacuity of `reserve_pod_bound_only_when_scheduled`: the history above (reserve pod 1: pending, pins a node),
    followed by Permit of the reserve pod itself and its roll-back -/
example : RsvUnscheduled 1 (pinnedReservationHistory 0 1 ++ [.permit 2 0, .permit 1 0, .unreserve 1 0]) := by
  intro op hop
  simp only [pinnedReservationHistory, List.cons_append, List.nil_append, List.mem_cons, List.mem_nil_iff, or_false] at hop
  rcases hop with rfl | rfl | rfl | rfl | rfl | rfl | rfl
  · right; decide
  · left; exact ⟨false, { req := true, sched := false, phase := 0 }, 0, none, rfl, rfl⟩
  all_goals right; decide

/-- Were "already bound" also decided by the reservation-node annotation (the REQUESTED node), the same history puts the
    pending Reservation into the bound set, flips the group's once-satisfied flag, and the first ordinary member is
    released at Permit with 1 member of min 3 holding resources (once-satisfied); under waiting-and-running the pending
    Reservation is counted as a bound member. -/
theorem requested_node_read_as_binding_counterexample :
    (let r := permit (run init (pinnedReservationHistory 1 2)) 2 0
     r.2.verdict = 0 ∧ ∃ g, findGang r.1.gangs 0 = some g ∧ g.min = 3 ∧ g.ps.waiting = [2] ∧ g.ps.bound = [1]) ∧
    (∃ g, findGang (run init (pinnedReservationHistory 1 1)).gangs 0 = some g ∧ g.ps.bound = [1]) := by
  decide

end KoordVerif.C04
