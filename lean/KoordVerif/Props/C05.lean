import KoordVerif.Model.C05
namespace KoordVerif.C05
end KoordVerif.C05
