import KoordVerif.Proofs.C05Ledger
import KoordVerif.Proofs.C05Index
import KoordVerif.Proofs.C05ExtPod
import KoordVerif.Proofs.C05ExtPipe
import KoordVerif.Proofs.C05ExtProf
import KoordVerif.Proofs.C05ExtProf2
import KoordVerif.Proofs.C05ExtUnr
import KoordVerif.Proofs.C05ExtSel
import KoordVerif.Proofs.C05ExtCtl
/-
C05 — reservations are never over-allocated and only serve their owners.

Model: KoordVerif/Model/C05.lean (reservation ledger, restricted fit, allocate-once gate, owner matching,
the cache with its three per-node indexes, the event-handler glue).  `Op`/`step`/`run`/`Admissible` are in
Proofs/C05Base.lean.  All theorems quantify over ALL histories / inputs of that model; amounts are unbounded
integers over an arbitrary index set of dimensions (only the loops of the code are bounded by `dims`).

Side conditions (each is checked on the generated inputs by the harness, and is what the callers guarantee):
* `LedgerPre`: pods handed to the cache have non-negative requests (API validation); a pod whose request
  map is empty requests 0 everywhere.
* `IndexPre`: a reservation's node name is the same in every event once it is in the cache, and the raw
  `updateReservation` is only called with a scheduled reservation (the handlers gate on IsReservationActive).
-/
namespace KoordVerif.C05

/-! ## 1. ledger -/

/-- Allocated = Σ over the currently assigned pods of their requests in the reserved dimensions, after ANY
    history of reservation add/update/delete and pod assume/forget/add/update/delete (raw or through the
    handlers), including updates that change the reserved dimensions while pods are assigned. -/
theorem ledger_exact (ops : List Op) (h : Admissible LedgerPre Cache.empty ops) :
    ∀ r ∈ (run Cache.empty ops).infos, ∀ d, r.allocated d = sumReq r.names r.assigned d := by
  have := run_preserves LedgerPre LedgerInv ledger_step ops Cache.empty
    (by intro r hr; simp [Cache.empty] at hr) h
  intro r hr d
  exact (this r hr).1 d

/-- the same from any state whose ledgers are exact (the invariant is inductive) -/
theorem ledger_exact_step (c : Cache) (op : Op) (h : LedgerInv c) (hp : LedgerPre c op) : LedgerInv (step c op) :=
  ledger_step c op h hp

/-- nothing is driven negative and no removal is absorbed by the clamp of SubtractWithNonNegativeResult -/
theorem allocated_nonneg (ops : List Op) (h : Admissible LedgerPre Cache.empty ops) :
    ∀ r ∈ (run Cache.empty ops).infos, ∀ d, 0 ≤ r.allocated d := by
  have := run_preserves LedgerPre LedgerInv ledger_step ops Cache.empty
    (by intro r hr; simp [Cache.empty] at hr) h
  intro r hr d
  rw [(this r hr).1 d]
  exact sumReq_nonneg _ _ _ (fun p hp => ((this r hr).2.2 p hp).1)

/-- the pre-repair behaviour of UpdateReservation (mask the old sum only) -/
def updInfoRemask (r : RInfo) (o : RObj) : RInfo :=
  { updInfo r o with allocated := vmask (namesOf o) r.allocated }

def cexPod : Pod := { uid := 1, empty := false, req := fun _ => 5 }
def cexInfo : RInfo :=
  { uid := 1, node := 1, phase := 1, once := false, term := false, policy := 2, parseErr := false,
    alloc := fun _ => 9, maxPods := -1, reserved := vzero, names := fun d => d == 0,
    allocated := fun d => if d == 0 then 5 else 0, assigned := [cexPod] }
def cexObj : RObj :=
  { uid := 1, node := 1, phase := 1, once := false, term := false, policy := 2, optKind := 0, opt := fun _ => false,
    tmpl := fun _ => 9, tmplHas := fun _ => true, st := fun _ => 9, stHas := fun _ => true, maxPods := -1,
    reserved := vzero, ownBad := false }

/-- why the recomputation is needed: with mask-only, growing the reserved dimensions (here: dimension 1
    becomes reserved) leaves Allocated short of what the assigned pod requests (0 ≠ 5).  This is the defect
    found on the snapshot (fingerprint C05:ledger-drift), repaired in /repo. -/
theorem remask_only_update_drifts_counterexample :
    cexInfo.allocated 0 = sumReq cexInfo.names cexInfo.assigned 0 ∧
    cexInfo.allocated 1 = sumReq cexInfo.names cexInfo.assigned 1 ∧
    ¬ ((updInfoRemask cexInfo cexObj).allocated 1
        = sumReq (updInfoRemask cexInfo cexObj).names (updInfoRemask cexInfo cexObj).assigned 1) := by
  decide

/-! ## 1b. the informer pod-handler path (pod_eventhandler.go) -/

/-- ROUTING: every add/update of a live pod that is assigned to a node and names a reservation reaches
    reservationCache.updatePod — also when the reservation is the same before and after -/
theorem handler_routes_every_assigned_update (c : Cache) (old : Option HPod) (n : HPod)
    (hterm : n.term = false) (hnode : n.node ≠ 0) (hu : n.rAlloc ≠ 0) :
    podUpdate c old n = updatePod c (oldUOf old) n.rAlloc (old.map (·.pod)) (some n.pod) :=
  podUpdate_routes c old n hterm hnode hu

/-- after the handler processed an add/update of a live, assigned pod whose well-formed annotation names the
    cached reservation `u`, `u` records the pod with its CURRENT requests: when the pod stays in the same
    reservation (in-place resize, label / status change) and when it was not recorded there before (bind,
    move from another reservation, an earlier add that was dropped because `u` was not cached yet).
    With `ledger_exact` the reported Allocated then is the sum of the current requests. -/
theorem handler_records_current_requests (c : Cache) (old : Option XPod) (n : XPod) (r0 : RInfo)
    (hph : n.phase ≠ 2 ∧ n.phase ≠ 3) (hnode : n.node ≠ 0) (hk : n.annKind = 1) (hu : n.annUid ≠ 0)
    (hr : findInfo c n.annUid = some r0)
    (hold : ∀ o, old = some o → o.pod.uid = n.pod.uid)
    (hcase : (∃ o, old = some o ∧ o.annKind = 1 ∧ o.annUid = n.annUid) ∨ hasPod r0.assigned n.pod.uid = false) :
    ∃ r, findInfo (xpodUpdate c old n) n.annUid = some r ∧ findPod r.assigned n.pod.uid = some n.pod :=
  xpodUpdate_records_current c old n r0 hph hnode hk hu hr hold hcase

/-- only a well-formed annotation with a non-empty uid names a reservation (absent / malformed JSON / uid "" = none) -/
theorem handler_annotation_shapes (k u : Nat) : rAllocOf k u ≠ 0 ↔ k = 1 ∧ u ≠ 0 := rAllocOf_ne_zero k u

/-- a Succeeded / Failed pod is handled as a delete of the NEW object -/
theorem handler_terminated_is_delete (c : Cache) (old : Option XPod) (n : XPod) (h : n.phase = 2 ∨ n.phase = 3) :
    xpodUpdate c old n = podDelete c n.toH := xpod_terminated_is_delete c old n h

def hxObj : RObj :=
  { uid := 1, node := 2, phase := 1, once := false, term := false, policy := 2, optKind := 0, opt := fun _ => false,
    tmpl := fun _ => 900, tmplHas := fun _ => true, st := fun _ => 900, stHas := fun _ => true, maxPods := -1,
    reserved := vzero, ownBad := false }
def hxPod (q : Int) : HPod := { pod := { uid := 7, empty := false, req := fun _ => q }, node := 2, term := false, rAlloc := 1 }
def hxBase : Cache := podUpdate (onAdd Cache.empty hxObj) none (hxPod 137)

/-- why the routing matters (seeded change C05-c, `podUpdateOnlyOnChange`): if updatePod is only called when the
    reservation uid changes, an in-place resize 137 -> 500 inside reservation 1 leaves Allocated = 137 -/
theorem route_only_on_change_is_stale_counterexample :
    (podUpdate hxBase (some (hxPod 137)) (hxPod 500)).infos.map (fun r => r.allocated 0) = [500] ∧
    ¬ ((podUpdateOnlyOnChange hxBase (some (hxPod 137)) (hxPod 500)).infos.map (fun r => r.allocated 0) = [500]) := by
  decide

/-! ## 2. restricted fit -/

theorem clamp_ge (x : Int) : x ≤ (if x < 0 then 0 else x) := by split <;> omega

theorem fitOK_cons (b : Bool) (t : List Bool) : fitOK (b :: t) = true ↔ b = false ∧ fitOK t = true := by
  simp [fitOK]

/-- a Restricted reservation lets a pod in only if, in every reserved dimension the pod requests,
    (allocated − preemptible)⁺ + request ≤ allocatable − inner reserved -/
theorem restricted_fit_sound (r : RInfo) (q pre : Vec) (prePods : Int)
    (hfit : fitOK (fitsReservation r q pre prePods) = true) :
    ∀ d, d < dims → r.names d = true → q d ≠ 0 →
      (if r.allocated d - pre d < 0 then 0 else r.allocated d - pre d) + q d ≤ r.alloc d - r.reserved d := by
  intro d hd hn hq
  unfold fitsReservation at hfit
  rw [fitOK_cons] at hfit
  have h2 := hfit.2
  simp only [fitOK, List.all_map, List.all_eq_true, List.mem_range] at h2
  have := h2 d hd
  simp [hn, hq] at this
  omega

/-- … and only if the reserved number of pods (when declared) is not exceeded -/
theorem restricted_fit_pods (r : RInfo) (q pre : Vec) (prePods : Int)
    (hfit : fitOK (fitsReservation r q pre prePods) = true) (hm : 0 ≤ r.maxPods) :
    ((r.assigned.length : Int) - prePods) + 1 ≤ r.maxPods := by
  unfold fitsReservation at hfit
  rw [fitOK_cons] at hfit
  have h1 := hfit.1
  simp [hm] at h1
  omega

/-- the policy switch of fitsNodeAndReservation really applies the check to Restricted reservations -/
theorem restricted_policy_checked (r : RInfo) (q pre : Vec) (prePods : Int) (hp : r.policy = 2) :
    fitsPolicy r q pre prePods = fitsReservation r q pre prePods := by
  simp [fitsPolicy, hp]

/-- with an exact ledger: the pods already assigned plus the admitted pod stay within what is reserved -/
theorem never_overallocated (r : RInfo) (q : Vec) (hex : Exact r)
    (hfit : fitOK (fitsReservation r q vzero 0) = true) :
    ∀ d, d < dims → r.names d = true → q d ≠ 0 →
      sumReq r.names r.assigned d + q d ≤ r.alloc d - r.reserved d := by
  intro d hd hn hq
  have := restricted_fit_sound r q vzero 0 hfit d hd hn hq
  rw [← hex d]
  have h0 := clamp_ge (r.allocated d - vzero d)
  have hz : vzero d = 0 := rfl
  omega

/-- … and after the admitted pod is assigned, Allocated itself is within the reservation in those dimensions -/
theorem admit_keeps_within (r : RInfo) (p : Pod) (hnew : hasPod r.assigned p.uid = false)
    (hfit : fitOK (fitsReservation r p.req vzero 0) = true) :
    ∀ d, d < dims → r.names d = true → p.req d ≠ 0 →
      (addAssigned r p).allocated d ≤ r.alloc d - r.reserved d := by
  intro d hd hn hq
  have := restricted_fit_sound r p.req vzero 0 hfit d hd hn hq
  simp only [addAssigned, hnew, Bool.false_eq_true, if_false, vadd, vmask, hn, if_true]
  have h0 := clamp_ge (r.allocated d - vzero d)
  have hz : vzero d = 0 := rfl
  omega

/-! ## 3. allocate-once -/

/-- an allocate-once reservation with an assigned pod is not matchable … -/
theorem allocate_once_not_matchable (r : RInfo) (h1 : r.once = true) (h2 : r.assigned ≠ []) :
    isMatchable r = false := by
  have : r.assigned.length > 0 := List.length_pos_iff.mpr h2
  simp [isMatchable, h1, this]

/-- … and FilterNominateReservation rejects it -/
theorem allocate_once_gate (r : RInfo) (h1 : r.once = true) (h2 : r.assigned ≠ []) : nominateGate r = true := by
  have : r.assigned.length > 0 := List.length_pos_iff.mpr h2
  simp [nominateGate, h1, this]

/-- the refresh block run by every reservation event drops a non-matchable reservation (in particular an
    allocate-once one that has a pod) from both look-up indexes -/
theorem refresh_drops_unmatchable (c : Cache) (r : RInfo) (n u : Nat) (h : isMatchable r = false) :
    (n, u) ∉ (refreshIdx c r n u).matchable ∧ (n, u) ∉ (refreshIdx c r n u).allocIdx := by
  simp [refreshIdx, h, mem_idxDel]

/-! ## 4. owners -/

/-- matched and not ignored ⇒ the reservation's owner specification parsed and one of its entries is
    satisfied by the pod in all three parts (object reference, controller reference, label selector) -/
theorem match_implies_owner (x : MatchCtx) (perr : Bool) (ms : List OwnerEval)
    (h : checkMatched x (matchOwners perr ms) = true) :
    x.ignored = true ∨ (perr = false ∧ ∃ m ∈ ms, m.obj = true ∧ m.ctrl = true ∧ m.lbl = true) := by
  by_cases hi : x.ignored = true
  · exact Or.inl hi
  · right
    have ho : matchOwners perr ms = true := by
      cases hmo : matchOwners perr ms with
      | true => rfl
      | false => simp [checkMatched, hi, hmo] at h
    simp [matchOwners, matchOwnersList] at ho
    obtain ⟨hp, m, hm, h1⟩ := ho
    exact ⟨hp, m, hm, h1.1.1, h1.1.2, h1.2⟩

/-- `Owners = nil` matches nothing; an owner specification that does not parse matches nothing -/
theorem no_owner_matches_nothing (perr : Bool) (ms : List OwnerEval) (h : ms = [] ∨ perr = true) :
    matchOwners perr ms = false := by
  rcases h with h | h <;> simp [matchOwners, matchOwnersList, h]

/-! ### 4b. the owner label selector is read in full (round 6; model of util.GetFastLabelSelector +
    ParseReservationOwnerMatchers + labels.Selector.Matches in Model/C05Sel.lean) -/

/-- whatever matcher the owner parse builds from a label selector accepts a pod iff the pod carries ALL of matchLabels
    AND satisfies ALL of matchExpressions (the fast path is only taken when there is no expression to lose) -/
theorem owner_selector_read_in_full (s : LabelSel) (p : ParsedSel) (pod : Labels) (h : getFastLabelSelector s = some p) :
    p.matchesPod pod = true ↔ selectorSatisfied s pod := fast_selector_exact s p pod h

/-- an invalid expression (unknown operator, In / NotIn without values, Exists / DoesNotExist with values) is a parse
    error, with or without matchLabels next to it; one such entry makes the whole owner spec unparsable -/
theorem owner_selector_invalid_is_parse_error (ss : List (Option LabelSel)) (s : LabelSel) (e : SelExpr)
    (hs : some s ∈ ss) (he : e ∈ s.exprs) (hv : exprValid e = false) :
    getFastLabelSelector s = none ∧ parseOwnerSelectors ss = none :=
  ⟨fast_selector_rejects_invalid s e he hv, parse_owner_selectors_rejects_invalid ss s e hs he hv⟩

/-- matched and not ignored, with the label selectors evaluated by the MODEL (not handed in as booleans): every
    selector of the spec is valid and one owner entry is satisfied - object reference, controller reference, and its
    label selector in full -/
theorem matched_owner_selector_satisfied (x : MatchCtx) (es : List OwnerEntry) (pod : Labels)
    (h : checkMatched x (matchOwnersSpec es pod) = true) (hi : x.ignored = false) :
    (∀ e ∈ es, ∀ s, e.sel = some s → ∀ q ∈ s.exprs, exprValid q = true) ∧
    ∃ e ∈ es, e.obj = true ∧ e.ctrl = true ∧ ∀ s, e.sel = some s → selectorSatisfied s pod := by
  apply match_owners_spec_sound
  cases hmo : matchOwnersSpec es pod with
  | true => rfl
  | false => simp [checkMatched, hi, hmo] at h

/-- owner `app=1, tier NotIn [4]`; pods app=1,tier=4 (canary) and app=1,tier=5 (stable) -/
def selEx : LabelSel := { labels := [(1, 1)], exprs := [{ key := 2, op := 1, vals := [4] }] }
def selExBad : LabelSel := { labels := [(1, 1)], exprs := [{ key := 2, op := 9, vals := [4] }] }
def podCanary : Labels := [(1, 1), (2, 4)]
def podStable : Labels := [(1, 1), (2, 5)]

/-- seeded round-5 change (fast path whenever matchLabels is non-empty): the canary pod is accepted by an owner that
    excludes canaries, and the invalid operator next to matchLabels parses; the code as written rejects both -/
theorem labels_only_guard_drops_expressions_counterexample :
    (getFastLabelSelectorLabelsOnlyGuard selEx).map (fun p => p.matchesPod podCanary) = some true ∧
    ¬ selectorSatisfied selEx podCanary ∧
    (getFastLabelSelectorLabelsOnlyGuard selExBad).isSome = true ∧
    matchOwnersSpec [{ obj := true, ctrl := true, sel := some selEx }] podCanary = false ∧
    matchOwnersSpec [{ obj := true, ctrl := true, sel := some selEx }] podStable = true ∧
    matchOwnersSpec [{ obj := true, ctrl := true, sel := none }, { obj := true, ctrl := true, sel := some selExBad }] podStable = false := by
  refine ⟨by decide, ?_, by decide, by decide, by decide, by decide⟩
  unfold selectorSatisfied
  decide

example : selectorSatisfied selEx podStable := by unfold selectorSatisfied; decide

/-! ### 4c. the owner CONTROLLER reference (round 8; model of MatchReservationControllerReference in Model/C05Ctl.lean:
    the `ctrl` boolean of an owner entry, read from the spec's reference and the pod's ownerReferences) -/

/-- the 3x3 table of (spec flag, pod flag), 0 nil / 1 true / 2 false: no flag in the spec accepts every pod flag, an
    explicit flag accepts only the same explicit flag - never an unset one -/
theorem owner_controller_flag_table :
    (ctlFlagOk 0 0, ctlFlagOk 0 1, ctlFlagOk 0 2) = (true, true, true) ∧
    (ctlFlagOk 1 0, ctlFlagOk 1 1, ctlFlagOk 1 2) = (false, true, false) ∧
    (ctlFlagOk 2 0, ctlFlagOk 2 1, ctlFlagOk 2 2) = (false, false, true) := ctl_flag_table

/-- whatever the pod's ownerReferences: an accepted controller reference names the pod's namespace (if it names one)
    and ONE ownerReference of the pod that agrees with every non-empty field of the spec (uid, name, kind, apiVersion)
    and - explicit flag in the spec - carries the controller flag, present and equal -/
theorem owner_controller_ref_satisfied (specNs podNs : Int) (s : CtlRef) (refs : List CtlRef)
    (h : matchControllerRef specNs podNs s refs = true) :
    (specNs = 0 ∨ specNs = podNs) ∧
    ∃ p ∈ refs, (s.flag ≠ 0 → p.flag ≠ 0 ∧ p.flag = s.flag) ∧ (s.uid = 0 ∨ s.uid = p.uid) ∧ (s.name = 0 ∨ s.name = p.name) ∧
      (s.kind = 0 ∨ s.kind = p.kind) ∧ (s.api = 0 ∨ s.api = p.api) := controller_ref_satisfied specNs podNs s refs h

/-- a spec that states the flag is never satisfied by a pod whose ownerReferences all leave it unset -/
theorem owner_controller_flag_unset_never_matches (specNs podNs : Int) (s : CtlRef) (refs : List CtlRef)
    (hs : s.flag ≠ 0) (hp : ∀ p ∈ refs, p.flag = 0) : matchControllerRef specNs podNs s refs = false :=
  controller_flag_unset_never_matches specNs podNs s refs hs hp

/-- seeded round-6 change (guard "pod's flag is UNSET or equal"): it breaks the rule on (spec true, pod nil); the code
    as written rejects the pod whose only ownerReference equals the spec in uid / name / kind / apiVersion but has no flag -/
theorem owner_controller_flag_unset_or_equal_counterexample :
    ¬ (∀ s p : Int, ctlFlagOkUnsetOrEqual s p = true → s ≠ 0 → p ≠ 0 ∧ p = s) ∧
    ctlFlagOkUnsetOrEqual 1 0 = true ∧
    matchControllerRef 0 1 ⟨1, 1, 1, 1, 1⟩ [⟨0, 1, 1, 1, 1⟩] = false := controller_flag_unset_or_equal_counterexample

example : matchControllerRef 1 1 ⟨2, 1, 0, 1, 0⟩ [⟨1, 1, 1, 1, 1⟩, ⟨2, 1, 2, 1, 1⟩] = true := by decide

/-- a name-pinned or affinity-selected pod is matched only if the exact-match spec holds too -/
theorem match_implies_exact (x : MatchCtx) (ok : Bool) (h : checkMatched x ok = true) (hi : x.ignored = false) :
    ok = true ∧ x.exact = true := by
  cases ok <;> cases hn : x.hasName <;> cases hm : x.nameMatch <;> cases he : x.exact <;>
    cases hu : x.unschedulable <;> cases ht : x.tolerateUnsch <;> cases hb : x.taintBad <;> cases ha : x.affinity <;>
    simp [checkMatched, hi, hn, hm, he, hu, ht, hb, ha] at h ⊢

/-! ## 5. per-node indexes -/

/-- after ANY admissible history: reservationsOnNode is exactly {live reservations, by node}; matchableOnNode
    and allocatedOnNode only reference live reservations, under their own node; every live reservation has a node -/
theorem index_inv (ops : List Op) (h : Admissible IndexPre Cache.empty ops) : IndexInv (run Cache.empty ops) :=
  run_preserves IndexPre IndexInv index_step ops Cache.empty index_empty h

theorem index_inv_step (c : Cache) (op : Op) (h : IndexInv c) (hp : IndexPre c op) : IndexInv (step c op) :=
  index_step c op h hp

/-- no index references a reservation that is no longer in the cache … -/
theorem index_no_dangling (c : Cache) (h : IndexInv c) :
    ∀ p, p ∈ c.onNode ∨ p ∈ c.matchable ∨ p ∈ c.allocIdx → (findInfo c p.2).isSome = true := by
  intro p hp
  have hl : LiveL c.infos p.1 p.2 := by
    rcases hp with hp | hp | hp
    · exact (h.on_iff _ _).mp hp
    · exact h.mt_live _ _ hp
    · exact h.al_live _ _ hp
  obtain ⟨r, hr, hu, _⟩ := hl
  simp only [findInfo, List.find?_isSome]
  exact ⟨r, hr, by simp [hu]⟩

/-- … so ForEachMatchableReservationOnNode never hands out a nil ReservationInfo (model: uid 0 = nil) … -/
theorem forEach_never_nil (c : Cache) (h : IndexInv c) (n : Nat) :
    ∀ u ∈ forEachMatchable c n, ∃ r ∈ c.infos, r.uid = u ∧ r.node = n := by
  intro u hu
  simp only [forEachMatchable, List.mem_map, List.mem_filter] at hu
  obtain ⟨p, ⟨hp, hpn⟩, hpu⟩ := hu
  have hs := index_no_dangling c h p (Or.inr (Or.inl hp))
  have hl := h.mt_live p.1 p.2 hp
  cases hf : findInfo c p.2 with
  | none => simp [hf] at hs
  | some r0 =>
    simp [hf] at hpu
    obtain ⟨r, hr, hru, hrn⟩ := hl
    refine ⟨r, hr, by omega, ?_⟩
    simp at hpn; omega

/-- … and every live reservation is listed under the node it is placed on -/
theorem index_lists_every_live (c : Cache) (h : IndexInv c) :
    ∀ r ∈ c.infos, r.node ≠ 0 ∧ (r.node, r.uid) ∈ c.onNode :=
  fun r hr => ⟨h.node_ne r hr, (h.on_iff _ _).mpr ⟨r, hr, rfl, rfl⟩⟩

/-! ## 6. the scheduling cycle: what NominateReservation returns is what Reserve assumes the pod into -/

/-- the reservation a pod is nominated for (and assumed into by Reserve) has an owner entry the pod satisfies -/
theorem pipeline_nominated_owner (c : Cache) (x : CycIn) (u : Nat) (h : Nominated c x u) :
    ∃ r ∈ matchedOf c x, r.uid = u ∧ (candOf x r.uid).ownerOK = true ∧ r.parseErr = false := by
  obtain ⟨r, hr, hu, _⟩ := nominate_sound c x u h
  exact ⟨r, hr, hu, matched_owner c x r hr⟩

/-- restricted fit at Reserve time, for EVERY nomination path (filters or the single-candidate shortcut): if the
    cycle got past Filter, a Restricted reservation the pod is nominated for satisfies the fit inequality on the
    cycle's snapshot -/
theorem pipeline_restricted_fit (c : Cache) (x : CycIn) (u : Nat) (h : Nominated c x u) (hflt : filterM c x = 0) :
    ∃ r ∈ matchedOf c x, r.uid = u ∧ (r.policy = 2 →
      ∀ d, d < dims → r.names d = true → x.pod.req d ≠ 0 →
        (if r.allocated d - vzero d < 0 then 0 else r.allocated d - vzero d) + x.pod.req d ≤ r.alloc d - r.reserved d) := by
  obtain ⟨r, hr, hu, hcase⟩ := nominate_sound c x u h
  refine ⟨r, hr, hu, fun hp => ?_⟩
  have hboth : fitsBoth c x r = true := by
    rcases hcase with ⟨ha, hm, _⟩ | hn
    · exact (filter_single_affinity c x r ha hm hflt).2
    · exact (nomFilterOK_sound c x r hn).2.2
  exact restricted_fit_sound r x.pod.req vzero 0 (fitsBoth_restricted c x r hboth hp)

/-- allocate-once at pipeline level, FULL statement (after repair fb4a3dc of the single-candidate shortcut): whatever
    NominateReservation returns — through the nominate filters or through the shortcut for a pod with reservation
    affinity — is not an allocate-once reservation that already holds a pod on the cycle's snapshot -/
theorem pipeline_allocate_once (c : Cache) (x : CycIn) (u : Nat) (h : Nominated c x u) :
    ∃ r ∈ matchedOf c x, r.uid = u ∧ nominateGate r = false := by
  obtain ⟨r, hr, hu, hcase⟩ := nominate_sound c x u h
  refine ⟨r, hr, hu, ?_⟩
  rcases hcase with ⟨_, _, hg⟩ | hn
  · exact hg
  · exact (nomFilterOK_sound c x r hn).1

/-- the statement proved before the repair (kept): it holds unless affinity AND single candidate -/
theorem pipeline_allocate_once_partial (c : Cache) (x : CycIn) (u : Nat) (h : Nominated c x u)
    (_hns : ¬ (x.hasAff = true ∧ (matchedOf c x).length = 1)) :
    ∃ r ∈ matchedOf c x, r.uid = u ∧ nominateGate r = false := pipeline_allocate_once c x u h

/-- in particular a pod WITHOUT reservation affinity is never nominated for an allocate-once reservation that
    already holds a pod (the clause the seeded change C05-d breaks) -/
theorem pipeline_no_affinity_allocate_once (c : Cache) (x : CycIn) (u : Nat) (h : Nominated c x u)
    (hna : x.hasAff = false) : ∃ r ∈ matchedOf c x, r.uid = u ∧ ¬ (r.once = true ∧ r.assigned ≠ []) := by
  have _ := hna
  obtain ⟨r, hr, hu, hg⟩ := pipeline_allocate_once c x u h
  refine ⟨r, hr, hu, fun ⟨h1, h2⟩ => ?_⟩
  rw [allocate_once_gate r h1 h2] at hg
  cases hg

/-- Reserve / Unreserve of a cycle keep every ledger exact (they are the cache's addPods / deletePods) -/
theorem pipeline_reserve_keeps_ledger (c : Cache) (x : CycIn) (u code : Nat) (h : LedgerInv c) (hp : PodPre x.pod) :
    LedgerInv (reserveM c x u).1 ∧ LedgerInv (unreserveM (reserveM c x u).1 x u code) := by
  have h1 : LedgerInv (reserveM c x u).1 := by
    unfold reserveM
    split
    · exact h
    · exact ledger_addPods c u [x.pod] h (by intro p hp'; simp at hp'; subst hp'; exact hp)
  refine ⟨h1, ?_⟩
  unfold unreserveM
  split
  · exact ledger_deletePods _ u [x.pod.uid] h1
  · exact h1

def pxObj : RObj :=
  { uid := 1, node := 1, phase := 1, once := true, term := false, policy := 0, optKind := 0, opt := fun _ => false,
    tmpl := fun _ => 4000, tmplHas := fun _ => true, st := fun _ => 4000, stHas := fun _ => true, maxPods := -1,
    reserved := vzero, ownBad := false }
/-- allocate-once reservation 1 on node 1, pod 10 already assumed, no reservation event since -/
def pxCache : Cache := (addPods (onAdd Cache.empty pxObj) 1 [{ uid := 10, empty := false, req := fun _ => 100 }]).1
/-- pod 11 with reservation affinity, owner-matched, node with plenty of room -/
def pxCyc (aff : Bool) : CycIn :=
  { pod := { uid := 11, empty := false, req := fun _ => 100 }, qHas := fun _ => true, hasAff := aff, hasName := false,
    node := 1, nAlloc := fun _ => 100000, nTotal := fun _ => 4100,
    cands := [{ uid := 1, ownerOK := true, nameMatch := false, affOK := true }], chosen := 0, unreserve := false }

/-- why the gate in the shortcut is needed: with the shape before repair fb4a3dc (`nominateG false`) a pod with a
    reservation affinity whose single candidate is an allocate-once reservation that already holds a pod (the index
    has not been refreshed by a reservation event) gets that reservation, Filter passes, and Reserve assumes the
    second pod.  Found on the then-unchanged tree: C05:pipeline-allocate-once-renominated-affinity. -/
theorem pipeline_affinity_shortcut_counterexample :
    filterM pxCache (pxCyc true) = 0 ∧
    nomUid (pxCyc true) (nominateG false pxCache (pxCyc true)) = 1 ∧
    (matchedOf pxCache (pxCyc true)).all (fun r => nominateGate r) = true ∧
    nomUid (pxCyc true) (nominateM pxCache (pxCyc true)) = 0 := by decide

/-! ## non-vacuity: the hypotheses hold on a non-trivial history -/

def exObj (names01 : Bool) : RObj :=
  { uid := 1, node := 2, phase := 1, once := false, term := false, policy := 2,
    optKind := 1, opt := fun d => d == 0 || (names01 && d == 1),
    tmpl := fun _ => 900, tmplHas := fun _ => true, st := fun _ => 900, stHas := fun _ => true, maxPods := -1,
    reserved := vzero, ownBad := false }
def exPod : Pod := { uid := 7, empty := false, req := fun d => if d == 0 then 137 else 41 }

/-- add a Restricted reservation reserving only dim 0, assume a pod, GROW the reserved dimensions, forget the pod -/
def exOps : List Op := [.eadd (exObj false), .padd 1 [exPod], .eupd (exObj true), .pdel 1 [7], .rdel 1 2]

example : Admissible LedgerPre Cache.empty exOps := by
  refine ⟨trivial, ?_, trivial, trivial, trivial, trivial⟩
  intro p hp
  simp at hp; subst hp
  exact ⟨by intro d; simp only [exPod]; split <;> omega, by intro h; simp [exPod] at h⟩

example : Admissible IndexPre Cache.empty exOps := by
  refine ⟨?_, trivial, ?_, trivial, ?_, trivial⟩ <;> decide

-- after the growing update the ledger shows the pod in BOTH reserved dimensions (137, 41), then 0 again
example : ((run Cache.empty (exOps.take 3)).infos.map (fun r => (r.allocated 0, r.allocated 1, r.allocated 2)))
    = [(137, 41, 0)] := by decide
example : ((run Cache.empty (exOps.take 4)).infos.map (fun r => (r.allocated 0, r.allocated 1, r.assigned.length)))
    = [(0, 0, 0)] := by decide
example : (run Cache.empty (exOps.take 3)).allocIdx = [(2, 1)] ∧ (run Cache.empty exOps).onNode = [] := by decide

-- the restricted fit hypothesis is satisfiable and tight: 763 fits next to 137 in a 900 reservation, 764 does not
example : (run Cache.empty (exOps.take 3)).infos.map
    (fun r => fitOK (fitsReservation r (fun d => if d == 0 then 763 else 0) vzero 0)) = [true] := by decide
example : (run Cache.empty (exOps.take 3)).infos.map
    (fun r => fitOK (fitsReservation r (fun d => if d == 0 then 764 else 0) vzero 0)) = [false] := by decide

-- the pipeline hypotheses are satisfiable: the witness state gets past PreFilter and Filter, with affinity the second
-- pod is assumed, without affinity nothing is nominated; a fresh re-usable state nominates through the filters
example : preFilterM pxCache (pxCyc true) = 0 ∧ filterM pxCache (pxCyc true) = 0 ∧
    nomUid (pxCyc true) (nominateM pxCache (pxCyc true)) = 0 ∧ nomUid (pxCyc false) (nominateM pxCache (pxCyc false)) = 0 := by decide
example : ((reserveM pxCache (pxCyc true) 1).1.infos.map (fun r => r.assigned.length)) = [2] := by decide
example : Nominated (onAdd Cache.empty pxObj) (pxCyc true) 1 := by decide  -- the shortcut on a fresh allocate-once reservation
example : Nominated (onAdd Cache.empty { pxObj with once := false, policy := 2 }) (pxCyc false) 1 ∧
    filterM (onAdd Cache.empty { pxObj with once := false, policy := 2 }) (pxCyc false) = 0 := by decide

def exCtx : MatchCtx :=
  { ignored := false, hasName := false, nameMatch := false, exact := true, unschedulable := false,
    tolerateUnsch := false, taintBad := false, affinity := true }
example : checkMatched exCtx (matchOwners false [{ obj := true, ctrl := true, lbl := true }]) = true := by decide
example : checkMatched exCtx (matchOwners false [{ obj := true, ctrl := false, lbl := true }]) = false := by decide
example : checkMatched exCtx (matchOwnersSpec [{ obj := true, ctrl := true, sel := some selEx }] podStable) = true := by decide

/-! ## 7. several scheduler profiles (one reservation cache per profile, one informer) -/

/-- for ONE profile's cache it does not matter whether the scheduler-wide handler (DeleteReservation on every
    registered cache) or the profile's own plugin handler processes an informer event first -/
theorem listener_order_irrelevant (c : Cache) (e : REv) (hok : EvOK e) : evStep true c e = evStep false c e :=
  global_plugin_commute c e hok

/-- ALL PROFILES IN SYNC: start k profiles with empty caches and deliver ANY history of reservation informer events
    (add / update / delete, object and tombstone shapes, valid or not) and broadcast pod events, each event in ANY
    listener order (`x.2 i` = profile i saw the global handler first): every profile's cache equals the cache of the
    single-cache model after the corresponding ops — no profile is ever left behind -/
theorem all_profiles_in_sync (k : Nat) (ms : List (MEv × (Nat → Bool))) (hok : ∀ x ∈ ms, EvOK x.1.ev) :
    runProfiles (List.replicate k Cache.empty) (ms.map (fun x => (x.1.ev, x.2))) =
      List.replicate k (run Cache.empty ((ms.map (·.1)).flatMap MEv.ops)) := by
  rw [runProfiles_replicate k _ Cache.empty (by
    intro y hy
    simp only [List.mem_map] at hy
    obtain ⟨x, hx, rfl⟩ := hy
    exact hok x hx)]
  rw [← runRef_is_run]
  simp [List.map_map, Function.comp_def]

/-- … hence the index invariant (no dangling entry, every live reservation listed) holds in EVERY profile … -/
theorem all_profiles_index_inv (k : Nat) (ms : List (MEv × (Nat → Bool))) (hok : ∀ x ∈ ms, EvOK x.1.ev)
    (hadm : Admissible IndexPre Cache.empty ((ms.map (·.1)).flatMap MEv.ops)) :
    ∀ c ∈ runProfiles (List.replicate k Cache.empty) (ms.map (fun x => (x.1.ev, x.2))), IndexInv c := by
  rw [all_profiles_in_sync k ms hok]
  intro c hc
  rw [(List.mem_replicate.mp hc).2]
  exact run_preserves IndexPre IndexInv index_step _ Cache.empty index_empty hadm

/-- … and so does the exact ledger -/
theorem all_profiles_ledger_exact (k : Nat) (ms : List (MEv × (Nat → Bool))) (hok : ∀ x ∈ ms, EvOK x.1.ev)
    (hadm : Admissible LedgerPre Cache.empty ((ms.map (·.1)).flatMap MEv.ops)) :
    ∀ c ∈ runProfiles (List.replicate k Cache.empty) (ms.map (fun x => (x.1.ev, x.2))),
      ∀ r ∈ c.infos, ∀ d, r.allocated d = sumReq r.names r.assigned d := by
  rw [all_profiles_in_sync k ms hok]
  intro c hc
  rw [(List.mem_replicate.mp hc).2]
  have := run_preserves LedgerPre LedgerInv ledger_step _ Cache.empty
    (by intro r hr; simp [Cache.empty] at hr) hadm
  intro r hr d
  exact (this r hr).1 d

/-- a Delete event (object or tombstone) for a placed reservation removes it from the primary map of EVERY profile,
    from ANY state of the profiles and in ANY listener order … -/
theorem deleted_absent_in_every_profile (cs : List Cache) (kind : Nat) (o : RObj) (gf : Nat → Bool)
    (hk : toRsv kind = true) (hn : o.node ≠ 0) :
    ∀ c ∈ deliverAll cs (.del kind o) gf, findInfo c o.uid = none := by
  intro c' hc'
  obtain ⟨c, _, b, hb⟩ := mem_deliverFrom _ gf cs 0 c' hc'
  rw [hb]
  exact evStep_del_absent b c kind o hk hn

/-- … and then (index invariant) none of the three per-node indexes of that profile references it any more -/
theorem deleted_not_indexed (c : Cache) (h : IndexInv c) (u : Nat) (hf : findInfo c u = none) :
    ∀ n, (n, u) ∉ c.onNode ∧ (n, u) ∉ c.matchable ∧ (n, u) ∉ c.allocIdx :=
  absent_not_indexed c h u hf

/-- the same for the two update transitions that end a cached reservation (available -> Succeeded/Failed,
    available -> unassigned) when the new object is valid: the global handler targets the old object -/
theorem ended_targets_every_profile (valid : Bool) (o n : RObj) (hv : valid = true) (ho : o.available = true)
    (hn : n.terminated = true ∨ n.unassigned = true) :
    globTarget (.upd 0 0 valid o n) = some (o.uid, o.node) := by
  have hon : o.node ≠ 0 := by simp [RObj.available] at ho; exact ho.1
  have hou : o.unassigned = false := by simp [RObj.unassigned, hon]
  have hot : o.terminated = false := by
    simp [RObj.available] at ho
    simp [RObj.terminated, ho.2]
  have hna : n.available = false := by
    rcases hn with h | h
    · simp [RObj.terminated] at h
      simp [RObj.available]
      intro _
      rcases h with h | h <;> simp [h]
    · simp [RObj.unassigned] at h
      simp [RObj.available, h.1]
  rcases hn with h | h
  · simp [globTarget, toRsv, gUpdateDeletes, hv, ho, hna, hou, hot, h, hon]
  · have hnt : n.terminated = false := by simp [RObj.unassigned] at h; simpa [RObj.terminated] using h.2
    simp [globTarget, toRsv, gUpdateDeletes, hv, ho, hna, hou, hot, h, hnt, hon]

def mpObj : RObj :=
  { uid := 1, node := 2, phase := 1, once := false, term := false, policy := 2, optKind := 0, opt := fun _ => false,
    tmpl := fun _ => 900, tmplHas := fun _ => true, st := fun _ => 900, stHas := fun _ => true, maxPods := -1,
    reserved := vzero, ownBad := false }
/-- two profiles that both cached reservation 1 on node 2 -/
def mpTwo : List Cache := deliverAll [Cache.empty, Cache.empty] (.add 0 true mpObj) (fun _ => false)

/-- why the loop must visit EVERY registered cache (seeded change C05-f: `break` after the first cache that returned
    a ReservationInfo): after the Delete event the second profile still holds the deleted reservation in its primary
    map and in reservationsOnNode / matchableOnNode (as a Failed entry), while the loop as written empties both -/
theorem early_break_leaves_profile_behind_counterexample :
    (deliverBreak mpTwo (.del 0 mpObj)).map (fun c => (c.infos.map (·.uid), c.onNode)) = [([], []), ([1], [(2, 1)])] ∧
    (deliverAll mpTwo (.del 0 mpObj) (fun i => i == 0)).map (fun c => (c.infos.map (·.uid), c.onNode, c.matchable))
      = [([], [], []), ([], [], [])] := by decide

/-- non-vacuity: a two-profile history (add placed, pod bound to it, ended by an update, deleted by tombstone) in mixed
    listener orders satisfies the hypotheses; in between both profiles list the reservation -/
def mpHist : List (MEv × (Nat → Bool)) :=
  [(.rsv (.add 0 true mpObj) (fun _ h => by cases h), fun i => i == 1),
   (.all (.hadd { pod := { uid := 7, empty := false, req := fun _ => 137 }, node := 2, term := false, rAlloc := 1 }), fun _ => false),
   (.rsv (.upd 0 0 true mpObj { mpObj with phase := 3 }) (fun _ h => by cases h), fun i => i == 0),
   (.rsv (.del 1 { mpObj with phase := 3 }) (fun _ h => by cases h), fun _ => true)]

example : ∀ x ∈ mpHist, EvOK x.1.ev := by decide
example : Admissible IndexPre Cache.empty ((mpHist.map (·.1)).flatMap MEv.ops) := by
  refine ⟨?_, trivial, ?_, ?_, ?_, ?_, trivial⟩ <;> decide
example : (runProfiles (List.replicate 2 Cache.empty) ((mpHist.take 2).map (fun x => (x.1.ev, x.2)))).map
    (fun c => (c.onNode, c.allocIdx, c.infos.map (fun r => r.allocated 0))) = List.replicate 2 ([(2, 1)], [(2, 1)], [137]) := by decide
example : (runProfiles (List.replicate 2 Cache.empty) (mpHist.map (fun x => (x.1.ev, x.2)))).map
    (fun c => (c.infos.length, c.onNode)) = [(0, []), (0, [])] := by decide

/-- COMPLETENESS in every profile: an Add or Update event that carries a LIVE reservation (node set, Available or
    Waiting; same uid and node as before) leaves it in the primary map and listed under its node in EVERY profile,
    from any state and in any listener order (the scheduler-wide handler never deletes on such an event) -/
theorem live_listed_in_every_profile (cs : List Cache) (e : REv) (o : RObj) (gf : Nat → Bool)
    (he : (∃ valid, e = .add 0 valid o) ∨ (∃ valid old, e = .upd 0 0 valid old o ∧ EvOK e)) (ha : o.active = true) :
    ∀ c ∈ deliverAll cs e gf, (o.node, o.uid) ∈ c.onNode ∧ (findInfo c o.uid).isSome = true := by
  intro c' hc'
  obtain ⟨c, _, b, hb⟩ := mem_deliverFrom _ gf cs 0 c' hc'
  have hn := active_node o ha
  rcases he with ⟨valid, rfl⟩ | ⟨valid, old, rfl, hok⟩
  · rw [hb, evStep_live_add b c valid o ha]; exact updateReservation_lists c o hn
  · rw [hb, evStep_live_upd b c valid old o hok ha]; exact updateReservation_lists c o hn

example : ∀ c ∈ deliverAll mpTwo (.upd 0 0 true mpObj { mpObj with phase := 2 }) (fun i => i == 1),
    (2, 1) ∈ c.onNode := by decide

/-- why EvOK excludes a node change of a cached reservation ("case 5: available -> available with different nodeName",
    which updateReservationInSchedulerCache turns into delete(old)-then-add(new)): the result depends on the listener
    order.  Global handler first: the plugin re-creates the reservation on node 3.  Plugin handler first (its listener
    is registered first): the ReservationInfo is deleted afterwards while reservationsOnNode / matchableOnNode keep
    (3, 1) — index entries without a reservation, and a live reservation that is not in the cache.  Reproduced on the
    unchanged code (two real plugins, handlers called in that order); reported, not generated (IndexPre). -/
theorem node_migration_listener_order_counterexample :
    ¬ EvOK (.upd 0 0 true mpObj { mpObj with node := 3 }) ∧
    (mpTwo.map (fun c => evStep true c (.upd 0 0 true mpObj { mpObj with node := 3 }))).map
      (fun c => (c.infos.map (·.uid), c.onNode, c.matchable)) = List.replicate 2 ([1], [(3, 1)], [(3, 1)]) ∧
    (mpTwo.map (fun c => evStep false c (.upd 0 0 true mpObj { mpObj with node := 3 }))).map
      (fun c => (c.infos.map (·.uid), c.onNode, c.matchable)) = List.replicate 2 ([], [(3, 1)], [(3, 1)]) := by decide

/-- why the theorems assume that one informer event is processed by ALL listeners before the next one: if a profile's
    plugin listener lags behind the scheduler-wide one by a whole event (update, then delete), the global handler's
    DeleteReservation comes first, the lagging OnUpdate re-creates the reservation and the lagging OnDelete only marks
    it Failed: a deleted reservation stays in that profile's primary map and reservationsOnNode for good (reproduced on
    the unchanged code: the directed part of the `profiles` stream delivers exactly this interleaving with one and two
    profiles; open known finding C05:profile-index-dangling:lagging-listener) -/
theorem lagging_listener_counterexample :
    let c0 := onAdd Cache.empty mpObj
    let lagged := onDelete (onUpdate (deleteReservation c0 1 2) mpObj) mpObj
    let inOrder := deleteReservation (onDelete (onUpdate c0 mpObj) mpObj) 1 2
    (inOrder.infos.map (·.uid), inOrder.onNode) = ([], []) ∧
    ¬ ((lagged.infos.map (·.uid), lagged.onNode) = ([], [])) ∧
    (lagged.infos.map (fun r => (r.uid, r.phase)), lagged.onNode, lagged.matchable) = ([(1, 4)], [(2, 1)], []) := by decide

/-! ## 8. roll-back of a cycle: Unreserve of a normal pod (any stage) and of a reserve pod -/

/-- Reserve -> [PreBind] -> Unreserve of a NORMAL pod that no reservation held before, rolled back right after
    Reserve (`hasAlloc = false`: Permit reject / timeout, a later Reserve or PreBind plugin failed) or after PreBind
    (`hasAlloc = true`: Bind failed): every ledger is exact, NO reservation holds the pod any more, and every
    reservation entry (Allocated, AssignedPods, ...) is exactly what it was before Reserve, so the amount is free
    again for the next owner.  (Unreserve after a FAILED Reserve: nothing assumed, nothing changes.) -/
theorem unreserve_forgets_assumed_pod (c : Cache) (x : CycIn) (u : Nat) (hasAlloc : Bool)
    (hl : LedgerInv c) (hp : PodPre x.pod) (hfresh : ∀ r ∈ c.infos, hasPod r.assigned x.pod.uid = false) :
    let c2 := unreservePodM (reserveM c x u).1 (if (reserveM c x u).2 == 0 then u else 0) hasAlloc x.pod.uid
    LedgerInv c2 ∧ (∀ r ∈ c2.infos, hasPod r.assigned x.pod.uid = false) ∧ ∀ v, findInfo c2 v = findInfo c v :=
  ⟨(unreserve_forgets c x u hasAlloc hl hp hfresh).1, (unreserve_forgets c x u hasAlloc hl hp hfresh).2,
   unreserve_restores c x u hasAlloc hl hp hfresh⟩

/-- PreBind sets `hasReservationAllocated` exactly when a reservation was assumed and annotates the pod with it -/
theorem prebind_marks_assumed (assumed : Nat) (hasAff : Bool) :
    (preBindM assumed hasAff).2.2 = (assumed != 0) ∧ (preBindM assumed hasAff).2.1 = assumed := by
  unfold preBindM; by_cases h : assumed = 0 <;> simp [h]

/-- why forgetPods must come before the `!hasReservationAllocated` return (seeded change, round 4): with the return
    hoisted above it (`unreserveG true`) a pod rolled back before PreBind stays assigned for good: reservation 1
    (4000 of everything, Restricted) reports 3000 allocated with no live pod and rejects a 2000 owner that the
    code as written lets in -/
def uxObj : RObj := { pxObj with once := false, policy := 2 }
def uxCyc : CycIn := { pxCyc false with pod := { uid := 11, empty := false, req := fun _ => 3000 }, unreserve := true }
def uxBase : Cache := onAdd Cache.empty uxObj

theorem unreserve_hoisted_guard_leaks_counterexample :
    Nominated uxBase uxCyc 1 ∧ (reserveM uxBase uxCyc 1).2 = 0 ∧
    ((unreserveG true (reserveM uxBase uxCyc 1).1 1 false 11).infos.map
        (fun r => (r.allocated 0, r.assigned.map (·.uid), fitOK (fitsReservation r (fun _ => 2000) vzero 0))))
      = [(3000, [11], false)] ∧
    ((unreservePodM (reserveM uxBase uxCyc 1).1 1 false 11).infos.map
        (fun r => (r.allocated 0, r.assigned.map (·.uid), fitOK (fitsReservation r (fun _ => 2000) vzero 0))))
      = [(0, [], true)] := by decide

/-- Reserve of a RESERVE pod (the reservation's own cycle; the object `o` in the lister is still unscheduled) on
    node `n`, then Unreserve while the lister still has the object or has lost it (`listed'`): the entry is gone, NO
    per-node index mentions the reservation under ANY node, and the index invariant holds - so the reservation can
    afterwards be scheduled to another node and deleted there without leaving anything behind (index_inv_step).
    `NodeStable c o.uid n` holds trivially when the reservation is not cached, which is the case for an unscheduled
    reservation (the harness generates exactly that). -/
theorem unreserve_reserve_pod_clears_index (c : Cache) (o : RObj) (listed' : Option RObj) (n : Nat)
    (h : IndexInv c) (hn : n ≠ 0) (hst : NodeStable c o.uid n) (hl : ∀ o', listed' = some o' → o'.uid = o.uid) :
    let c2 := unreserveRsvM (reserveRsvM c (some o) n).1 listed' o.uid n
    IndexInv c2 ∧ findInfo c2 o.uid = none ∧
    ∀ m, (m, o.uid) ∉ c2.onNode ∧ (m, o.uid) ∉ c2.matchable ∧ (m, o.uid) ∉ c2.allocIdx :=
  unreserve_rsv_clears c o listed' n h hn hst hl

/-- Reserve of a reserve pod assumes the reservation under the node it was reserved on -/
theorem reserve_reserve_pod_lists (c : Cache) (o : RObj) (n : Nat) (hn : n ≠ 0) :
    (reserveRsvM c (some o) n).2 = 0 ∧ (n, o.uid) ∈ (reserveRsvM c (some o) n).1.onNode ∧
    (findInfo (reserveRsvM c (some o) n).1 o.uid).isSome = true :=
  ⟨rfl, (updateReservation_lists c { o with node := n } hn).1, (updateReservation_lists c { o with node := n } hn).2⟩

/-- Reserve / Unreserve of either kind of pod ARE plain cache operations of `step` (padd / pdel, rupd / rdel), so
    ledger_exact and index_inv (ANY history) also cover histories with scheduling cycles and roll-backs at every
    stage; their side conditions there are LedgerPre (requests non-negative) and IndexPre (the cycle's node is set
    and the reservation is not cached under another node) -/
theorem cycle_steps_are_cache_ops (c : Cache) (x : CycIn) (u assumed : Nat) (hasAlloc : Bool) (pu : Nat)
    (o : RObj) (listed : Option RObj) (n : Nat) :
    (reserveM c x u).1 = run c (reserveOps x u) ∧
    unreservePodM c assumed hasAlloc pu = run c (unreserveOps assumed pu) ∧
    (reserveRsvM c (some o) n).1 = run c [.rupd { o with node := n }] ∧
    unreserveRsvM c listed pu n = run c [.rdel (match listed with | some o' => o'.uid | none => pu) n] :=
  ⟨(cycle_is_history c x u assumed hasAlloc pu).1, (cycle_is_history c x u assumed hasAlloc pu).2,
   (rsv_cycle_is_history c o listed pu n).1, (rsv_cycle_is_history c o listed pu n).2⟩

/-- Reserve failed on a lister miss; the framework still calls Unreserve (stub keyed by pod uid and node): harmless -/
theorem unreserve_reserve_pod_lister_miss (c : Cache) (u n : Nat) (h : IndexInv c) (hst : NodeStable c u n) :
    (reserveRsvM c none n) = (c, 3) ∧ IndexInv (unreserveRsvM (reserveRsvM c none n).1 none u n) :=
  ⟨rfl, unreserve_rsv_lister_miss c u n h hst⟩

/-- why the copy of the lister's object must be stamped with the node (seeded change, round 4): without the stamp
    (`unreserveRsvG false`) DeleteReservation cleans under node "" and reservationsOnNode[n1] keeps uid 5 although the
    entry is gone; after the reservation is scheduled to n2 and deleted there, (n1, 5) is still listed -/
def rxObj : RObj := { pxObj with uid := 5, node := 0, phase := 0 }

theorem unreserve_unstamped_leaves_index_counterexample :
    let bad := unreserveRsvG false (reserveRsvM Cache.empty (some rxObj) 1).1 (some rxObj) 5 1
    let later := deleteReservation (onUpdate bad { rxObj with node := 2, phase := 1 }) 5 2
    (findInfo bad 5).isNone = true ∧ bad.onNode = [(1, 5)] ∧
    (findInfo later 5).isNone = true ∧ later.onNode = [(1, 5)] ∧
    (unreserveRsvM (reserveRsvM Cache.empty (some rxObj) 1).1 (some rxObj) 5 1).onNode = [] := by decide

example : LedgerInv uxBase ∧ PodPre uxCyc.pod ∧ ∀ r ∈ uxBase.infos, hasPod r.assigned uxCyc.pod.uid = false := by
  refine ⟨?_, ⟨fun d => ?_, fun h => absurd h (by decide)⟩, by decide⟩
  · exact ledger_step Cache.empty (.eadd uxObj) (by intro r hr; cases hr) (by simp [LedgerPre])
  · show (0 : Int) ≤ 3000
    decide
example : IndexInv Cache.empty ∧ NodeStable Cache.empty rxObj.uid 1 := ⟨index_empty, by decide⟩

end KoordVerif.C05
