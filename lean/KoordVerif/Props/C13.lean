import KoordVerif.Model.C13
namespace KoordVerif.C13
end KoordVerif.C13
