import KoordVerif.Model.C13
import KoordVerif.Model.C13Handle
import KoordVerif.Model.C13Status
/-
C13 — property theorems (DESIGN.md §4 C13).  Quantities are nano-unit integers; CPU amounts
"in milli-cores" are `milliValue q` (round up, as Quantity.MilliValue()).
-/
namespace KoordVerif.C13

/-! ### 2. priority value ↦ class: total, the four ranges of the protocol, gaps map to none -/

theorem class_of_priority (p : Int) :
    getPriorityClassByPriority stdRanges p =
      if 9000 ≤ p ∧ p ≤ 9999 then PC.prod
      else if 7000 ≤ p ∧ p ≤ 7999 then PC.mid
      else if 5000 ≤ p ∧ p ≤ 5999 then PC.batch
      else if 3000 ≤ p ∧ p ≤ 3999 then PC.free
      else PC.none := by
  simp only [getPriorityClassByPriority, stdRanges, ge_iff_le]

theorem class_gaps_none (p : Int)
    (h : p < 3000 ∨ (3999 < p ∧ p < 5000) ∨ (5999 < p ∧ p < 7000) ∨ (7999 < p ∧ p < 9000) ∨ 9999 < p) :
    getPriorityClassByPriority stdRanges p = PC.none := by
  rw [class_of_priority]
  repeat' split
  all_goals first | rfl | omega

theorem class_ranges_disjoint (p : Int) :
    (getPriorityClassByPriority stdRanges p = PC.prod ↔ 9000 ≤ p ∧ p ≤ 9999) ∧
    (getPriorityClassByPriority stdRanges p = PC.mid ↔ 7000 ≤ p ∧ p ≤ 7999) ∧
    (getPriorityClassByPriority stdRanges p = PC.batch ↔ 5000 ≤ p ∧ p ≤ 5999) ∧
    (getPriorityClassByPriority stdRanges p = PC.free ↔ 3000 ≤ p ∧ p ≤ 3999) := by
  rw [class_of_priority]
  refine ⟨?_, ?_, ?_, ?_⟩ <;> repeat' split
  all_goals first | (simp; done) | (simp; omega) | (constructor <;> intro h <;> first | omega | cases h)

/-! ### 1. the admission decision table -/

/-- the permitted (QoS, priority class) pairs, in the words of the property. -/
def PermittedPair (q : QoS) (c : PC) : Prop :=
  ¬ (q = QoS.be ∧ (c = PC.prod ∨ c = PC.none)) ∧ (q = QoS.lsr → c = PC.prod)

instance (q : QoS) (c : PC) : Decidable (PermittedPair q c) := by unfold PermittedPair; infer_instance

/-- a whole number of CPUs, counted in milli-cores. -/
def WholeCPU (cpu : Int) : Prop := milliValue cpu % 1000 = 0

/-- the protocol. -/
def Admissible (k : Ranges) (gateSkipPriority : Bool) (op : Nat) (old new : Pod) : Prop :=
  PermittedPair (qosRaw new) (pcRaw k new) ∧
  ((qosRaw new = QoS.lsr ∨ qosRaw new = QoS.lse) → podRequest new Res.cpu ≠ 0 ∧ WholeCPU (podRequest new Res.cpu)) ∧
  ((podRequest new Res.batchCPU ≠ 0 ∨ podRequest new Res.batchMemory ≠ 0) → qosRaw new = QoS.be) ∧
  (op = 1 → qosRaw new = qosRaw old ∧ pcRaw k new = pcRaw k old ∧
            (gateSkipPriority = false → new.subPrio = old.subPrio))

/-- the code's integrality test `Value()*1000 == MilliValue()` is "milli-cores divisible by 1000". -/
theorem whole_cpu_check_iff (q : Int) : unitValue q * 1000 = milliValue q ↔ WholeCPU q := by
  unfold WholeCPU unitValue milliValue; omega

theorem forbidden_table_iff (q : QoS) (c : PC) :
    forbiddenTable.flatMap (fun e => if q = e.1 then (if e.2.contains c then [Rule.forbiddenPair e.1] else []) else []) = []
      ↔ PermittedPair q c := by
  cases q <;> cases c <;> decide

theorem admit_iff (k : Ranges) (gate : Bool) (op : Nat) (old new : Pod) :
    validateAllowed k gate op old new = true ↔ Admissible k gate op old new := by
  have hf := forbidden_table_iff (qosRaw new) (pcRaw k new)
  unfold validateAllowed validateErrs Admissible
  simp only [List.isEmpty_iff, List.append_eq_nil_iff]
  have hforb : forbiddenTable.flatMap (forbidSpecial k new) = [] ↔ PermittedPair (qosRaw new) (pcRaw k new) := by
    rw [← hf]; rfl
  rw [hforb]
  have hres : validateResources new = [] ↔
      ((qosRaw new = QoS.lsr ∨ qosRaw new = QoS.lse) → podRequest new Res.cpu ≠ 0 ∧ WholeCPU (podRequest new Res.cpu)) := by
    unfold validateResources
    simp only []
    by_cases hq : qosRaw new = QoS.lsr ∨ qosRaw new = QoS.lse
    · simp only [hq, if_true, true_implies]
      by_cases h0 : podRequest new Res.cpu = 0
      · simp [h0]
      · by_cases hw : unitValue (podRequest new Res.cpu) * 1000 = milliValue (podRequest new Res.cpu)
        · simp [h0, hw, (whole_cpu_check_iff _).mp hw]
        · have : ¬ WholeCPU (podRequest new Res.cpu) := fun h => hw ((whole_cpu_check_iff _).mpr h)
          simp [h0, hw, this]
    · simp [hq]
  have hreq : validateRequiredQoSClass new = [] ↔
      ((podRequest new Res.batchCPU ≠ 0 ∨ podRequest new Res.batchMemory ≠ 0) → qosRaw new = QoS.be) := by
    unfold validateRequiredQoSClass
    by_cases hz : podRequest new Res.batchCPU = 0 ∧ podRequest new Res.batchMemory = 0
    · simp [hz]
    · by_cases hb : qosRaw new = QoS.be
      · simp [hz, hb]
      · simp only [hz, hb, if_false]
        constructor
        · intro h; cases h
        · intro h; exfalso; exact h (by omega)
  rw [hres, hreq]
  by_cases hop : op = 1
  · simp only [hop, if_true, true_implies, List.append_eq_nil_iff]
    by_cases h1 : qosRaw new = qosRaw old <;> by_cases h2 : pcRaw k new = pcRaw k old <;>
      by_cases h3 : new.subPrio = old.subPrio <;> cases gate <;> simp [h1, h2, h3] <;> grind
  · simp only [hop, if_false, false_implies, and_true, true_and]
    grind

/-- the property's first sentence, as implications of an `allowed` verdict. -/
theorem admitted_obeys_protocol (k : Ranges) (gate : Bool) (op : Nat) (old new : Pod)
    (h : validateAllowed k gate op old new = true) :
    (qosRaw new = QoS.be → pcRaw k new ≠ PC.prod ∧ pcRaw k new ≠ PC.none) ∧
    (qosRaw new = QoS.lsr → pcRaw k new = PC.prod) ∧
    ((qosRaw new = QoS.lsr ∨ qosRaw new = QoS.lse) → milliValue (podRequest new Res.cpu) % 1000 = 0) ∧
    ((podRequest new Res.batchCPU ≠ 0 ∨ podRequest new Res.batchMemory ≠ 0) → qosRaw new = QoS.be) ∧
    (op = 1 → qosRaw new = qosRaw old ∧ pcRaw k new = pcRaw k old) := by
  obtain ⟨⟨hp1, hp2⟩, hw, hb, hu⟩ := (admit_iff k gate op old new).mp h
  refine ⟨?_, hp2, fun hq => (hw hq).2, hb, fun ho => ⟨(hu ho).1, (hu ho).2.1⟩⟩
  intro hbe
  constructor <;> intro hc <;> exact hp1 ⟨hbe, by simp [hc]⟩

/-! ### 3–5. tier translation of one resource list / one container -/

/-- the pod's class selects a tier with extended resource names (mid or batch). -/
def IsTier (pc : PC) : Prop := pc = PC.batch ∨ pc = PC.mid

def tierCPU : PC → Res
  | PC.mid => Res.midCPU
  | _ => Res.batchCPU

def tierMem : PC → Res
  | PC.mid => Res.midMemory
  | _ => Res.batchMemory

/-- closed form of the two `replaceAndEraseResource` calls on one list. -/
theorem replaceBoth_eq (pc : PC) (h : IsTier pc) (l : RL) (x : Res) :
    replaceBoth pc l x =
      if x = Res.cpu ∨ x = Res.memory then none
      else if x = tierCPU pc then (match l Res.cpu with | some q => some (milliValue q * 1000000000) | none => l (tierCPU pc))
      else if x = tierMem pc then (match l Res.memory with | some q => some q | none => l (tierMem pc))
      else l x := by
  rcases h with rfl | rfl <;> cases x <;> cases h1 : l Res.cpu <;> cases h2 : l Res.memory <;>
    simp [replaceBoth, replaceAndErase, resourceNameMap, RL.set, RL.erase, tierCPU, tierMem, newQuantity, nanoPerUnit, h1, h2]

/-- 3. `translate_preserves_amounts` for one list: the tier entry carries the native amount
    (CPU as the count of milli-cores, memory unchanged); without a native entry the tier entry
    is left alone; every other resource is untouched. -/
theorem translate_preserves_amounts (pc : PC) (h : IsTier pc) (l : RL) :
    (∀ q, l Res.cpu = some q → replaceBoth pc l (tierCPU pc) = some (milliValue q * 1000000000)) ∧
    (∀ q, l Res.memory = some q → replaceBoth pc l (tierMem pc) = some q) ∧
    (l Res.cpu = none → replaceBoth pc l (tierCPU pc) = l (tierCPU pc)) ∧
    (l Res.memory = none → replaceBoth pc l (tierMem pc) = l (tierMem pc)) ∧
    (∀ x, x ≠ Res.cpu → x ≠ Res.memory → x ≠ tierCPU pc → x ≠ tierMem pc → replaceBoth pc l x = l x) := by
  refine ⟨?_, ?_, ?_, ?_, ?_⟩
  · intro q hq; rw [replaceBoth_eq pc h]; rcases h with rfl | rfl <;> simp [tierCPU, hq]
  · intro q hq; rw [replaceBoth_eq pc h]; rcases h with rfl | rfl <;> simp [tierCPU, tierMem, hq]
  · intro hq; rw [replaceBoth_eq pc h]; rcases h with rfl | rfl <;> simp [tierCPU, hq]
  · intro hq; rw [replaceBoth_eq pc h]; rcases h with rfl | rfl <;> simp [tierCPU, tierMem, hq]
  · intro x h1 h2 h3 h4; rw [replaceBoth_eq pc h]; simp [h1, h2, h3, h4]

/-- 4. `native_erased` for one list. -/
theorem native_erased_list (pc : PC) (h : IsTier pc) (l : RL) :
    replaceBoth pc l Res.cpu = none ∧ replaceBoth pc l Res.memory = none := by
  constructor <;> rw [replaceBoth_eq pc h] <;> simp

/-- a list without native entries is a fixed point. -/
theorem replaceBoth_noop (pc : PC) (l : RL) (h1 : l Res.cpu = none) (h2 : l Res.memory = none) :
    replaceBoth pc l = l := by
  funext x
  cases pc <;> simp [replaceBoth, replaceAndErase, resourceNameMap, h1, h2]

/-- closed form of the loop body of mutatePodResourceSpec for one container: limits are the
    translated limits; a request is the translated request, else (tier names only) the limit. -/
theorem mutateCtr_spec (pc : PC) (h : IsTier pc) (c : Ctr) :
    (mutateCtr pc c).name = c.name ∧ (mutateCtr pc c).lim = replaceBoth pc c.lim ∧
    ∀ x, (mutateCtr pc c).req x =
      match replaceBoth pc c.req x with
      | some v => some v
      | none => if x = tierCPU pc ∨ x = tierMem pc then replaceBoth pc c.lim x else none := by
  have key : ∀ (d : Ctr) (r : Res) (e : Res), resourceNameMap pc r = some e →
      (restrict pc d r).name = d.name ∧ (restrict pc d r).lim = d.lim ∧
      ∀ x, (restrict pc d r).req x = match d.req x with
        | some v => some v
        | none => if x = e then d.lim e else none := by
    intro d r e he
    unfold restrict
    rw [he]
    cases h1 : d.req e <;> cases h2 : d.lim e <;> simp only [h1, h2] <;> refine ⟨trivial, trivial, ?_⟩ <;> intro x <;>
      by_cases hx : x = e <;> simp [RL.set, hx, h1] <;> cases d.req x <;> simp
  have hc : resourceNameMap pc Res.cpu = some (tierCPU pc) := by rcases h with rfl | rfl <;> rfl
  have hm : resourceNameMap pc Res.memory = some (tierMem pc) := by rcases h with rfl | rfl <;> rfl
  have hne : tierCPU pc ≠ tierMem pc := by rcases h with rfl | rfl <;> simp [tierCPU, tierMem]
  obtain ⟨a1, a2, a3⟩ := key (translated pc c) Res.cpu _ hc
  obtain ⟨b1, b2, b3⟩ := key (restrict pc (translated pc c) Res.cpu) Res.memory _ hm
  refine ⟨?_, ?_, ?_⟩
  · unfold mutateCtr; rw [b1, a1]; rfl
  · unfold mutateCtr; rw [b2, a2]; rfl
  · intro x
    unfold mutateCtr
    rw [b3, a3, a2]
    show (match (match replaceBoth pc c.req x with | some v => some v | none => if x = tierCPU pc then replaceBoth pc c.lim (tierCPU pc) else none) with
          | some v => some v | none => if x = tierMem pc then replaceBoth pc c.lim (tierMem pc) else none) = _
    cases replaceBoth pc c.req x with
    | some v => simp
    | none =>
      by_cases h1 : x = tierCPU pc
      · subst h1; simp [hne]; cases replaceBoth pc c.lim (tierCPU pc) <;> simp
      · by_cases h2 : x = tierMem pc
        · subst h2; simp [h1]
        · simp [h1, h2]

/-- 3. every container's request and limit keep their declared amounts. -/
theorem container_amounts_kept (pc : PC) (h : IsTier pc) (c : Ctr) :
    (∀ q, c.lim Res.cpu = some q → (mutateCtr pc c).lim (tierCPU pc) = some (milliValue q * 1000000000)) ∧
    (∀ q, c.lim Res.memory = some q → (mutateCtr pc c).lim (tierMem pc) = some q) ∧
    (∀ q, c.req Res.cpu = some q → (mutateCtr pc c).req (tierCPU pc) = some (milliValue q * 1000000000)) ∧
    (∀ q, c.req Res.memory = some q → (mutateCtr pc c).req (tierMem pc) = some q) ∧
    (∀ x, x ≠ Res.cpu → x ≠ Res.memory → x ≠ tierCPU pc → x ≠ tierMem pc →
        (mutateCtr pc c).req x = c.req x ∧ (mutateCtr pc c).lim x = c.lim x) := by
  obtain ⟨_, hl, hr⟩ := mutateCtr_spec pc h c
  obtain ⟨l1, l2, _, _, l5⟩ := translate_preserves_amounts pc h c.lim
  obtain ⟨r1, r2, _, _, r5⟩ := translate_preserves_amounts pc h c.req
  refine ⟨?_, ?_, ?_, ?_, ?_⟩
  · intro q hq; rw [hl]; exact l1 q hq
  · intro q hq; rw [hl]; exact l2 q hq
  · intro q hq; rw [hr, r1 q hq]
  · intro q hq; rw [hr, r2 q hq]
  · intro x h1 h2 h3 h4
    refine ⟨?_, by rw [hl]; exact l5 x h1 h2 h3 h4⟩
    rw [hr, r5 x h1 h2 h3 h4]
    cases c.req x <;> simp [h3, h4]

/-- 4. the native entries are gone from requests and limits. -/
theorem native_erased (pc : PC) (h : IsTier pc) (c : Ctr) :
    (mutateCtr pc c).req Res.cpu = none ∧ (mutateCtr pc c).req Res.memory = none ∧
    (mutateCtr pc c).lim Res.cpu = none ∧ (mutateCtr pc c).lim Res.memory = none := by
  obtain ⟨_, hl, hr⟩ := mutateCtr_spec pc h c
  obtain ⟨l1, l2⟩ := native_erased_list pc h c.lim
  obtain ⟨r1, r2⟩ := native_erased_list pc h c.req
  have n1 : Res.cpu ≠ tierCPU pc ∧ Res.cpu ≠ tierMem pc := by rcases h with rfl | rfl <;> simp [tierCPU, tierMem]
  have n2 : Res.memory ≠ tierCPU pc ∧ Res.memory ≠ tierMem pc := by rcases h with rfl | rfl <;> simp [tierCPU, tierMem]
  refine ⟨?_, ?_, by rw [hl]; exact l1, by rw [hl]; exact l2⟩
  · rw [hr, r1]; simp [n1.1, n1.2]
  · rw [hr, r2]; simp [n2.1, n2.2]

/-- 5. a tier limit always comes with a request; a request that was not declared (natively or
    as a tier entry) equals the limit. -/
theorem request_defaults_to_limit (pc : PC) (h : IsTier pc) (c : Ctr) (x : Res) (hx : x = tierCPU pc ∨ x = tierMem pc) :
    ((mutateCtr pc c).lim x ≠ none → (mutateCtr pc c).req x ≠ none) ∧
    (replaceBoth pc c.req x = none → (mutateCtr pc c).req x = (mutateCtr pc c).lim x) := by
  obtain ⟨_, hl, hr⟩ := mutateCtr_spec pc h c
  rw [hr, hl]
  constructor
  · intro hlim
    cases hq : replaceBoth pc c.req x with
    | some v => simp
    | none => simp [hx]; exact hlim
  · intro hq; rw [hq]; simp [hx]

/-- 7 (container level). translating a translated container changes nothing. -/
theorem mutateCtr_idempotent (pc : PC) (c : Ctr) : mutateCtr pc (mutateCtr pc c) = mutateCtr pc c := by
  by_cases h : IsTier pc
  · obtain ⟨e1, e2, e3, e4⟩ := native_erased pc h c
    have ht : translated pc (mutateCtr pc c) = mutateCtr pc c := by
      unfold translated
      rw [replaceBoth_noop pc _ e1 e2, replaceBoth_noop pc _ e3 e4]
    have hno : ∀ (d : Ctr) (r e : Res), resourceNameMap pc r = some e → (d.lim e ≠ none → d.req e ≠ none) → restrict pc d r = d := by
      intro d r e he himp
      unfold restrict; rw [he]
      cases h1 : d.req e <;> cases h2 : d.lim e <;> simp only [h1, h2]
      exact absurd h1 (himp (by simp [h2]))
    have hc : resourceNameMap pc Res.cpu = some (tierCPU pc) := by rcases h with rfl | rfl <;> rfl
    have hm : resourceNameMap pc Res.memory = some (tierMem pc) := by rcases h with rfl | rfl <;> rfl
    have d1 := (request_defaults_to_limit pc h c (tierCPU pc) (Or.inl rfl)).1
    have d2 := (request_defaults_to_limit pc h c (tierMem pc) (Or.inr rfl)).1
    show restrict pc (restrict pc (translated pc (mutateCtr pc c)) Res.cpu) Res.memory = _
    rw [ht, hno _ _ _ hc d1, hno _ _ _ hm d2]
  · have hn : ∀ r, resourceNameMap pc r = none := by
      intro r; cases pc <;> cases r <;> simp_all [IsTier, resourceNameMap]
    simp [mutateCtr, translated, restrict, replaceBoth, replaceAndErase, hn]

/-- 8. a class without extended resource names (prod, free, none) leaves a container untouched. -/
theorem mutateCtr_non_tier (pc : PC) (h : ¬ IsTier pc) (c : Ctr) : mutateCtr pc c = c := by
  have hn : ∀ r, resourceNameMap pc r = none := by
    intro r; cases pc <;> cases r <;> simp_all [IsTier, resourceNameMap]
  simp [mutateCtr, translated, restrict, replaceBoth, replaceAndErase, hn]


/-! ### pod level -/

theorem tier_not_skipped {pc : PC} (h : IsTier pc) : ¬ (pc = PC.none ∨ pc = PC.prod) := by
  rcases h with rfl | rfl <;> simp

theorem mutate_tier_form (k : Ranges) (p : Pod) (h : IsTier (pcWithDefault k p)) :
    mutatePodResourceSpec k p =
      { p with inits := p.inits.map (mutateCtr (pcWithDefault k p)), ctrs := p.ctrs.map (mutateCtr (pcWithDefault k p)),
               overhead := p.overhead.map (replaceBoth (pcWithDefault k p)) } := by
  unfold mutatePodResourceSpec
  simp only [tier_not_skipped h, if_false]

/-- 8. pods whose class is prod, none or free are left untouched by the translation. -/
theorem pod_untouched_without_tier (k : Ranges) (p : Pod) (h : ¬ IsTier (pcWithDefault k p)) :
    mutatePodResourceSpec k p = p := by
  unfold mutatePodResourceSpec
  simp only []
  split
  · rfl
  · have hc : mutateCtr (pcWithDefault k p) = id := funext (mutateCtr_non_tier _ h)
    have ho : replaceBoth (pcWithDefault k p) = id := by
      funext o; funext x
      cases hpc : pcWithDefault k p <;> simp_all [IsTier, replaceBoth, replaceAndErase, resourceNameMap]
    rw [hc, ho]
    cases p
    simp

theorem prod_none_untouched (k : Ranges) (p : Pod) (h : pcWithDefault k p = PC.prod ∨ pcWithDefault k p = PC.none) :
    mutatePodResourceSpec k p = p := by
  apply pod_untouched_without_tier
  rcases h with h | h <;> simp [IsTier, h]

/-- 4 (pod level). after translating a mid/batch pod no container, init container or the
    overhead names cpu or memory. -/
theorem pod_native_erased (k : Ranges) (p : Pod) (h : IsTier (pcWithDefault k p)) :
    (∀ c ∈ (mutatePodResourceSpec k p).ctrs ++ (mutatePodResourceSpec k p).inits,
        c.req Res.cpu = none ∧ c.req Res.memory = none ∧ c.lim Res.cpu = none ∧ c.lim Res.memory = none) ∧
    (∀ o, (mutatePodResourceSpec k p).overhead = some o → o Res.cpu = none ∧ o Res.memory = none) := by
  rw [mutate_tier_form k p h]
  constructor
  · intro c hc
    simp only [List.mem_append, List.mem_map] at hc
    rcases hc with ⟨c0, _, rfl⟩ | ⟨c0, _, rfl⟩ <;> exact native_erased _ h c0
  · intro o ho
    simp only [Option.map_eq_some_iff] at ho
    obtain ⟨o0, _, rfl⟩ := ho
    exact native_erased_list _ h o0

theorem kubeBE_after (p : Pod) (pc : PC) (h : IsTier pc) (o : Option RL) (hb : kubeBestEffort p = true) :
    kubeBestEffort { p with inits := p.inits.map (mutateCtr pc), ctrs := p.ctrs.map (mutateCtr pc), overhead := o } = true := by
  unfold kubeBestEffort at hb ⊢
  simp only []
  by_cases h1 : p.statusQoS = 1
  · simp [h1]
  · by_cases h2 : p.statusQoS = 2
    · simp [h1, h2] at hb
    · simp only [h1, h2, if_false] at hb ⊢
      cases hp : p.podRes with
      | some rl => rw [hp] at hb; exact hb
      | none =>
        simp only []
        rw [List.all_eq_true]
        intro c hc
        simp only [List.mem_append, List.mem_map] at hc
        rcases hc with ⟨c0, _, rfl⟩ | ⟨c0, _, rfl⟩ <;>
          (obtain ⟨e1, e2, e3, e4⟩ := native_erased pc h c0; simp [ctrNoQoSResources, positive, e1, e2, e3, e4])

/-- the class that drives the translation is not changed by the translation (the default
    derived from the Kubernetes QoS stays BestEffort once cpu/memory are gone). -/
theorem pcWithDefault_stable (k : Ranges) (p : Pod) :
    pcWithDefault k (mutatePodResourceSpec k p) = pcWithDefault k p := by
  by_cases h : IsTier (pcWithDefault k p)
  · rw [mutate_tier_form k p h]
    generalize hpc : pcWithDefault k p = pc at h
    unfold pcWithDefault at hpc ⊢
    simp only [] at hpc ⊢
    have e1 : ∀ (a b : List Ctr) (o : Option RL), pcRaw k { p with inits := a, ctrs := b, overhead := o } = pcRaw k p := fun _ _ _ => rfl
    have e2 : ∀ (a b : List Ctr) (o : Option RL), qosRaw { p with inits := a, ctrs := b, overhead := o } = qosRaw p := fun _ _ _ => rfl
    rw [e1, e2]
    by_cases hc : pcRaw k p = PC.none
    · by_cases hq : qosRaw p = QoS.none
      · simp only [hc, hq, ne_eq, not_true_eq_false, if_false] at hpc ⊢
        have hb : kubeBestEffort p = true := by
          cases hk : kubeBestEffort p
          · rw [hk] at hpc; simp at hpc; subst hpc; simp [IsTier] at h
          · rfl
        rw [kubeBE_after p pc h _ hb]
        rw [hb] at hpc
        exact hpc
      · simp only [hc, hq, ne_eq, not_true_eq_false, not_false_eq_true, if_true, if_false] at hpc ⊢; exact hpc
    · simp only [hc, ne_eq, not_false_eq_true, if_true] at hpc ⊢; exact hpc
  · rw [pod_untouched_without_tier k p h]

/-- 7 (translation). translating the translated pod changes nothing. -/
theorem mutatePodResourceSpec_idempotent (k : Ranges) (p : Pod) :
    mutatePodResourceSpec k (mutatePodResourceSpec k p) = mutatePodResourceSpec k p := by
  by_cases h : IsTier (pcWithDefault k p)
  · have hs := pcWithDefault_stable k p
    have h' : IsTier (pcWithDefault k (mutatePodResourceSpec k p)) := by rw [hs]; exact h
    rw [mutate_tier_form k _ h', hs, mutate_tier_form k p h]
    have hcomp : mutateCtr (pcWithDefault k p) ∘ mutateCtr (pcWithDefault k p) = mutateCtr (pcWithDefault k p) :=
      funext (mutateCtr_idempotent _)
    have hov : replaceBoth (pcWithDefault k p) ∘ replaceBoth (pcWithDefault k p) = replaceBoth (pcWithDefault k p) := by
      funext o
      obtain ⟨a, b⟩ := native_erased_list _ h o
      exact replaceBoth_noop _ _ a b
    simp only [List.map_map, Option.map_map, hcomp, hov]
  · rw [pod_untouched_without_tier k p h, pod_untouched_without_tier k p h]

/-! ### 6. the summary annotation -/

def specLookup (n : Nat) (s : List ExtCtr) : Option ExtCtr := s.find? (fun e => e.name = n)

def annotSpec : Annot → List ExtCtr
  | Annot.spec s => s
  | _ => []

theorem specLookup_insert (e : ExtCtr) (s : List ExtCtr) (n : Nat) :
    specLookup n (specInsert e s) = if e.name = n then some e else specLookup n s := by
  induction s with
  | nil => by_cases h : e.name = n <;> simp [specLookup, specInsert, h]
  | cons x xs ih =>
    unfold specInsert
    simp only [specLookup] at ih ⊢
    by_cases h1 : e.name < x.name
    · rw [if_pos h1, List.find?_cons]
      by_cases h : e.name = n <;> simp [h]
    · rw [if_neg h1]
      by_cases h2 : e.name = x.name
      · rw [if_pos h2, List.find?_cons, List.find?_cons]
        by_cases h : e.name = n
        · simp [h]
        · have : ¬ x.name = n := by omega
          simp [h, this]
      · rw [if_neg h2, List.find?_cons, List.find?_cons]
        by_cases hx : x.name = n
        · have : ¬ e.name = n := by omega
          simp [hx, this]
        · simp [hx, ih]

theorem ctrExt_name (c : Ctr) (e : ExtCtr) (h : ctrExt c = some e) : e.name = c.name := by
  unfold ctrExt at h
  simp only [] at h
  split at h
  · cases h
  · cases h; rfl

theorem specFold_notin (cs : List Ctr) (acc : List ExtCtr) (n : Nat) (hn : n ∉ cs.map (·.name)) :
    specLookup n (cs.foldl specStep acc) = specLookup n acc := by
  induction cs generalizing acc with
  | nil => rfl
  | cons c rest ih =>
    simp only [List.map_cons, List.mem_cons, not_or] at hn
    rw [List.foldl_cons, ih _ hn.2]
    unfold specStep
    cases he : ctrExt c with
    | none => rfl
    | some e =>
      simp only []
      rw [specLookup_insert, ctrExt_name c e he]
      have : ¬ c.name = n := fun h => hn.1 h.symm
      simp [this]

theorem specFold_in (cs : List Ctr) (acc : List ExtCtr) (c : Ctr) (hnd : (cs.map (·.name)).Nodup) (hc : c ∈ cs) :
    specLookup c.name (cs.foldl specStep acc) =
      match ctrExt c with
      | some e => some e
      | none => specLookup c.name acc := by
  induction cs generalizing acc with
  | nil => cases hc
  | cons d rest ih =>
    simp only [List.map_cons, List.nodup_cons] at hnd
    rw [List.foldl_cons]
    rcases List.mem_cons.mp hc with rfl | hr
    · rw [specFold_notin rest _ _ hnd.1]
      unfold specStep
      cases he : ctrExt c with
      | none => rfl
      | some e => simp only []; rw [specLookup_insert, ctrExt_name c e he]; simp
    · rw [ih _ hnd.2 hr]
      have hne : ¬ d.name = c.name := by
        intro heq; apply hnd.1; rw [heq]; exact List.mem_map.mpr ⟨c, hr, rfl⟩
      cases ctrExt c with
      | some e => rfl
      | none =>
        simp only []
        unfold specStep
        cases he : ctrExt d with
        | none => rfl
        | some e => simp only []; rw [specLookup_insert, ctrExt_name d e he]; simp [hne]

/-- 6. `annotation_matches_spec`: after the summary step the annotation is exactly the batch
    projection of the final containers — per container (unique names) its requests/limits of
    batch-cpu/batch-memory, no entry for a container without any, no entry for a foreign name.
    The spec itself is not changed by this step. -/
theorem annotation_matches_spec (p p' : Pod) (h : mutateByExt p = some p') :
    p'.ctrs = p.ctrs ∧ p'.inits = p.inits ∧ p'.overhead = p.overhead ∧
    annotSpec p'.annot = specOf p'.ctrs ∧
    ((p'.ctrs.map (·.name)).Nodup →
      (∀ c ∈ p'.ctrs, specLookup c.name (annotSpec p'.annot) = ctrExt c) ∧
      (∀ n, n ∉ p'.ctrs.map (·.name) → specLookup n (annotSpec p'.annot) = none)) := by
  have hcore : p'.ctrs = p.ctrs ∧ p'.inits = p.inits ∧ p'.overhead = p.overhead ∧ annotSpec p'.annot = specOf p'.ctrs := by
    unfold mutateByExt at h
    simp only [] at h
    cases ha : p.annot with
    | malformed => rw [ha] at h; cases h
    | absent =>
      rw [ha] at h; simp only [] at h
      split at h
      · next he => cases h; simp [annotSpec, ha, he]
      · cases h; simp [annotSpec]
    | spec old =>
      rw [ha] at h; simp only [] at h
      split at h
      · next he => cases h; simp [annotSpec, ha, he]
      · cases h; simp [annotSpec]
  obtain ⟨h1, h2, h3, h4⟩ := hcore
  refine ⟨h1, h2, h3, h4, ?_⟩
  intro hnd
  rw [h4]
  constructor
  · intro c hc
    have := specFold_in p'.ctrs [] c hnd hc
    unfold specOf
    rw [this]
    cases ctrExt c <;> rfl
  · intro n hn
    unfold specOf
    rw [specFold_notin p'.ctrs [] n hn]; rfl

/-- 7 (annotation). the summary step is idempotent. -/
theorem mutateByExt_idempotent (p p' : Pod) (h : mutateByExt p = some p') : mutateByExt p' = some p' := by
  obtain ⟨h1, _, _, h4, _⟩ := annotation_matches_spec p p' h
  unfold mutateByExt at h ⊢
  simp only [] at h ⊢
  cases ha' : p'.annot with
  | malformed =>
    cases ha : p.annot with
    | malformed => rw [ha] at h; cases h
    | absent => rw [ha] at h; simp only [] at h; split at h <;> cases h <;> simp_all
    | spec old => rw [ha] at h; simp only [] at h; split at h <;> cases h <;> simp_all
  | absent => rw [ha'] at h4; simp [annotSpec] at h4; simp [← h4]
  | spec s => rw [ha'] at h4; simp [annotSpec] at h4; simp [h4]


/-! ### 7. re-admission -/

theorem mutatePodResourceSpec_annot (k : Ranges) (q : Pod) (a : Annot) :
    mutatePodResourceSpec k { q with annot := a } = { mutatePodResourceSpec k q with annot := a } := by
  have hpc : pcWithDefault k { q with annot := a } = pcWithDefault k q := rfl
  unfold mutatePodResourceSpec
  simp only [hpc]
  split <;> rfl

/-- 7 (resource pipeline). tier translation followed by the summary annotation: running the two
    steps on their own result changes nothing.  (Lemma of `readmission_idempotent` below, which is the
    full statement over arbitrary profile lists; this was `readmission_idempotent_partial`.) -/
theorem readmission_pipeline_idempotent (k : Ranges) (p p' : Pod)
    (h : mutateByExt (mutatePodResourceSpec k p) = some p') :
    mutateByExt (mutatePodResourceSpec k p') = some p' := by
  have hid := mutateByExt_idempotent _ _ h
  have hform : ∃ a, p' = { mutatePodResourceSpec k p with annot := a } := by
    unfold mutateByExt at h
    simp only [] at h
    cases ha : (mutatePodResourceSpec k p).annot with
    | malformed => rw [ha] at h; cases h
    | absent =>
      rw [ha] at h; simp only [] at h
      split at h <;> cases h
      · exact ⟨Annot.absent, by rw [← ha]⟩
      · exact ⟨_, rfl⟩
    | spec old =>
      rw [ha] at h; simp only [] at h
      split at h <;> cases h
      · exact ⟨Annot.spec old, by rw [← ha]⟩
      · exact ⟨_, rfl⟩
  obtain ⟨a, rfl⟩ := hform
  rw [mutatePodResourceSpec_annot, mutatePodResourceSpec_idempotent]
  exact hid

/-! ### 7. re-admission over an arbitrary profile list
A profile without labelKeysMapping, labelSuffixes and resource patch ("simple"; a patch of labels / spec.priority is allowed) is an "overwrite the
field with a constant or keep it" (`Net`); a fold of such profiles collapses to ONE overwrite
(`summaryFrom`), which is idempotent and commutes with every update of the container / overhead /
annotation fields.  Label suffixes and resource patches are genuinely not idempotent
(`readmission_suffix_counterexample`, `readmission_patch_counterexample`). -/

theorem ovr_idem {α} (o x : Option α) : ovr o (ovr o x) = ovr o x := by cases o <;> rfl
theorem ovr_assoc {α} (a b x : Option α) : ovr b (ovr a x) = ovr (ovr b a) x := by cases a <;> cases b <;> rfl

/-- no labelKeysMapping, no labelSuffixes, no patch of container resources (a patch of labels /
    spec.priority is allowed). -/
def Profile.simple (pr : Profile) : Bool := pr.keyMap.isEmpty && pr.suffixes.isEmpty && pr.patchRes.isEmpty

/-- the constants a simple profile writes; `norm` = it carries a patch (the pod goes through the JSON
    round trip that drops an empty overhead map). -/
structure Net where
  lab : LKey → Option LStr
  priority : Option Int
  subPrio : Option Int
  norm : Bool

def applyNet (p : Pod) (n : Net) : Pod :=
  { p with labels := fun k => ovr (n.lab k) (p.labels k), priority := ovr n.priority p.priority,
           subPrio := ovr n.subPrio p.subPrio,
           overhead := if n.norm then normOv p.overhead else p.overhead }

def netOf (pr : Profile) : Net :=
  { lab := setLabels (setOpt (setLabels Labels.empty pr.labels) LKey.qos pr.qos) (if pr.hasPatch then pr.patchLabels else []),
    priority := ovr (if pr.hasPatch then pr.patchPriority else none) pr.priority,
    subPrio := pr.subPrio,
    norm := pr.hasPatch }

theorem normOv_idem (o : Option RL) : normOv (normOv o) = normOv o := by
  cases o with
  | none => rfl
  | some l =>
    unfold normOv
    by_cases h : rlEmpty l = true
    · simp [h]
    · simp [h]

theorem setLabels_ovr (kvs : List (LKey × LStr)) (l : Labels) (k : LKey) :
    setLabels l kvs k = ovr (setLabels Labels.empty kvs k) (l k) := by
  induction kvs generalizing l with
  | nil => rfl
  | cons kv rest ih =>
    have e1 : setLabels l (kv :: rest) = setLabels (l.set kv.1 kv.2) rest := rfl
    have e2 : setLabels Labels.empty (kv :: rest) = setLabels (Labels.empty.set kv.1 kv.2) rest := rfl
    rw [e1, e2, ih (l.set kv.1 kv.2), ih (Labels.empty.set kv.1 kv.2)]
    by_cases hk : k = kv.1
    · simp only [Labels.set, hk, if_true]
      cases setLabels Labels.empty rest kv.1 <;> rfl
    · simp only [Labels.set, hk, if_false, Labels.empty]
      cases setLabels Labels.empty rest k <;> rfl

theorem applyProfile_simple (p : Pod) (pr : Profile) (h : pr.simple = true) :
    applyProfile p pr = applyNet p (netOf pr) := by
  simp only [Profile.simple, Bool.and_eq_true, List.isEmpty_iff] at h
  obtain ⟨⟨h1, h2⟩, h3⟩ := h
  have hM : ∀ k, setOpt (addSuffixes (mapKeys (setLabels p.labels pr.labels) pr.keyMap) pr.suffixes) LKey.qos pr.qos k =
      ovr (setOpt (setLabels Labels.empty pr.labels) LKey.qos pr.qos k) (p.labels k) := by
    intro k
    rw [h1, h2]
    simp only [mapKeys, addSuffixes, List.foldl_nil]
    cases pr.qos with
    | none => exact setLabels_ovr pr.labels p.labels k
    | some q =>
      simp only [setOpt]
      by_cases hk : k = LKey.qos
      · simp only [Labels.set, hk, if_true]; rfl
      · simp only [Labels.set, hk, if_false]; exact setLabels_ovr pr.labels p.labels k
  unfold applyProfile applyNet
  cases hp : pr.hasPatch with
  | false =>
    simp only [Bool.false_eq_true, if_false, netOf, hp]
    have hl : setOpt (addSuffixes (mapKeys (setLabels p.labels pr.labels) pr.keyMap) pr.suffixes) LKey.qos pr.qos =
        fun k => ovr (setLabels (setOpt (setLabels Labels.empty pr.labels) LKey.qos pr.qos) [] k) (p.labels k) := funext hM
    rw [hl]
    rfl
  | true =>
    simp only [if_true, netOf, hp, applyPatch, h3, patchCtrs, List.foldl_nil]
    have hl : setLabels (setOpt (addSuffixes (mapKeys (setLabels p.labels pr.labels) pr.keyMap) pr.suffixes) LKey.qos pr.qos) pr.patchLabels =
        fun k => ovr (setLabels (setOpt (setLabels Labels.empty pr.labels) LKey.qos pr.qos) pr.patchLabels k) (p.labels k) := by
      funext k
      rw [setLabels_ovr pr.patchLabels, setLabels_ovr pr.patchLabels (setOpt (setLabels Labels.empty pr.labels) LKey.qos pr.qos),
        hM k, ovr_assoc]
    rw [hl]
    simp only [ovr_assoc]

/-- two overwrites applied one after the other act like one. -/
def mergeNet (a b : Net) : Net :=
  { lab := fun k => ovr (b.lab k) (a.lab k), priority := ovr b.priority a.priority, subPrio := ovr b.subPrio a.subPrio,
    norm := a.norm || b.norm }

def idNet : Net := { lab := fun _ => none, priority := none, subPrio := none, norm := false }

theorem applyNet_merge (p : Pod) (a b : Net) : applyNet (applyNet p a) b = applyNet p (mergeNet a b) := by
  obtain ⟨la, pa, sa, na⟩ := a
  obtain ⟨lb, pb, sb, nb⟩ := b
  cases na <;> cases nb <;> simp [applyNet, mergeNet, ovr_assoc, normOv_idem]

theorem applyNet_id (p : Pod) : applyNet p idNet = p := by
  cases p; rfl

/-- the one overwrite a profile list amounts to (for a given random draw). -/
def summaryFrom (rand : Int) (ps : List Profile) (s : Net) : Net :=
  ps.foldl (fun acc pr => if shouldSkipProfile rand pr then acc else mergeNet acc (netOf pr)) s

/-- every profile that is applied (not skipped by its probability) is simple. -/
def AppliedSimple (rand : Int) (ps : List Profile) : Prop :=
  ∀ pr ∈ ps, shouldSkipProfile rand pr = false → pr.simple = true

instance (rand : Int) (ps : List Profile) : Decidable (AppliedSimple rand ps) := by unfold AppliedSimple; infer_instance

theorem applyProfiles_from (rand : Int) (ps : List Profile) (hs : AppliedSimple rand ps) (s : Net) (p : Pod) :
    applyProfiles rand ps (applyNet p s) = applyNet p (summaryFrom rand ps s) := by
  induction ps generalizing s with
  | nil => rfl
  | cons pr rest ih =>
    have hrest : AppliedSimple rand rest := fun x hx => hs x (List.mem_cons_of_mem _ hx)
    unfold applyProfiles summaryFrom
    simp only [List.foldl_cons]
    by_cases hsk : shouldSkipProfile rand pr = true
    · simp only [hsk, if_true]; exact ih hrest s
    · simp only [hsk]
      have hsimple := hs pr (List.mem_cons_self ..) (by simpa using hsk)
      rw [applyProfile_simple _ _ hsimple, applyNet_merge]
      exact ih hrest (mergeNet s (netOf pr))

/-- `applyProfiles` over simple profiles is a single overwrite-or-keep of the class fields. -/
theorem applyProfiles_summary (rand : Int) (ps : List Profile) (hs : AppliedSimple rand ps) (p : Pod) :
    applyProfiles rand ps p = applyNet p (summaryFrom rand ps idNet) := by
  have := applyProfiles_from rand ps hs idNet p
  rwa [applyNet_id] at this

/-- same class fields (labels, priority, sub-priority). -/
def SameMeta (q r : Pod) : Prop :=
  q.labels = r.labels ∧ q.priority = r.priority ∧ q.subPrio = r.subPrio

/-- the overhead is not an empty map (a fixed point of the JSON round trip). -/
def OvNormal (q : Pod) : Prop := normOv q.overhead = q.overhead

theorem applyNet_fixed (p q : Pod) (s : Net) (h : SameMeta q (applyNet p s)) (ho : s.norm = true → OvNormal q) :
    applyNet q s = q := by
  obtain ⟨h1, h2, h3⟩ := h
  cases q with
  | mk l pv sp st is cs ov an pl =>
    simp only [applyNet] at h1 h2 h3 ⊢
    subst h1 h2 h3
    simp only [ovr_idem]
    cases hn : s.norm with
    | false => simp
    | true =>
      have := ho hn
      simp only [OvNormal] at this
      simp [this]

/-- applying the profiles to a pod that already carries their class fields (and, if one of them
    patches, a normal overhead) changes nothing: idempotence + commutation with any update of
    containers / overhead / annotation. -/
theorem applyProfiles_fixed (rand : Int) (ps : List Profile) (hs : AppliedSimple rand ps) (p q : Pod)
    (h : SameMeta q (applyProfiles rand ps p)) (ho : (summaryFrom rand ps idNet).norm = true → OvNormal q) :
    applyProfiles rand ps q = q := by
  rw [applyProfiles_summary rand ps hs] at h ⊢
  exact applyNet_fixed p q _ h ho

theorem applyProfiles_ovNormal (rand : Int) (ps : List Profile) (hs : AppliedSimple rand ps) (p : Pod)
    (hn : (summaryFrom rand ps idNet).norm = true) : OvNormal (applyProfiles rand ps p) := by
  rw [applyProfiles_summary rand ps hs]
  simp only [OvNormal, applyNet, hn, if_true, normOv_idem]

theorem applyProfiles_idempotent (rand : Int) (ps : List Profile) (hs : AppliedSimple rand ps) (p : Pod) :
    applyProfiles rand ps (applyProfiles rand ps p) = applyProfiles rand ps p :=
  applyProfiles_fixed rand ps hs p _ ⟨rfl, rfl, rfl⟩ (applyProfiles_ovNormal rand ps hs p)

theorem rlEmpty_iff (l : RL) : rlEmpty l = true ↔ ∀ r, l r = none := by
  unfold rlEmpty
  rw [List.all_eq_true]
  constructor
  · intro h r
    have := h r (by cases r <;> simp [Res.all])
    simpa using this
  · intro h r _
    simp [h r]

/-- translating a non-empty list leaves it non-empty. -/
theorem replaceBoth_nonempty (pc : PC) (h : IsTier pc) (l : RL) (hl : rlEmpty l = false) : rlEmpty (replaceBoth pc l) = false := by
  cases he : rlEmpty (replaceBoth pc l) with
  | false => rfl
  | true =>
    exfalso
    have hall := (rlEmpty_iff _).mp he
    obtain ⟨t1, t2, _, _, _⟩ := translate_preserves_amounts pc h l
    have c1 : l Res.cpu = none := by
      cases hc : l Res.cpu with
      | none => rfl
      | some q => have := t1 q hc; rw [hall] at this; cases this
    have c2 : l Res.memory = none := by
      cases hc : l Res.memory with
      | none => rfl
      | some q => have := t2 q hc; rw [hall] at this; cases this
    rw [replaceBoth_noop pc l c1 c2] at he
    rw [he] at hl
    cases hl

theorem mutate_ovNormal (k : Ranges) (p : Pod) (h : OvNormal p) : OvNormal (mutatePodResourceSpec k p) := by
  by_cases ht : IsTier (pcWithDefault k p)
  · rw [mutate_tier_form k p ht]
    unfold OvNormal at h ⊢
    simp only []
    cases ho : p.overhead with
    | none => rfl
    | some l =>
      rw [ho] at h
      have hl : rlEmpty l = false := by
        cases he : rlEmpty l with
        | false => rfl
        | true => simp [normOv, he] at h
      simp [normOv, replaceBoth_nonempty _ ht l hl]
  · rw [pod_untouched_without_tier k p ht]; exact h

theorem sameMeta_mutate (k : Ranges) (p : Pod) : SameMeta (mutatePodResourceSpec k p) p := by
  unfold mutatePodResourceSpec SameMeta
  simp only []
  split <;> exact ⟨rfl, rfl, rfl⟩

/-- the summary step only ever rewrites the annotation. -/
theorem mutateByExt_form (q p' : Pod) (h : mutateByExt q = some p') : ∃ a, p' = { q with annot := a } := by
  unfold mutateByExt at h
  simp only [] at h
  cases ha : q.annot with
  | malformed => rw [ha] at h; cases h
  | absent =>
    rw [ha] at h; simp only [] at h
    split at h <;> cases h
    · exact ⟨Annot.absent, by rw [← ha]⟩
    · exact ⟨_, rfl⟩
  | spec old =>
    rw [ha] at h; simp only [] at h
    split at h <;> cases h
    · exact ⟨Annot.spec old, by rw [← ha]⟩
    · exact ⟨_, rfl⟩

/-- the pod returned by clusterColocationProfileMutatingPod on CREATE. -/
theorem colocationMutate_create_fst (k : Ranges) (gate : Bool) (rand : Int) (ps : List Profile) (p : Pod) :
    (colocationMutate k true gate rand ps p).1 =
      if (sortProfiles (ps.filter (·.matched))).isEmpty = true then p
      else if ((sortProfiles (ps.filter (·.matched))).any (·.skipRes) || gate) = true then
        applyProfiles rand (sortProfiles (ps.filter (·.matched))) p
      else mutatePodResourceSpec k (applyProfiles rand (sortProfiles (ps.filter (·.matched))) p) := by
  unfold colocationMutate
  simp only [Bool.not_true, Bool.false_eq_true, if_false]
  split
  · rfl
  · split <;> rfl

theorem mem_insertProfile (x pr : Profile) (l : List Profile) : x ∈ insertProfile pr l → x = pr ∨ x ∈ l := by
  induction l with
  | nil => intro h; simp only [insertProfile, List.mem_singleton] at h; exact Or.inl h
  | cons y ys ih =>
    unfold insertProfile
    split
    · intro h; rcases List.mem_cons.mp h with h | h
      · exact Or.inl h
      · exact Or.inr h
    · intro h; rcases List.mem_cons.mp h with h | h
      · exact Or.inr (h ▸ List.mem_cons_self ..)
      · rcases ih h with h | h
        · exact Or.inl h
        · exact Or.inr (List.mem_cons_of_mem _ h)

theorem mem_sortProfiles (x : Profile) (l : List Profile) : x ∈ sortProfiles l → x ∈ l := by
  induction l with
  | nil => intro h; exact h
  | cons y ys ih =>
    intro h
    have h' : x ∈ insertProfile y (sortProfiles ys) := h
    rcases mem_insertProfile _ _ _ h' with h | h
    · exact h ▸ List.mem_cons_self ..
    · exact List.mem_cons_of_mem _ (ih h)

/-- 7. `idempotent`, full statement over arbitrary profile lists: for every list of colocation
    profiles whose matching, applied members are simple (no labelKeysMapping / labelSuffixes /
    resource patch — the harness evaluates the same predicate and demands idempotence exactly
    there), every feature gate and random draw, admitting an admitted pod again (same profiles,
    same draw) returns it unchanged. -/
theorem readmission_idempotent (k : Ranges) (gate : Bool) (rand : Int) (ps : List Profile) (p p' : Pod)
    (hs : AppliedSimple rand (ps.filter (·.matched)))
    (h : admitCreate k gate rand ps p = some p') : admitCreate k gate rand ps p' = some p' := by
  unfold admitCreate at h ⊢
  rw [colocationMutate_create_fst] at h ⊢
  have hms : AppliedSimple rand (sortProfiles (ps.filter (·.matched))) :=
    fun x hx => hs x (mem_sortProfiles _ _ hx)
  generalize sortProfiles (ps.filter (·.matched)) = ms at h hms ⊢
  by_cases he : ms.isEmpty = true
  · rw [if_pos he] at h ⊢
    exact mutateByExt_idempotent _ _ h
  · rw [if_neg he] at h ⊢
    by_cases hsk : (ms.any (·.skipRes) || gate) = true
    · rw [if_pos hsk] at h ⊢
      obtain ⟨a, rfl⟩ := mutateByExt_form _ _ h
      have hfix : applyProfiles rand ms { applyProfiles rand ms p with annot := a } = { applyProfiles rand ms p with annot := a } :=
        applyProfiles_fixed rand ms hms p _ ⟨rfl, rfl, rfl⟩ (applyProfiles_ovNormal rand ms hms p)
      rw [hfix]
      exact mutateByExt_idempotent _ _ h
    · rw [if_neg hsk] at h ⊢
      have h' := h
      obtain ⟨a, rfl⟩ := mutateByExt_form _ _ h
      have hm := sameMeta_mutate k (applyProfiles rand ms p)
      have hfix : applyProfiles rand ms { mutatePodResourceSpec k (applyProfiles rand ms p) with annot := a } =
          { mutatePodResourceSpec k (applyProfiles rand ms p) with annot := a } :=
        applyProfiles_fixed rand ms hms p _ hm (fun hn => mutate_ovNormal k _ (applyProfiles_ovNormal rand ms hms p hn))
      rw [hfix]
      exact readmission_pipeline_idempotent k _ _ h'

/-! ### non-vacuity -/

example : getPriorityClassByPriority stdRanges 5500 = PC.batch ∧ getPriorityClassByPriority stdRanges 6500 = PC.none := by decide
example : IsTier PC.batch ∧ IsTier PC.mid ∧ ¬ IsTier PC.free := by simp [IsTier]
example : PermittedPair QoS.be PC.batch ∧ ¬ PermittedPair QoS.be PC.prod ∧ ¬ PermittedPair QoS.lsr PC.mid := by decide
example : WholeCPU 2000000000 ∧ ¬ WholeCPU 1500000000 ∧ WholeCPU 999999900 := by unfold WholeCPU milliValue; omega

/-- a fractional container (0.0005 CPU request, 1.5 CPU limit, 1Gi memory limit only) -/
def exCtr : Ctr :=
  { name := 0, req := RL.empty.set Res.cpu 500000,
    lim := (RL.empty.set Res.cpu 1500000000).set Res.memory 1073741824000000000 }

example : (mutateCtr PC.batch exCtr).req Res.batchCPU = some 1000000000 ∧          -- 0.0005 CPU ↦ 1 milli-core
          (mutateCtr PC.batch exCtr).lim Res.batchCPU = some 1500000000000 ∧       -- 1.5 CPU ↦ 1500
          (mutateCtr PC.batch exCtr).req Res.batchMemory = some 1073741824000000000 ∧ -- request defaulted to the limit
          (mutateCtr PC.batch exCtr).req Res.cpu = none := by decide

def exPod (q : QoS) (prio : Int) : Pod :=
  { labels := Labels.empty.set LKey.qos (qosName q), priority := some prio, subPrio := none, statusQoS := 0,
    inits := [], ctrs := [exCtr], overhead := none, annot := Annot.absent }

example : validateAllowed stdRanges false 0 (exPod QoS.be 5500) (exPod QoS.be 5500) = true ∧
          validateAllowed stdRanges false 0 (exPod QoS.be 9500) (exPod QoS.be 9500) = false ∧
          validateAllowed stdRanges false 0 (exPod QoS.lsr 9500) (exPod QoS.lsr 9500) = false ∧ -- 0.0005 CPU is not whole
          validateAllowed stdRanges false 1 (exPod QoS.be 5500) (exPod QoS.be 7500) = false := by decide

example : ∃ p', mutateByExt (mutatePodResourceSpec stdRanges (exPod QoS.be 5500)) = some p' ∧
    annotSpec p'.annot = [{ name := 0, req := ⟨some 1000000000, some 1073741824000000000⟩,
                            lim := ⟨some 1500000000000, some 1073741824000000000⟩ }] :=
  ⟨_, rfl, by decide⟩

/-! ### re-admission: the hypothesis is satisfiable and needed -/

/-- a simple profile: QoS BE, priority 5500, one foreign label. -/
def exProfile : Profile :=
  { name := 1, matched := true, skipRes := false, prob := none, qos := some (qosName QoS.be), priority := some 5500,
    subPrio := none, labels := [(LKey.src, [120])] }

example : AppliedSimple 0 ([exProfile].filter (·.matched)) := by decide

example : ∃ p', admitCreate stdRanges false 0 [exProfile] (exPod QoS.ls 9500) = some p' ∧
    p'.labels LKey.qos = some (qosName QoS.be) ∧ p'.priority = some 5500 ∧
    p'.ctrs.map (fun c => c.req Res.batchCPU) = [some 1000000000] :=
  ⟨_, rfl, by decide⟩

/-- a simple profile with a patch of labels and spec.priority. -/
def exPatchLabelProfile : Profile :=
  { name := 2, matched := true, skipRes := false, prob := some 50, qos := none, priority := none, subPrio := some 3,
    hasPatch := true, patchLabels := [(LKey.pc, pcName PC.mid)], patchPriority := some 7100 }

example : AppliedSimple 30 ([exProfile, exPatchLabelProfile].filter (·.matched)) := by decide

example : ∃ p', admitCreate stdRanges false 30 [exPatchLabelProfile, exProfile] (exPod QoS.ls 9500) = some p' ∧
    p'.labels LKey.pc = some (pcName PC.mid) ∧ p'.priority = some 7100 ∧ p'.subPrio = some 3 ∧
    p'.ctrs.map (fun c => c.req Res.midCPU) = [some 1000000000] :=
  ⟨_, rfl, by decide⟩

/-- a profile that appends "x" to the QoS label (and skips the translation). -/
def sfxProfile : Profile :=
  { name := 0, matched := true, skipRes := true, prob := none, qos := none, priority := none, subPrio := none,
    suffixes := [(LKey.qos, [120])] }

/-- the hypothesis of `readmission_idempotent` is needed: a label suffix is appended again. -/
theorem readmission_suffix_counterexample :
    ∃ p', admitCreate stdRanges false 0 [sfxProfile] (exPod QoS.be 5500) = some p' ∧
          admitCreate stdRanges false 0 [sfxProfile] p' ≠ some p' := by
  refine ⟨_, rfl, ?_⟩
  intro h
  have h2 := congrArg (fun o => o.map (fun q => q.labels LKey.qos)) h
  revert h2
  decide

/-- a profile whose patch sets requests[batch-cpu] = 100 on container 0. -/
def patchProfile : Profile :=
  { name := 0, matched := true, skipRes := false, prob := none, qos := none, priority := none, subPrio := none,
    hasPatch := true, patchRes := [{ ctr := 0, isLimit := false, res := Res.batchCPU, q := 100000000000 }] }

/-- ... and so is a resource patch: on first admission the native cpu request overrides the patched
    batch-cpu request, on re-admission the patch wins. -/
theorem readmission_patch_counterexample :
    ∃ p', admitCreate stdRanges false 0 [patchProfile] (exPod QoS.be 5500) = some p' ∧
          admitCreate stdRanges false 0 [patchProfile] p' ≠ some p' := by
  refine ⟨_, rfl, ?_⟩
  intro h
  have h2 := congrArg (fun o => o.map (fun q => q.ctrs.map (fun c => c.req Res.batchCPU))) h
  revert h2
  decide

/-! ### pod requests: the aggregate of component-helpers is the documented formula -/

def RLNonNeg (l : RL) : Prop := ∀ r q, l r = some q → 0 ≤ q

theorem addRL_get0 (a b : RL) (r : Res) : (addRL a b).get0 r = a.get0 r + b.get0 r := by
  unfold addRL RL.get0
  cases hbr : b r <;> simp only [hbr] <;> simp

theorem addRL_nonneg (a b : RL) (ha : RLNonNeg a) (hb : RLNonNeg b) : RLNonNeg (addRL a b) := by
  intro r q h
  unfold addRL at h
  cases hbr : b r with
  | none => rw [hbr] at h; exact ha r q h
  | some v =>
    rw [hbr] at h
    simp only [Option.some.injEq] at h
    have h1 := hb r v hbr
    cases har : a r with
    | none => rw [har] at h; simp at h; omega
    | some w => rw [har] at h; have := ha r w har; simp at h; omega

theorem maxRL_get0 (a b : RL) (ha : RLNonNeg a) (hb : RLNonNeg b) (r : Res) :
    (maxRL a b).get0 r = max (a.get0 r) (b.get0 r) := by
  unfold maxRL RL.get0
  cases hbr : b r with
  | none =>
    cases har : a r with
    | none => simp only [hbr, har]; simp
    | some w => have := ha r w har; simp only [hbr, har, Option.getD_some, Option.getD_none]; omega
  | some v =>
    have := hb r v hbr
    cases har : a r with
    | none => simp only [hbr, har, Option.getD_some, Option.getD_none]; omega
    | some w =>
      simp only [hbr, har, Option.getD_some]
      split <;> simp only [Option.getD_some] <;> omega

theorem maxRL_nonneg (a b : RL) (ha : RLNonNeg a) (hb : RLNonNeg b) : RLNonNeg (maxRL a b) := by
  intro r q h
  unfold maxRL at h
  cases hbr : b r with
  | none => rw [hbr] at h; exact ha r q h
  | some v =>
    rw [hbr] at h
    cases har : a r with
    | none => rw [har] at h; simp at h; subst h; exact hb r v hbr
    | some w =>
      rw [har] at h
      simp only [] at h
      split at h <;> simp at h <;> subst h
      · exact hb r v hbr
      · exact ha r w har

theorem empty_nonneg : RLNonNeg RL.empty := by intro r q h; cases h

theorem ctrFold_get0 (cs : List Ctr) (acc : RL) (r : Res) :
    (cs.foldl (fun acc c => addRL acc c.req) acc).get0 r = acc.get0 r + sumReq cs r := by
  induction cs generalizing acc with
  | nil => simp [sumReq]
  | cons c rest ih =>
    rw [List.foldl_cons, ih, addRL_get0]
    simp only [sumReq, List.map_cons, List.sum_cons]
    omega

theorem ctrFold_nonneg (cs : List Ctr) (acc : RL) (ha : RLNonNeg acc) (h : ∀ c ∈ cs, RLNonNeg c.req) :
    RLNonNeg (cs.foldl (fun acc c => addRL acc c.req) acc) := by
  induction cs generalizing acc with
  | nil => exact ha
  | cons c rest ih =>
    rw [List.foldl_cons]
    exact ih _ (addRL_nonneg _ _ ha (h c (List.mem_cons_self ..))) (fun d hd => h d (List.mem_cons_of_mem _ hd))

theorem initFold_plain (cs : List Ctr) (reqs ir : RL) (hs : ∀ c ∈ cs, c.sidecar = false) (hn : ∀ c ∈ cs, RLNonNeg c.req)
    (hir : RLNonNeg ir) :
    ∃ ir', cs.foldl initStep (reqs, RL.empty, ir) = (reqs, RL.empty, ir') ∧ RLNonNeg ir' ∧
      ∀ r, ir'.get0 r = cs.foldl (fun m c => max m (c.req.get0 r)) (ir.get0 r) := by
  induction cs generalizing ir with
  | nil => exact ⟨ir, rfl, hir, fun _ => rfl⟩
  | cons c rest ih =>
    have hc : c.sidecar = false := hs c (List.mem_cons_self ..)
    have hcn : RLNonNeg c.req := hn c (List.mem_cons_self ..)
    have hstep : initStep (reqs, RL.empty, ir) c = (reqs, RL.empty, maxRL ir (addRL (addRL RL.empty c.req) RL.empty)) := by
      simp [initStep, hc]
    have hnn : RLNonNeg (addRL (addRL RL.empty c.req) RL.empty) :=
      addRL_nonneg _ _ (addRL_nonneg _ _ empty_nonneg hcn) empty_nonneg
    obtain ⟨ir', h1, h2, h3⟩ := ih (maxRL ir (addRL (addRL RL.empty c.req) RL.empty))
      (fun d hd => hs d (List.mem_cons_of_mem _ hd)) (fun d hd => hn d (List.mem_cons_of_mem _ hd))
      (maxRL_nonneg _ _ hir hnn)
    refine ⟨ir', ?_, h2, ?_⟩
    · rw [List.foldl_cons, hstep, h1]
    · intro r
      rw [h3 r, List.foldl_cons, maxRL_get0 _ _ hir hnn, addRL_get0, addRL_get0]
      simp [RL.get0, RL.empty]

/-- PodRequests is the documented formula max(Σ containers, max init containers) + overhead when
    there is no sidecar, no pod-level resources and no negative container request. -/
theorem podRequest_plain (p : Pod) (hs : ∀ c ∈ p.inits, c.sidecar = false) (hl : p.podRes = none)
    (hn : ∀ c ∈ p.ctrs ++ p.inits, RLNonNeg c.req) (r : Res) :
    podRequest p r = podRequestPlain p r := by
  have hcn : ∀ c ∈ p.ctrs, RLNonNeg c.req := fun c hc => hn c (List.mem_append_left _ hc)
  have hin : ∀ c ∈ p.inits, RLNonNeg c.req := fun c hc => hn c (List.mem_append_right _ hc)
  have hreq := ctrFold_nonneg p.ctrs RL.empty empty_nonneg hcn
  obtain ⟨ir', h1, h2, h3⟩ := initFold_plain p.inits (p.ctrs.foldl (fun acc c => addRL acc c.req) RL.empty) RL.empty hs hin empty_nonneg
  have hagg : ∀ r, (aggregateRequests p).get0 r = max (sumReq p.ctrs r) (maxReq p.inits r) := by
    intro r
    unfold aggregateRequests
    simp only [h1]
    rw [maxRL_get0 _ _ hreq h2, ctrFold_get0, h3 r]
    simp [RL.get0, RL.empty, maxReq]
  unfold podRequest podRequestPlain podRequests
  simp only [hl]
  cases p.overhead with
  | none => simp only []; rw [hagg]; omega
  | some o => simp only []; rw [addRL_get0, hagg]

/-- a sidecar or a pod-level request makes the aggregate differ from the plain formula. -/
example : podRequest { (exPod QoS.lsr 9500) with podRes := some (RL.empty.set Res.cpu 3000000000, RL.empty) } Res.cpu = 3000000000 ∧
          podRequestPlain { (exPod QoS.lsr 9500) with podRes := some (RL.empty.set Res.cpu 3000000000, RL.empty) } Res.cpu = 500000 := by
  decide

example : podRequest { (exPod QoS.lsr 9500) with inits := [{ name := 10, req := RL.empty.set Res.cpu 2000000000, lim := RL.empty, sidecar := true }] } Res.cpu = 2000500000 := by
  decide

/-! ### pod level: what the translation touches -/

/-- the translation keeps the container lists' shape (names, order, count) and the class fields,
    status and pod-level resources. -/
theorem mutate_keeps_shape (k : Ranges) (p : Pod) :
    (mutatePodResourceSpec k p).ctrs.map (·.name) = p.ctrs.map (·.name) ∧
    (mutatePodResourceSpec k p).inits.map (·.name) = p.inits.map (·.name) ∧
    (mutatePodResourceSpec k p).labels = p.labels ∧ (mutatePodResourceSpec k p).priority = p.priority ∧
    (mutatePodResourceSpec k p).subPrio = p.subPrio ∧ (mutatePodResourceSpec k p).podRes = p.podRes ∧
    (mutatePodResourceSpec k p).annot = p.annot := by
  by_cases h : IsTier (pcWithDefault k p)
  · rw [mutate_tier_form k p h]
    have hn : ∀ cs : List Ctr, (cs.map (mutateCtr (pcWithDefault k p))).map (·.name) = cs.map (·.name) := by
      intro cs
      rw [List.map_map]
      apply List.map_congr_left
      intro c _
      exact (mutateCtr_spec _ h c).1
    exact ⟨hn _, hn _, rfl, rfl, rfl, rfl, rfl⟩
  · rw [pod_untouched_without_tier k p h]
    exact ⟨rfl, rfl, rfl, rfl, rfl, rfl, rfl⟩

/-- 3 (pod level). every container and init container of a translated mid/batch pod is the translation
    of the container at the same position (so `container_amounts_kept` applies to each), and the
    overhead is translated list-wise. -/
theorem pod_amounts_kept (k : Ranges) (p : Pod) (h : IsTier (pcWithDefault k p)) :
    (mutatePodResourceSpec k p).ctrs = p.ctrs.map (mutateCtr (pcWithDefault k p)) ∧
    (mutatePodResourceSpec k p).inits = p.inits.map (mutateCtr (pcWithDefault k p)) ∧
    (mutatePodResourceSpec k p).overhead = p.overhead.map (replaceBoth (pcWithDefault k p)) := by
  rw [mutate_tier_form k p h]
  exact ⟨rfl, rfl, rfl⟩

/-! ## the entry points: what the API server stores, which requests are validated (Model/C13Handle.lean) -/

/-! ### 9. the `mutated` flags are sound: a step that reports "not mutated" left the pod as it was -/

theorem replaceBoth_flag_sound (pc : PC) (l : RL) (h : replaceBothFlag pc l = false) : replaceBoth pc l = l := by
  by_cases ht : IsTier pc
  · have hc : l Res.cpu = none := by
      rcases ht with rfl | rfl <;> simp_all [replaceBothFlag, replaceFlag, resourceNameMap]
    have hm : l Res.memory = none := by
      rcases ht with rfl | rfl <;> simp_all [replaceBothFlag, replaceFlag, resourceNameMap, replaceAndErase]
    exact replaceBoth_noop pc l hc hm
  · cases pc <;> simp_all [IsTier, replaceBoth, replaceAndErase, resourceNameMap]

theorem restrict_flag_sound (pc : PC) (c : Ctr) (r : Res) (h : restrictFlag pc c r = false) : restrict pc c r = c := by
  unfold restrictFlag at h
  unfold restrict
  split
  · rfl
  · rename_i e he
    rw [he] at h
    simp only [] at h
    cases hr : c.req e <;> cases hl : c.lim e <;> simp_all

theorem mutateCtr_flag_sound (pc : PC) (c : Ctr) (h : mutateCtrFlag pc c = false) : mutateCtr pc c = c := by
  unfold mutateCtrFlag at h
  simp only [Bool.or_eq_false_iff] at h
  obtain ⟨⟨⟨h1, h2⟩, h3⟩, h4⟩ := h
  have ht : translated pc c = c := by
    unfold translated
    rw [replaceBoth_flag_sound pc _ h1, replaceBoth_flag_sound pc _ h2]
  unfold mutateCtr
  rw [ht] at h3 h4 ⊢
  rw [restrict_flag_sound pc c _ h3] at h4 ⊢
  exact restrict_flag_sound pc c _ h4

theorem map_flag_sound (pc : PC) (cs : List Ctr) (h : cs.any (mutateCtrFlag pc) = false) : cs.map (mutateCtr pc) = cs := by
  induction cs with
  | nil => rfl
  | cons c cs ih =>
    simp only [List.any_cons, Bool.or_eq_false_iff] at h
    simp only [List.map_cons, mutateCtr_flag_sound pc c h.1, ih h.2]

/-- mutatePodResourceSpec reports `false` only if it changed nothing. -/
theorem mutatePodResourceSpec_flag_sound (k : Ranges) (p : Pod) (h : mutatePodResourceSpecFlag k p = false) :
    mutatePodResourceSpec k p = p := by
  unfold mutatePodResourceSpecFlag at h
  unfold mutatePodResourceSpec
  simp only [] at h ⊢
  split
  · rfl
  · rename_i hn
    rw [if_neg hn] at h
    simp only [Bool.or_eq_false_iff] at h
    obtain ⟨⟨h1, h2⟩, h3⟩ := h
    rw [map_flag_sound _ _ h1, map_flag_sound _ _ h2]
    have ho : p.overhead.map (replaceBoth (pcWithDefault k p)) = p.overhead := by
      cases hov : p.overhead with
      | none => rfl
      | some o => rw [hov] at h3; simp only [Option.map_some, replaceBoth_flag_sound _ _ h3]
    rw [ho]

theorem applyProfiles_all_skipped (rand : Int) (ms : List Profile) (p : Pod)
    (h : ms.any (fun pr => !shouldSkipProfile rand pr) = false) : applyProfiles rand ms p = p := by
  unfold applyProfiles
  induction ms generalizing p with
  | nil => rfl
  | cons m ms ih =>
    simp only [List.any_cons, Bool.or_eq_false_iff, Bool.not_eq_false'] at h
    simp only [List.foldl_cons, h.1, if_true]
    exact ih p h.2

/-- clusterColocationProfileMutatingPod reports `false` only if it changed nothing (every operation, every
    profile list, gate and draw). -/
theorem colocation_flag_sound (k : Ranges) (create gate : Bool) (rand : Int) (ps : List Profile) (p : Pod)
    (h : (colocationMutate k create gate rand ps p).2 = false) : (colocationMutate k create gate rand ps p).1 = p := by
  unfold colocationMutate at h ⊢
  cases create
  · rfl
  · simp only [Bool.not_true, Bool.false_eq_true, if_false] at h ⊢
    generalize sortProfiles (ps.filter (·.matched)) = ms at h ⊢
    by_cases he : ms.isEmpty = true
    · rw [if_pos he]
    · rw [if_neg he] at h ⊢
      by_cases hs : (ms.any (·.skipRes) || gate) = true
      · rw [if_pos hs] at h ⊢
        exact applyProfiles_all_skipped rand ms p h
      · rw [if_neg hs] at h ⊢
        simp only [Bool.or_eq_false_iff] at h
        show mutatePodResourceSpec k (applyProfiles rand ms p) = p
        rw [applyProfiles_all_skipped rand ms p h.1] at h ⊢
        exact mutatePodResourceSpec_flag_sound k p h.2

/-- the pod of mutateByExtendedResources does not depend on its flag ... -/
theorem mutateByExtFlag_fst (p : Pod) : (mutateByExtFlag p).map Prod.fst = mutateByExt p := by
  unfold mutateByExtFlag mutateByExt
  cases p.annot with
  | malformed => rfl
  | absent => simp only []; split <;> rfl
  | spec old => simp only []; split <;> rfl

/-- ... and the flag is `false` only if the pod is unchanged. -/
theorem ext_flag_sound (p p' : Pod) (h : mutateByExtFlag p = some (p', false)) : p' = p := by
  unfold mutateByExtFlag at h
  simp only [] at h
  split at h
  · cases h
  · split at h
    · cases h; rfl
    · cases h
  · split at h
    · cases h; rfl
    · cases h

/-! ### 10. what the API server stores -/

/-- the envelope of a plain pod CREATE -/
def Envelope.isCreate (e : Envelope) : Prop := e.op = .create ∧ e.subresource = false ∧ e.isPods = true ∧ e.hasObject = true

/-- `mutated`-flag bookkeeping never loses a change: for a pod CREATE the stored pod (Handle's JSON patch applied to the
    submitted pod) IS the pod computed by the admission steps, whatever the flags say; a failing step rejects the
    request. -/
theorem handle_stores_admitted (k : Ranges) (e : Envelope) (he : e.isCreate) (gate : Bool) (rand : Int) (ps : List Profile) (p : Pod) :
    handleMutating k e gate false rand ps p = if colocationFails true rand ps then none else admitCreate k gate rand ps p := by
  obtain ⟨h1, h2, h3, h4⟩ := he
  unfold handleMutating shouldIgnore handleCreate admitCreate
  simp only [h1, h2, h3, h4, Bool.not_true, Bool.or_false, Bool.false_eq_true, if_false]
  by_cases hf : colocationFails true rand ps = true
  · simp [hf]
  · have hf' : colocationFails true rand ps = false := by simpa using hf
    simp only [hf', Bool.false_eq_true, if_false]
    have hfst := mutateByExtFlag_fst (colocationMutate k true gate rand ps p).1
    cases hx : mutateByExtFlag (colocationMutate k true gate rand ps p).1 with
    | none =>
      rw [hx] at hfst
      simp only [Option.map_none] at hfst
      exact hfst
    | some pm =>
      obtain ⟨p2, m2⟩ := pm
      rw [hx] at hfst
      simp only [Option.map_some] at hfst
      rw [← hfst]
      simp only []
      by_cases hm : ((colocationMutate k true gate rand ps p).2 || m2) = true
      · rw [if_pos hm]
      · rw [if_neg hm]
        simp only [Bool.not_eq_true, Bool.or_eq_false_iff] at hm
        obtain ⟨hm1, hm2⟩ := hm
        subst hm2
        rw [ext_flag_sound _ _ hx, colocation_flag_sound k true gate rand ps p hm1]

/-- with the summary-annotation step switched off (feature gate DisableExtendedResourceSpec) the stored pod is the pod
    of the colocation step. -/
theorem handle_without_ext (k : Ranges) (e : Envelope) (he : e.isCreate) (gate : Bool) (rand : Int) (ps : List Profile) (p : Pod) :
    handleMutating k e gate true rand ps p =
      if colocationFails true rand ps then none else some (colocationMutate k true gate rand ps p).1 := by
  obtain ⟨h1, h2, h3, h4⟩ := he
  unfold handleMutating shouldIgnore handleCreate
  simp only [h1, h2, h3, h4, Bool.not_true, Bool.or_false, Bool.false_eq_true, if_false, if_true]
  by_cases hf : colocationFails true rand ps = true
  · simp [hf]
  · have hf' : colocationFails true rand ps = false := by simpa using hf
    simp only [hf', Bool.false_eq_true, if_false]
    by_cases hm : (colocationMutate k true gate rand ps p).2 = true
    · rw [if_pos hm]
    · rw [if_neg hm]
      simp only [Bool.not_eq_true] at hm
      rw [colocation_flag_sound k true gate rand ps p hm]

/-- every other request leaves the submitted pod as it is (UPDATE: handleUpdate does nothing; DELETE / CONNECT;
    sub-resources; foreign resources) or is rejected for want of an object. -/
theorem handle_non_create_stores_submitted (k : Ranges) (e : Envelope) (gate noExt : Bool) (rand : Int) (ps : List Profile) (p p' : Pod)
    (hne : e.op ≠ .create ∨ e.subresource = true ∨ e.isPods = false)
    (h : handleMutating k e gate noExt rand ps p = some p') : p' = p := by
  unfold handleMutating shouldIgnore at h
  split at h
  · cases h; rfl
  · rename_i hi
    simp only [Bool.or_eq_true, Bool.not_eq_true', not_or, Bool.not_eq_true, Bool.not_eq_false] at hi
    split at h
    · cases h
    · cases ho : e.op with
      | create => rcases hne with h1 | h1 | h1 <;> simp_all
      | update => rw [ho] at h; cases h; rfl
      | delete => rw [ho] at h; cases h; rfl
      | connect => rw [ho] at h; cases h; rfl

/-- 4 (stored object). a pod CREATE matched by a profile (no skip annotation, gate off) whose class after the profiles
    is mid or batch is STORED without native cpu / memory in any container, init container or the overhead — also when
    every matching profile is switched off by its probability. -/
theorem stored_native_erased (k : Ranges) (e : Envelope) (he : e.isCreate) (rand : Int) (ps : List Profile) (p p' : Pod)
    (hm : (sortProfiles (ps.filter (·.matched))).isEmpty = false)
    (hs : (sortProfiles (ps.filter (·.matched))).any (·.skipRes) = false)
    (ht : IsTier (pcWithDefault k (applyProfiles rand (sortProfiles (ps.filter (·.matched))) p)))
    (h : handleMutating k e false false rand ps p = some p') :
    (∀ c ∈ p'.ctrs ++ p'.inits, c.req Res.cpu = none ∧ c.req Res.memory = none ∧ c.lim Res.cpu = none ∧ c.lim Res.memory = none) ∧
    (∀ o, p'.overhead = some o → o Res.cpu = none ∧ o Res.memory = none) := by
  rw [handle_stores_admitted k e he] at h
  split at h
  · cases h
  · unfold admitCreate at h
    rw [colocationMutate_create_fst] at h
    simp only [hm, hs, Bool.false_eq_true, if_false, Bool.or_false] at h
    obtain ⟨a, rfl⟩ := mutateByExt_form _ _ h
    exact pod_native_erased k _ ht

/-- 3 (stored object). ... and its containers are, position by position, the translations of the containers the
    profiles produced (so `container_amounts_kept` applies to each stored container). -/
theorem stored_amounts_kept (k : Ranges) (e : Envelope) (he : e.isCreate) (rand : Int) (ps : List Profile) (p p' : Pod)
    (hm : (sortProfiles (ps.filter (·.matched))).isEmpty = false)
    (hs : (sortProfiles (ps.filter (·.matched))).any (·.skipRes) = false)
    (ht : IsTier (pcWithDefault k (applyProfiles rand (sortProfiles (ps.filter (·.matched))) p)))
    (h : handleMutating k e false false rand ps p = some p') :
    let q := applyProfiles rand (sortProfiles (ps.filter (·.matched))) p
    p'.ctrs = q.ctrs.map (mutateCtr (pcWithDefault k q)) ∧ p'.inits = q.inits.map (mutateCtr (pcWithDefault k q)) ∧
    p'.overhead = q.overhead.map (replaceBoth (pcWithDefault k q)) ∧
    p'.labels = q.labels ∧ p'.priority = q.priority := by
  rw [handle_stores_admitted k e he] at h
  split at h
  · cases h
  · unfold admitCreate at h
    rw [colocationMutate_create_fst] at h
    simp only [hm, hs, Bool.false_eq_true, if_false, Bool.or_false] at h
    obtain ⟨a, rfl⟩ := mutateByExt_form _ _ h
    obtain ⟨h1, h2, h3⟩ := pod_amounts_kept k _ ht
    obtain ⟨_, _, h4, h5, _⟩ := mutate_keeps_shape k (applyProfiles rand (sortProfiles (ps.filter (·.matched))) p)
    exact ⟨h1, h2, h3, h4, h5⟩

/-- 6 (stored object). the summary annotation of the stored pod matches the stored spec: storing is admitting. -/
theorem stored_is_admitted (k : Ranges) (e : Envelope) (he : e.isCreate) (gate : Bool) (rand : Int) (ps : List Profile) (p p' : Pod)
    (h : handleMutating k e gate false rand ps p = some p') : admitCreate k gate rand ps p = some p' := by
  rw [handle_stores_admitted k e he] at h
  split at h
  · cases h
  · exact h

/-- 7 (stored object). submitting the stored pod again (same profiles, same draw; applied profiles simple) stores it
    unchanged. -/
theorem handle_readmission_idempotent (k : Ranges) (e : Envelope) (he : e.isCreate) (gate : Bool) (rand : Int) (ps : List Profile) (p p' : Pod)
    (hs : AppliedSimple rand (ps.filter (·.matched)))
    (h : handleMutating k e gate false rand ps p = some p') : handleMutating k e gate false rand ps p' = some p' := by
  rw [handle_stores_admitted k e he] at h ⊢
  split at h
  · cases h
  · rename_i hf
    rw [if_neg hf]
    exact readmission_idempotent k gate rand ps p p' hs h

/-! ### 11. the validating entry point -/

/-- which requests validatingPodFn hands to the validators -/
def Envelope.validated (e : Envelope) : Prop :=
  e.subresource = false ∧ e.isPods = true ∧ e.hasObject = true ∧ (e.op = .update → e.hasOld = true) ∧
  (e.op = .delete → e.hasOld = true)

/-- deletionTimestamp on either object, finalizers and "status only" decide nothing. -/
theorem handleValidating_shape_irrelevant (k : Ranges) (e : Envelope) (s s' : ObjShape) (gate : Bool) (old new : Pod) :
    handleValidating k e s gate old new = handleValidating k e s' gate old new := rfl

/-- a validated pod UPDATE is admitted iff the full decision table admits it — in particular also when both objects
    are terminating. -/
theorem handle_update_iff (k : Ranges) (e : Envelope) (s : ObjShape) (gate : Bool) (old new : Pod)
    (hv : e.validated) (hu : e.op = .update) :
    handleValidating k e s gate old new = true ↔ Admissible k gate 1 old new := by
  obtain ⟨h1, h2, h3, h4, _⟩ := hv
  unfold handleValidating shouldIgnore
  simp only [h1, h2, h3, h4 hu, hu, Bool.not_true, Bool.or_false, Bool.false_eq_true, if_false, reduceCtorEq, and_false]
  exact admit_iff k gate 1 old new

theorem handle_create_iff (k : Ranges) (e : Envelope) (s : ObjShape) (gate : Bool) (old new : Pod)
    (hv : e.validated) (hc : e.op = .create) :
    handleValidating k e s gate old new = true ↔ Admissible k gate 0 old new := by
  obtain ⟨h1, h2, h3, _, _⟩ := hv
  unfold handleValidating shouldIgnore
  simp only [h1, h2, h3, hc, Bool.not_true, Bool.or_false, Bool.false_eq_true, if_false, reduceCtorEq, false_and]
  exact admit_iff k gate 0 old new

/-- "QoS and priority class never change on update", at the entry point, for every object shape. -/
theorem handle_update_immutable (k : Ranges) (e : Envelope) (s : ObjShape) (gate : Bool) (old new : Pod)
    (hv : e.validated) (hu : e.op = .update) (h : handleValidating k e s gate old new = true) :
    qosRaw new = qosRaw old ∧ pcRaw k new = pcRaw k old := by
  have ha := (handle_update_iff k e s gate old new hv hu).mp h
  unfold Admissible at ha
  exact ⟨(ha.2.2.2 rfl).1, (ha.2.2.2 rfl).2.1⟩

/-- requests that are NOT validated are admitted unconditionally (sub-resources such as pods/status and
    pods/ephemeralcontainers, foreign resources, DELETE without an old object) — this is the unchanged tree's dispatch,
    stated so that it is visible. -/
theorem handle_ignored_admitted (k : Ranges) (e : Envelope) (s : ObjShape) (gate : Bool) (old new : Pod)
    (h : e.subresource = true ∨ e.isPods = false ∨ (e.op = .delete ∧ e.hasOld = false)) :
    handleValidating k e s gate old new = true := by
  unfold handleValidating shouldIgnore
  rcases h with h | h | ⟨h1, h2⟩
  · simp [h]
  · simp [h]
  · simp [h1, h2]

/-! ### 12. spec.probability -/

theorem digitsVal_append (ds : List Nat) (b : Nat) : digitsVal (ds ++ [b]) = digitsVal ds * 10 + (b - 48) := by
  unfold digitsVal
  rw [List.foldl_append]
  rfl

/-- an int-typed probability is taken as it is; "0%" and "100%" are 0 and 100; a text without '%' is an error. -/
theorem scaledPercent_examples :
    scaledPercent (.int 37) = some 37 ∧ scaledPercent (.str [48, 37]) = some 0 ∧ scaledPercent (.str [49, 48, 48, 37]) = some 100 ∧
    scaledPercent (.str [53, 48, 37]) = some 50 ∧ scaledPercent (.str [53, 48]) = none ∧ scaledPercent (.str [37]) = none ∧
    scaledPercent (.str [104, 97, 108, 102]) = none ∧ scaledPercent (.str [45, 53, 37]) = some (-5) := by decide

/-- a probability that parses to 0 switches the profile off for every draw, 100 (and an absent probability) applies
    it for every draw; a text that is no percentage is an error for every draw. -/
theorem probability_gate (pr : Profile) (v : Option IntOrStr) (rand : Int) :
    ((probFields v).1 = some 0 → shouldSkipProfile rand (pr.withProbability v) = true) ∧
    ((probFields v).1 = some 100 ∨ v = none → shouldSkipProfile rand (pr.withProbability v) = false) ∧
    ((probFields v).2 = true ↔ ∃ x, v = some x ∧ scaledPercent x = none) := by
  refine ⟨?_, ?_, ?_⟩
  · intro h
    simp [shouldSkipProfile, Profile.withProbability, h]
  · intro h
    rcases h with h | h
    · simp [shouldSkipProfile, Profile.withProbability, h]
    · subst h; simp [shouldSkipProfile, Profile.withProbability, probFields]
  · cases v with
    | none => simp [probFields]
    | some x =>
      cases hx : scaledPercent x <;> simp [probFields, hx]

theorem atoi_digits (ds : List Nat) (hne : ds ≠ []) (hd : ∀ b ∈ ds, isDigit b = true) :
    atoi ds = some (digitsVal ds : Int) := by
  cases ds with
  | nil => exact absurd rfl hne
  | cons b r =>
    have hb : isDigit b = true := hd b (List.mem_cons_self ..)
    have h43 : b ≠ 43 := by intro h; subst h; simp [isDigit] at hb
    have h45 : b ≠ 45 := by intro h; subst h; simp [isDigit] at hb
    have hall : (b :: r).all isDigit = true := List.all_eq_true.mpr hd
    unfold atoi
    split
    · rename_i heq; split at heq
      · rename_i h; injection h with h _; exact absurd h h43
      · rename_i h; injection h with h _; exact absurd h h45
      · cases heq; simp [hall]

theorem atoi_neg_digits (ds : List Nat) (hne : ds ≠ []) (hd : ∀ b ∈ ds, isDigit b = true) :
    atoi (45 :: ds) = some (-(digitsVal ds : Int)) := by
  have hall : ds.all isDigit = true := List.all_eq_true.mpr hd
  have he : ds.isEmpty = false := by cases ds <;> simp_all
  simp [atoi, hall, he]

/-- "<digits>%" is the percentage the digits denote (leading zeros allowed); "-<digits>%" its negation. -/
theorem scaledPercent_digits (ds : List Nat) (hne : ds ≠ []) (hd : ∀ b ∈ ds, isDigit b = true) :
    scaledPercent (.str (ds ++ [37])) = some (digitsVal ds : Int) ∧
    scaledPercent (.str (45 :: ds ++ [37])) = some (-(digitsVal ds : Int)) := by
  constructor
  · unfold scaledPercent
    simp only [List.reverse_append, List.reverse_cons, List.reverse_nil, List.nil_append, List.singleton_append, List.reverse_reverse]
    exact atoi_digits ds hne hd
  · unfold scaledPercent
    simp only [List.cons_append, List.reverse_append, List.reverse_cons, List.reverse_nil, List.nil_append,
      List.reverse_reverse]
    simpa using atoi_neg_digits ds hne hd

/-- a string-typed probability is accepted only in the form "<text>%" where strconv.Atoi accepts the text. -/
theorem scaledPercent_needs_percent (s : LStr) (v : Int) (h : scaledPercent (.str s) = some v) :
    ∃ body, s = body ++ [37] ∧ atoi body = some v := by
  unfold scaledPercent at h
  simp only [] at h
  split at h
  · rename_i r heq
    refine ⟨r.reverse, ?_, h⟩
    have := congrArg List.reverse heq
    simpa using this
  · cases h

/-- a profile is kept unless one of its selectors evaluates to "no match"; an evaluation error keeps it. -/
theorem selectors_matched_iff (pr : Profile) (ns obj : SelShape) :
    (pr.withSelectors ns obj).matched = true ↔ ns ≠ SelShape.differs ∧ obj ≠ SelShape.differs := by
  cases ns <;> cases obj <;> simp [Profile.withSelectors, selectorKeeps]

/-! ### non-vacuity of 9–12 -/

/-- a matching profile that is switched off (probability "0%") -/
def offProfile : Profile :=
  ({ name := 1, matched := true, skipRes := false, prob := none, qos := some (qosName QoS.be), priority := some 5500,
     subPrio := none } : Profile).withProbability (some (.str [48, 37]))

def plainCreate : Envelope := { op := .create, subresource := false, isPods := true, hasObject := true, hasOld := false }

example : plainCreate.isCreate := by unfold Envelope.isCreate; decide

/-- a mid pod (priority 7500) admitted by a matching but switched-off profile: no profile is applied, the colocation
    step still reports mutated (translation), and the STORED pod carries mid-cpu instead of cpu. -/
example : shouldSkipProfile 0 offProfile = true ∧
    (colocationMutate stdRanges true false 0 [offProfile] (exPod QoS.ls 7500)).2 = true ∧
    ∃ p', handleMutating stdRanges plainCreate false false 0 [offProfile] (exPod QoS.ls 7500) = some p' ∧
      p'.priority = some 7500 ∧ p'.ctrs.map (fun c => (c.req Res.cpu, c.req Res.midCPU)) = [(none, some 1000000000)] :=
  ⟨by decide, by decide, _, rfl, by decide⟩

/-- the hypotheses of stored_native_erased hold there -/
example : (sortProfiles ([offProfile].filter (·.matched))).isEmpty = false ∧
    (sortProfiles ([offProfile].filter (·.matched))).any (·.skipRes) = false ∧
    IsTier (pcWithDefault stdRanges (applyProfiles 0 (sortProfiles ([offProfile].filter (·.matched))) (exPod QoS.ls 7500))) := by
  refine ⟨by decide, by decide, Or.inr ?_⟩
  decide

/-- a prod pod with a switched-off profile: nothing is mutated, the flag is false, the submitted pod is stored. -/
example : (colocationMutate stdRanges true false 0 [offProfile] (exPod QoS.ls 9500)).2 = false ∧
    (mutateByExtFlag (exPod QoS.ls 9500)).map Prod.snd = some false := by decide

/-- an UPDATE of a terminating pod (both objects carry a deletionTimestamp) that turns a prod LS pod into BE, or a BE pod
    into LSR, or moves the class from batch to mid, is rejected; the same update with nothing changed is admitted. -/
def plainUpdate : Envelope := { op := .update, subresource := false, isPods := true, hasObject := true, hasOld := true }
def terminating : ObjShape := { oldDeleting := true, newDeleting := true, finalizers := false, oldFinalizers := true, statusOnly := false }

example : plainUpdate.validated := by unfold Envelope.validated; decide

example :
    handleValidating stdRanges plainUpdate terminating false (exPod QoS.ls 5500) (exPod QoS.be 5500) = false ∧
    handleValidating stdRanges plainUpdate terminating false (exPod QoS.be 5500) (exPod QoS.be 7500) = false ∧
    handleValidating stdRanges plainUpdate terminating false (exPod QoS.be 5500) (exPod QoS.be 5500) = true ∧
    handleValidating stdRanges { plainUpdate with subresource := true } terminating false (exPod QoS.ls 5500) (exPod QoS.be 5500) = true := by
  decide

/-! ### in-place resize: the verdict is about the SPEC (ext6) -/

/-- util.GetPodRequest sets no option: the pod is read as declared. -/
theorem statusView_off (s : ResizeStatus) (p : Pod) : statusView getPodRequestUsesStatus s p = p := rfl

/-- whatever status.containerStatuses[].resources / allocatedResources / resize conditions a pod carries, the
    colocation validator decides as on the pod without them ... -/
theorem validate_reads_spec (k : Ranges) (gate : Bool) (op : Nat) (old new : Pod) (s : ResizeStatus) :
    validateAllowedSt k getPodRequestUsesStatus gate op old new s = validateAllowed k gate op old new := rfl

/-- ... hence by the full decision table over the DECLARED requests ... -/
theorem admit_iff_with_status (k : Ranges) (gate : Bool) (op : Nat) (old new : Pod) (s : ResizeStatus) :
    validateAllowedSt k getPodRequestUsesStatus gate op old new s = true ↔ Admissible k gate op old new :=
  admit_iff k gate op old new

/-- ... and so does the entry point. -/
theorem handleValidating_status_irrelevant (k : Ranges) (e : Envelope) (sh : ObjShape) (gate : Bool) (old new : Pod)
    (s s' : ResizeStatus) :
    handleValidatingSt k e sh getPodRequestUsesStatus gate old new s = handleValidatingSt k e sh getPodRequestUsesStatus gate old new s' ∧
    handleValidatingSt k e sh getPodRequestUsesStatus gate old new s = handleValidating k e sh gate old new := ⟨rfl, rfl⟩

/-- With the option ON a pod without container statuses (every CREATE of a new pod) is still read as declared:
    the option only matters for running pods. -/
theorem statusView_no_entries (b : Bool) (cond : Nat) (pl : Option (RL × RL)) (p : Pod) :
    statusView b { cond := cond, ctrs := [], podLevel := pl } p = p := by
  cases b
  · rfl
  · have h : ∀ c : Ctr, effectiveRequests { cond := cond, ctrs := [], podLevel := pl } c = c.req := fun c => rfl
    simp only [statusView, if_true, h]
    have e1 : p.ctrs.map (fun c => ({ c with req := c.req } : Ctr)) = p.ctrs := by
      induction p.ctrs with
      | nil => rfl
      | cons a t ih => simp only [List.map_cons, ih]
    have e2 : p.inits.map (fun c => if c.sidecar then ({ c with req := c.req } : Ctr) else c) = p.inits := by
      induction p.inits with
      | nil => rfl
      | cons a t ih => simp only [List.map_cons, ih]; cases a.sidecar <;> rfl
    rw [e1, e2]

/-- an LSR / prod pod declaring 1.5 CPUs -/
def rzPod (q : QoS) (cpu : Int) (batch : Option Int) : Pod :=
  { labels := Labels.empty.set LKey.qos (qosName q), priority := some 9500, subPrio := none, statusQoS := 0, inits := [],
    ctrs := [{ name := 0, req := fun r => if r = Res.cpu then some cpu else if r = Res.batchCPU then batch else none, lim := RL.empty }],
    overhead := none, annot := Annot.absent }

/-- the kubelet reports 2 CPUs for container 0 -/
def rzUp : ResizeStatus := { cond := 0, ctrs := [{ name := 0, actuated := some (RL.empty.set Res.cpu 2000000000), allocated := RL.empty }] }
/-- resize marked Infeasible, container 0 reports empty resources -/
def rzEmptyInfeasible : ResizeStatus := { cond := 2, ctrs := [{ name := 0, actuated := some RL.empty, allocated := RL.empty }] }

/-- `getPodRequestUsesStatus = false` is needed: were UseStatusResources passed, an UPDATE of an LSR pod declaring
    1.5 CPUs would be admitted because its status reports 2, and an LS pod declaring batch-cpu because the resize is
    Infeasible and the status reports nothing — neither is Admissible. -/
theorem status_option_counterexample :
    (validateAllowedSt stdRanges true false 1 (rzPod QoS.lsr 1500000000 none) (rzPod QoS.lsr 1500000000 none) rzUp = true ∧
     validateAllowed stdRanges false 1 (rzPod QoS.lsr 1500000000 none) (rzPod QoS.lsr 1500000000 none) = false) ∧
    (validateAllowedSt stdRanges true false 1 (rzPod QoS.ls 2000000000 (some 1000000000000)) (rzPod QoS.ls 2000000000 (some 1000000000000)) rzEmptyInfeasible = true ∧
     validateAllowed stdRanges false 1 (rzPod QoS.ls 2000000000 (some 1000000000000)) (rzPod QoS.ls 2000000000 (some 1000000000000)) = false) := by
  decide

end KoordVerif.C13
