import KoordVerif.Model.C12
namespace KoordVerif.C12
end KoordVerif.C12
