import KoordVerif.Model.C12
import KoordVerif.Model.C12Adjust
import KoordVerif.Proofs.C12
import KoordVerif.Proofs.C12None
import KoordVerif.Proofs.C12ExtStatic
import KoordVerif.Proofs.C12ExtEnv
import KoordVerif.Proofs.C12ExtParse
import KoordVerif.Proofs.C12ExtKind
import KoordVerif.Proofs.C12ExtRule
/-
C12 — property theorems (DESIGN.md §4 C12, Appendix A.5).

A batch is the `[][]ResourceUpdater` handed to LeveledUpdateBatch; `T` is the intended content of
every cgroup directory (the updater's value on the directories of the batch, the current content
elsewhere); `parent` is the cgroup tree; `le` the hierarchy order of the resource (⊆ for CPU sets,
≤ with unlimited on top for limits/protections).  `Valid parent le f` = "the kernel would accept f".
The crash-point quantifier is the universally quantified prefix length `k` of the write sequence.
-/
namespace KoordVerif.C12

variable {α : Type}

/-- the batch is levelled along the tree: the parent of a directory never sits in the same or a later level. -/
def Levelled (parent : Nat → Option Nat) (levels : List (List (Upd α))) : Prop :=
  levels.Pairwise (fun hi lo => ∀ a ∈ hi, ∀ b ∈ lo, parent a.node ≠ some b.node) ∧
  ∀ L ∈ levels, ∀ a ∈ L, ∀ b ∈ L, parent a.node ≠ some b.node

/-- the weaker arrangement that suffices since the second sweep walks a level backwards (fix 4d8d1bf): in the order
    the updaters are listed (level by level) no directory comes before its parent — a parent may share the level of
    its children when it is listed first (cgreconcile: kubepods, burstable, besteffort). -/
def ParentFirst (parent : Nat → Option Nat) (levels : List (List (Upd α))) : Prop :=
  levels.flatten.Pairwise (fun a b => parent a.node ≠ some b.node)

theorem levelled_parentFirst {parent : Nat → Option Nat} {levels : List (List (Upd α))}
    (hlev : Levelled parent levels) : ParentFirst parent levels := by
  unfold ParentFirst
  rw [List.pairwise_flatten]
  refine ⟨fun L hL => ?_, hlev.1⟩
  exact List.pairwise_of_forall_mem_list (fun a ha b hb => hlev.2 L hL a ha b hb)

/-- hypotheses on one batch relative to the file contents `old` at its start. -/
structure BatchOK (levels : List (List (Upd α))) (old T : Nat → α) : Prop where
  /-- every updater carries a value the validator accepts, namely `T` of its directory -/
  tgt : ∀ u ∈ levels.flatten, u.tgt = some (T u.node)
  /-- directories outside the batch keep their content -/
  out : ∀ n, n ∉ nodes levels.flatten → T n = old n
  /-- no directory twice -/
  nodup : (nodes levels.flatten).Nodup

/-! ### helper lemmas (order part) -/

section Order
variable {D : Dom α} {le : α → α → Prop} (hD : DomEq D) (hO : DomOrd D le) (hm : D.mergeable = true)
variable (parent : Nat → Option Nat) (old T : Nat → α)

include hO in
theorem eff_edge (hold : Valid parent le old) (htgt : Valid parent le T) (c p : Nat) (h : parent c = some p) :
    le (eff D (old c) (T c)) (eff D (old p) (T p)) :=
  eff_lub hO _ _ _ (hO.trans _ _ _ (hold c p h) (le_eff_old hO _ _)) (hO.trans _ _ _ (htgt c p h) (le_eff_new hO _ _))

/-- merge pass invariant with the order part: no directory already raised has its parent still waiting. -/
def I1 (D : Dom α) (parent : Nat → Option Nat) (old T : Nat → α) (l : List (Upd α)) (s : St α) : Prop :=
  J1 D old T l s ∧
  (∀ c p, parent c = some p → p ∈ nodes l → c ∉ nodes l → eff D (old c) (T c) = old c) ∧
  l.Pairwise (fun a b => parent a.node ≠ some b.node)

/-- exact pass invariant with the order part: no directory already lowered has a child still waiting. -/
def I2 (D : Dom α) (parent : Nat → Option Nat) (old T : Nat → α) (l : List (Upd α)) (s : St α) : Prop :=
  J2 D old T l s ∧
  (∀ c p, parent c = some p → c ∈ nodes l → p ∉ nodes l → eff D (old p) (T p) = T p) ∧
  l.Pairwise (fun a b => parent b.node ≠ some a.node)

include hO in
theorem I1_valid (hold : Valid parent le old) (htgt : Valid parent le T) (l : List (Upd α)) (s : St α)
    (h : I1 D parent old T l s) : Valid parent le s.files := by
  obtain ⟨⟨_, _, _, _, hf⟩, hcl, _⟩ := h
  intro c p hcp
  rw [hf c, hf p]
  by_cases hc : c ∈ nodes l <;> by_cases hp : p ∈ nodes l <;> simp only [hc, hp, if_true, if_false]
  · exact hold c p hcp
  · exact hO.trans _ _ _ (hold c p hcp) (le_eff_old hO _ _)
  · rw [hcl c p hcp hp hc]; exact hold c p hcp
  · exact eff_edge hO parent old T hold htgt c p hcp

include hO in
theorem I2_valid (hold : Valid parent le old) (htgt : Valid parent le T) (l : List (Upd α)) (s : St α)
    (h : I2 D parent old T l s) : Valid parent le s.files := by
  obtain ⟨⟨_, _, _, _, hf⟩, hcl, _⟩ := h
  intro c p hcp
  rw [hf c, hf p]
  by_cases hc : c ∈ nodes l <;> by_cases hp : p ∈ nodes l <;> simp only [hc, hp, if_true, if_false]
  · exact eff_edge hO parent old T hold htgt c p hcp
  · rw [← hcl c p hcp hc hp]; exact eff_edge hO parent old T hold htgt c p hcp
  · exact hO.trans _ _ _ (htgt c p hcp) (le_eff_new hO _ _)
  · exact htgt c p hcp

theorem mem_nodes {l : List (Upd α)} {n : Nat} (h : n ∈ nodes l) : ∃ u ∈ l, u.node = n := by
  simpa [nodes] using h

include hD hm in
theorem I1_step (exp : Bool) (u : Upd α) (l : List (Upd α)) (s : St α) (h : I1 D parent old T (u :: l) s) :
    I1 D parent old T l (step1 D exp s u).1 ∧
    (((step1 D exp s u).2 = [] ∧ (step1 D exp s u).1.files = s.files) ∨
     (∃ w, (step1 D exp s u).2 = [w] ∧ (step1 D exp s u).1.files = setAt s.files w.1 w.2)) := by
  obtain ⟨hj, hcl, hpw⟩ := h
  obtain ⟨g1, g2⟩ := J1_step hD hm exp old T u l s hj
  rw [List.pairwise_cons] at hpw
  refine ⟨⟨g1, ?_, hpw.2⟩, ?_⟩
  · intro c p hcp hp hc
    by_cases hcu : c = u.node
    · obtain ⟨b, hb, hbn⟩ := mem_nodes hp
      exact absurd (by rw [← hcu, hbn]; exact hcp) (hpw.1 b hb)
    · exact hcl c p hcp (by simp [hp]) (by simp [hcu, hc])
  · rcases g2 with g | g
    · exact Or.inl g
    · exact Or.inr ⟨_, g.1, g.2.1⟩

include hD in
theorem I2_step (exp : Bool) (u : Upd α) (l : List (Upd α)) (s : St α) (h : I2 D parent old T (u :: l) s) :
    I2 D parent old T l (step2 D exp s u).1 ∧
    (((step2 D exp s u).2 = [] ∧ (step2 D exp s u).1.files = s.files) ∨
     (∃ w, (step2 D exp s u).2 = [w] ∧ (step2 D exp s u).1.files = setAt s.files w.1 w.2)) := by
  obtain ⟨hj, hcl, hpw⟩ := h
  obtain ⟨g1, g2⟩ := J2_step hD exp old T u l s hj
  rw [List.pairwise_cons] at hpw
  refine ⟨⟨g1, ?_, hpw.2⟩, ?_⟩
  · intro c p hcp hc hp
    by_cases hpu : p = u.node
    · obtain ⟨b, hb, hbn⟩ := mem_nodes hc
      exact absurd (by rw [← hpu, hbn]; exact hcp) (hpw.1 b hb)
    · exact hcl c p hcp (by simp [hc]) (by simp [hpu, hp])
  · rcases g2 with g | g
    · exact Or.inl g
    · exact Or.inr ⟨_, g.1, g.2.1⟩

end Order

/-! ### what the two passes leave in the files -/

section Main
set_option linter.unusedSectionVars false
variable {D : Dom α} (hD : DomEq D) (hm : D.mergeable = true) (exp : Bool)
include hD hm
variable (levels : List (List (Upd α))) (s : St α) (T : Nat → α)

omit hD hm in
theorem mem_nodes_rev (n : Nat) : n ∈ nodes (sweep2 levels) ↔ n ∈ nodes levels.flatten :=
  (nodes_perm (reverse_flatten_perm levels)).mem_iff

theorem J1_start (hc : CacheOK s) (hb : BatchOK levels s.files T) :
    J1 D s.files T levels.flatten { s with skip := [] } := by
  refine ⟨hc, rfl, hb.nodup, hb.tgt, ?_⟩
  intro n
  by_cases h : n ∈ nodes levels.flatten
  · simp [h]
  · simp only [h, if_false]; rw [hb.out n h]; exact (eff_self hD _).symm

theorem J1_end (hc : CacheOK s) (hb : BatchOK levels s.files T) :
    J1 D s.files T [] (pass1 D exp levels.flatten { s with skip := [] }).1 :=
  runPass_inv (step1 D exp) (J1 D s.files T) (fun u l s' h => (J1_step hD hm exp s.files T u l s' h).1) _ _
    (J1_start hD hm levels s T hc hb)

theorem J2_start (hc : CacheOK s) (hb : BatchOK levels s.files T) :
    J2 D s.files T (sweep2 levels) (pass1 D exp levels.flatten { s with skip := [] }).1 := by
  obtain ⟨g1, g2, _, _, g5⟩ := J1_end hD hm exp levels s T hc hb
  refine ⟨g1, g2, ?_, ?_, ?_⟩
  · exact (nodes_perm (reverse_flatten_perm levels)).nodup_iff.mpr hb.nodup
  · intro u hu; exact hb.tgt u ((reverse_flatten_perm levels).mem_iff.mp hu)
  · intro n
    rw [g5 n]
    by_cases h : n ∈ nodes (sweep2 levels)
    · simp [h]
    · have h' : n ∉ nodes levels.flatten := fun x => h ((mem_nodes_rev levels n).mpr x)
      simp only [h, nodes_nil, List.not_mem_nil, if_false]
      rw [hb.out n h']; exact eff_self hD _

/-- **final_is_target**: when LeveledUpdateBatch returns, every file holds its target value
    (all trees, all values, any level arrangement, fresh or expired cache entries). -/
theorem final_is_target (hc : CacheOK s) (hb : BatchOK levels s.files T) :
    ∀ n, (runBatch D exp levels s).1.files n = T n := by
  have h2 := runPass_inv (step2 D exp) (J2 D s.files T)
    (fun u l s' h => (J2_step hD exp s.files T u l s' h).1) _ _ (J2_start hD hm exp levels s T hc hb)
  obtain ⟨_, _, _, _, g5⟩ := h2
  intro n
  simpa [runBatch, pass1, pass2] using g5 n

/-- the cache describes the files again after the batch (so the next batch starts from `CacheOK`). -/
theorem cache_consistent_after (hc : CacheOK s) (hb : BatchOK levels s.files T) :
    CacheOK (runBatch D exp levels s).1 := by
  have h2 := runPass_inv (step2 D exp) (J2 D s.files T)
    (fun u l s' h => (J2_step hD exp s.files T u l s' h).1) _ _ (J2_start hD hm exp levels s T hc hb)
  exact h2.1

/-- the write sequence is exactly what changed the files. -/
theorem writes_replay (hc : CacheOK s) (hb : BatchOK levels s.files T) :
    applyWrites s.files (runBatch D exp levels s).2 = (runBatch D exp levels s).1.files := by
  have a1 := runPass_apply (step1 D exp) (J1 D s.files T)
    (fun u l s' h => by
      obtain ⟨g1, g2⟩ := J1_step hD hm exp s.files T u l s' h
      refine ⟨g1, ?_⟩
      rcases g2 with g | g
      · rw [g.1, g.2]; rfl
      · rw [g.1, g.2.1]; rfl) _ _ (J1_start hD hm levels s T hc hb)
  have a2 := runPass_apply (step2 D exp) (J2 D s.files T)
    (fun u l s' h => by
      obtain ⟨g1, g2⟩ := J2_step hD exp s.files T u l s' h
      refine ⟨g1, ?_⟩
      rcases g2 with g | g
      · rw [g.1, g.2]; rfl
      · rw [g.1, g.2.1]; rfl) _ _ (J2_start hD hm exp levels s T hc hb)
  simp only [runBatch, applyWrites_append]
  have a1' : applyWrites s.files (pass1 D exp levels.flatten { s with skip := [] }).2 =
      (pass1 D exp levels.flatten { s with skip := [] }).1.files := a1
  rw [a1']
  exact a2

/-- **no_redundant_write**: a file whose value is unchanged (`old n = T n`, in particular every directory
    outside the batch) is never written — for every resource whose write-if-different comparison is
    reflexive (`hrefl`; true for cpuset.cpus, memory.min/low/high and cgroup-v1 cpu.cfs_quota_us). -/
theorem no_redundant_write (hrefl : ∀ a, D.same a a = true) (hc : CacheOK s) (hb : BatchOK levels s.files T) :
    ∀ w ∈ (runBatch D exp levels s).2, s.files w.1 ≠ T w.1 := by
  have w1 := runPass_writes (step1 D exp) (J1 D s.files T) (fun w => s.files w.1 ≠ T w.1)
    (fun u l s' h => by
      obtain ⟨g1, g2⟩ := J1_step hD hm exp s.files T u l s' h
      refine ⟨g1, ?_⟩
      rcases g2 with g | g
      · rw [g.1]; simp
      · rw [g.1]; intro w hw he
        simp only [List.mem_singleton] at hw; subst hw
        simp only at he
        have := g.2.2; rw [he, hD.mergeSelf] at this; exact absurd this (by simp)) _ _
    (J1_start hD hm levels s T hc hb)
  have w2 := runPass_writes (step2 D exp) (J2 D s.files T) (fun w => s.files w.1 ≠ T w.1)
    (fun u l s' h => by
      obtain ⟨g1, g2⟩ := J2_step hD exp s.files T u l s' h
      refine ⟨g1, ?_⟩
      rcases g2 with g | g
      · rw [g.1]; simp
      · rw [g.1]; intro w hw he
        simp only [List.mem_singleton] at hw; subst hw
        simp only at he
        have := g.2.2; rw [he, eff_self hD, hrefl] at this; exact absurd this (by simp)) _ _
    (J2_start hD hm exp levels s T hc hb)
  intro w hw
  simp only [runBatch, List.mem_append] at hw
  rcases hw with hw | hw
  · exact w1 w hw
  · exact w2 w hw

/-- **every_prefix_valid_parent_first**: the crash-point theorem under the weaker arrangement `ParentFirst` (no
    directory is listed before its parent; a parent may sit FIRST in the level of its children): the top-down sweep
    meets a parent before its children, the bottom-up sweep - every level backwards - meets it after them. -/
theorem every_prefix_valid_parent_first {le : α → α → Prop} (hO : DomOrd D le) (parent : Nat → Option Nat)
    (hc : CacheOK s) (hb : BatchOK levels s.files T) (hpf : ParentFirst parent levels)
    (hold : Valid parent le s.files) (htgt : Valid parent le T) :
    ∀ k, Valid parent le (applyWrites s.files ((runBatch D exp levels s).2.take k)) := by
  -- order facts for the two iteration orders
  have pw1 : levels.flatten.Pairwise (fun a b => parent a.node ≠ some b.node) := hpf
  have pw2 : (sweep2 levels).Pairwise (fun a b => parent b.node ≠ some a.node) := by
    rw [sweep2_eq, List.pairwise_reverse]; exact hpf
  have i1 : I1 D parent s.files T levels.flatten { s with skip := [] } := by
    refine ⟨J1_start hD hm levels s T hc hb, ?_, pw1⟩
    intro c p _ _ hcn
    rw [hb.out c hcn]; exact eff_self hD _
  have i2 : I2 D parent s.files T (sweep2 levels) (pass1 D exp levels.flatten { s with skip := [] }).1 := by
    refine ⟨J2_start hD hm exp levels s T hc hb, ?_, pw2⟩
    intro c p _ _ hpn
    have h' : p ∉ nodes levels.flatten := fun x => hpn ((mem_nodes_rev levels p).mpr x)
    rw [hb.out p h']; exact eff_self hD _
  have a := runPass_prefix (step1 D exp) (I1 D parent s.files T) (Valid parent le)
    (I1_valid hO parent s.files T hold htgt) (fun u l s' h => I1_step hD hm parent s.files T exp u l s' h) _ _ i1
  have b := runPass_prefix (step2 D exp) (I2 D parent s.files T) (Valid parent le)
    (I2_valid hO parent s.files T hold htgt) (fun u l s' h => I2_step hD parent s.files T exp u l s' h) _ _ i2
  have a1 := runPass_apply (step1 D exp) (J1 D s.files T)
    (fun u l s' h => by
      obtain ⟨g1, g2⟩ := J1_step hD hm exp s.files T u l s' h
      refine ⟨g1, ?_⟩
      rcases g2 with g | g
      · rw [g.1, g.2]; rfl
      · rw [g.1, g.2.1]; rfl) _ _ (J1_start hD hm levels s T hc hb)
  intro k
  simp only [runBatch]
  apply prefix_append (Valid parent le) s.files _ _ a
  intro k'
  have a1' : applyWrites s.files (runPass (step1 D exp) levels.flatten { s with skip := [] }).2 =
      (pass1 D exp levels.flatten { s with skip := [] }).1.files := a1
  rw [a1']
  exact b k'

/-- **every_prefix_valid**: if the hierarchy is valid before the batch and the target is valid, then after
    every single file write — every prefix of the write sequence, i.e. every crash point — the hierarchy
    is valid.  Holds for any tree depth/shape, any values, fresh or expired cache entries. -/
theorem every_prefix_valid {le : α → α → Prop} (hO : DomOrd D le) (parent : Nat → Option Nat)
    (hc : CacheOK s) (hb : BatchOK levels s.files T) (hlev : Levelled parent levels)
    (hold : Valid parent le s.files) (htgt : Valid parent le T) :
    ∀ k, Valid parent le (applyWrites s.files ((runBatch D exp levels s).2.take k)) :=
  every_prefix_valid_parent_first hD hm exp levels s T hO parent hc hb (levelled_parentFirst hlev) hold htgt

/-- a history of batches, each with its intended assignment: batch i+1 starts from the target of batch i. -/
def HistOK (parent : Nat → Option Nat) (le : α → α → Prop) :
    (Nat → α) → List ((Bool × List (List (Upd α))) × (Nat → α)) → Prop
  | _, [] => True
  | old, b :: bs => BatchOK b.1.2 old b.2 ∧ Levelled parent b.1.2 ∧ Valid parent le b.2 ∧ HistOK parent le b.2 bs

/-- **history_every_prefix_valid**: over any history of rewrites on the same executor (the cache carried
    from batch to batch), starting from a consistent cache and a valid hierarchy, every prefix of the
    concatenated write sequence leaves a valid hierarchy, and the cache stays consistent. -/
theorem history_every_prefix_valid {le : α → α → Prop} (hO : DomOrd D le) (parent : Nat → Option Nat) :
    ∀ (hs : List ((Bool × List (List (Upd α))) × (Nat → α))) (s : St α), CacheOK s → Valid parent le s.files →
      HistOK parent le s.files hs →
      CacheOK (runHistory D (hs.map (·.1)) s).1 ∧
      applyWrites s.files (runHistory D (hs.map (·.1)) s).2 = (runHistory D (hs.map (·.1)) s).1.files ∧
      ∀ k, Valid parent le (applyWrites s.files ((runHistory D (hs.map (·.1)) s).2.take k)) := by
  intro hs
  induction hs with
  | nil => intro s hc hv _; exact ⟨hc, rfl, fun k => by simpa [runHistory, applyWrites] using hv⟩
  | cons b bs ih =>
    intro s hc hv hh
    obtain ⟨hb, hlev, htgt, hrest⟩ := hh
    have hfin : (runBatch D b.1.1 b.1.2 s).1.files = b.2 :=
      funext (final_is_target hD hm b.1.1 b.1.2 s b.2 hc hb)
    have hc' := cache_consistent_after hD hm b.1.1 b.1.2 s b.2 hc hb
    have hrep := writes_replay hD hm b.1.1 b.1.2 s b.2 hc hb
    have hpre := every_prefix_valid hD hm b.1.1 b.1.2 s b.2 hO parent hc hb hlev hv htgt
    obtain ⟨i1, i2, i3⟩ := ih (runBatch D b.1.1 b.1.2 s).1 hc' (by rw [hfin]; exact htgt) (by rw [hfin]; exact hrest)
    simp only [List.map_cons, runHistory]
    refine ⟨i1, ?_, ?_⟩
    · rw [applyWrites_append, hrep]; exact i2
    · apply prefix_append (Valid parent le) s.files _ _ hpre
      intro k; rw [hrep]; exact i3 k

end Main

/-! ### the registered resources are instances -/

/-- CPU-set containment on bitmasks. -/
def subMask (a b : Nat) : Prop := a ||| b = b

instance (a b : Nat) : Decidable (subMask a b) := inferInstanceAs (Decidable (a ||| b = b))

theorem subMask_iff (a b : Nat) : subMask a b ↔ ∀ i, a.testBit i = true → b.testBit i = true := by
  unfold subMask
  constructor
  · intro h i hi; rw [← h]; simp [hi]
  · intro h; apply Nat.eq_of_testBit_eq; intro i
    rw [Nat.testBit_or]
    cases ha : a.testBit i
    · simp
    · simp [h i ha]

/-- `a` no larger than `b`, reading -1 as unlimited. -/
def limLe (a b : Int) : Prop := limKey a ≤ limKey b

theorem cpusetDom_eq : DomEq cpusetDom where
  mergeSelf a := by simp [cpusetDom]
  same_eq c t h := by simpa [cpusetDom] using h
  valEq_eq v t h := by simpa [cpusetDom] using h
  after_eq t v h := by simp [cpusetDom] at h; exact h.symm
  read_eq c v h := by simp [cpusetDom] at h; exact h.symm

theorem cpuset_merge_true (o t : Nat) (h : (cpusetDom.merge o t).2 = true) :
    (cpusetDom.merge o t).1 = t ||| o := by
  simp only [cpusetDom] at h ⊢
  split at h
  · simp at h
  · split at h
    · simp at h
    · next h1 h2 => simp only [h1, h2]; rfl

theorem cpusetDom_ord : DomOrd cpusetDom subMask where
  refl a := Nat.or_self a
  trans a b c h1 h2 := by unfold subMask at *; rw [← h2, ← Nat.or_assoc, h1]
  noMerge o t h := by
    unfold subMask; simp only [cpusetDom] at h
    split at h
    · next e => simp at e; subst e; exact Nat.or_self _
    · split at h
      · next e => simpa using e
      · simp at h
  mergeOld o t h := by
    unfold subMask; rw [cpuset_merge_true o t h, Nat.or_comm t o, ← Nat.or_assoc, Nat.or_self]
  mergeNew o t h := by
    unfold subMask; rw [cpuset_merge_true o t h, ← Nat.or_assoc, Nat.or_self]
  mergeLub o t c h ho ht := by
    unfold subMask at *; rw [cpuset_merge_true o t h, Nat.or_assoc, ho, ht]

theorem limDom_eq : DomEq limDom where
  mergeSelf a := by simp [limDom]
  same_eq c t h := by simpa [limDom] using h
  valEq_eq v t h := by simpa [limDom] using h
  after_eq t v h := by simp [limDom] at h; exact h.symm
  read_eq c v h := by simp [limDom] at h; exact h.symm

theorem limDom_ord : DomOrd limDom limLe where
  refl a := Int.le_refl _
  trans a b c h1 h2 := Int.le_trans h1 h2
  noMerge o t h := by simp [limDom] at h; exact h
  mergeOld o t h := by simp [limDom] at h ⊢; unfold limLe; omega
  mergeNew o t h := by simp [limDom]; exact Int.le_refl _
  mergeLub o t c h ho ht := by simpa [limDom] using ht

theorem cfsV2Dom_eq : DomEq cfsV2Dom where
  mergeSelf a := by simp [cfsV2Dom, limDom]
  same_eq c t h := by simp [cfsV2Dom] at h
  valEq_eq v t h := by simpa [cfsV2Dom, limDom] using h
  after_eq t v h := by
    simp only [cfsV2Dom] at h
    split at h
    · simp at h
    · simp at h; exact h.symm
  read_eq c v h := by simp [cfsV2Dom] at h

theorem cfsV2Dom_ord : DomOrd cfsV2Dom limLe where
  refl a := Int.le_refl _
  trans a b c h1 h2 := Int.le_trans h1 h2
  noMerge o t h := by simp [cfsV2Dom, limDom] at h; exact h
  mergeOld o t h := by simp [cfsV2Dom, limDom] at h ⊢; unfold limLe; omega
  mergeNew o t h := by simp [cfsV2Dom, limDom]; exact Int.le_refl _
  mergeLub o t c h ho ht := by simpa [cfsV2Dom, limDom] using ht

/-- every hierarchical resource of the line protocol (cpu.cfs_quota_us, memory.min/low/high; both cgroup
    versions) is covered by the theorems above; cpuset.cpus by `cpusetDom_eq/ord`. -/
theorem hierarchical_resources_covered (res : Nat) (v2 : Bool) (D : Dom Int) (h : intDomOf res v2 = some D)
    (hr : res ≠ 5) : D.mergeable = true ∧ DomEq D ∧ DomOrd D limLe := by
  unfold intDomOf at h
  split at h
  · cases v2 <;> simp at h <;> subst h
    · exact ⟨rfl, limDom_eq, limDom_ord⟩
    · exact ⟨rfl, cfsV2Dom_eq, cfsV2Dom_ord⟩
  · simp at h; subst h; exact ⟨rfl, limDom_eq, limDom_ord⟩
  · simp at h; subst h; exact ⟨rfl, limDom_eq, limDom_ord⟩
  · simp at h; subst h; exact ⟨rfl, limDom_eq, limDom_ord⟩
  · exact absurd rfl hr
  · simp at h

/-- the no-rewrite clause needs a reflexive write-if-different comparison: true for CPU sets and for the
    numeric files, false for cgroup-v2 cpu.max (kernel shows "<quota> <period>", koordlet writes "<quota>"). -/
theorem same_refl_cpuset (a : Nat) : cpusetDom.same a a = true := by simp [cpusetDom]
theorem same_refl_lim (a : Int) : limDom.same a a = true := by simp [limDom]
theorem cfsV2_rewrites_unchanged_counterexample :
    ¬ (∀ w ∈ (runBatch cfsV2Dom false [[{ node := 0, tgt := some 5000 }]]
          { files := fun _ => 5000, cache := fun _ => none, skip := [] }).2, (5000 : Int) ≠ w.2) := by
  decide

/-! ### BE cpuset two-phase rewrite: applyCPUSetWithNonePolicy -/

theorem subMask_refl (a : Nat) : subMask a a := Nat.or_self a
theorem subMask_trans {a b c : Nat} (h1 : subMask a b) (h2 : subMask b c) : subMask a c :=
  cpusetDom_ord.trans a b c h1 h2
theorem subMask_or_left (a b : Nat) : subMask a (a ||| b) := by
  unfold subMask; rw [← Nat.or_assoc, Nat.or_self]
theorem subMask_or_right (a b : Nat) : subMask b (a ||| b) := by
  unfold subMask; rw [Nat.or_comm a b, ← Nat.or_assoc, Nat.or_self]

section NonePolicy
variable (parent : Nat → Option Nat) (paths : List Nat) (cpus old : Nat) (exp : Bool) (s : St Nat)

/-- pass-1 / pass-2 assignments of the BE dirs -/
def npB1 (paths : List Nat) (cpus old : Nat) (f : Nat → Nat) : Nat → Nat :=
  fun n => if n ∈ paths then old ||| cpus else f n
def npB2 (paths : List Nat) (cpus : Nat) (f : Nat → Nat) : Nat → Nat :=
  fun n => if n ∈ paths then cpus else f n

theorem np_nodes1 (m : Nat) : nodes (paths.map fun n => ({ node := n, tgt := some m } : Upd Nat)) = paths := by
  simp [nodes, List.map_map, Function.comp_def]
theorem np_nodes2 (m : Nat) :
    nodes (paths.reverse.map fun n => ({ node := n, tgt := some m } : Upd Nat)) = paths.reverse := by
  simp [nodes, List.map_map, Function.comp_def]

theorem np_JC1 (hc : CacheOK s) (hnd : paths.Nodup) :
    JC s.files (npB1 paths cpus old s.files)
      (paths.map fun n => ({ node := n, tgt := some (old ||| cpus) } : Upd Nat)) s := by
  refine ⟨hc, by rw [np_nodes1]; exact hnd, ?_, ?_⟩
  · intro u hu
    simp only [List.mem_map] at hu
    obtain ⟨n, hn, rfl⟩ := hu
    simp [npB1, hn]
  · intro n; rw [np_nodes1]
    by_cases h : n ∈ paths <;> simp [npB1, h]

theorem np_JC2 (hnd : paths.Nodup) (s1 : St Nat) (hc : CacheOK s1)
    (hf : ∀ n, s1.files n = npB1 paths cpus old s.files n) :
    JC (npB1 paths cpus old s.files) (npB2 paths cpus s.files)
      (paths.reverse.map fun n => ({ node := n, tgt := some cpus } : Upd Nat)) s1 := by
  refine ⟨hc, by rw [np_nodes2]; exact (List.reverse_perm paths).nodup_iff.mpr hnd, ?_, ?_⟩
  · intro u hu
    simp only [List.mem_map, List.mem_reverse] at hu
    obtain ⟨n, hn, rfl⟩ := hu
    simp [npB2, hn]
  · intro n; rw [np_nodes2, hf n]
    by_cases h : n ∈ paths <;> simp [npB1, npB2, h]

/-- state after pass 1 -/
theorem np_after1 (hc : CacheOK s) (hnd : paths.Nodup) :
    CacheOK (runPass (stepCached cpusetDom exp)
        (paths.map fun n => ({ node := n, tgt := some (old ||| cpus) } : Upd Nat)) s).1 ∧
    ∀ n, (runPass (stepCached cpusetDom exp)
        (paths.map fun n => ({ node := n, tgt := some (old ||| cpus) } : Upd Nat)) s).1.files n =
      npB1 paths cpus old s.files n := by
  have h := runPass_inv (stepCached cpusetDom exp) (JC s.files (npB1 paths cpus old s.files))
    (fun u l s' h => (JC_step cpusetDom_eq exp _ _ u l s' h).1) _ _ (np_JC1 paths cpus old s hc hnd)
  exact ⟨h.1, fun n => by simpa using h.2.2.2 n⟩

/-- **none_policy_final_is_target**: after applyCPUSetWithNonePolicy with a non-empty new set every BE dir
    (besteffort, pods, containers) holds exactly the new set, and no other file changed. -/
theorem none_policy_final_is_target (hcpus : cpus ≠ 0) (hc : CacheOK s) (hnd : paths.Nodup) :
    (∀ n ∈ paths, (nonePolicy exp paths cpus old s).1.files n = cpus) ∧
    (∀ n, n ∉ paths → (nonePolicy exp paths cpus old s).1.files n = s.files n) := by
  obtain ⟨c1, f1⟩ := np_after1 paths cpus old exp s hc hnd
  have h := runPass_inv (stepCached cpusetDom exp) (JC (npB1 paths cpus old s.files) (npB2 paths cpus s.files))
    (fun u l s' h => (JC_step cpusetDom_eq exp _ _ u l s' h).1) _ _ (np_JC2 paths cpus old s hnd _ c1 f1)
  have hfin : ∀ n, (nonePolicy exp paths cpus old s).1.files n = npB2 paths cpus s.files n := by
    intro n; simpa [nonePolicy, hcpus] using h.2.2.2 n
  exact ⟨fun n hn => by rw [hfin n]; simp [npB2, hn], fun n hn => by rw [hfin n]; simp [npB2, hn]⟩

/-- **none_policy_every_prefix_valid**: `paths` lists a dir before everything below it (filepath.Walk order,
    `htop`), `parent` is the tree of the BE dirs (`hin`), every BE dir is currently within `oldCPUSet`
    (`hcov`; the caller passes the besteffort dir's own cpuset) and the BE subtree is valid (`hold`).  Then after
    every single write of the two-phase rewrite — any old/new sets: grow, shrink, shift — every child's CPU set
    is contained in its parent's. -/
theorem none_policy_every_prefix_valid (hc : CacheOK s) (hnd : paths.Nodup)
    (htop : paths.Pairwise (fun a b => parent a ≠ some b))
    (hin : ∀ c p, parent c = some p → c ∈ paths ∧ p ∈ paths)
    (hcov : ∀ n ∈ paths, subMask (s.files n) old)
    (hold : Valid parent subMask s.files) :
    ∀ k, Valid parent subMask (applyWrites s.files ((nonePolicy exp paths cpus old s).2.take k)) := by
  by_cases hcpus : cpus = 0
  · intro k; simpa [nonePolicy, hcpus, applyWrites] using hold
  -- edge facts
  have vB1 : Valid parent subMask (npB1 paths cpus old s.files) := by
    intro c p h; obtain ⟨h1, h2⟩ := hin c p h; simp [npB1, h1, h2, subMask_refl]
  have vB2 : Valid parent subMask (npB2 paths cpus s.files) := by
    intro c p h; obtain ⟨h1, h2⟩ := hin c p h; simp [npB2, h1, h2, subMask_refl]
  have vAB : ∀ c p, parent c = some p → subMask (s.files c) (npB1 paths cpus old s.files p) := by
    intro c p h; obtain ⟨h1, h2⟩ := hin c p h
    simp only [npB1, h2, if_true]
    exact subMask_trans (hcov c h1) (subMask_or_left old cpus)
  have vBA : ∀ c p, parent c = some p → subMask (npB2 paths cpus s.files c) (npB1 paths cpus old s.files p) := by
    intro c p h; obtain ⟨h1, h2⟩ := hin c p h
    simp only [npB1, npB2, h1, h2, if_true]
    exact subMask_or_right old cpus
  -- pass 1
  have k1 : KTop parent s.files (npB1 paths cpus old s.files)
      (paths.map fun n => ({ node := n, tgt := some (old ||| cpus) } : Upd Nat)) s := by
    refine ⟨np_JC1 paths cpus old s hc hnd, ?_, ?_⟩
    · intro c p h _; rw [np_nodes1]; exact (hin c p h).1
    · rw [List.pairwise_map]; exact htop
  have a := runPass_prefix (stepCached cpusetDom exp) (KTop parent s.files (npB1 paths cpus old s.files))
    (Valid parent subMask) (KTop_valid parent subMask _ _ hold vB1 vAB)
    (fun u l s' h => KTop_step parent _ _ cpusetDom_eq exp u l s' h) _ _ k1
  have a1 := runPass_apply (stepCached cpusetDom exp) (JC s.files (npB1 paths cpus old s.files))
    (fun u l s' h => by
      obtain ⟨g1, g2⟩ := JC_step cpusetDom_eq exp _ _ u l s' h
      refine ⟨g1, ?_⟩
      rcases g2 with g | ⟨w, g⟩
      · rw [g.1, g.2]; rfl
      · rw [g.1, g.2]; rfl) _ _ (np_JC1 paths cpus old s hc hnd)
  -- pass 2
  obtain ⟨c1, f1⟩ := np_after1 paths cpus old exp s hc hnd
  have k2 : KBot parent (npB1 paths cpus old s.files) (npB2 paths cpus s.files)
      (paths.reverse.map fun n => ({ node := n, tgt := some cpus } : Upd Nat))
      (runPass (stepCached cpusetDom exp)
        (paths.map fun n => ({ node := n, tgt := some (old ||| cpus) } : Upd Nat)) s).1 := by
    refine ⟨np_JC2 paths cpus old s hnd _ c1 f1, ?_, ?_⟩
    · intro c p h _; rw [np_nodes2]; exact List.mem_reverse.mpr (hin c p h).2
    · rw [List.pairwise_map, List.pairwise_reverse]; exact htop
  have b := runPass_prefix (stepCached cpusetDom exp)
    (KBot parent (npB1 paths cpus old s.files) (npB2 paths cpus s.files))
    (Valid parent subMask) (KBot_valid parent subMask _ _ vB1 vB2 vBA)
    (fun u l s' h => KBot_step parent _ _ cpusetDom_eq exp u l s' h) _ _ k2
  intro k
  simp only [nonePolicy, hcpus, if_false]
  apply prefix_append (Valid parent subMask) s.files _ _ a
  intro k'
  rw [a1]; exact b k'

end NonePolicy

/-! ### kubelet static policy: recover besteffort + pods, then write the containers -/

section StaticPolicy
variable (parent : Nat → Option Nat) (paths : List Nat) (depth : Nat → Nat) (R cpus : Nat) (exp : Bool) (s : St Nat)

/-- dirs written by recoverCPUSetIfNeed(PodCgroupPathRelativeDepth) / by applyCPUSetWithStaticPolicy -/
def spUpper (paths : List Nat) (depth : Nat → Nat) : List Nat := paths.filter fun n => decide (depth n ≤ podDepth)
def spCtrs (paths : List Nat) (depth : Nat → Nat) : List Nat := paths.filter fun n => depth n == ctrDepth

/-- the state the static-policy branch leaves: besteffort dir and pod dirs hold the recovered share pool `R`,
    container dirs the suppressed set `cpus` (untouched when `cpus` is empty), everything else is untouched. -/
def spFinal (paths : List Nat) (depth : Nat → Nat) (R cpus : Nat) (f : Nat → Nat) : Nat → Nat := fun n =>
  if n ∈ paths ∧ depth n ≤ 1 then R
  else if n ∈ paths ∧ depth n = 2 ∧ cpus ≠ 0 then cpus
  else f n

theorem sp_mem_upper (n : Nat) : n ∈ spUpper paths depth ↔ n ∈ paths ∧ depth n ≤ 1 := by
  simp only [spUpper, podDepth, List.mem_filter]
  constructor
  · rintro ⟨h1, h2⟩; exact ⟨h1, of_decide_eq_true h2⟩
  · rintro ⟨h1, h2⟩; exact ⟨h1, decide_eq_true h2⟩
theorem sp_mem_ctrs (n : Nat) : n ∈ spCtrs paths depth ↔ n ∈ paths ∧ depth n = 2 := by
  simp [spCtrs, ctrDepth]

theorem sp_unfold :
    staticPolicy exp paths depth (some R) cpus s =
      (if cpus = 0 then
        runPass (stepCached cpusetDom exp) ((spUpper paths depth).map fun n => { node := n, tgt := some R }) s
       else
        ((runPass (stepCached cpusetDom exp) ((spCtrs paths depth).map fun n => { node := n, tgt := some cpus })
            (runPass (stepCached cpusetDom exp) ((spUpper paths depth).map fun n => { node := n, tgt := some R }) s).1).1,
         (runPass (stepCached cpusetDom exp) ((spUpper paths depth).map fun n => { node := n, tgt := some R }) s).2 ++
         (runPass (stepCached cpusetDom exp) ((spCtrs paths depth).map fun n => { node := n, tgt := some cpus })
            (runPass (stepCached cpusetDom exp) ((spUpper paths depth).map fun n => { node := n, tgt := some R }) s).1).2)) := by
  by_cases h : cpus = 0
  · simp [staticPolicy, recoverIfNeed, applyStatic, spUpper, h]
  · simp [staticPolicy, recoverIfNeed, applyStatic, spUpper, spCtrs, h]

/-- **static_policy_final**: after the static-policy branch (calcBECPUSet succeeded with `R`) the besteffort dir
    and every pod dir hold `R`, every container dir holds the suppressed set (when it is non-empty), and no
    other file changed — for every tree, start state and cache state. -/
theorem static_policy_final (hc : CacheOK s) (hnd : paths.Nodup) :
    ∀ n, (staticPolicy exp paths depth (some R) cpus s).1.files n = spFinal paths depth R cpus s.files n := by
  have hndU : (spUpper paths depth).Nodup := hnd.sublist List.filter_sublist
  have hndC : (spCtrs paths depth).Nodup := hnd.sublist List.filter_sublist
  obtain ⟨c1, f1, _⟩ := c_after exp (spUpper paths depth) R s hc hndU
  intro n
  rw [sp_unfold]
  by_cases h : cpus = 0
  · simp only [h, if_true]
    rw [f1 n]
    simp only [cB, sp_mem_upper, spFinal]
    by_cases hu : n ∈ paths ∧ depth n ≤ 1 <;> simp [hu]
  · simp only [h, if_false]
    obtain ⟨_, f2, _⟩ := c_after exp (spCtrs paths depth) cpus _ c1 hndC
    rw [f2 n]
    simp only [cB, sp_mem_ctrs, spFinal]
    rw [f1 n]
    simp only [cB, sp_mem_upper]
    by_cases hu : n ∈ paths ∧ depth n ≤ 1
    · have hd : depth n ≠ 2 := by omega
      simp [hu, hd]
    · by_cases h2 : n ∈ paths ∧ depth n = 2 <;> simp [hu, h2, h]

/-- **static_policy_every_prefix_valid**: `paths` = the walked BE dirs (a dir before everything below it, `htop`),
    `parent`/`depth` the tree of these dirs (besteffort 0, pods 1, containers 2: `hin`, `hdep`, `hmax`), every BE dir
    currently within the share pool `R` that calcBECPUSet returns (`hcov`), the suppressed set within `R` (`hcpus`),
    the subtree valid at start (`hold`).  Then after every single write of
    recoverCPUSetIfNeed(pod depth) ; applyCPUSetWithStaticPolicy — in this order — every child's CPU set is
    contained in its parent's. -/
theorem static_policy_every_prefix_valid (hc : CacheOK s) (hnd : paths.Nodup)
    (htop : paths.Pairwise (fun a b => parent a ≠ some b))
    (hin : ∀ c p, parent c = some p → c ∈ paths ∧ p ∈ paths)
    (hdep : ∀ c p, parent c = some p → depth c = depth p + 1)
    (hmax : ∀ n ∈ paths, depth n ≤ 2)
    (hcov : ∀ n ∈ paths, subMask (s.files n) R)
    (hcpus : subMask cpus R)
    (hold : Valid parent subMask s.files) :
    ∀ k, Valid parent subMask (applyWrites s.files ((staticPolicy exp paths depth (some R) cpus s).2.take k)) := by
  have hndU : (spUpper paths depth).Nodup := hnd.sublist List.filter_sublist
  have hndC : (spCtrs paths depth).Nodup := hnd.sublist List.filter_sublist
  have htopU : (spUpper paths depth).Pairwise (fun a b => parent a ≠ some b) := htop.sublist List.filter_sublist
  have htopC : (spCtrs paths depth).Pairwise (fun a b => parent a ≠ some b) := htop.sublist List.filter_sublist
  -- the parent of an edge is always a dir written by the recover step
  have hpU : ∀ c p, parent c = some p → p ∈ spUpper paths depth := by
    intro c p h
    obtain ⟨h1, h2⟩ := hin c p h
    have := hdep c p h; have := hmax c h1
    exact (sp_mem_upper paths depth p).mpr ⟨h2, by omega⟩
  have hpC : ∀ c p, parent c = some p → p ∉ spCtrs paths depth := by
    intro c p h hp
    have := (sp_mem_upper paths depth p).mp (hpU c p h)
    have := (sp_mem_ctrs paths depth p).mp hp
    omega
  -- F1 = assignment after the recover step
  have f1cov : ∀ n, n ∈ paths → subMask (cB (spUpper paths depth) R s.files n) R := by
    intro n hn
    by_cases h : n ∈ spUpper paths depth <;> simp only [cB, h, if_true, if_false]
    · exact subMask_refl R
    · exact hcov n hn
  have vF1 : Valid parent subMask (cB (spUpper paths depth) R s.files) := by
    intro c p h
    have : cB (spUpper paths depth) R s.files p = R := by simp [cB, hpU c p h]
    rw [this]; exact f1cov c (hin c p h).1
  have a := c_prefix parent subMask exp (spUpper paths depth) R s hc hndU htopU hold vF1
    (by intro c p h
        have : cB (spUpper paths depth) R s.files p = R := by simp [cB, hpU c p h]
        rw [this]; exact hcov c (hin c p h).1)
  obtain ⟨c1, f1, r1⟩ := c_after exp (spUpper paths depth) R s hc hndU
  intro k
  rw [sp_unfold]
  by_cases h0 : cpus = 0
  · simp only [h0, if_true]; exact a k
  · simp only [h0, if_false]
    have hf1 : (runPass (stepCached cpusetDom exp)
        ((spUpper paths depth).map fun n => ({ node := n, tgt := some R } : Upd Nat)) s).1.files =
        cB (spUpper paths depth) R s.files := funext f1
    have vF2 : Valid parent subMask (cB (spCtrs paths depth) cpus (cB (spUpper paths depth) R s.files)) := by
      intro c p h
      have hp : cB (spCtrs paths depth) cpus (cB (spUpper paths depth) R s.files) p = R := by
        simp [cB, hpU c p h, hpC c p h]
      rw [hp]
      by_cases hcc : c ∈ spCtrs paths depth <;> simp only [cB, hcc, if_true, if_false]
      · exact hcpus
      · exact f1cov c (hin c p h).1
    have b := c_prefix parent subMask exp (spCtrs paths depth) cpus _ c1 hndC htopC
      (by rw [hf1]; exact vF1) (by rw [hf1]; exact vF2)
      (by rw [hf1]; intro c p h
          have : cB (spCtrs paths depth) cpus (cB (spUpper paths depth) R s.files) p =
              cB (spUpper paths depth) R s.files p := by simp [cB, hpC c p h]
          rw [this]; exact vF1 c p h)
    apply prefix_append (Valid parent subMask) s.files _ _ a
    intro k'
    rw [r1]; exact b k'

end StaticPolicy

/-- the ORDER of the two steps matters: containers first, pods afterwards (the swapped order) passes through an
    invalid hierarchy on the tree besteffort(0) ← pod(1) ← container(2), all dirs on 0-3 (left by a none-policy
    round), share pool 0-7, new suppressed set 2-5 — although the end state is the same. -/
def spExParent : Nat → Option Nat
  | 1 => some 0 | 2 => some 1 | _ => none
def spExS : St Nat := { files := fun n => if n ≤ 2 then 15 else 0, cache := fun _ => none, skip := [] }
def spSwapped : St Nat × List (Write Nat) :=
  let r2 := applyStatic false [0, 1, 2] (fun n => n) 60 spExS
  let r1 := recoverIfNeed false [0, 1, 2] (fun n => n) podDepth (some 255) r2.1
  (r1.1, r2.2 ++ r1.2)

theorem static_policy_swapped_order_counterexample :
    ¬ (∀ k, Valid spExParent subMask (applyWrites spExS.files (spSwapped.2.take k))) ∧
    (∀ n, n ≤ 3 → spSwapped.1.files n = (staticPolicy false [0, 1, 2] (fun n => n) (some 255) 60 spExS).1.files n) := by
  refine ⟨fun h => ?_, by decide⟩
  have := h 1 2 1 rfl
  revert this; decide

/-- static-policy non-vacuity: the same tree and values in the order the code uses. -/
example : (staticPolicy false [0, 1, 2] (fun n => n) (some 255) 60 spExS).2 = [(0, 255), (1, 255), (2, 60)] := by decide
example : ∀ k, Valid spExParent subMask (applyWrites spExS.files
    ((staticPolicy false [0, 1, 2] (fun n => n) (some 255) 60 spExS).2.take k)) :=
  static_policy_every_prefix_valid spExParent [0, 1, 2] (fun n => n) 255 60 false spExS
    (by intro n v h; simp [spExS] at h) (by decide) (by simp [spExParent])
    (by intro c p h; unfold spExParent at h; split at h <;> cases h <;> simp)
    (by intro c p h; unfold spExParent at h; split at h <;> cases h <;> rfl)
    (by intro n hn; simp at hn; rcases hn with h | h | h <;> subst h <;> decide)
    (by intro n hn; simp at hn; rcases hn with h | h | h <;> subst h <;> decide)
    (by decide)
    (by intro c p h; unfold spExParent at h; split at h <;> cases h <;> decide)

/-! ### directories that do not exist while a batch runs (ignored-error / write-failure `continue` branches) -/

/-- the tree of the existing directories: an edge counts only when both ends exist. -/
def liveParent (parent : Nat → Option Nat) (ex : Nat → Bool) : Nat → Option Nat := fun c =>
  match parent c with
  | some p => if ex c && ex p then some p else none
  | none => none

/-- intended content: the target on the existing directories, untouched elsewhere. -/
def liveT (ex : Nat → Bool) (old T : Nat → α) : Nat → α := fun n => if ex n then T n else old n

theorem liveParent_some {parent : Nat → Option Nat} {ex : Nat → Bool} {c p : Nat}
    (h : liveParent parent ex c = some p) : parent c = some p ∧ ex c = true ∧ ex p = true := by
  unfold liveParent at h
  split at h
  · next q hq =>
    split at h
    · next hex => cases h; simp only [Bool.and_eq_true] at hex; exact ⟨hq, hex.1, hex.2⟩
    · cases h
  · cases h

theorem live_flatten (ex : Nat → Bool) (levels : List (List (Upd α))) :
    (liveLevels ex levels).flatten = levels.flatten.filter fun u => ex u.node :=
  (filter_flatten' _ levels).symm

theorem mem_live_flatten {ex : Nat → Bool} {levels : List (List (Upd α))} {u : Upd α} :
    u ∈ (liveLevels ex levels).flatten ↔ u ∈ levels.flatten ∧ ex u.node = true := by
  rw [live_flatten, List.mem_filter]

theorem liveBatchOK (ex : Nat → Bool) (levels : List (List (Upd α))) (old T : Nat → α)
    (hb : BatchOK levels old T) : BatchOK (liveLevels ex levels) old (liveT ex old T) where
  tgt := by
    intro u hu
    obtain ⟨h1, h2⟩ := mem_live_flatten.mp hu
    simp only [liveT, h2, if_true]; exact hb.tgt u h1
  out := by
    intro n hn
    by_cases he : ex n = true
    · simp only [liveT, he, if_true]
      apply hb.out
      intro hmem
      apply hn
      obtain ⟨u, hu, rfl⟩ := mem_nodes hmem
      exact List.mem_map_of_mem (mem_live_flatten.mpr ⟨hu, he⟩)
    · simp [liveT, he]
  nodup := by
    rw [live_flatten]
    exact hb.nodup.sublist (List.Sublist.map _ List.filter_sublist)

theorem liveLevelled (parent : Nat → Option Nat) (ex : Nat → Bool) (levels : List (List (Upd α)))
    (h : Levelled parent levels) : Levelled (liveParent parent ex) (liveLevels ex levels) := by
  refine ⟨?_, ?_⟩
  · unfold liveLevels
    rw [List.pairwise_map]
    refine h.1.imp ?_
    intro hi lo hh a ha b hb hp
    exact hh a (List.mem_filter.mp ha).1 b (List.mem_filter.mp hb).1 (liveParent_some hp).1
  · intro L hL a ha b hb hp
    unfold liveLevels at hL
    obtain ⟨L0, hL0, rfl⟩ := List.mem_map.mp hL
    exact h.2 L0 hL0 a (List.mem_filter.mp ha).1 b (List.mem_filter.mp hb).1 (liveParent_some hp).1

section MissingDirs
set_option linter.unusedSectionVars false
variable {D : Dom α} (hD : DomEq D) (hm : D.mergeable = true) (exp : Bool)
variable (ex : Nat → Bool) (levels : List (List (Upd α))) (s : St α) (T : Nat → α)
include hD hm

/-- **missing_dirs_final**: when some directories of the batch do not exist, every existing file still ends on its
    target and nothing else changes. -/
theorem missing_dirs_final (hc : CacheOK s) (hb : BatchOK levels s.files T) :
    ∀ n, (runBatchE D exp ex levels s).1.files n = if ex n then T n else s.files n := by
  intro n
  rw [runBatchE_eq]
  exact final_is_target hD hm exp _ s _ hc (liveBatchOK ex levels s.files T hb) n

/-- **missing_dirs_cache_consistent**: the cache still describes the files, and NO cache entry is made or changed
    for a directory that does not exist (a failed / ignored update is not recorded as done). -/
theorem missing_dirs_cache_consistent (hc : CacheOK s) (hb : BatchOK levels s.files T) :
    CacheOK (runBatchE D exp ex levels s).1 ∧
    ∀ n, ex n = false → (runBatchE D exp ex levels s).1.cache n = s.cache n := by
  refine ⟨?_, ?_⟩
  · rw [runBatchE_eq]
    exact cache_consistent_after hD hm exp _ s _ hc (liveBatchOK ex levels s.files T hb)
  · intro n hn
    simp only [runBatchE, runPass_stepE]
    rw [runPass_cache_frame _ (fun s u m h => step2_cache_frame D exp s u m h) _ _ n (nodes_filter_ex ex _ n hn),
        runPass_cache_frame _ (fun s u m h => step1_cache_frame D exp s u m h) _ _ n (nodes_filter_ex ex _ n hn)]

theorem missing_dirs_writes_replay (hc : CacheOK s) (hb : BatchOK levels s.files T) :
    applyWrites s.files (runBatchE D exp ex levels s).2 = (runBatchE D exp ex levels s).1.files := by
  rw [runBatchE_eq]
  exact writes_replay hD hm exp _ s _ hc (liveBatchOK ex levels s.files T hb)

/-- **missing_dirs_every_prefix_valid**: with any set of directories missing during the batch, every prefix of the
    write sequence leaves the tree of the EXISTING directories valid (start and target valid on that tree). -/
theorem missing_dirs_every_prefix_valid {le : α → α → Prop} (hO : DomOrd D le) (parent : Nat → Option Nat)
    (hc : CacheOK s) (hb : BatchOK levels s.files T) (hlev : Levelled parent levels)
    (hold : Valid (liveParent parent ex) le s.files) (htgt : Valid (liveParent parent ex) le T) :
    ∀ k, Valid (liveParent parent ex) le (applyWrites s.files ((runBatchE D exp ex levels s).2.take k)) := by
  rw [runBatchE_eq]
  apply every_prefix_valid hD hm exp _ s _ hO _ hc (liveBatchOK ex levels s.files T hb)
    (liveLevelled parent ex levels hlev) hold
  intro c p h
  obtain ⟨_, h1, h2⟩ := liveParent_some h
  simp only [liveT, h1, h2, if_true]
  exact htgt c p h

omit hD hm in
theorem liveParentFirst (parent : Nat → Option Nat) (hpf : ParentFirst parent levels) :
    ParentFirst (liveParent parent ex) (liveLevels ex levels) := by
  unfold ParentFirst at *
  rw [live_flatten]
  exact (hpf.filter _).imp (fun h hp => h (liveParent_some hp).1)

/-- **missing_dirs_every_prefix_valid_parent_first**: the same under `ParentFirst` (a parent may be listed first in the
    level of its children). -/
theorem missing_dirs_every_prefix_valid_parent_first {le : α → α → Prop} (hO : DomOrd D le) (parent : Nat → Option Nat)
    (hc : CacheOK s) (hb : BatchOK levels s.files T) (hpf : ParentFirst parent levels)
    (hold : Valid (liveParent parent ex) le s.files) (htgt : Valid (liveParent parent ex) le T) :
    ∀ k, Valid (liveParent parent ex) le (applyWrites s.files ((runBatchE D exp ex levels s).2.take k)) := by
  rw [runBatchE_eq]
  apply every_prefix_valid_parent_first hD hm exp _ s _ hO _ hc (liveBatchOK ex levels s.files T hb)
    (liveParentFirst ex levels parent hpf) hold
  intro c p h
  obtain ⟨_, h1, h2⟩ := liveParent_some h
  simp only [liveT, h1, h2, if_true]
  exact htgt c p h

end MissingDirs

/-! ### histories with a changing set of directories: batches, and the runtime creating / removing cgroups -/

inductive Ev (α : Type) where
  /-- one LeveledUpdateBatch (cache expired?, updaters) with its intended assignment -/
  | batch (exp : Bool) (levels : List (List (Upd α))) (T : Nat → α)
  /-- the runtime creates directory `n` with content `v` -/
  | create (n : Nat) (v : α)
  /-- directory `n` disappears -/
  | remove (n : Nat)

/-- state of a history: executor + files, and which directories exist. -/
def evStep (D : Dom α) : St α × (Nat → Bool) → Ev α → St α × (Nat → Bool)
  | (s, ex), .batch exp levels _ => ((runBatchE D exp ex levels s).1, ex)
  | (s, ex), .create n v => ({ s with files := setAt s.files n v }, setAt ex n true)
  | (s, ex), .remove n => (s, setAt ex n false)

/-- what the environment must respect: a created directory is new for the executor (no cache entry — the code
    never records a directory it could not write — or an entry equal to the content), lies within its existing
    parent, and its children do not exist yet. -/
def EvsOK (D : Dom α) (parent : Nat → Option Nat) (le : α → α → Prop) : St α × (Nat → Bool) → List (Ev α) → Prop
  | _, [] => True
  | (s, ex), e :: es =>
    (match e with
     | .batch _ levels T => BatchOK levels s.files T ∧ Levelled parent levels ∧ Valid (liveParent parent ex) le T
     | .create n v => ex n = false ∧ (s.cache n = none ∨ s.cache n = some v) ∧
         (∀ p, parent n = some p → ex p = true → le v (s.files p)) ∧ (∀ c, parent c = some n → ex c = false)
     | .remove _ => True) ∧
    EvsOK D parent le (evStep D (s, ex) e) es

/-- every crash point of every batch of the history leaves the existing tree valid. -/
def AllPrefixesValid (D : Dom α) (parent : Nat → Option Nat) (le : α → α → Prop) :
    St α × (Nat → Bool) → List (Ev α) → Prop
  | _, [] => True
  | (s, ex), e :: es =>
    (match e with
     | .batch exp levels _ =>
         ∀ k, Valid (liveParent parent ex) le (applyWrites s.files ((runBatchE D exp ex levels s).2.take k))
     | _ => True) ∧
    AllPrefixesValid D parent le (evStep D (s, ex) e) es

/-- **churn_history_every_prefix_valid**: over any history of batches interleaved with the runtime creating and
    removing cgroup directories (under `EvsOK`), from a consistent cache and a valid existing tree, every crash
    point of every batch leaves the existing tree valid. -/
theorem churn_history_every_prefix_valid {D : Dom α} (hD : DomEq D) (hm : D.mergeable = true)
    {le : α → α → Prop} (hO : DomOrd D le) (parent : Nat → Option Nat) :
    ∀ (es : List (Ev α)) (s : St α) (ex : Nat → Bool), CacheOK s → Valid (liveParent parent ex) le s.files →
      EvsOK D parent le (s, ex) es → AllPrefixesValid D parent le (s, ex) es := by
  intro es
  induction es with
  | nil => intro s ex _ _ _; trivial
  | cons e es ih =>
    intro s ex hc hv hok
    obtain ⟨he, hrest⟩ := hok
    cases e with
    | batch exp levels T =>
      obtain ⟨hb, hlev, htgt⟩ := he
      have hpre := missing_dirs_every_prefix_valid hD hm exp ex levels s T hO parent hc hb hlev hv htgt
      refine ⟨hpre, ?_⟩
      apply ih _ _ (missing_dirs_cache_consistent hD hm exp ex levels s T hc hb).1 ?_ hrest
      have hfin := missing_dirs_final hD hm exp ex levels s T hc hb
      intro c p h
      obtain ⟨_, h1, h2⟩ := liveParent_some h
      show le ((runBatchE D exp ex levels s).1.files c) ((runBatchE D exp ex levels s).1.files p)
      rw [hfin c, hfin p]; simp only [h1, h2, if_true]; exact htgt c p h
    | create n v =>
      obtain ⟨hex, hcache, hle, hkids⟩ := he
      refine ⟨trivial, ?_⟩
      apply ih _ _ ?_ ?_ hrest
      · intro m x hx
        simp only [setAt] at hx ⊢
        by_cases hmn : m = n
        · subst hmn; simp only [if_true]
          rcases hcache with h | h <;> rw [h] at hx <;> cases hx; rfl
        · simp only [hmn, if_false]; exact hc m x hx
      · intro c p h
        obtain ⟨hp, h1, h2⟩ := liveParent_some h
        simp only [setAt] at h1 h2 ⊢
        by_cases hcn : c = n
        · subst hcn
          by_cases hpn : p = c
          · subst hpn; simp only [if_true]; exact hO.refl v
          · simp only [if_true, hpn, if_false] at h2 ⊢
            exact hle p hp h2
        · simp only [hcn, if_false] at h1 ⊢
          by_cases hpn : p = n
          · subst hpn; rw [hkids c hp] at h1; cases h1
          · simp only [hpn, if_false] at h2 ⊢
            apply hv c p
            simp [liveParent, hp, h1, h2]
    | remove n =>
      refine ⟨trivial, ?_⟩
      apply ih _ _ hc ?_ hrest
      intro c p h
      obtain ⟨hp, h1, h2⟩ := liveParent_some h
      simp only [setAt] at h1 h2
      apply hv c p
      by_cases hcn : c = n
      · simp [hcn] at h1
      · by_cases hpn : p = n
        · simp [hpn] at h2
        · simp only [hcn, hpn, if_false] at h1 h2
          simp [liveParent, hp, h1, h2]

/-- churn non-vacuity (memory.high-like limits, tree 0 ← 1): dir 1 does not exist during the first batch (targets
    200000 / 150000), the runtime then creates it with its parent's 200000, the second batch asks 150000 for both:
    the child is lowered first, nothing was cached for it while it was missing. -/
def chEvs : List (Ev Int) :=
  [.batch false [[{ node := 0, tgt := some 200000 }], [{ node := 1, tgt := some 150000 }]] (fun n => if n = 0 then 200000 else 150000),
   .create 1 200000,
   .batch false [[{ node := 0, tgt := some 150000 }], [{ node := 1, tgt := some 150000 }]] (fun _ => 150000)]
def chS : St Int := { files := fun n => if n = 0 then 100000 else 150000, cache := fun _ => none, skip := [] }
def chEx : Nat → Bool := fun n => n != 1
def chParent : Nat → Option Nat
  | 1 => some 0 | _ => none

example : (runBatchE limDom false chEx [[{ node := 0, tgt := some 200000 }], [{ node := 1, tgt := some 150000 }]] chS).2 =
    [(0, 200000)] := by decide
example : (runBatchE limDom false (fun _ => true) [[{ node := 0, tgt := some 150000 }], [{ node := 1, tgt := some 150000 }]]
    (evStep limDom (evStep limDom (chS, chEx) chEvs[0]) chEvs[1]).1).2 = [(1, 150000), (0, 150000)] := by decide
example : ((runBatchE limDom false chEx [[{ node := 0, tgt := some 200000 }], [{ node := 1, tgt := some 150000 }]] chS).1.cache 1) = none := by
  decide

/-! ### the string layer: what koordlet reads from / writes to the cgroup files (Model/C12Parse.lean) -/

/-- **str_dec_roundtrip**: strconv.ParseInt reads back what strconv.Itoa printed (any bit size that holds it). -/
theorem str_dec_roundtrip (bits n : Nat) (h : n ≤ 2 ^ (bits - 1) - 1) : parseIntGo bits (showDec n) = some (n : Int) :=
  parseIntGo_showDec bits n h

/-- **str_cpuset_roundtrip**: cpuset.Parse (CPUSet.String s) = s for every set of CPU ids ≤ 4096. -/
theorem str_cpuset_roundtrip (m : Nat) (h : m < 2 ^ 4097) : parseCpuset (fmtCpuset m) = some m :=
  cpuset_roundtrip_log2 m h

/-- … and NOT beyond: Parse does not range-check single elements, String joins them into a range, and Parse rejects
    a range ending above maxAvailableCPUCount: "4100,4101" parses, its printed form "4100-4101" does not. -/
theorem str_cpuset_roundtrip_beyond_4096_counterexample :
    ¬ (parseCpuset ['4', '1', '0', '0', ',', '4', '1', '0', '1'] ≠ none →
       parseCpuset ['4', '1', '0', '0', '-', '4', '1', '0', '1'] ≠ none) := by
  decide

/-- **str_merge_cpuset_sound**: on any two strings that parse, MergeConditionIfCPUSetIsLooser agrees with the
    value-level `cpusetDom.merge` (flag, and the returned string parses to the merged set). -/
theorem str_merge_cpuset_sound (old new : List Char) (o t : Nat)
    (ho : parseCpuset old = some o) (ht : parseCpuset new = some t) (hb : t ||| o < 2 ^ 4097) :
    ∃ str, mcCpuset old new = some (str, (cpusetDom.merge o t).2) ∧
      parseCpuset str = some (cpusetDom.merge o t).1 :=
  merge_condition_cpuset_sound old new o t ho ht hb

/-- **str_same_cpuset_sound**: IsEqualStrCpus (the write-if-different test of cpuset.cpus) is `cpusetDom.same`. -/
theorem str_same_cpuset_sound (a b : List Char) (x y : Nat) (ha : parseCpuset a = some x) (hb : parseCpuset b = some y) :
    eqStrCpus a b = cpusetDom.same x y := eqStrCpus_sound a b x y ha hb

/-- **str_merge_limit_sound**: memory.min/low/high ("max" = unlimited), cgroup-v1 cpu.cfs_quota_us (file shows "-1")
    and cgroup-v2 cpu.max (file shows "<quota|max> <period>"): the merge conditions on the strings return the new
    string and the flag of `limDom.merge` / `cfsV2Dom.merge`. -/
theorem str_merge_limit_sound (o t : Int) (p : Nat) (ho : -1 ≤ o ∧ o ≤ maxInt64) (ht : -1 ≤ t ∧ t ≤ maxInt64) :
    mcValueLarger (fmtLim o) (fmtLim t) = some (fmtLim t, (limDom.merge o t).2) ∧
    mcCfsQuota false (fmtCfsV1 o) (fmtLim t) = some (fmtLim t, (limDom.merge o t).2) ∧
    mcCfsQuota true (fmtCfsV2 o p) (fmtLim t) = some (fmtLim t, (cfsV2Dom.merge o t).2) :=
  ⟨merge_condition_value_larger_sound o t ho ht, merge_condition_cfs_v1_sound o t ho ht,
   merge_condition_cfs_v2_sound o t p ho ht⟩

/-- malformed input is an error, never a value: the shapes the builder listed. -/
example : parseCpuset "1-".toList = none ∧ parseCpuset "0-1-2".toList = none ∧ parseCpuset "3,,4".toList = none ∧
    parseCpuset "abc".toList = none ∧ parseCpuset " 1".toList = none ∧ parseCpuset "0-4097".toList = none ∧
    parseCpuset "".toList = some 0 ∧ parseCpuset "5-3".toList = some 0 ∧ parseCpuset "0-1,3".toList = some 11 ∧
    parseCfsV2 "max 100000".toList = some (-1) ∧ parseCfsV2 "max".toList = none ∧ parseCfsV2 "5000 100000".toList = some 5000 ∧
    parseLimNew "max".toList = some maxInt64 ∧ parseLimNew "-1".toList = some maxInt64 ∧ parseLimNew "-5".toList = some (-5) ∧
    parseLimNew "1.5".toList = none ∧ mcCfsQuota false "max".toList "5".toList = none := by decide

/-! ### no file is ever rewritten with the value it already holds -/

/-- every write of the sequence `ws`, applied from `f`, changes the file it writes. -/
def FreshWrites (f : Nat → α) (ws : List (Write α)) : Prop :=
  ∀ k w, ws[k]? = some w → applyWrites f (ws.take k) w.1 ≠ w.2

theorem freshWrites_append (f : Nat → α) (a b : List (Write α))
    (ha : FreshWrites f a) (hb : FreshWrites (applyWrites f a) b) : FreshWrites f (a ++ b) := by
  intro k w hk
  by_cases h : k < a.length
  · rw [List.getElem?_append_left h] at hk
    have := ha k w hk
    rwa [List.take_append_of_le_length (by omega)]
  · have hk' : k - a.length + a.length = k := by omega
    rw [List.getElem?_append_right (by omega)] at hk
    have := hb (k - a.length) w hk
    rw [List.take_append, applyWrites_append, List.take_of_length_le (by omega)]
    exact this

theorem runPass_fresh (step : St α → Upd α → St α × List (Write α)) (I : List (Upd α) → St α → Prop)
    (hstep : ∀ u l s, I (u :: l) s → I l (step s u).1 ∧
      (((step s u).2 = [] ∧ (step s u).1.files = s.files) ∨
       (∃ w, (step s u).2 = [w] ∧ (step s u).1.files = setAt s.files w.1 w.2 ∧ s.files w.1 ≠ w.2))) :
    ∀ l s, I l s → FreshWrites s.files (runPass step l s).2 := by
  intro l
  induction l with
  | nil => intro s _ k w hk; simp [runPass] at hk
  | cons u l ih =>
    intro s h
    obtain ⟨h1, h2⟩ := hstep u l s h
    simp only [runPass]
    rcases h2 with ⟨he, hf⟩ | ⟨w0, he, hf, hne⟩
    · rw [he, List.nil_append, ← hf]; exact ih _ h1
    · rw [he]
      apply freshWrites_append
      · intro k w hk
        cases k with
        | zero => simp at hk; subst hk; simpa [applyWrites] using hne
        | succ k => simp at hk
      · simp only [applyWrites]; rw [← hf]; exact ih _ h1

section Fresh
set_option linter.unusedSectionVars false
variable {D : Dom α} (hD : DomEq D) (hm : D.mergeable = true) (exp : Bool)
variable (levels : List (List (Upd α))) (s : St α) (T : Nat → α)
include hD hm

/-- **no_write_of_held_value**: no write of a batch stores the value the file holds at that moment (second half of the
    no-rewrite clause), for every resource whose merged value differs from the old one when the merge condition fires
    (`hmc`: union with a non-subset / a strictly larger limit) and whose write-if-different test is reflexive. -/
theorem no_write_of_held_value (hmc : ∀ o t, (D.merge o t).2 = true → (D.merge o t).1 ≠ o)
    (hrefl : ∀ a, D.same a a = true) (hc : CacheOK s) (hb : BatchOK levels s.files T) :
    FreshWrites s.files (runBatch D exp levels s).2 := by
  have a := runPass_fresh (step1 D exp) (J1 D s.files T)
    (fun u l s' h => by
      obtain ⟨g1, g2⟩ := J1_step hD hm exp s.files T u l s' h
      refine ⟨g1, ?_⟩
      rcases g2 with g | g
      · exact Or.inl g
      · refine Or.inr ⟨_, g.1, g.2.1, ?_⟩
        have hf : s'.files u.node = s.files u.node := by simpa using h.2.2.2.2 u.node
        simp only [hf, eff, g.2.2, if_true]
        exact (hmc _ _ g.2.2).symm) _ _ (J1_start hD hm levels s T hc hb)
  have b := runPass_fresh (step2 D exp) (J2 D s.files T)
    (fun u l s' h => by
      obtain ⟨g1, g2⟩ := J2_step hD exp s.files T u l s' h
      refine ⟨g1, ?_⟩
      rcases g2 with g | g
      · exact Or.inl g
      · refine Or.inr ⟨_, g.1, g.2.1, ?_⟩
        have hf : s'.files u.node = eff D (s.files u.node) (T u.node) := by simpa using h.2.2.2.2 u.node
        simp only [hf]
        intro he
        have := g.2.2; rw [he, hrefl] at this; exact absurd this (by simp)) _ _ (J2_start hD hm exp levels s T hc hb)
  have a1 := runPass_apply (step1 D exp) (J1 D s.files T)
    (fun u l s' h => by
      obtain ⟨g1, g2⟩ := J1_step hD hm exp s.files T u l s' h
      refine ⟨g1, ?_⟩
      rcases g2 with g | g
      · rw [g.1, g.2]; rfl
      · rw [g.1, g.2.1]; rfl) _ _ (J1_start hD hm levels s T hc hb)
  simp only [runBatch]
  apply freshWrites_append _ _ _ a
  rw [a1]
  exact b

end Fresh

theorem merge_changes_cpuset (o t : Nat) (h : (cpusetDom.merge o t).2 = true) : (cpusetDom.merge o t).1 ≠ o := by
  simp only [cpusetDom] at h ⊢
  split at h
  · simp at h
  · split at h
    · simp at h
    · next h1 h2 =>
      simp only [h1, h2, if_false, Bool.false_eq_true]
      intro he
      exact h2 (by simpa using he)

theorem merge_changes_lim (o t : Int) (h : (limDom.merge o t).2 = true) : (limDom.merge o t).1 ≠ o := by
  simp only [limDom, decide_eq_true_eq] at h ⊢
  intro he; subst he; omega

/-! ### multi-round suppression histories that switch the kubelet policy between rounds -/

/-- one call of applyBESuppressCPUSet: static or none policy, cache entries expired?, the new suppressed set. -/
structure Round where
  static : Bool
  exp : Bool
  cpus : Nat

/-- the caller (adjustByCPUSet) passes the besteffort dir's current cpuset as oldCPUSet. -/
def runRound (paths : List Nat) (depth : Nat → Nat) (R root : Nat) (s : St Nat) (r : Round) : St Nat × List (Write Nat) :=
  if r.static then staticPolicy r.exp paths depth (some R) r.cpus s
  else nonePolicy r.exp paths r.cpus (s.files root) s

def runRounds (paths : List Nat) (depth : Nat → Nat) (R root : Nat) : List Round → St Nat → St Nat × List (Write Nat)
  | [], s => (s, [])
  | r :: rs, s =>
    let x := runRound paths depth R root s r
    let y := runRounds paths depth R root rs x.1
    (y.1, x.2 ++ y.2)

theorem sp_after (paths : List Nat) (depth : Nat → Nat) (R cpus : Nat) (exp : Bool) (s : St Nat)
    (hc : CacheOK s) (hnd : paths.Nodup) :
    CacheOK (staticPolicy exp paths depth (some R) cpus s).1 ∧
    applyWrites s.files (staticPolicy exp paths depth (some R) cpus s).2 =
      (staticPolicy exp paths depth (some R) cpus s).1.files := by
  have hndU : (spUpper paths depth).Nodup := hnd.sublist List.filter_sublist
  have hndC : (spCtrs paths depth).Nodup := hnd.sublist List.filter_sublist
  obtain ⟨c1, _, r1⟩ := c_after exp (spUpper paths depth) R s hc hndU
  rw [sp_unfold]
  by_cases h : cpus = 0
  · simp only [h, if_true]; exact ⟨c1, r1⟩
  · simp only [h, if_false]
    obtain ⟨c2, _, r2⟩ := c_after exp (spCtrs paths depth) cpus _ c1 hndC
    exact ⟨c2, by rw [applyWrites_append, r1, r2]⟩

theorem np_after (paths : List Nat) (cpus old : Nat) (exp : Bool) (s : St Nat) (hc : CacheOK s) (hnd : paths.Nodup) :
    CacheOK (nonePolicy exp paths cpus old s).1 ∧
    applyWrites s.files (nonePolicy exp paths cpus old s).2 = (nonePolicy exp paths cpus old s).1.files := by
  unfold nonePolicy
  by_cases h : cpus = 0
  · simp only [h, if_true]; exact ⟨hc, rfl⟩
  · simp only [h, if_false]
    obtain ⟨c1, _, r1⟩ := c_after exp paths (old ||| cpus) s hc hnd
    obtain ⟨c2, _, r2⟩ := c_after exp paths.reverse cpus _ c1 ((List.reverse_perm paths).nodup_iff.mpr hnd)
    exact ⟨c2, by rw [applyWrites_append, r1, r2]⟩

section Rounds
variable (parent : Nat → Option Nat) (paths : List Nat) (depth : Nat → Nat) (R root : Nat)

/-- what every round starts from and re-establishes. -/
def RoundInv (parent : Nat → Option Nat) (paths : List Nat) (R root : Nat) (s : St Nat) : Prop :=
  CacheOK s ∧ Valid parent subMask s.files ∧ (∀ n ∈ paths, subMask (s.files n) R) ∧
  (∀ n ∈ paths, subMask (s.files n) (s.files root))

/-- **suppress_history_every_prefix_valid**: any sequence of applyBESuppressCPUSet rounds on one executor — static and
    none policy in any order, every new set within the share pool `R`, the besteffort dir's own set as oldCPUSet — keeps
    the BE subtree valid after every single write, and re-establishes the start condition for the next round. -/
theorem suppress_history_every_prefix_valid (hnd : paths.Nodup)
    (htop : paths.Pairwise (fun a b => parent a ≠ some b))
    (hin : ∀ c p, parent c = some p → c ∈ paths ∧ p ∈ paths)
    (hdep : ∀ c p, parent c = some p → depth c = depth p + 1)
    (hmax : ∀ n ∈ paths, depth n ≤ 2)
    (hroot : root ∈ paths ∧ depth root = 0) :
    ∀ (rs : List Round) (s : St Nat), (∀ r ∈ rs, subMask r.cpus R) → RoundInv parent paths R root s →
      RoundInv parent paths R root (runRounds paths depth R root rs s).1 ∧
      ∀ k, Valid parent subMask (applyWrites s.files ((runRounds paths depth R root rs s).2.take k)) := by
  intro rs
  induction rs with
  | nil => intro s _ hi; exact ⟨hi, fun k => by simpa [runRounds, applyWrites] using hi.2.1⟩
  | cons r rs ih =>
    intro s hcp hi
    obtain ⟨hc, hv, hR, hroot'⟩ := hi
    have hr := hcp r (by simp)
    -- one round: prefixes valid, replay, invariant afterwards
    have hone : (∀ k, Valid parent subMask (applyWrites s.files ((runRound paths depth R root s r).2.take k))) ∧
        applyWrites s.files (runRound paths depth R root s r).2 = (runRound paths depth R root s r).1.files ∧
        CacheOK (runRound paths depth R root s r).1 ∧
        (∀ n ∈ paths, subMask ((runRound paths depth R root s r).1.files n) R) ∧
        (∀ n ∈ paths, subMask ((runRound paths depth R root s r).1.files n) ((runRound paths depth R root s r).1.files root)) := by
      unfold runRound
      by_cases hs : r.static = true
      · simp only [hs, if_true]
        have hp := static_policy_every_prefix_valid parent paths depth R r.cpus r.exp s hc hnd htop hin hdep hmax hR hr hv
        obtain ⟨c', rep⟩ := sp_after paths depth R r.cpus r.exp s hc hnd
        have hfin := static_policy_final paths depth R r.cpus r.exp s hc hnd
        have hrootv : (staticPolicy r.exp paths depth (some R) r.cpus s).1.files root = R := by
          rw [hfin root]; simp [spFinal, hroot.1, hroot.2]
        have hall : ∀ n ∈ paths, subMask ((staticPolicy r.exp paths depth (some R) r.cpus s).1.files n) R := by
          intro n hn
          rw [hfin n]
          unfold spFinal
          split
          · exact subMask_refl R
          · split
            · exact hr
            · exact hR n hn
        exact ⟨hp, rep, c', hall, fun n hn => by rw [hrootv]; exact hall n hn⟩
      · simp only [hs, if_false, Bool.false_eq_true]
        have hp := none_policy_every_prefix_valid parent paths r.cpus (s.files root) r.exp s hc hnd htop hin hroot' hv
        obtain ⟨c', rep⟩ := np_after paths r.cpus (s.files root) r.exp s hc hnd
        by_cases h0 : r.cpus = 0
        · have e : nonePolicy r.exp paths r.cpus (s.files root) s = (s, []) := by simp [nonePolicy, h0]
          rw [e] at hp rep c' ⊢
          exact ⟨hp, rep, c', hR, hroot'⟩
        · obtain ⟨f1, _⟩ := none_policy_final_is_target paths r.cpus (s.files root) r.exp s h0 hc hnd
          refine ⟨hp, rep, c', fun n hn => by rw [f1 n hn]; exact hr, fun n hn => ?_⟩
          rw [f1 n hn, f1 root hroot.1]; exact subMask_refl _
    obtain ⟨hp, rep, c', hR', hroot''⟩ := hone
    have hv' : Valid parent subMask (runRound paths depth R root s r).1.files := by
      have := hp (runRound paths depth R root s r).2.length
      rwa [List.take_length, rep] at this
    obtain ⟨i1, i2⟩ := ih (runRound paths depth R root s r).1 (fun x hx => hcp x (by simp [hx])) ⟨c', hv', hR', hroot''⟩
    simp only [runRounds]
    refine ⟨i1, ?_⟩
    apply prefix_append (Valid parent subMask) s.files _ _ hp
    intro k; rw [rep]; exact i2 k

end Rounds

/-- when calcBECPUSet fails (NodeCPUInfo missing) the static branch skips the recover step but still writes the
    containers: outside the theorem's hypothesis, and indeed not safe (same tree and values as above). -/
theorem static_policy_recover_failed_counterexample :
    ¬ (∀ k, Valid spExParent subMask (applyWrites spExS.files
        ((staticPolicy false [0, 1, 2] (fun n => n) none 60 spExS).2.take k))) := by
  intro h
  have := h 1 2 1 rfl
  revert this; decide

/-- policy-switching non-vacuity: besteffort(0) ← pod(1) ← container(2), all on 0-3, pool 0-7; static → 2-5, none → 2-3,
    static → 0-1: the write sequence, and all hypotheses of suppress_history_every_prefix_valid hold on it. -/
def spRounds : List Round := [⟨true, false, 60⟩, ⟨false, false, 12⟩, ⟨true, false, 3⟩]
example : (runRounds [0, 1, 2] (fun n => n) 255 0 spRounds spExS).2 =
    [(0, 255), (1, 255), (2, 60), (2, 255), (2, 12), (1, 12), (0, 12), (0, 255), (1, 255), (2, 3)] := by decide
example : ∀ k, Valid spExParent subMask (applyWrites spExS.files
    ((runRounds [0, 1, 2] (fun n => n) 255 0 spRounds spExS).2.take k)) :=
  (suppress_history_every_prefix_valid spExParent [0, 1, 2] (fun n => n) 255 0 (by decide) (by simp [spExParent])
    (by intro c p h; unfold spExParent at h; split at h <;> cases h <;> simp)
    (by intro c p h; unfold spExParent at h; split at h <;> cases h <;> rfl)
    (by intro n hn; simp at hn; rcases hn with h | h | h <;> subst h <;> decide)
    ⟨by simp, rfl⟩ spRounds spExS (by decide)
    ⟨by intro n v h; simp [spExS] at h,
     by intro c p h; unfold spExParent at h; split at h <;> cases h <;> decide,
     by intro n hn; simp at hn; rcases hn with h | h | h <;> subst h <;> decide,
     by intro n hn; simp at hn; rcases hn with h | h | h <;> subst h <;> decide⟩).2

/-! ### non-vacuity: a CPU-set *shift* on a 3-level tree (0 ← 1 ← 2, 0 ← 3) -/

def exParent : Nat → Option Nat
  | 1 => some 0 | 2 => some 1 | 3 => some 0 | _ => none
def exOld : Nat → Nat := fun n => if n ≤ 3 then 3 else 0        -- every directory 0-1
def exT : Nat → Nat := fun n => if n ≤ 3 then 12 else 0         -- every directory 2-3
def exLevels : List (List (Upd Nat)) :=
  [[{ node := 0, tgt := some 12 }], [{ node := 3, tgt := some 12 }, { node := 1, tgt := some 12 }], [{ node := 2, tgt := some 12 }]]
def exS : St Nat := { files := exOld, cache := fun _ => none, skip := [] }

example : (runBatch cpusetDom false exLevels exS).2 =
    [(0, 15), (3, 15), (1, 15), (2, 15), (2, 12), (1, 12), (3, 12), (0, 12)] := by decide
theorem ex_cacheOK : CacheOK exS := by intro n v h; simp [exS] at h
theorem ex_batchOK : BatchOK exLevels exS.files exT where
  tgt := by decide
  out := by
    intro n hn
    have : ¬ n ≤ 3 := by
      intro h; apply hn
      have : n = 0 ∨ n = 1 ∨ n = 2 ∨ n = 3 := by omega
      rcases this with h | h | h | h <;> subst h <;> decide
    simp [exT, exS, exOld, this]
  nodup := by decide
theorem ex_levelled : Levelled exParent exLevels := by
  refine ⟨?_, ?_⟩
  · simp [exLevels, exParent]
  · intro L hL a ha b hb
    simp [exLevels] at hL
    rcases hL with h | h | h <;> subst h <;> simp at ha hb
    · subst ha; subst hb; simp [exParent]
    · rcases ha with ha | ha <;> rcases hb with hb | hb <;> subst ha <;> subst hb <;> simp [exParent]
    · subst ha; subst hb; simp [exParent]
theorem ex_valid : Valid exParent subMask exS.files ∧ Valid exParent subMask exT := by
  refine ⟨?_, ?_⟩ <;> intro c p h <;> unfold exParent at h <;> split at h <;> cases h <;> decide

/-- none-policy non-vacuity: besteffort dir 0 with pod 1 (container 2) and pod 3, all on 0-3, shifted to 2-4. -/
example : (nonePolicy false [0, 1, 2, 3] 28 15 { files := fun n => if n ≤ 3 then 15 else 0, cache := fun _ => none, skip := [] }).2 =
    [(0, 31), (1, 31), (2, 31), (3, 31), (3, 28), (2, 28), (1, 28), (0, 28)] := by decide
example : ∀ k, Valid exParent subMask (applyWrites (fun n => if n ≤ 3 then 15 else 0)
    ((nonePolicy false [0, 1, 2, 3] 28 15 { files := fun n => if n ≤ 3 then 15 else 0, cache := fun _ => none, skip := [] }).2.take k)) :=
  none_policy_every_prefix_valid exParent [0, 1, 2, 3] 28 15 false
    { files := fun n => if n ≤ 3 then 15 else 0, cache := fun _ => none, skip := [] }
    (by intro n v h; simp at h) (by decide) (by simp [exParent])
    (by intro c p h; unfold exParent at h; split at h <;> cases h <;> simp)
    (by intro n hn; simp at hn; rcases hn with h | h | h | h <;> subst h <;> decide)
    (by intro c p h; unfold exParent at h; split at h <;> cases h <;> decide)

/-- all hypotheses of the main theorems hold on the shift example, so their conclusions apply to it. -/
example : (∀ k, Valid exParent subMask (applyWrites exS.files ((runBatch cpusetDom false exLevels exS).2.take k))) ∧
    (∀ n, (runBatch cpusetDom false exLevels exS).1.files n = exT n) ∧
    (∀ w ∈ (runBatch cpusetDom false exLevels exS).2, exS.files w.1 ≠ exT w.1) :=
  ⟨every_prefix_valid cpusetDom_eq rfl false exLevels exS exT cpusetDom_ord exParent ex_cacheOK ex_batchOK ex_levelled
      ex_valid.1 ex_valid.2,
   final_is_target cpusetDom_eq rfl false exLevels exS exT ex_cacheOK ex_batchOK,
   no_redundant_write cpusetDom_eq rfl false exLevels exS exT same_refl_cpuset ex_cacheOK ex_batchOK⟩

example : FreshWrites exS.files (runBatch cpusetDom false exLevels exS).2 :=
  no_write_of_held_value cpusetDom_eq rfl false exLevels exS exT merge_changes_cpuset same_refl_cpuset ex_cacheOK ex_batchOK

/-! ### updaters of mixed kinds: the leveled rewrite is safe only when every updater is mergeable -/

/-- **leveled_batch_valid_needs_mergeable**: a LeveledUpdateBatch whose updater OBJECTS are all mergeable (whatever
    constructor produced them) leaves a valid hierarchy after every single write, ends on its target and keeps the
    cache consistent — also with directories missing.  The hypothesis is about each updater, not about the resource:
    it is what the callers' constructors must deliver (Ties: tie_leveled_call_sites). -/
theorem leveled_batch_valid_needs_mergeable {D : Dom α} (hD : DomEq D) {le : α → α → Prop} (hO : DomOrd D le)
    (exp : Bool) (ex : Nat → Bool) (levels : List (List (UpdK α))) (s : St α) (T : Nat → α)
    (parent : Nat → Option Nat) (hk : AllMergeable levels)
    (hc : CacheOK s) (hb : BatchOK (eraseKinds levels) s.files T) (hlev : Levelled parent (eraseKinds levels))
    (hold : Valid (liveParent parent ex) le s.files) (htgt : Valid (liveParent parent ex) le T) :
    (∀ k, Valid (liveParent parent ex) le (applyWrites s.files ((runBatchK D exp ex levels s).2.take k))) ∧
    (∀ n, (runBatchK D exp ex levels s).1.files n = liveT ex s.files T n) ∧
    CacheOK (runBatchK D exp ex levels s).1 := by
  rw [runBatchK_all_mergeable D exp ex levels s hk]
  exact ⟨missing_dirs_every_prefix_valid (domEq_withKind hD true) rfl exp ex _ s T (domOrd_withKind hO true) parent hc hb hlev
      hold htgt,
    missing_dirs_final (domEq_withKind hD true) rfl exp ex _ s T hc hb,
    (missing_dirs_cache_consistent (domEq_withKind hD true) rfl exp ex _ s T hc hb).1⟩

/-- the shrink of the cpu-normalization callbacks (ratio 1.0 → 1.5) on pod(0) ← container(1): cpu.cfs_quota_us
    200000 / 150000 → 133334 / 100000. -/
def kdParent : Nat → Option Nat
  | 1 => some 0 | _ => none
def kdS : St Int := { files := fun n => if n = 0 then 200000 else 150000, cache := fun _ => none, skip := [] }
def kdLevels (podKind : Bool) : List (List (UpdK Int)) :=
  [[{ node := 0, tgt := some 133334, mergeable := podKind }], [{ node := 1, tgt := some 100000, mergeable := true }]]

/-- **leveled_batch_nonmergeable_counterexample**: the same batch with ONE updater built by a non-mergeable
    constructor (same update function, same final contents) writes the pod exactly in the top-down sweep: after the
    first write the container holds 150000 under a pod of 133334. -/
theorem leveled_batch_nonmergeable_counterexample :
    ¬ (∀ k, Valid kdParent limLe (applyWrites kdS.files ((runBatchK limDom false (fun _ => true) (kdLevels false) kdS).2.take k))) ∧
    (runBatchK limDom false (fun _ => true) (kdLevels false) kdS).2 = [(0, 133334), (1, 100000)] ∧
    (runBatchK limDom false (fun _ => true) (kdLevels true) kdS).2 = [(1, 100000), (0, 133334)] := by
  refine ⟨fun h => ?_, by decide, by decide⟩
  have := h 1 1 0 rfl
  unfold limLe at this; revert this; decide

/-- memory.min / memory.low back to ZERO (cgreconcile, minLimitPercent 100 → 0) on qos(0) ← pod(1) ← container(2),
    1 GiB everywhere: with the updaters of target 0 built by the common (non-mergeable) constructor the qos cgroup is
    zeroed first. -/
def kzParent : Nat → Option Nat
  | 1 => some 0 | 2 => some 1 | _ => none
def kzS : St Int := { files := fun n => if n ≤ 2 then 1073741824 else 0, cache := fun _ => none, skip := [] }
def kzLevels (k : Bool) : List (List (UpdK Int)) :=
  [[{ node := 0, tgt := some 0, mergeable := k }], [{ node := 1, tgt := some 0, mergeable := k }],
   [{ node := 2, tgt := some 0, mergeable := k }]]

theorem zero_target_nonmergeable_counterexample :
    ¬ (∀ k, Valid kzParent limLe (applyWrites kzS.files ((runBatchK limDom false (fun _ => true) (kzLevels false) kzS).2.take k))) ∧
    (runBatchK limDom false (fun _ => true) (kzLevels false) kzS).2 = [(0, 0), (1, 0), (2, 0)] ∧
    (runBatchK limDom false (fun _ => true) (kzLevels true) kzS).2 = [(2, 0), (1, 0), (0, 0)] := by
  refine ⟨fun h => ?_, by decide, by decide⟩
  have := h 1 1 0 rfl
  unfold limLe at this; revert this; decide

/-- **leveled_batch_valid_parent_first**: leveled_batch_valid_needs_mergeable under the weaker arrangement: all updater
    objects mergeable and no directory listed before its parent (a parent may sit first in its children's level). -/
theorem leveled_batch_valid_parent_first {D : Dom α} (hD : DomEq D) {le : α → α → Prop} (hO : DomOrd D le)
    (exp : Bool) (ex : Nat → Bool) (levels : List (List (UpdK α))) (s : St α) (T : Nat → α)
    (parent : Nat → Option Nat) (hk : AllMergeable levels)
    (hc : CacheOK s) (hb : BatchOK (eraseKinds levels) s.files T) (hpf : ParentFirst parent (eraseKinds levels))
    (hold : Valid (liveParent parent ex) le s.files) (htgt : Valid (liveParent parent ex) le T) :
    ∀ k, Valid (liveParent parent ex) le (applyWrites s.files ((runBatchK D exp ex levels s).2.take k)) := by
  rw [runBatchK_all_mergeable D exp ex levels s hk]
  exact missing_dirs_every_prefix_valid_parent_first (domEq_withKind hD true) rfl exp ex _ s T (domOrd_withKind hO true)
    parent hc hb hpf hold htgt

/-- cgreconcile's qos level: calculateResources puts the kubepods root (Guaranteed, node 0) in the SAME level as its
    children burstable (1) and besteffort (2), kubepods first; memory.min 1.25 GiB → 0 with one burstable pod. -/
def slParent : Nat → Option Nat
  | 1 => some 0 | 2 => some 0 | _ => none
def slS : St Int := { files := fun n => if n ≤ 1 then 1342177280 else 0, cache := fun _ => none, skip := [] }
def slLevels : List (List (UpdK Int)) :=
  [[{ node := 0, tgt := some 0, mergeable := true }, { node := 1, tgt := some 0, mergeable := true },
    { node := 2, tgt := some 0, mergeable := true }]]

/-- **same_level_parent_child_counterexample** (the OLD order, before fix 4d8d1bf): with the bottom-up sweep walking a
    level forwards, kubepods is lowered BEFORE burstable on a shrink — all updaters mergeable, the batch is `ParentFirst`
    but not `Levelled`. -/
theorem same_level_parent_child_counterexample :
    AllMergeable slLevels ∧ ¬ Levelled slParent (eraseKinds slLevels) ∧ ParentFirst slParent (eraseKinds slLevels) ∧
    (runBatchKOld limDom false (fun _ => true) slLevels slS).2 = [(0, 0), (1, 0)] ∧
    ¬ (∀ k, Valid slParent limLe (applyWrites slS.files ((runBatchKOld limDom false (fun _ => true) slLevels slS).2.take k))) := by
  refine ⟨by decide, fun h => ?_, ?_, by decide, fun h => ?_⟩
  · exact h.2 _ (List.mem_cons_self ..) { node := 1, tgt := some 0 } (by simp [UpdK.upd])
      { node := 0, tgt := some 0 } (by simp [UpdK.upd]) rfl
  · simp [ParentFirst, eraseKinds, slLevels, UpdK.upd, slParent]
  · have := h 1 1 0 rfl
    unfold limLe at this; revert this; decide

/-- **same_level_parent_first_valid**: the same batch in the order the code uses now (every level backwards on the
    way up): burstable is lowered first, kubepods last, every prefix valid - by the general theorem. -/
theorem same_level_parent_first_valid :
    (runBatchK limDom false (fun _ => true) slLevels slS).2 = [(1, 0), (0, 0)] ∧
    ∀ k, Valid (liveParent slParent fun _ => true) limLe
      (applyWrites slS.files ((runBatchK limDom false (fun _ => true) slLevels slS).2.take k)) := by
  refine ⟨by decide, ?_⟩
  apply leveled_batch_valid_parent_first limDom_eq limDom_ord false (fun _ => true) slLevels slS (fun _ => 0) slParent
    (by decide)
  · intro n v h; simp [slS] at h
  · refine ⟨by decide, ?_, by decide⟩
    intro n hn
    have : ¬ n ≤ 1 := by
      intro h; apply hn
      have : n = 0 ∨ n = 1 := by omega
      rcases this with h | h <;> subst h <;> decide
    simp [slS, this]
  · simp [ParentFirst, eraseKinds, slLevels, UpdK.upd, slParent]
  · intro c p h
    have h' := (liveParent_some h).1
    unfold slParent at h'
    split at h' <;> cases h' <;> (unfold limLe; decide)
  · intro c p _; exact Int.le_refl _

/-- **child_first_same_level_counterexample** (`ParentFirst` is necessary): burstable listed BEFORE kubepods in one
    level, growth 0 → 1.25 GiB: the top-down sweep raises the child first. -/
theorem child_first_same_level_counterexample :
    ¬ (∀ k, Valid slParent limLe (applyWrites (fun _ => (0 : Int))
        ((runBatchK limDom false (fun _ => true)
          [[{ node := 1, tgt := some 1342177280, mergeable := true }, { node := 0, tgt := some 1342177280, mergeable := true }]]
          { files := fun _ => 0, cache := fun _ => none, skip := [] }).2.take k))) := by
  intro h
  have := h 1 1 0 rfl
  unfold limLe at this; revert this; decide

/-- non-vacuity of leveled_batch_valid_needs_mergeable on the ratio shrink. -/
example : AllMergeable (kdLevels true) := by decide

/-! ### the targets the callers of LeveledUpdateBatch ask for (Model/C12Rule.lean) -/

theorem limLe_of_nonneg {a b : Int} (ha : 0 ≤ a) (hab : a ≤ b) : limLe a b := by
  unfold limLe limKey
  split <;> split <;> omega

/-- **rule_targets_valid**: the cfs quotas the batchresource / cpunormalization callbacks ask for are hierarchy-valid
    - every container's quota is within its pod's (-1 = unlimited on top) - for ANY scaling function that is
    monotone, positive and not increasing on positive quotas (`ScaleOK`; the identity and exact ceiling division by a
    ratio ≥ 1 are instances, the float64 `ceil(q / ratio)` is checked on every generated input by the harnesses),
    any number of containers, limits present / 0 / absent. -/
theorem rule_targets_valid {scale : Int → Int} (h : ScaleOK scale) (lims : List Int)
    (hb : ∀ l ∈ lims, l * 100 ≤ 9223372036854775807) :
    ∀ l ∈ lims, limLe (ctrQuota scale l) (podQuota scale lims) := by
  intro l hl
  have hc : ctrQuota scale l = -1 ∨ (0 < ctrQuota scale l ∧ ctrQuota scale l ≤ 9223372036854775807) := by
    have hbl := hb l hl
    by_cases hl0 : l > 0
    · have hq : 0 < baseQuota l ∧ baseQuota l ≤ 9223372036854775807 := by
        unfold baseQuota; simp only
        have : 100 ≤ l * 100000 / 1000 := by omega
        have : l * 100000 / 1000 ≤ l * 100 := by omega
        repeat' split
        all_goals omega
      right
      simp only [ctrQuota, hl0, if_true, scaledQuota, hq.1]
      exact ⟨h.pos _ hq.1, Int.le_trans (h.le _ hq.1) hq.2⟩
    · left
      have hb0 : baseQuota 0 = -1 := by decide
      simp [ctrQuota, hl0, hb0, scaledQuota]
  rcases rule_ctr_le_pod h lims l hl with hp | ⟨h1, h2, _⟩
  · rw [hp]; unfold limLe limKey
    rcases hc with hc | hc
    · rw [hc]; decide
    · split <;> simp <;> omega
  · exact limLe_of_nonneg (Int.le_of_lt h1) h2

/-- **cgr_targets_valid**: the memory.min (and un-raised memory.low) values cgreconcile asks for are hierarchy-valid:
    container ≤ pod (request * percent / 100 against the sum of the requests), pod ≤ its qos sum ≤ the kubepods total. -/
theorem cgr_targets_valid (pct : Int) (hp : 0 ≤ pct) (reqs : List Int) (hr : ∀ r ∈ reqs, 0 ≤ r)
    (pods : List Int) (hv : ∀ v ∈ pods, 0 ≤ v) (others : Int) (ho : 0 ≤ others) :
    (∀ r ∈ reqs, limLe (prot r pct) (prot reqs.sum pct)) ∧
    (∀ v ∈ pods, limLe v pods.sum) ∧ limLe pods.sum (pods.sum + others) := by
  refine ⟨fun r hrm => ?_, fun v hvm => ?_, ?_⟩
  · exact limLe_of_nonneg (prot_nonneg pct r hp (hr r hrm))
      (prot_mono pct r reqs.sum hp (mem_le_sum_of_nonneg reqs hr r hrm))
  · exact limLe_of_nonneg (hv v hvm) (mem_le_sum_of_nonneg pods hv v hvm)
  · exact limLe_of_nonneg (sum_nonneg_of_nonneg pods hv) (by omega)

/-- **cgr_low_raised_target_invalid_counterexample**: the memory.low TARGET of cgreconcile is not always valid:
    pod and container memory.low are raised to memory.min when smaller, the qos-level sum is not - minLimitPercent 100,
    lowLimitPercent 50, one burstable pod requesting 1 GiB: pod memory.low = 1 GiB under burstable memory.low = 512 MiB.
    Such targets are outside the property's quantifier (harness tag cgr:memory.low:target-invalid). -/
theorem cgr_low_raised_target_invalid_counterexample :
    ¬ limLe (lowImproved (prot 1073741824 100) (prot 1073741824 50)) ([prot 1073741824 50].sum) := by
  unfold limLe; decide

/-- non-vacuity: ratio 1.5 = 3/2 on the pod of the counterexample (limits 2000m = 1500m + 500m). -/
example : podQuota (fun q => (q * 2 + 3 - 1) / 3) [1500, 500] = 133334 ∧ ctrQuota (fun q => (q * 2 + 3 - 1) / 3) 1500 = 100000 := by
  decide

/-! ### adjustByCPUSet: the old set is the besteffort ROOT dir's own content -/

section Adjust
variable (parent : Nat → Option Nat) (paths : List Nat) (depth : Nat → Nat) (root : Nat)

/-- in a valid BE subtree (every dir but the root has a parent, depths count the steps to the root) every dir is
    within the root's set: the hypothesis `hcov` of none_policy_every_prefix_valid is a CONSEQUENCE of validity once
    the old set is the root's own content. -/
theorem valid_within_root (f : Nat → Nat)
    (hin : ∀ c p, parent c = some p → c ∈ paths ∧ p ∈ paths)
    (hdep : ∀ c p, parent c = some p → depth c = depth p + 1)
    (hanc : ∀ n ∈ paths, n = root ∨ ∃ p, parent n = some p)
    (hv : Valid parent subMask f) : ∀ n ∈ paths, subMask (f n) (f root) := by
  have key : ∀ d n, depth n = d → n ∈ paths → subMask (f n) (f root) := by
    intro d
    induction d with
    | zero =>
      intro n hd hn
      rcases hanc n hn with h | ⟨p, h⟩
      · rw [h]; exact subMask_refl _
      · have := hdep n p h; omega
    | succ d ih =>
      intro n hd hn
      rcases hanc n hn with h | ⟨p, h⟩
      · rw [h]; exact subMask_refl _
      · have h1 := hdep n p h
        exact subMask_trans (hv n p h) (ih p (by omega) (hin n p h).2)
  exact fun n hn => key (depth n) n rfl hn

/-- **adjust_every_prefix_valid**: one round of adjustByCPUSet - the old set read from the besteffort root file by the
    code itself - whatever the node topology says (kind 0 / 1: error, nothing written; 2: kubelet static policy, with the
    share-pool hypotheses of static_policy_every_prefix_valid; anything else: none policy, NO hypothesis about the old
    set left): after every single write every child's CPU set is within its parent's. -/
theorem adjust_every_prefix_valid (kind : Nat) (exp : Bool) (rec : Option Nat) (cpus : Nat) (s : St Nat)
    (hc : CacheOK s) (hnd : paths.Nodup)
    (htop : paths.Pairwise (fun a b => parent a ≠ some b))
    (hin : ∀ c p, parent c = some p → c ∈ paths ∧ p ∈ paths)
    (hdep : ∀ c p, parent c = some p → depth c = depth p + 1)
    (hmax : ∀ n ∈ paths, depth n ≤ 2)
    (hanc : ∀ n ∈ paths, n = root ∨ ∃ p, parent n = some p)
    (hst : kind = 2 → ∃ R, rec = some R ∧ (∀ n ∈ paths, subMask (s.files n) R) ∧ subMask cpus R)
    (hold : Valid parent subMask s.files) :
    ∀ k, Valid parent subMask (applyWrites s.files ((adjustByCPUSet kind exp paths depth rec cpus root s).2.take k)) := by
  unfold adjustByCPUSet applyBESuppress
  split
  · intro k; simpa [applyWrites] using hold
  · intro k; simpa [applyWrites] using hold
  · obtain ⟨R, hR, hcov, hcp⟩ := hst rfl
    rw [hR]
    exact static_policy_every_prefix_valid parent paths depth R cpus exp s hc hnd htop hin hdep hmax hcov hcp hold
  · exact none_policy_every_prefix_valid parent paths cpus (adjustOld root s) exp s hc hnd htop hin
      (valid_within_root parent paths depth root s.files hin hdep hanc hold) hold

/-- a round of the history theorem IS adjustByCPUSet under policy static (kind 2) / none (kind 3). -/
theorem runRound_eq_adjust (R : Nat) (s : St Nat) (r : Round) :
    runRound paths depth R root s r =
      adjustByCPUSet (if r.static then 2 else 3) r.exp paths depth (some R) r.cpus root s := by
  unfold runRound adjustByCPUSet applyBESuppress adjustOld
  cases r.static <;> rfl

/-- **adjust_history_every_prefix_valid**: any sequence of adjustByCPUSet rounds on one executor (kubelet policy static /
    none in any order, new sets within the share pool), started from ANY valid BE subtree within the pool - in particular
    one whose containers are narrower than the root, as a static round leaves it: valid after every single write.  The
    start condition 'every dir within the root's set' of suppress_history_every_prefix_valid is discharged by
    valid_within_root. -/
theorem adjust_history_every_prefix_valid (R : Nat) (hnd : paths.Nodup)
    (htop : paths.Pairwise (fun a b => parent a ≠ some b))
    (hin : ∀ c p, parent c = some p → c ∈ paths ∧ p ∈ paths)
    (hdep : ∀ c p, parent c = some p → depth c = depth p + 1)
    (hmax : ∀ n ∈ paths, depth n ≤ 2)
    (hroot : root ∈ paths ∧ depth root = 0)
    (hanc : ∀ n ∈ paths, n = root ∨ ∃ p, parent n = some p)
    (rs : List Round) (s : St Nat) (hcp : ∀ r ∈ rs, subMask r.cpus R)
    (hc : CacheOK s) (hv : Valid parent subMask s.files) (hR : ∀ n ∈ paths, subMask (s.files n) R) :
    ∀ k, Valid parent subMask (applyWrites s.files ((runRounds paths depth R root rs s).2.take k)) :=
  (suppress_history_every_prefix_valid parent paths depth R root hnd htop hin hdep hmax hroot rs s hcp
    ⟨hc, hv, hR, valid_within_root parent paths depth root s.files hin hdep hanc hv⟩).2

end Adjust

/-- why the old set must NOT be koordletutil.GetBECgroupCurCPUSet() (the narrowest container / root set):
    besteffort(0) ← pod(1) ← container(2), root = pod = 0-15, container = 0-3 (what a static round leaves), new set 0-5
    under policy none.  Old = narrowest = 0-3: the top-down pass writes 0-3 ∪ 0-5 = 0-5 into the root while the pod still
    holds 0-15.  The end state is the same as with the root's own set. -/
def adjExS : St Nat := { files := fun n => if n ≤ 1 then 65535 else if n = 2 then 15 else 0, cache := fun _ => none, skip := [] }

theorem adjust_old_narrowest_counterexample :
    narrowestOld [0, 1, 2] (fun n => n) 0 adjExS = 15 ∧ adjustOld 0 adjExS = 65535 ∧
    ¬ (∀ k, Valid spExParent subMask (applyWrites adjExS.files
        ((nonePolicy false [0, 1, 2] 63 (narrowestOld [0, 1, 2] (fun n => n) 0 adjExS) adjExS).2.take k))) ∧
    (∀ n, n ≤ 2 → (nonePolicy false [0, 1, 2] 63 (narrowestOld [0, 1, 2] (fun n => n) 0 adjExS) adjExS).1.files n =
      (adjustByCPUSet 3 false [0, 1, 2] (fun n => n) (some 65535) 63 0 adjExS).1.files n) := by
  refine ⟨by decide, by decide, ?_, by decide⟩
  intro h
  have := h 1 1 0 rfl
  revert this; decide

/-- the same input through adjustByCPUSet as written: the write sequence, and all hypotheses of adjust_every_prefix_valid hold. -/
example : (adjustByCPUSet 3 false [0, 1, 2] (fun n => n) (some 65535) 63 0 adjExS).2 =
    [(2, 65535), (2, 63), (1, 63), (0, 63)] := by decide
example : ∀ k, Valid spExParent subMask (applyWrites adjExS.files
    ((adjustByCPUSet 3 false [0, 1, 2] (fun n => n) (some 65535) 63 0 adjExS).2.take k)) :=
  adjust_every_prefix_valid spExParent [0, 1, 2] (fun n => n) 0 3 false (some 65535) 63 adjExS
    (by intro n v h; simp [adjExS] at h) (by decide) (by simp [spExParent])
    (by intro c p h; unfold spExParent at h; split at h <;> cases h <;> simp)
    (by intro c p h; unfold spExParent at h; split at h <;> cases h <;> rfl)
    (by intro n hn; simp at hn; rcases hn with h | h | h <;> subst h <;> decide)
    (by intro n hn; simp at hn; rcases hn with h | h | h <;> subst h <;> simp [spExParent])
    (by intro h; cases h)
    (by intro c p h; unfold spExParent at h; split at h <;> cases h <;> decide)

end KoordVerif.C12
