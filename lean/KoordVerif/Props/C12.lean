import KoordVerif.Model.C12
import KoordVerif.Proofs.C12
/-
C12 — property theorems (DESIGN.md §4 C12, Appendix A.5).

A batch is the `[][]ResourceUpdater` handed to LeveledUpdateBatch; `T` is the intended content of
every cgroup directory (the updater's value on the directories of the batch, the current content
elsewhere); `parent` is the cgroup tree; `le` the hierarchy order of the resource (⊆ for CPU sets,
≤ with unlimited on top for limits/protections).  `Valid parent le f` = "the kernel would accept f".
The crash-point quantifier is the universally quantified prefix length `k` of the write sequence.
-/
namespace KoordVerif.C12

variable {α : Type}

/-- every child is within its parent. -/
def Valid (parent : Nat → Option Nat) (le : α → α → Prop) (f : Nat → α) : Prop :=
  ∀ c p, parent c = some p → le (f c) (f p)

/-- the batch is levelled along the tree: the parent of a directory never sits in the same or a later level. -/
def Levelled (parent : Nat → Option Nat) (levels : List (List (Upd α))) : Prop :=
  levels.Pairwise (fun hi lo => ∀ a ∈ hi, ∀ b ∈ lo, parent a.node ≠ some b.node) ∧
  ∀ L ∈ levels, ∀ a ∈ L, ∀ b ∈ L, parent a.node ≠ some b.node

/-- hypotheses on one batch relative to the file contents `old` at its start. -/
structure BatchOK (levels : List (List (Upd α))) (old T : Nat → α) : Prop where
  /-- every updater carries a value the validator accepts, namely `T` of its directory -/
  tgt : ∀ u ∈ levels.flatten, u.tgt = some (T u.node)
  /-- directories outside the batch keep their content -/
  out : ∀ n, n ∉ nodes levels.flatten → T n = old n
  /-- no directory twice -/
  nodup : (nodes levels.flatten).Nodup

/-! ### helper lemmas (order part) -/

section Order
variable {D : Dom α} {le : α → α → Prop} (hD : DomEq D) (hO : DomOrd D le) (hm : D.mergeable = true)
variable (parent : Nat → Option Nat) (old T : Nat → α)

include hO in
theorem eff_edge (hold : Valid parent le old) (htgt : Valid parent le T) (c p : Nat) (h : parent c = some p) :
    le (eff D (old c) (T c)) (eff D (old p) (T p)) :=
  eff_lub hO _ _ _ (hO.trans _ _ _ (hold c p h) (le_eff_old hO _ _)) (hO.trans _ _ _ (htgt c p h) (le_eff_new hO _ _))

/-- merge pass invariant with the order part: no directory already raised has its parent still waiting. -/
def I1 (D : Dom α) (parent : Nat → Option Nat) (old T : Nat → α) (l : List (Upd α)) (s : St α) : Prop :=
  J1 D old T l s ∧
  (∀ c p, parent c = some p → p ∈ nodes l → c ∉ nodes l → eff D (old c) (T c) = old c) ∧
  l.Pairwise (fun a b => parent a.node ≠ some b.node)

/-- exact pass invariant with the order part: no directory already lowered has a child still waiting. -/
def I2 (D : Dom α) (parent : Nat → Option Nat) (old T : Nat → α) (l : List (Upd α)) (s : St α) : Prop :=
  J2 D old T l s ∧
  (∀ c p, parent c = some p → c ∈ nodes l → p ∉ nodes l → eff D (old p) (T p) = T p) ∧
  l.Pairwise (fun a b => parent b.node ≠ some a.node)

include hO in
theorem I1_valid (hold : Valid parent le old) (htgt : Valid parent le T) (l : List (Upd α)) (s : St α)
    (h : I1 D parent old T l s) : Valid parent le s.files := by
  obtain ⟨⟨_, _, _, _, hf⟩, hcl, _⟩ := h
  intro c p hcp
  rw [hf c, hf p]
  by_cases hc : c ∈ nodes l <;> by_cases hp : p ∈ nodes l <;> simp only [hc, hp, if_true, if_false]
  · exact hold c p hcp
  · exact hO.trans _ _ _ (hold c p hcp) (le_eff_old hO _ _)
  · rw [hcl c p hcp hp hc]; exact hold c p hcp
  · exact eff_edge hO parent old T hold htgt c p hcp

include hO in
theorem I2_valid (hold : Valid parent le old) (htgt : Valid parent le T) (l : List (Upd α)) (s : St α)
    (h : I2 D parent old T l s) : Valid parent le s.files := by
  obtain ⟨⟨_, _, _, _, hf⟩, hcl, _⟩ := h
  intro c p hcp
  rw [hf c, hf p]
  by_cases hc : c ∈ nodes l <;> by_cases hp : p ∈ nodes l <;> simp only [hc, hp, if_true, if_false]
  · exact eff_edge hO parent old T hold htgt c p hcp
  · rw [← hcl c p hcp hc hp]; exact eff_edge hO parent old T hold htgt c p hcp
  · exact hO.trans _ _ _ (htgt c p hcp) (le_eff_new hO _ _)
  · exact htgt c p hcp

theorem mem_nodes {l : List (Upd α)} {n : Nat} (h : n ∈ nodes l) : ∃ u ∈ l, u.node = n := by
  simpa [nodes] using h

include hD hm in
theorem I1_step (exp : Bool) (u : Upd α) (l : List (Upd α)) (s : St α) (h : I1 D parent old T (u :: l) s) :
    I1 D parent old T l (step1 D exp s u).1 ∧
    (((step1 D exp s u).2 = [] ∧ (step1 D exp s u).1.files = s.files) ∨
     (∃ w, (step1 D exp s u).2 = [w] ∧ (step1 D exp s u).1.files = setAt s.files w.1 w.2)) := by
  obtain ⟨hj, hcl, hpw⟩ := h
  obtain ⟨g1, g2⟩ := J1_step hD hm exp old T u l s hj
  rw [List.pairwise_cons] at hpw
  refine ⟨⟨g1, ?_, hpw.2⟩, ?_⟩
  · intro c p hcp hp hc
    by_cases hcu : c = u.node
    · obtain ⟨b, hb, hbn⟩ := mem_nodes hp
      exact absurd (by rw [← hcu, hbn]; exact hcp) (hpw.1 b hb)
    · exact hcl c p hcp (by simp [hp]) (by simp [hcu, hc])
  · rcases g2 with g | g
    · exact Or.inl g
    · exact Or.inr ⟨_, g.1, g.2.1⟩

include hD in
theorem I2_step (exp : Bool) (u : Upd α) (l : List (Upd α)) (s : St α) (h : I2 D parent old T (u :: l) s) :
    I2 D parent old T l (step2 D exp s u).1 ∧
    (((step2 D exp s u).2 = [] ∧ (step2 D exp s u).1.files = s.files) ∨
     (∃ w, (step2 D exp s u).2 = [w] ∧ (step2 D exp s u).1.files = setAt s.files w.1 w.2)) := by
  obtain ⟨hj, hcl, hpw⟩ := h
  obtain ⟨g1, g2⟩ := J2_step hD exp old T u l s hj
  rw [List.pairwise_cons] at hpw
  refine ⟨⟨g1, ?_, hpw.2⟩, ?_⟩
  · intro c p hcp hc hp
    by_cases hpu : p = u.node
    · obtain ⟨b, hb, hbn⟩ := mem_nodes hc
      exact absurd (by rw [← hpu, hbn]; exact hcp) (hpw.1 b hb)
    · exact hcl c p hcp (by simp [hc]) (by simp [hpu, hp])
  · rcases g2 with g | g
    · exact Or.inl g
    · exact Or.inr ⟨_, g.1, g.2.1⟩

end Order

/-! ### what the two passes leave in the files -/

section Main
set_option linter.unusedSectionVars false
variable {D : Dom α} (hD : DomEq D) (hm : D.mergeable = true) (exp : Bool)
include hD hm
variable (levels : List (List (Upd α))) (s : St α) (T : Nat → α)

omit hD hm in
theorem mem_nodes_rev (n : Nat) : n ∈ nodes levels.reverse.flatten ↔ n ∈ nodes levels.flatten :=
  (nodes_perm (reverse_flatten_perm levels)).mem_iff

theorem J1_start (hc : CacheOK s) (hb : BatchOK levels s.files T) :
    J1 D s.files T levels.flatten { s with skip := [] } := by
  refine ⟨hc, rfl, hb.nodup, hb.tgt, ?_⟩
  intro n
  by_cases h : n ∈ nodes levels.flatten
  · simp [h]
  · simp only [h, if_false]; rw [hb.out n h]; exact (eff_self hD _).symm

theorem J1_end (hc : CacheOK s) (hb : BatchOK levels s.files T) :
    J1 D s.files T [] (pass1 D exp levels.flatten { s with skip := [] }).1 :=
  runPass_inv (step1 D exp) (J1 D s.files T) (fun u l s' h => (J1_step hD hm exp s.files T u l s' h).1) _ _
    (J1_start hD hm levels s T hc hb)

theorem J2_start (hc : CacheOK s) (hb : BatchOK levels s.files T) :
    J2 D s.files T levels.reverse.flatten (pass1 D exp levels.flatten { s with skip := [] }).1 := by
  obtain ⟨g1, g2, _, _, g5⟩ := J1_end hD hm exp levels s T hc hb
  refine ⟨g1, g2, ?_, ?_, ?_⟩
  · exact (nodes_perm (reverse_flatten_perm levels)).nodup_iff.mpr hb.nodup
  · intro u hu; exact hb.tgt u ((reverse_flatten_perm levels).mem_iff.mp hu)
  · intro n
    rw [g5 n]
    by_cases h : n ∈ nodes levels.reverse.flatten
    · simp [h]
    · have h' : n ∉ nodes levels.flatten := fun x => h ((mem_nodes_rev levels n).mpr x)
      simp only [h, nodes_nil, List.not_mem_nil, if_false]
      rw [hb.out n h']; exact eff_self hD _

/-- **final_is_target**: when LeveledUpdateBatch returns, every file holds its target value
    (all trees, all values, any level arrangement, fresh or expired cache entries). -/
theorem final_is_target (hc : CacheOK s) (hb : BatchOK levels s.files T) :
    ∀ n, (runBatch D exp levels s).1.files n = T n := by
  have h2 := runPass_inv (step2 D exp) (J2 D s.files T)
    (fun u l s' h => (J2_step hD exp s.files T u l s' h).1) _ _ (J2_start hD hm exp levels s T hc hb)
  obtain ⟨_, _, _, _, g5⟩ := h2
  intro n
  simpa [runBatch, pass1, pass2] using g5 n

/-- the cache describes the files again after the batch (so the next batch starts from `CacheOK`). -/
theorem cache_consistent_after (hc : CacheOK s) (hb : BatchOK levels s.files T) :
    CacheOK (runBatch D exp levels s).1 := by
  have h2 := runPass_inv (step2 D exp) (J2 D s.files T)
    (fun u l s' h => (J2_step hD exp s.files T u l s' h).1) _ _ (J2_start hD hm exp levels s T hc hb)
  exact h2.1

/-- the write sequence is exactly what changed the files. -/
theorem writes_replay (hc : CacheOK s) (hb : BatchOK levels s.files T) :
    applyWrites s.files (runBatch D exp levels s).2 = (runBatch D exp levels s).1.files := by
  have a1 := runPass_apply (step1 D exp) (J1 D s.files T)
    (fun u l s' h => by
      obtain ⟨g1, g2⟩ := J1_step hD hm exp s.files T u l s' h
      refine ⟨g1, ?_⟩
      rcases g2 with g | g
      · rw [g.1, g.2]; rfl
      · rw [g.1, g.2.1]; rfl) _ _ (J1_start hD hm levels s T hc hb)
  have a2 := runPass_apply (step2 D exp) (J2 D s.files T)
    (fun u l s' h => by
      obtain ⟨g1, g2⟩ := J2_step hD exp s.files T u l s' h
      refine ⟨g1, ?_⟩
      rcases g2 with g | g
      · rw [g.1, g.2]; rfl
      · rw [g.1, g.2.1]; rfl) _ _ (J2_start hD hm exp levels s T hc hb)
  simp only [runBatch, applyWrites_append]
  have a1' : applyWrites s.files (pass1 D exp levels.flatten { s with skip := [] }).2 =
      (pass1 D exp levels.flatten { s with skip := [] }).1.files := a1
  rw [a1']
  exact a2

/-- **no_redundant_write**: a file whose value is unchanged (`old n = T n`, in particular every directory
    outside the batch) is never written — for every resource whose write-if-different comparison is
    reflexive (`hrefl`; true for cpuset.cpus, memory.min/low/high and cgroup-v1 cpu.cfs_quota_us). -/
theorem no_redundant_write (hrefl : ∀ a, D.same a a = true) (hc : CacheOK s) (hb : BatchOK levels s.files T) :
    ∀ w ∈ (runBatch D exp levels s).2, s.files w.1 ≠ T w.1 := by
  have w1 := runPass_writes (step1 D exp) (J1 D s.files T) (fun w => s.files w.1 ≠ T w.1)
    (fun u l s' h => by
      obtain ⟨g1, g2⟩ := J1_step hD hm exp s.files T u l s' h
      refine ⟨g1, ?_⟩
      rcases g2 with g | g
      · rw [g.1]; simp
      · rw [g.1]; intro w hw he
        simp only [List.mem_singleton] at hw; subst hw
        simp only at he
        have := g.2.2; rw [he, hD.mergeSelf] at this; exact absurd this (by simp)) _ _
    (J1_start hD hm levels s T hc hb)
  have w2 := runPass_writes (step2 D exp) (J2 D s.files T) (fun w => s.files w.1 ≠ T w.1)
    (fun u l s' h => by
      obtain ⟨g1, g2⟩ := J2_step hD exp s.files T u l s' h
      refine ⟨g1, ?_⟩
      rcases g2 with g | g
      · rw [g.1]; simp
      · rw [g.1]; intro w hw he
        simp only [List.mem_singleton] at hw; subst hw
        simp only at he
        have := g.2.2; rw [he, eff_self hD, hrefl] at this; exact absurd this (by simp)) _ _
    (J2_start hD hm exp levels s T hc hb)
  intro w hw
  simp only [runBatch, List.mem_append] at hw
  rcases hw with hw | hw
  · exact w1 w hw
  · exact w2 w hw

/-- **every_prefix_valid**: if the hierarchy is valid before the batch and the target is valid, then after
    every single file write — every prefix of the write sequence, i.e. every crash point — the hierarchy
    is valid.  Holds for any tree depth/shape, any values, fresh or expired cache entries. -/
theorem every_prefix_valid {le : α → α → Prop} (hO : DomOrd D le) (parent : Nat → Option Nat)
    (hc : CacheOK s) (hb : BatchOK levels s.files T) (hlev : Levelled parent levels)
    (hold : Valid parent le s.files) (htgt : Valid parent le T) :
    ∀ k, Valid parent le (applyWrites s.files ((runBatch D exp levels s).2.take k)) := by
  -- order facts for the two iteration orders
  have pw1 : levels.flatten.Pairwise (fun a b => parent a.node ≠ some b.node) := by
    rw [List.pairwise_flatten]
    refine ⟨fun L hL => ?_, hlev.1⟩
    exact List.pairwise_of_forall_mem_list (fun a ha b hb => hlev.2 L hL a ha b hb)
  have pw2 : levels.reverse.flatten.Pairwise (fun a b => parent b.node ≠ some a.node) := by
    rw [List.pairwise_flatten]
    refine ⟨fun L hL => ?_, ?_⟩
    · have hL' : L ∈ levels := by simpa using hL
      exact List.pairwise_of_forall_mem_list (fun a ha b hb => hlev.2 L hL' b hb a ha)
    · rw [List.pairwise_reverse]
      exact hlev.1.imp (fun h x hx y hy => h y hy x hx)
  have i1 : I1 D parent s.files T levels.flatten { s with skip := [] } := by
    refine ⟨J1_start hD hm levels s T hc hb, ?_, pw1⟩
    intro c p _ _ hcn
    rw [hb.out c hcn]; exact eff_self hD _
  have i2 : I2 D parent s.files T levels.reverse.flatten (pass1 D exp levels.flatten { s with skip := [] }).1 := by
    refine ⟨J2_start hD hm exp levels s T hc hb, ?_, pw2⟩
    intro c p _ _ hpn
    have h' : p ∉ nodes levels.flatten := fun x => hpn ((mem_nodes_rev levels p).mpr x)
    rw [hb.out p h']; exact eff_self hD _
  have a := runPass_prefix (step1 D exp) (I1 D parent s.files T) (Valid parent le)
    (I1_valid hO parent s.files T hold htgt) (fun u l s' h => I1_step hD hm parent s.files T exp u l s' h) _ _ i1
  have b := runPass_prefix (step2 D exp) (I2 D parent s.files T) (Valid parent le)
    (I2_valid hO parent s.files T hold htgt) (fun u l s' h => I2_step hD parent s.files T exp u l s' h) _ _ i2
  have a1 := runPass_apply (step1 D exp) (J1 D s.files T)
    (fun u l s' h => by
      obtain ⟨g1, g2⟩ := J1_step hD hm exp s.files T u l s' h
      refine ⟨g1, ?_⟩
      rcases g2 with g | g
      · rw [g.1, g.2]; rfl
      · rw [g.1, g.2.1]; rfl) _ _ (J1_start hD hm levels s T hc hb)
  intro k
  simp only [runBatch]
  apply prefix_append (Valid parent le) s.files _ _ a
  intro k'
  have a1' : applyWrites s.files (pass1 D exp levels.flatten { s with skip := [] }).2 =
      (pass1 D exp levels.flatten { s with skip := [] }).1.files := a1
  rw [a1']
  exact b k'

end Main

end KoordVerif.C12
