import KoordVerif.Model.C01
namespace KoordVerif.C01
end KoordVerif.C01
