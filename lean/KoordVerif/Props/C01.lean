import KoordVerif.Proofs.C01History
/-
C01 — elastic-quota used/request accounting is exact over any event history.

Model: KoordVerif/Model/C01.lean (one dimension).  Local-equation formulation (DESIGN §4 C01):
  `ReqInv s`  : for every group g   selfRequest g = Σ pods, selfNpRequest g = Σ non-preemptible pods,
                childRequest g = selfRequest g + Σ_{c.parent = g} min(request c, max c)     (root: request g)
                npRequest g = selfNpRequest g + Σ_{c.parent = g} npRequest c,
                request g = if lend then childRequest else max childRequest min             (g ≠ root)
  `UsedInv s` : selfUsed g = Σ assigned pods, used g = selfUsed g + Σ_{c.parent = g} used c  (same for non-preemptible)
  `LocalInv s = ReqInv s ∧ UsedInv s`.
The equations are stated through their *defects* (`dCR`, `dNpReq`, `dUsed`, `dNpUsed` = lhs − rhs), so that the
effect of a delta propagation can be described exactly also on states where an equation is (temporarily) off:
that is how re-parenting, deletion, min/max updates and the rebuild use the propagation (self index −1).

What is proved here for ALL states, chains, deltas (no bound on sizes or values):
  * the exact effect of recursiveUpdateGroupTreeWithDeltaRequest / updateGroupDeltaUsedNoLock on every defect
    of every group (`propagate_request_frame`, `propagate_used_frame`), both self-index conventions;
  * a propagation that starts at the group whose pod set changed by exactly the propagated delta restores all
    equations (`propagate_request_preserves`, `propagate_used_preserves`) and leaves the other side untouched;
  * `no_clamp_*`: in that situation no non-negative clamp fires (the clamped run equals the un-clamped one), and
    `localInv_nonneg`: a state satisfying the equations has no negative figure ("nothing is driven negative");
  * `zero_delta_*_identity`: the only difference between the per-dimension model and the multi-dimension Go code.

NOT yet proved (kept visible, see `step_preserves_localInv_partial` below): the lifting of the two preservation
theorems through every individual operation (`step`) and hence `history_exact` by induction over op lists; the
uniqueness lemma `localInv_unique`; `delta_commute`.  For those the check relies on the correspondence run
(model = code after every op) plus the independent oracle (recomputation from the surviving pods and a fresh
manager).  Hypotheses used below and not in the property text: the propagated path is a proper parent chain
without repetition (`Chain`, `Nodup`: the tree is acyclic and free of orphans), quota names are unique, a rank
function exists (acyclic), declared max and pod requests are >= 0.
-/
namespace KoordVerif.C01

/-- Exact effect of the request propagation (un-clamped run) on every group `m`: nothing but the five request
figures changes; `selfRequest`/`selfNpRequest` change only at the head and only with self index 0; the defect
of the childRequest equation (root: request equation) of `m` changes by `d` exactly when `m` is the head and
the self index is −1, likewise the non-preemptible one; on every non-root group of the path
`request = lendRule childRequest` holds afterwards; groups off the path are untouched. -/
theorem propagate_request_frame (path : List Nat) (s : State) (self : Bool) (d dnp : Int)
    (hc : Chain s path) (hnd : path.Nodup) :
    ReqRel s (propReqW id s path self d dnp) path self d dnp :=
  propReq_frame path s self d dnp hc hnd

/-- Exact effect of the used propagation (un-clamped run), same shape. -/
theorem propagate_used_frame (path : List Nat) (s : State) (self : Bool) (d dnp : Int)
    (hc : Chain s path) (hnd : path.Nodup) :
    UsedRel s (propUsedW id s path self d dnp) path.head? self d dnp :=
  propUsed_frame path s self d dnp hc hnd

/-- If all request equations hold except that the pod set of `n` changed by (`d`,`dnp`), the REAL (clamped)
propagation from `n` with self index 0 restores every request equation, keeps every used equation (also a
pending one), keeps the tree and the parameters. -/
theorem propagate_request_preserves {s : State} {pth : List Nat} {n : Nat} {d dnp : Int}
    (hc : Chain s pth) (hnd : pth.Nodup) (hh : pth.head? = some n)
    (ht : TreeOK (tree s)) (hpar : ParamsOK s) (hpend : ReqPend s n d dnp) :
    ReqInv (propReq s pth true d dnp) ∧
    (∀ u a b, UsedPend s u a b → UsedPend (propReq s pth true d dnp) u a b) ∧
    tree (propReq s pth true d dnp) = tree s ∧ ParamsOK (propReq s pth true d dnp) :=
  (propReq_self hc hnd hh ht hpar hpend).2

theorem propagate_used_preserves {s : State} {pth : List Nat} {n : Nat} {d dnp : Int}
    (hc : Chain s pth) (hnd : pth.Nodup) (hh : pth.head? = some n)
    (ht : TreeOK (tree s)) (hpar : ParamsOK s) (hpend : UsedPend s n d dnp) :
    UsedInv (propUsed s pth true d dnp) ∧
    (∀ u a b, ReqPend s u a b → ReqPend (propUsed s pth true d dnp) u a b) ∧
    tree (propUsed s pth true d dnp) = tree s ∧ ParamsOK (propUsed s pth true d dnp) :=
  (propUsed_self hc hnd hh ht hpar hpend).2

/-- no_clamp (request): in the situation of `propagate_request_preserves` every clamp is the identity. -/
theorem no_clamp_request {s : State} {pth : List Nat} {n : Nat} {d dnp : Int}
    (hc : Chain s pth) (hnd : pth.Nodup) (hh : pth.head? = some n)
    (ht : TreeOK (tree s)) (hpar : ParamsOK s) (hpend : ReqPend s n d dnp) :
    propReqW clamp0 s pth true d dnp = propReqW id s pth true d dnp :=
  (propReq_self hc hnd hh ht hpar hpend).1

theorem no_clamp_used {s : State} {pth : List Nat} {n : Nat} {d dnp : Int}
    (hc : Chain s pth) (hnd : pth.Nodup) (hh : pth.head? = some n)
    (ht : TreeOK (tree s)) (hpar : ParamsOK s) (hpend : UsedPend s n d dnp) :
    propUsedW clamp0 s pth true d dnp = propUsedW id s pth true d dnp :=
  (propUsed_self hc hnd hh ht hpar hpend).1

/-- General form of no_clamp: whenever the un-clamped run ends without a negative figure on the path, the
clamped run took exactly the same steps (any self index, any pre-state). -/
theorem no_clamp_request_general (path : List Nat) (s : State) (self : Bool) (d dnp : Int) (hnd : path.Nodup)
    (h : ∀ m ∈ path, ∀ q', get? (propReqW id s path self d dnp) m = some q' →
      0 ≤ crOf q' ∧ 0 ≤ q'.npRequest ∧ 0 ≤ q'.selfRequest ∧ 0 ≤ q'.selfNpRequest) :
    propReq s path self d dnp = propReqW id s path self d dnp :=
  propReq_noclamp path s self d dnp hnd h

theorem no_clamp_used_general (path : List Nat) (s : State) (self : Bool) (d dnp : Int) (hnd : path.Nodup)
    (h : ∀ m ∈ path, ∀ q', get? (propUsedW id s path self d dnp) m = some q' →
      0 ≤ q'.used ∧ 0 ≤ q'.npUsed ∧ 0 ≤ q'.selfUsed ∧ 0 ≤ q'.selfNpUsed) :
    propUsed s path self d dnp = propUsedW id s path self d dnp :=
  propUsed_noclamp path s self d dnp hnd h

/-- "nothing is driven negative": the local equations alone force every figure to be >= 0. -/
theorem localInv_nonneg {s : State} (ht : TreeOK (tree s)) (hp : ParamsOK s) (hl : LocalInv s) :
    ∀ m q, get? s m = some q → RNonneg q ∧ UNonneg q :=
  fun m q hq => ⟨reqInv_nonneg ht hp hl.1 m q hq, usedInv_nonneg ht hp hl.2 m q hq⟩

/-- DeleteQuota keeps the local equations — because deleteQuotaNoLock hands back the max-LIMITED request
(`0 - q.limited` in the model; the defect repaired by 3651408 handed back the raw request). -/
theorem delete_preserves_localInv {s : State} {n : Nat} {q : Quota} (hq : get? s n = some q)
    (ht : TreeOK (tree s)) (hpar : ParamsOK s) (hl : LocalInv s)
    (hc : Chain (erase s n) (path (erase s n) q.parent)) (hnd : (path (erase s n) q.parent).Nodup)
    (hh : (path (erase s n) q.parent).head? = some q.parent) :
    LocalInv (deleteQuota s n) ∧ TreeOK (tree (deleteQuota s n)) ∧ ParamsOK (deleteQuota s n) :=
  deleteQuota_preserves hq ht hpar hl hc hnd hh

/-
`Good s` = topology well-formed (`Topo`: unique names, a rank function, the root on top, every computed path a
proper chain) ∧ declared maxima and pod requests >= 0 ∧ cache ids unique per group ∧ `LocalInv s`.
`Pre s op` (Proofs/C01History.lean): amounts >= 0, the touched group declares the dimension, the old pod object
handed to a handler is the one delivered last (`Consistent`), new / remaining topology admissible (what the
webhook of C15 guarantees), MigratePod moves a cached pod into a group that does not hold it.

FULL STATEMENT (DESIGN §4 C01 T1/T3):
  step_preserves_localInv : Good s → Pre' s op → Good (step s op)      for EVERY op kind
  history_exact           : PreAll' init ops → LocalInv (run init ops)
Proved below for every op kind EXCEPT: UpdateQuota with a changed parent (re-parent), UpdateQuota with a changed
lend / isParent flag (updateQuotaInfoFromRemote + resetQuotaNoLock) and ResetQuota — for these `Pre` is `False`.
Everything else (create, min/max/weight update, delete, OnPodAdd incl. fail-over, OnPodUpdate all branches,
OnPodDelete, ReservePod, UnreservePod, MigratePod) is covered, for all states, trees, amounts and histories.
Also not proved: `localInv_unique` (the equations determine the figures), `reset_agrees`, `delta_commute`.
-/

/-- one operation keeps the invariant (hence the local equations) -/
theorem step_preserves_localInv_partial {s : State} {op : Op} (h : Good s) (hpre : Pre s op) :
    Good (step s op) ∧ LocalInv (step s op) :=
  ⟨step_good h hpre, good_localInv (step_good h hpre)⟩

/-- any finite history of covered operations, from the empty manager: the local equations hold at the end
(and after every prefix, since `PreAll` is prefix-closed by construction). -/
theorem history_exact_partial (ops : List Op) (hp : PreAll init ops) :
    Good (run init ops) ∧ LocalInv (run init ops) :=
  ⟨run_good ops init init_good hp, good_localInv (run_good ops init init_good hp)⟩

/-- …and consequently nothing is negative at the end of such a history -/
theorem history_nonneg_partial (ops : List Op) (hp : PreAll init ops) :
    ∀ m q, get? (run init ops) m = some q → RNonneg q ∧ UNonneg q := by
  have hg := run_good ops init init_good hp
  exact localInv_nonneg hg.topo.tree hg.params (good_localInv hg)

/-! ### non-vacuity: a concrete history, its state, and the hypotheses on it -/

/-- root(1) ⊇ P1(2), P2(3); A(4): max 10 under P1 with a pod of 30; B(5) under P1 with a pod of 25. -/
def exOps : List Op :=
  [ .quota ⟨2, 1, true, true, 100, 0⟩, .quota ⟨3, 1, true, true, 100, 0⟩,
    .quota ⟨4, 2, false, true, 10, 0⟩, .quota ⟨5, 2, false, true, 100, 0⟩,
    .podAdd 4 ⟨1, 30, false, false, false, false⟩, .podAdd 5 ⟨2, 25, true, true, false, false⟩ ]

def exState : State := run init exOps

/-- the figures of the example: A requests 30 but only min(30, 10) reaches P1; B's pod is assigned. -/
example : (exState.map fun q => (q.name, q.request, q.childRequest, q.used, q.npRequest)) =
    [(5, 25, 25, 25, 25), (4, 30, 30, 0, 0), (3, 0, 0, 0, 0), (2, 35, 35, 25, 25), (1, 35, 0, 25, 25)] := by decide

/-- the hypotheses of the propagation theorems hold on it (chain from A to the root) -/
example : path exState 4 = [4, 2, 1] ∧ Chain exState [4, 2, 1] ∧ [4, 2, 1].Nodup :=
  ⟨by decide, ⟨by decide, by decide, by decide, by decide, 0, by decide, by decide⟩, by decide⟩

/-- …and the re-parent of A to P2 (the history of the defect repaired by commit 3651408) leaves P1 with B's 25 -/
example : ((run exState [.quota ⟨4, 3, false, true, 10, 0⟩]).map fun q => (q.name, q.request)) =
    [(4, 30), (5, 25), (3, 10), (2, 25), (1, 35)] := by decide

end KoordVerif.C01
