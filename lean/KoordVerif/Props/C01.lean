import KoordVerif.Proofs.C01ExtDeclared
/-
C01 — elastic-quota used/request accounting is exact over any event history.

Model: KoordVerif/Model/C01.lean (one resource dimension; `step : State → Op → State` mirrors GroupQuotaManager).
Local-equation formulation (DESIGN §4 C01).  For every known group g of a state s:
  `ReqInv s`  : selfRequest g = Σ cached pods, selfNpRequest g = Σ non-preemptible cached pods,
                childRequest g = selfRequest g + Σ_{c.parent = g} min(request c, max c)   (root: request g),
                npRequest g = selfNpRequest g + Σ_{c.parent = g} npRequest c,
                request g = if lend then childRequest else max childRequest min           (g ≠ root)
  `UsedInv s` : selfUsed g = Σ assigned cached pods, used g = selfUsed g + Σ_{c.parent = g} used c (same for non-preemptible)
  `LocalInv s = ReqInv s ∧ UsedInv s`;  pod amounts are those of the object delivered last (ghost fields of the cache).
`Good s` = `LocalInv s` ∧ topology well-formed (`Topo`: unique names, a rank function = acyclic, root on top, every
computed parent path a proper chain) ∧ declared maxima and pod requests >= 0 ∧ cache ids unique per group.

Theorems (all for arbitrary states / trees / amounts / histories, no size bound):
  T1 `step_preserves_localInv`  every operation kind keeps `Good` (hence the equations) under its precondition `PreF`
  T3 `history_exact`            induction over op lists from the empty manager
  T2 `localInv_unique`          the equations determine every reported figure, hence
     `history_matches_fresh`    two admissible histories ending in the same objects report identical figures
                                ("indistinguishable from figures recomputed from scratch / a fresh manager")
  T4 `no_clamp_*`, `localInv_nonneg`, `history_nonneg`  no clamp ever fires, nothing is negative
  T5 `reset_agrees`             the full rebuild reproduces exactly the incrementally maintained figures
     `propagate_*`              the exact effect of the two delta propagations on every equation of every group
     `zero_delta_*_identity`    justification of the dimension-wise model (see Model header)
`PreF s op` (Proofs/C01Full.lean) — hypotheses beyond the property text, all about the INPUT:
  amounts >= 0; a quota object is never the root; new / intermediate topology admissible (what C15's webhook
  guarantees: acyclic, parent known); groups not flagged isParent have no children (needed by the rebuild and by
  re-parent, which re-add `ChildRequest`/`Used` of such a group as if they were its own pods); no pods cached in
  the root group; the touched group declares the dimension (the property fixes one shared dimension set);
  the old pod object handed to a handler is the one delivered last (informer consistency);
  MigratePod is called for a cached pod (a target that already holds the pod is left alone — repair 5a63beb —, so
  nothing is required of the target beyond existing and declaring the dimension).
  T6 the SCHEDULES quantifier — pod handlers on distinct pods interleaved at the granularity of their separately
     locked sections (section "SCHEDULES" below; development in Proofs/C01Ext*.lean):
     `section_preserves_invariant`  one section keeps the invariant that holds BETWEEN sections (`CI`)
     `delta_commute_sections`       two sections / delta propagations of different pods commute
     `handler_sections`             OnPodAdd / OnPodUpdate / OnPodDelete = their section lists (tied to the Go source
                                    order by Ties/C01.lean), safe under the sequential precondition
     `handlers_interleaving_exact`  ANY complete interleaving of N handlers ends with `LocalInv` and the figures of
                                    `run s0 ops`;  `handlers_any_order`: in whatever order the ops are applied;
     `handlers_interleaving_between`, `interleaving_*`: the invariant at every intermediate point, generic pools.
     Not covered: two handlers for the SAME pod in flight at once (the informer delivers the events of one pod in
     order), interleavings finer than a section and the Go memory model / sync.RWMutex (trusted; the extracted facts
     show each section holds its lock around all its accesses), operations under the hierarchy WRITE lock running
     concurrently with handlers (they are atomic steps at quiescent points; sampled by the mgr harness' batches).
  T7 min-quota scaling (section "MIN-QUOTA SCALING"; Proofs/C01ExtScale.lean): `request_floor_ignores_scaled_min` — the
     request floor of a group that does not lend is its DECLARED min whatever RefreshRuntime did to AutoScaleMin;
     `declared_min_is_last_applied`, `request_floor_is_last_declared_min` — "declared" = the last applied quota object;
     `request_floor_operand_iff`, `request_floor_scaled_counterexample` — no other operand keeps the equation.
-/
namespace KoordVerif.C01

/-! ### the two delta propagations -/

/-- Exact effect of recursiveUpdateGroupTreeWithDeltaRequest (un-clamped run) on every group `m`: nothing but the
five request figures changes; selfRequest/selfNpRequest change only at the head and only with self index 0; the
defect of the childRequest equation (root: request equation) of `m` changes by `d` exactly when `m` is the head
and the self index is −1, likewise the non-preemptible one; on every non-root group of the path
`request = lendRule childRequest` holds afterwards; groups off the path are untouched. -/
theorem propagate_request_frame (path : List Nat) (s : State) (self : Bool) (d dnp : Int)
    (hc : Chain s path) (hnd : path.Nodup) :
    ReqRel s (propReqW id s path self d dnp) path self d dnp :=
  propReq_frame path s self d dnp hc hnd

/-- Exact effect of updateGroupDeltaUsedNoLock (un-clamped run), same shape. -/
theorem propagate_used_frame (path : List Nat) (s : State) (self : Bool) (d dnp : Int)
    (hc : Chain s path) (hnd : path.Nodup) :
    UsedRel s (propUsedW id s path self d dnp) path.head? self d dnp :=
  propUsed_frame path s self d dnp hc hnd

/-- If all request equations hold except that the pod set of `n` changed by (`d`,`dnp`), the REAL (clamped)
propagation from `n` with self index 0 restores every request equation, keeps every used equation (also a
pending one), keeps the tree and the parameters. -/
theorem propagate_request_preserves {s : State} {pth : List Nat} {n : Nat} {d dnp : Int}
    (hc : Chain s pth) (hnd : pth.Nodup) (hh : pth.head? = some n)
    (ht : TreeOK (tree s)) (hpar : ParamsOK s) (hpend : ReqPend s n d dnp) :
    ReqInv (propReq s pth true d dnp) ∧
    (∀ u a b, UsedPend s u a b → UsedPend (propReq s pth true d dnp) u a b) ∧
    tree (propReq s pth true d dnp) = tree s ∧ ParamsOK (propReq s pth true d dnp) :=
  (propReq_self hc hnd hh ht hpar hpend).2

theorem propagate_used_preserves {s : State} {pth : List Nat} {n : Nat} {d dnp : Int}
    (hc : Chain s pth) (hnd : pth.Nodup) (hh : pth.head? = some n)
    (ht : TreeOK (tree s)) (hpar : ParamsOK s) (hpend : UsedPend s n d dnp) :
    UsedInv (propUsed s pth true d dnp) ∧
    (∀ u a b, ReqPend s u a b → ReqPend (propUsed s pth true d dnp) u a b) ∧
    tree (propUsed s pth true d dnp) = tree s ∧ ParamsOK (propUsed s pth true d dnp) :=
  (propUsed_self hc hnd hh ht hpar hpend).2

/-- Self index −1 (delete, re-parent, min/max update): a children sum of the head that is off by exactly the
propagated delta is repaired, everything else is kept. -/
theorem propagate_request_repairs {s : State} {pth : List Nat} {g : Nat} {d dnp : Int}
    (hc : Chain s pth) (hnd : pth.Nodup) (hh : pth.head? = some g)
    (ht : TreeOK (tree s)) (hpar : ParamsOK s) (hoff : ReqOff s g d dnp) :
    ReqInv (propReq s pth false d dnp) :=
  (propReq_top hc hnd hh ht hpar hoff).2.1

/-! ### no clamp fires, nothing is negative -/

theorem no_clamp_request {s : State} {pth : List Nat} {n : Nat} {d dnp : Int}
    (hc : Chain s pth) (hnd : pth.Nodup) (hh : pth.head? = some n)
    (ht : TreeOK (tree s)) (hpar : ParamsOK s) (hpend : ReqPend s n d dnp) :
    propReqW clamp0 s pth true d dnp = propReqW id s pth true d dnp :=
  (propReq_self hc hnd hh ht hpar hpend).1

theorem no_clamp_used {s : State} {pth : List Nat} {n : Nat} {d dnp : Int}
    (hc : Chain s pth) (hnd : pth.Nodup) (hh : pth.head? = some n)
    (ht : TreeOK (tree s)) (hpar : ParamsOK s) (hpend : UsedPend s n d dnp) :
    propUsedW clamp0 s pth true d dnp = propUsedW id s pth true d dnp :=
  (propUsed_self hc hnd hh ht hpar hpend).1

/-- General form: whenever the un-clamped run ends without a negative figure on the path, the clamped run took
exactly the same steps (any self index, any pre-state).  Every use of a propagation inside `step` is an instance
(Proofs/C01Gen.lean `propReq_gen`, `propUsed_gen`), so no clamp fires in any admissible history. -/
theorem no_clamp_request_general (path : List Nat) (s : State) (self : Bool) (d dnp : Int) (hnd : path.Nodup)
    (h : ∀ m ∈ path, ∀ q', get? (propReqW id s path self d dnp) m = some q' →
      0 ≤ crOf q' ∧ 0 ≤ q'.npRequest ∧ 0 ≤ q'.selfRequest ∧ 0 ≤ q'.selfNpRequest) :
    propReq s path self d dnp = propReqW id s path self d dnp :=
  propReq_noclamp path s self d dnp hnd h

theorem no_clamp_used_general (path : List Nat) (s : State) (self : Bool) (d dnp : Int) (hnd : path.Nodup)
    (h : ∀ m ∈ path, ∀ q', get? (propUsedW id s path self d dnp) m = some q' →
      0 ≤ q'.used ∧ 0 ≤ q'.npUsed ∧ 0 ≤ q'.selfUsed ∧ 0 ≤ q'.selfNpUsed) :
    propUsed s path self d dnp = propUsedW id s path self d dnp :=
  propUsed_noclamp path s self d dnp hnd h

/-- "nothing is driven negative": the local equations alone force every figure to be >= 0. -/
theorem localInv_nonneg {s : State} (ht : TreeOK (tree s)) (hp : ParamsOK s) (hl : LocalInv s) :
    ∀ m q, get? s m = some q → RNonneg q ∧ UNonneg q :=
  fun m q hq => ⟨reqInv_nonneg ht hp hl.1 m q hq, usedInv_nonneg ht hp hl.2 m q hq⟩

/-! ### every operation, every history -/

/-- DeleteQuota keeps the local equations — because deleteQuotaNoLock hands back the max-LIMITED request
(`0 - q.limited` in the model; the defect repaired by 3651408 handed back the raw request). -/
theorem delete_preserves_localInv {s : State} {n : Nat} {q : Quota} (hq : get? s n = some q)
    (ht : TreeOK (tree s)) (hpar : ParamsOK s) (hl : LocalInv s)
    (hc : Chain (erase s n) (path (erase s n) q.parent)) (hnd : (path (erase s n) q.parent).Nodup)
    (hh : (path (erase s n) q.parent).head? = some q.parent) :
    LocalInv (deleteQuota s n) ∧ TreeOK (tree (deleteQuota s n)) ∧ ParamsOK (deleteQuota s n) :=
  deleteQuota_preserves hq ht hpar hl hc hnd hh

/-- updateQuotaNoLockWhenParentChange (delete, re-insert, re-add self / child request and used) -/
theorem reparent_preserves_localInv {s : State} {q : Quota} {sp : QSpec} (h : Good s) (hq : get? s sp.name = some q)
    (hpre : RepPre s q sp) : Good (reparent s q sp) ∧ LocalInv (reparent s q sp) :=
  ⟨reparent_good h hq hpre, good_localInv (reparent_good h hq hpre)⟩

/-- T1: one operation of ANY kind (UpdateQuota: create / min,max,weight / re-parent / flag change with rebuild;
DeleteQuota; ResetQuota; OnPodAdd incl. fail-over; OnPodUpdate all branches; OnPodDelete; ReservePod;
UnreservePod; MigratePod) keeps the invariant. -/
theorem step_preserves_localInv {s : State} {op : Op} (h : Good s) (hpre : PreF s op) :
    Good (step s op) ∧ LocalInv (step s op) :=
  ⟨step_good_full h hpre, good_localInv (step_good_full h hpre)⟩

/-- T3: any finite history from the empty manager whose operations meet their preconditions ends in a state that
satisfies every local equation (`PreAllF` is prefix-closed, so this holds after every prefix as well). -/
theorem history_exact (ops : List Op) (hp : PreAllF init ops) :
    Good (run init ops) ∧ LocalInv (run init ops) :=
  ⟨run_good_full ops init init_good hp, good_localInv (run_good_full ops init init_good hp)⟩

/-- …and nothing is negative at the end of such a history -/
theorem history_nonneg (ops : List Op) (hp : PreAllF init ops) :
    ∀ m q, get? (run init ops) m = some q → RNonneg q ∧ UNonneg q := by
  have hg := run_good_full ops init init_good hp
  exact localInv_nonneg hg.topo.tree hg.params (good_localInv hg)

/-! ### the figures are the from-scratch figures -/

/-- T2: two states over the same objects (quota specs + cached pods) that both satisfy the local equations
report the same figures for every group. -/
theorem localInv_unique {s s' : State} (hobj : s'.map obj = s.map obj) (ht : TreeOK (tree s))
    (h : LocalInv s) (h' : LocalInv s') :
    ∀ m q q', get? s m = some q → get? s' m = some q' → aggs q' = aggs q :=
  localInv_unique_aux hobj ht h h'

/-- The incrementally maintained figures are indistinguishable from those of ANY other admissible history that
ends in the same objects — in particular of a fresh manager that is fed the final objects only. -/
theorem history_matches_fresh (ops ops' : List Op) (hp : PreAllF init ops) (hp' : PreAllF init ops')
    (hobj : (run init ops').map obj = (run init ops).map obj) :
    ∀ m q q', get? (run init ops) m = some q → get? (run init ops') m = some q' → aggs q' = aggs q := by
  have hg := run_good_full ops init init_good hp
  have hg' := run_good_full ops' init init_good hp'
  exact localInv_unique hobj hg.topo.tree (good_localInv hg) (good_localInv hg')

/-- T5: the full rebuild (resetQuotaNoLock) reproduces exactly the incrementally maintained figures. -/
theorem reset_agrees {s : State} (h : Good s) (hleaf : LeafOK s) (hroot : RootEmpty s) :
    ∀ m q q', get? s m = some q → get? (resetAll s) m = some q' → aggs q' = aggs q :=
  localInv_unique (resetAll_obj s) h.topo.tree (good_localInv h) (good_localInv (resetQuota_good h hleaf hroot))

/-! ### SCHEDULES: interleavings of concurrently running pod handlers on distinct pods

Granularity = the separately locked sections of the Go handlers (`Micro`, Proofs/C01ExtMicro.lean):
  OnPodAdd    = [cacheAdd (QuotaInfo.lock), req (path locks), setAsg (QuotaInfo.lock), used (path locks)]   (last two: bound pod)
  OnPodDelete = [req (path locks), used (path locks, if assigned), cacheRemove (QuotaInfo.lock)]
all inside hierarchyUpdateLock.RLock(), so sections of different handlers interleave freely; ReservePod /
UnreservePod / MigratePod / UpdateQuota / DeleteQuota / ResetQuota hold the hierarchy WRITE lock and are atomic
(they run at quiescent points only).  `mstep` runs one section with the very functions `step` is built from.
Invariant BETWEEN sections (`CI s c`): topology / parameters / unique cache ids; EVERY tree equation
(childRequest = selfRequest + Σ limited children, request = lend/min rule, used = selfUsed + Σ children, ...);
selfX(g) = Σ over the cached pods of g of the COUNTED amount of the pod (`c`), all counted amounts >= 0; the pod of
a handler in flight may be unsettled (counted ≠ what its cache entry says), every other pod is settled.
All pods settled <=> `Good` (= `LocalInv` + well-formedness). -/

/-- the quiescent invariant is the section invariant with every pod settled -/
theorem good_iff_sections_settled {s : State} : Good s ↔ ∃ c, CI s c ∧ ∀ m i, Settled s c m i :=
  ⟨fun h => ⟨cntOf s, CI_of_good h, fun m i => settled_cntOf s m i⟩, fun ⟨_, h, hs⟩ => good_of_CI h hs⟩

/-- ONE section of the handler of pod `i` that is locally admissible (`okStep`: decidable, reads only pod i's own
cache entries / counted amounts and static data) keeps the section invariant — in particular no clamp fires and
every tree equation holds again when the path locks are released —, acts on pod i's local view as `lstep` says,
and is invisible to the local view of every other pod and to the static data. -/
theorem section_preserves_invariant {s : State} {c : Cnts} {i : Nat} {m : Micro} (h : CI s c)
    (hok : okStep (stat s) i (localOf s c i) m) :
    ∃ c', CI (mstep s m) c' ∧ localOf (mstep s m) c' i = lstep (stat s) (localOf s c i) m ∧
      (∀ j, j ≠ i → localOf (mstep s m) c' j = localOf s c j) ∧ (mstep s m).map statN = s.map statN :=
  mstep_CI h hok

/-- T6 `delta_commute`: two sections of the handlers of distinct pods — in particular two atomic delta propagations
(request/request, request/used, used/used) — that are both admissible in a state of the section invariant
commute: both orders stay inside the invariant and end with the same figures for every group, the same cache
entries and the same static data. -/
theorem delta_commute_sections {s : State} {c : Cnts} {i1 i2 : Nat} {m1 m2 : Micro} (h : CI s c) (hne : i1 ≠ i2)
    (h1 : okStep (stat s) i1 (localOf s c i1) m1) (h2 : okStep (stat s) i2 (localOf s c i2) m2) :
    (∃ c', CI (mstep (mstep s m1) m2) c') ∧ (∃ c', CI (mstep (mstep s m2) m1) c') ∧
    (∀ m qa qb, get? (mstep (mstep s m1) m2) m = some qa → get? (mstep (mstep s m2) m1) m = some qb → aggs qa = aggs qb) ∧
    (∀ m j, entry (mstep (mstep s m1) m2) m j = entry (mstep (mstep s m2) m1) m j) :=
  delta_commute h hne h1 h2

/-- every configuration reachable by ANY interleaving of safe handlers on distinct pods satisfies the section
invariant, and every pod without a handler in the pool is settled -/
theorem interleaving_keeps_invariant {s0 : State} {pool0 : Pool} (hg : Good s0) (hn : (pool0.map (·.1)).Nodup)
    (hsafe : ∀ th ∈ pool0, Safe (stat s0) th.1 (localOf s0 (cntOf s0) th.1) th.2)
    {s : State} {pool : Pool} (hs : PSteps (s0, pool0) (s, pool)) :
    ∃ c, CI s c ∧ ∀ j, j ∉ pool.map (·.1) → ∀ m, Settled s c m j :=
  interleaving_invariant hg hn hsafe hs

/-- small-step theorem: any interleaving that has run every handler to completion (a quiescent point) ends in a
state satisfying `LocalInv`, with exactly the figures (and cache entries) of the SEQUENTIAL execution of the
same handlers one after the other, in the order of the pool — hence of any order. -/
theorem interleaving_equals_sequential {s0 : State} {pool0 : Pool} (hg : Good s0) (hn : (pool0.map (·.1)).Nodup)
    (hsafe : ∀ th ∈ pool0, Safe (stat s0) th.1 (localOf s0 (cntOf s0) th.1) th.2)
    {s : State} {pool : Pool} (hs : PSteps (s0, pool0) (s, pool)) (hq : Quiescent pool) :
    Good s ∧ LocalInv s ∧
    (∀ m q q', get? s m = some q → get? (runThreads s0 pool0) m = some q' → aggs q = aggs q') ∧
    (∀ m j, entry s m j = entry (runThreads s0 pool0) m j) :=
  interleaving_serializable hg hn hsafe hs hq

/-- OnPodAdd / OnPodDelete / OnPodUpdate (every branch): the sections of the handler (`PodEv.plan`, in the order
of the Go code) run one after the other ARE the atomic model step, and under the precondition of the sequential
theorem (`PodPre` / `UpdPre`) the plan is safe. -/
theorem handler_sections {s : State} {ev : PodEv} (hg : Good s) (hpre : ev.Pre s) :
    runMicros s (ev.plan s) = step s ev.op ∧ Safe (stat s) ev.id (localOf s (cntOf s) ev.id) (ev.plan s) :=
  ⟨PodEv.run_plan hg.pods ev (PodEv.wf_of_pre hpre), PodEv.safe hg hpre⟩

/-- Go (repair 7265fb2) refreshes the cached object AFTER the used / assigned handling of OnPodUpdate's same-quota
branch, the atomic model right after the request section: the Go order (`planSameGoV`, the one Ties/C01.lean ties
to the source) is safe under the same precondition and leaves the pod's local view exactly as the model order
does — the generic pool theorems `interleaving_*` hold for any safe plan. -/
theorem update_refresh_position {s : State} {n : Nat} {np op : PodObj} {e : Pod}
    (hst : stat s n = some true) (hnnN : 0 ≤ np.req) (hnnO : 0 ≤ op.req) (he : entry s n np.id = some e)
    (hreq : e.req = op.req) (hnp : e.np = op.np) :
    FSafeRun (stat s n) np.id (focus (localOf s (cntOf s) np.id) n) (planSameGoV (some e) n np op) ∧
    FSettled (frun (stat s n) (focus (localOf s (cntOf s) np.id) n) (planSameGoV (some e) n np op)) ∧
    frun (stat s n) (focus (localOf s (cntOf s) np.id) n) (planSameGoV (some e) n np op) =
      frun (stat s n) (focus (localOf s (cntOf s) np.id) n) (planSameV (some e) n np op) :=
  safe_planSameGoV hst hnnN hnnO he hreq hnp

/-- OnPodDelete gives back what the group ACCOUNTED (the cached object's amounts, repair 7265fb2): it keeps the
invariant without any informer-consistency hypothesis on the delivered object. -/
theorem delete_needs_no_consistency {s : State} {n : Nat} {p : PodObj} (h : Good s)
    (hmax : ∀ q, get? s n = some q → q.max.isSome = true) :
    Good (step s (.podDelete n p)) ∧ LocalInv (step s (.podDelete n p)) :=
  ⟨onPodDelete_good' h hmax, good_localInv (onPodDelete_good' h hmax)⟩

/-- SCHEDULES, handler level: pod events (add / update / delete, any branch) on DISTINCT pods, each admissible in
the start state, issued from concurrent goroutines.  Whatever way the separately locked sections of their handlers
interleave, once every handler has finished the state satisfies `LocalInv` and every group reports exactly the
figures of the ATOMIC model run on the same events one after the other (`run s0 ops`, the object of T1–T5), with
the same cache entries (only the order inside a cache list may differ). -/
theorem handlers_interleaving_exact {s0 : State} {evs : List PodEv} (hg : Good s0) (hn : (evs.map PodEv.id).Nodup)
    (hpre : ∀ ev ∈ evs, ev.Pre s0)
    {s : State} {pool : Pool} (hs : PSteps (s0, evs.map (thr s0)) (s, pool)) (hq : Quiescent pool) :
    Good s ∧ LocalInv s ∧
    (∀ m q q', get? s m = some q → get? (run s0 (evs.map PodEv.op)) m = some q' → aggs q = aggs q') ∧
    (∀ m j, entry s m j = entry (run s0 (evs.map PodEv.op)) m j) :=
  handlers_serializable hg hn hpre hs hq

/-- "…the same figures as SOME sequential order": as ANY sequential order — pod events on distinct pods, each
admissible in the start state, give the same figures whatever order the atomic model applies them in. -/
theorem handlers_any_order {s0 : State} {evs evs' : List PodEv} (hg : Good s0) (hperm : evs.Perm evs')
    (hn : (evs.map PodEv.id).Nodup) (hpre : ∀ ev ∈ evs, ev.Pre s0) :
    ∀ m q q', get? (run s0 (evs.map PodEv.op)) m = some q → get? (run s0 (evs'.map PodEv.op)) m = some q' →
      aggs q = aggs q' :=
  handlers_order_independent hg hperm hn hpre

/-- …and BETWEEN any two sections of such an interleaving the section invariant holds (every tree equation; the
pods without a handler in flight settled) and no figure of any group is negative. -/
theorem handlers_interleaving_between {s0 : State} {evs : List PodEv} (hg : Good s0) (hn : (evs.map PodEv.id).Nodup)
    (hpre : ∀ ev ∈ evs, ev.Pre s0)
    {s : State} {pool : Pool} (hs : PSteps (s0, evs.map (thr s0)) (s, pool)) :
    ∃ c, CI s c ∧ (∀ j, j ∉ pool.map (·.1) → ∀ m, Settled s c m j) ∧
      ∀ m q, get? s m = some q → RNonneg q ∧ UNonneg q :=
  handlers_between hg hn hpre hs

/-- WHOLE executions: write-locked operations (atomic, `PreF`) alternating with pools of concurrently running pod
handlers on distinct pods (any complete interleaving of their sections): the invariant — hence `LocalInv`, hence
non-negativity — holds at every quiescent point, in particular at the end. -/
theorem execution_localInv {s s' : State} {phases : List Phase} (hg : Good s) (h : MExec s phases s') :
    Good s' ∧ LocalInv s' ∧ ∀ m q, get? s' m = some q → RNonneg q ∧ UNonneg q := by
  have hg' := mexec_good hg h
  exact ⟨hg', good_localInv hg', localInv_nonneg hg'.topo.tree hg'.params (good_localInv hg')⟩

/-- …and the figures reported there are a function of the static data and of the cache ENTRIES alone (T2 up to the
order inside the cache lists, which is all an interleaving can change): any two quiescent states that agree on
these — e.g. the end of an execution and a fresh manager fed the same final objects — report identical figures. -/
theorem quiescent_figures_determined {A B : State} (hA : Good A) (hB : Good B) (hs : A.map statN = B.map statN)
    (he : ∀ m j, entry A m j = entry B m j) :
    ∀ m qa qb, get? A m = some qa → get? B m = some qb → aggs qa = aggs qb :=
  figures_determined hA hB hs he

/-! ### MIN-QUOTA SCALING: the request floor is the declared min, never the scaled one

`XOp` (Proofs/C01ExtScale.lean) = the accounting operations plus setScaleMinQuotaEnabled, cluster-total changes
(node add / update / delete, SetTotalResourceForTree) and RefreshRuntime, which with scaling on lowers
CalculateInfo.AutoScaleMin below the declared min when the siblings' summed min exceeds what the parent can hand
out.  A refresh may install ANY values (the scaling arithmetic is C02's, not modelled); the table is a component
of `XState` that no accounting step reads.  Ties/C01.lean `tie_request_floor_operand`: the operand of the floor is
`CalculateInfo.Min` in the delta path and the min-update path (the only writers of CalculateInfo.Request besides the
add / clear helpers), the rebuild re-adds through the delta path and resets AutoScaleMin to Min. -/

/-- Whatever scale / total / refresh operations are interleaved with an admissible history of accounting operations,
and whatever scaled mins the refreshes install: the state is the one of the history with those operations erased (so
no figure depends on whether a pod event came before or after a refresh, and a fresh manager fed the final objects
agrees by `history_matches_fresh`), and every non-root group reports request = childRequest if it lends,
max(childRequest, DECLARED min) if it does not. -/
theorem request_floor_ignores_scaled_min (ops : List XOp) (hp : PreAllF init (ops.filterMap XOp.acct?)) :
    (xrun xinit ops).s = run init (ops.filterMap XOp.acct?) ∧
    ∀ m q, get? (xrun xinit ops).s m = some q → m ≠ rootName →
      q.request = if q.lend then q.childRequest else max q.childRequest q.min :=
  ⟨xrun_state ops xinit, request_floor_declared ops hp⟩

/-- "DECLARED min" = the min of the last applied quota object (Proofs/C01ExtDeclared.lean): UpdateQuota(sp) — every
branch: create, min/max update, re-parent, flag change with rebuild — leaves group sp.name with min = sp.min and
lend = sp.lend and touches these fields of no other group; DeleteQuota(n) touches them for no other group; no pod
operation and no rebuild touches them at all. -/
theorem declared_min_is_last_applied (s : State) (op : Op) :
    match op with
    | .quota sp => declOf (step s op) sp.name = some (sp.min, sp.lend) ∧ ∀ m, m ≠ sp.name → declOf (step s op) m = declOf s m
    | .delQuota n => ∀ m, m ≠ n → declOf (step s op) m = declOf s m
    | _ => ∀ m, declOf (step s op) m = declOf s m :=
  step_declared s op

/-- …so, history level: if the last UpdateQuota / DeleteQuota for a group was UpdateQuota(sp) (`rest` holds no such
operation for sp.name; any pod / quota / scale / total / refresh operations around it), the group exists at the end
and reports request = childRequest if sp lends, max(childRequest, sp.min) if not — sp.min literally, whatever the
refreshes installed as scaled min. -/
theorem request_floor_is_last_declared_min (ops : List XOp) (pre rest : List Op) (sp : QSpec)
    (hsplit : ops.filterMap XOp.acct? = pre ++ .quota sp :: rest) (hrest : ∀ op ∈ rest, NoTouch sp.name op)
    (hp : PreAllF init (ops.filterMap XOp.acct?)) (hroot : sp.name ≠ rootName) :
    ∃ q, get? (xrun xinit ops).s sp.name = some q ∧ q.min = sp.min ∧ q.lend = sp.lend ∧
      q.request = if sp.lend then q.childRequest else max q.childRequest sp.min :=
  request_floor_last_declared ops pre rest sp hsplit hrest hp hroot

/-- non-vacuity: `scOps1` splits as [] ++ UpdateQuota(group 2: min 40, does not lend) :: [pod add] -/
example : ∃ q, get? (xrun xinit scOps1).s 2 = some q ∧ q.min = 40 ∧ q.lend = false ∧
    q.request = if false then q.childRequest else max q.childRequest 40 :=
  request_floor_is_last_declared_min scOps1 [] [.podAdd 2 ⟨1, 5, false, false, false, false⟩] ⟨2, 1, false, false, 100, 40⟩
    rfl (by intro op h; simp only [List.mem_cons, List.not_mem_nil, or_false] at h; subst h; trivial) scOps1_pre (by decide)

/-- One iteration of the delta propagation with an ARBITRARY floor operand `f` (`reqNodeF`; `reqNodeF_declared`: the
model is the instance f = declared min) re-establishes the property's request equation of a group that does not lend
exactly when `f` raises as the declared min does. -/
theorem request_floor_operand_iff (f : Int) (cl : Int → Int) (q : Quota) (d dnp : Int) (self : Bool) (hl : q.lend = false) :
    (reqNodeF f cl q d dnp self).request =
        lendRule (reqNodeF f cl q d dnp self) (reqNodeF f cl q d dnp self).childRequest ↔
      max f (cl (q.childRequest + d)) = max q.min (cl (q.childRequest + d)) :=
  reqNodeF_rule_iff f cl q d dnp self hl

/-- …and the scaled min is NOT such an operand: declared min 40, scaled min 25, a pod of 5 arrives — the request would
become 25 instead of 40. -/
theorem request_floor_scaled_counterexample :
    ¬ (∀ f : Int, (reqNodeF f clamp0 scWitness 5 0 true).request =
        lendRule (reqNodeF f clamp0 scWitness 5 0 true) (reqNodeF f clamp0 scWitness 5 0 true).childRequest) :=
  scaled_floor_counterexample

/-- non-vacuity: the hypothesis holds for `scOps1` (scale on; a group that does not lend, min 40; total 100 -> 50; a
refresh installs 25; a pod of 5), so the theorem applies to it; the group ends with request 40 = its declared min -/
example : (xrun xinit scOps1).s = run init (scOps1.filterMap XOp.acct?) ∧
    ∀ m q, get? (xrun xinit scOps1).s m = some q → m ≠ rootName →
      q.request = if q.lend then q.childRequest else max q.childRequest q.min :=
  request_floor_ignores_scaled_min scOps1 scOps1_pre

example : ((xrun xinit scOps1).s.map fun q => (q.name, q.lend, q.min, q.request, q.childRequest)) =
    [(2, false, 40, 40, 5), (1, false, 0, 40, 0)] ∧ (xrun xinit scOps1).scaled = [(2, 25)] := by decide

/-! ### dimension-wise decomposition -/

/-- see `propReq_zero_id` in Proofs/C01Extra.lean -/
theorem zero_delta_request_identity (pth : List Nat) (s : State) (self : Bool)
    (h : ∀ m ∈ pth, ∀ q, get? s m = some q → 0 ≤ q.request ∧ 0 ≤ q.npRequest ∧ 0 ≤ q.childRequest ∧ 0 ≤ q.selfRequest ∧
      0 ≤ q.selfNpRequest ∧ (m ≠ rootName → q.request = lendRule q q.childRequest)) :
    propReq s pth self 0 0 = s :=
  propReq_zero_id pth s self h

theorem zero_delta_used_identity (pth : List Nat) (s : State) (self : Bool)
    (h : ∀ m ∈ pth, ∀ q, get? s m = some q → 0 ≤ q.used ∧ 0 ≤ q.npUsed ∧ 0 ≤ q.selfUsed ∧ 0 ≤ q.selfNpUsed) :
    propUsed s pth self 0 0 = s :=
  propUsed_zero_id pth s self h

/-! ### non-vacuity: concrete histories, their states, and the hypotheses on them -/

/-- root(1) ⊇ P1(2), P2(3); A(4): max 10 under P1 with a pod of 30; B(5) under P1 with a pod of 25. -/
def exOps : List Op :=
  [ .quota ⟨2, 1, true, true, 100, 0⟩, .quota ⟨3, 1, true, true, 100, 0⟩,
    .quota ⟨4, 2, false, true, 10, 0⟩, .quota ⟨5, 2, false, true, 100, 0⟩,
    .podAdd 4 ⟨1, 30, false, false, false, false⟩, .podAdd 5 ⟨2, 25, true, true, false, false⟩ ]

def exState : State := run init exOps

/-- the figures of the example: A requests 30 but only min(30, 10) reaches P1; B's pod is assigned. -/
example : (exState.map fun q => (q.name, q.request, q.childRequest, q.used, q.npRequest)) =
    [(5, 25, 25, 25, 25), (4, 30, 30, 0, 0), (3, 0, 0, 0, 0), (2, 35, 35, 25, 25), (1, 35, 0, 25, 25)] := by decide

/-- the hypotheses of the propagation theorems hold on it (chain from A to the root) -/
example : path exState 4 = [4, 2, 1] ∧ Chain exState [4, 2, 1] ∧ [4, 2, 1].Nodup :=
  ⟨by decide, ⟨by decide, by decide, by decide, by decide, 0, by decide, by decide⟩, by decide⟩

/-- …and the re-parent of A to P2 (the history of the defect repaired by commit 3651408) leaves P1 with B's 25 -/
example : ((run exState [.quota ⟨4, 3, false, true, 10, 0⟩]).map fun q => (q.name, q.request)) =
    [(4, 30), (5, 25), (3, 10), (2, 25), (1, 35)] := by decide

/-- `PreAllF` is satisfiable on a non-trivial history: create a leaf quota, add a pod whose request exceeds max. -/
def exOps2 : List Op := [ .quota ⟨2, 1, false, true, 10, 0⟩, .podAdd 2 ⟨1, 30, false, false, false, false⟩ ]

def exS1 : State := step init (.quota ⟨2, 1, false, true, 10, 0⟩)

theorem exS1_eq : exS1 = [ { emptyQuota 2 1 false true with max := some 10 }, emptyQuota 1 0 true false ] := by decide

theorem ex_topo : Topo (emptyQuota 2 1 false true :: init) := by
  refine ⟨⟨by decide, ⟨fun n => if n = 1 then 1 else 0, by decide⟩, by decide⟩, ?_⟩
  intro n hn
  have hcases : n = 2 ∨ n = 1 := by
    simp only [init, get?, emptyQuota] at hn
    by_cases h2 : 2 = n
    · left; exact h2.symm
    · by_cases h1 : rootName = n
      · right; rw [← h1]; rfl
      · simp [h2, h1] at hn
  rcases hcases with rfl | rfl
  · exact ⟨⟨by decide, by decide, 0, by decide, by decide⟩, by decide, by decide⟩
  · exact ⟨⟨0, by decide, by decide⟩, by decide, by decide⟩

example : PreAllF init exOps2 := by
  refine ⟨⟨by decide, by decide, ?_⟩, ?_, trivial⟩
  · show (∀ c ∈ init, c.parent ≠ 2) ∧ Topo (emptyQuota 2 1 false true :: init)
    exact ⟨by decide, ex_topo⟩
  · show PodPre exS1 2 ⟨1, 30, false, false, false, false⟩
    rw [exS1_eq]
    refine ⟨by decide, fun q hq => ?_⟩
    simp only [get?, emptyQuota, if_true, Option.some.injEq] at hq
    subst hq
    exact ⟨rfl, fun e he => by simp [getPod] at he⟩

/-- and the theorem then gives, e.g., the equations for the state after that history -/
example : LocalInv (run init exOps2) := (history_exact exOps2 (by
  refine ⟨⟨by decide, by decide, ?_⟩, ?_, trivial⟩
  · show (∀ c ∈ init, c.parent ≠ 2) ∧ Topo (emptyQuota 2 1 false true :: init)
    exact ⟨by decide, ex_topo⟩
  · show PodPre exS1 2 ⟨1, 30, false, false, false, false⟩
    rw [exS1_eq]
    refine ⟨by decide, fun q hq => ?_⟩
    simp only [get?, emptyQuota, if_true, Option.some.injEq] at hq
    subst hq
    exact ⟨rfl, fun e he => by simp [getPod] at he⟩)).2

/-- SCHEDULES, non-vacuity: the hypotheses of `handlers_interleaving_exact` hold for a NON-sequential interleaving
(Proofs/C01ExtExample.lean `cx_steps`: 2.cacheAdd, 1.cacheAdd, 1.req, 2.req, 1.setAsg, 1.used) of two OnPodAdd handlers
on the quota of `exS1`; the theorem then gives the local equations for the state that interleaving ends in. -/
example : LocalInv cxFinal := by
  have hp : PreAllF init [.quota ⟨2, 1, false, true, 10, 0⟩] := by
    refine ⟨⟨by decide, by decide, ?_⟩, trivial⟩
    show (∀ c ∈ init, c.parent ≠ 2) ∧ Topo (emptyQuota 2 1 false true :: init)
    exact ⟨by decide, ex_topo⟩
  have hg : Good cxS := (history_exact _ hp).1
  have hpod : ∀ p : PodObj, 0 ≤ p.req → PodPre cxS 2 p := by
    intro p hp0
    show PodPre exS1 2 p
    rw [exS1_eq]
    refine ⟨hp0, fun q hq => ?_⟩
    simp only [get?, emptyQuota, if_true, Option.some.injEq] at hq
    subst hq
    exact ⟨rfl, fun e he => by simp [getPod] at he⟩
  have hpre : ∀ ev ∈ cxEvs, ev.Pre cxS := by
    intro ev hev
    simp only [cxEvs, List.mem_cons, List.not_mem_nil, or_false] at hev
    rcases hev with rfl | rfl
    · exact hpod cxP1 (by decide)
    · exact hpod cxP2 (by decide)
  have hq : Quiescent [(1, []), (2, [])] := by
    intro th hth
    simp only [List.mem_cons, List.not_mem_nil, or_false] at hth
    rcases hth with rfl | rfl <;> rfl
  exact (handlers_interleaving_exact hg (by decide) hpre cx_steps hq).2.1

end KoordVerif.C01
