import KoordVerif.Model.C18
import KoordVerif.Model.C18Usage
import KoordVerif.Model.C18Pools
/-
C18 — property theorems (DESIGN.md §4 C18).  All statements are about the executable model
`Model/C18.lean`, for arbitrary threshold quantities, usages, pod sets, filter/evictor answers,
detector states and observed sort orders (no bound on sizes).
`Ev.usage / Ev.high / Ev.avail` are the running estimates the code compared right before the
`Evictor.Evict` call the event stands for.
-/
namespace KoordVerif.C18

/-! ### helpers -/

/-- what one Evict call leaves of an estimate. -/
def Ev.after (e : Ev) (v : Vec) : Vec := if e.moved then vsub v e.metric else v

/-- the events replay the running estimates: every call sees the initial estimate minus what
    the earlier successful calls (with a pod metric) moved. -/
def Replay : Vec → Vec → List Ev → Prop
  | _, _, [] => True
  | cur, avail, e :: es => e.usage = cur ∧ e.avail = avail ∧ Replay (e.after cur) (e.after avail) es

/-- the headroom part alone (it is shared by all source nodes of one pass). -/
def AvailChain : Vec → List Ev → Prop
  | _, [] => True
  | a, e :: es => e.avail = a ∧ AvailChain (e.after a) es

def finalAvail (a : Vec) (es : List Ev) : Vec := es.foldl (fun a e => e.after a) a

theorem replay_availChain (cur a : Vec) (es : List Ev) (h : Replay cur a es) : AvailChain a es := by
  induction es generalizing cur a with
  | nil => trivial
  | cons e es ih => exact ⟨h.2.1, ih _ _ h.2.2⟩

theorem availChain_append (a : Vec) (xs ys : List Ev) :
    AvailChain a (xs ++ ys) ↔ AvailChain a xs ∧ AvailChain (finalAvail a xs) ys := by
  induction xs generalizing a with
  | nil => simp [AvailChain, finalAvail]
  | cons x xs ih =>
    simp only [List.cons_append, AvailChain, finalAvail, List.foldl_cons]
    rw [ih]
    simp [finalAvail, and_assoc]

/-! ### 1./3. the eviction loop of one source node: only while over the high threshold and while
       headroom is left; exact running estimates; stops -/

/-- dry-run never calls the evictor. -/
theorem evictLoop_dry_no_calls (prod : Bool) (nid : Nat) (high : Vec) (ps : List Pod) (cur avail : Vec) :
    (evictLoop true prod nid high cur avail ps).evs = [] := by
  induction ps generalizing cur avail with
  | nil => simp [evictLoop]
  | cons p ps ih =>
    unfold evictLoop
    split
    · rfl
    · split
      · rfl
      · split
        · exact ih _ _
        · simp only [if_true]
          split <;> exact ih _ _

/-- every Evict call of the loop: the node's running usage is above its high threshold in some
    resource, every resource still has headroom, and the pod passed the filter right before. -/
theorem evictLoop_sound (dry prod : Bool) (nid : Nat) (high : Vec) (ps : List Pod) (cur avail : Vec)
    (e : Ev) (he : e ∈ (evictLoop dry prod nid high cur avail ps).evs) :
    over e.usage e.high = true ∧ allPos e.avail = true ∧ e.high = high ∧ e.node = nid ∧ e.prod = prod ∧
    dry = false ∧
    ∃ p ∈ ps, p.id = e.pod ∧ p.filt2 = true ∧ e.ok = p.evictOK ∧ e.metric = p.metric ∧
      e.moved = (p.evictOK && p.hasMetric) := by
  cases dry with
  | true => rw [evictLoop_dry_no_calls] at he; cases he
  | false =>
  induction ps generalizing cur avail with
  | nil => simp [evictLoop] at he
  | cons p ps ih =>
    unfold evictLoop at he
    by_cases h1 : over cur high = true
    case neg => simp [h1] at he
    by_cases h2 : allPos avail = true
    case neg => simp [h1, h2] at he
    by_cases h3 : p.filt2 = true
    case neg =>
      simp only [h1, h2, h3, Bool.not_true, Bool.not_false, Bool.false_eq_true, if_false, if_true] at he
      obtain ⟨a, b, c, d, f, g, q, hq, r⟩ := ih _ _ he
      exact ⟨a, b, c, d, f, g, q, List.mem_cons_of_mem _ hq, r⟩
    simp only [h1, h2, h3, Bool.not_true, Bool.false_eq_true, if_false] at he
    rcases List.mem_cons.mp he with rfl | he'
    · exact ⟨h1, h2, rfl, rfl, rfl, rfl, p, by simp, rfl, h3, rfl, rfl, rfl⟩
    · split at he'
      all_goals
        obtain ⟨a, b, c, d, f, g, q, hq, r⟩ := ih _ _ he'
        exact ⟨a, b, c, d, f, g, q, List.mem_cons_of_mem _ hq, r⟩

/-- the estimates at every call are exactly: initial value minus what was moved before; and the
    headroom handed to the next source node is what is left after the last call. -/
theorem evictLoop_replay (prod : Bool) (nid : Nat) (high : Vec) (ps : List Pod) (cur avail : Vec) :
    Replay cur avail (evictLoop false prod nid high cur avail ps).evs ∧
    (evictLoop false prod nid high cur avail ps).avail =
      finalAvail avail (evictLoop false prod nid high cur avail ps).evs := by
  induction ps generalizing cur avail with
  | nil => simp [evictLoop, Replay, finalAvail]
  | cons p ps ih =>
    unfold evictLoop
    by_cases h1 : over cur high = true
    case neg => simp [h1, Replay, finalAvail]
    by_cases h2 : allPos avail = true
    case neg => simp [h1, h2, Replay, finalAvail]
    by_cases h3 : p.filt2 = true
    case neg => simpa [h1, h2, h3] using ih cur avail
    simp only [h1, h2, h3, Bool.not_true, Bool.false_eq_true, if_false]
    by_cases h5 : (p.evictOK && p.hasMetric) = true
    · simp only [h5, if_true]
      refine ⟨⟨rfl, rfl, ?_⟩, ?_⟩
      · simpa [Ev.after, h5] using (ih (vsub cur p.metric) (vsub avail p.metric)).1
      · simpa [finalAvail, Ev.after, h5] using (ih (vsub cur p.metric) (vsub avail p.metric)).2
    · simp only [h5, Bool.false_eq_true, if_false]
      refine ⟨⟨rfl, rfl, ?_⟩, ?_⟩
      · simpa [Ev.after, h5] using (ih cur avail).1
      · simpa [finalAvail, Ev.after, h5] using (ih cur avail).2

/-- stops: when the running usage is back at or under the high threshold, or some resource has
    no headroom left, the loop makes no further call — whatever pods remain. -/
theorem evictLoop_stops (dry prod : Bool) (nid : Nat) (high : Vec) (ps : List Pod) (cur avail : Vec)
    (h : over cur high = false ∨ allPos avail = false) :
    (evictLoop dry prod nid high cur avail ps).evs = [] ∧
    (evictLoop dry prod nid high cur avail ps).avail = avail := by
  cases ps with
  | nil => simp [evictLoop]
  | cons p ps =>
    unfold evictLoop
    rcases h with h | h
    · simp [h]
    · by_cases h1 : over cur high = true <;> simp [h1, h]

/-- "as soon as": in the call sequence of a source node, once a call leaves the estimate at or
    under the threshold (or the headroom exhausted) it is the last call. -/
theorem evictLoop_stops_as_soon_as (prod : Bool) (nid : Nat) (high : Vec) (ps : List Pod) (cur avail : Vec)
    (pre post : List Ev) (e : Ev)
    (hs : (evictLoop false prod nid high cur avail ps).evs = pre ++ e :: post)
    (h : over (e.after e.usage) high = false ∨ allPos (e.after e.avail) = false) : post = [] := by
  have hsound := evictLoop_sound false prod nid high ps cur avail
  have hrep := (evictLoop_replay prod nid high ps cur avail).1
  rw [hs] at hsound hrep
  clear hs
  induction pre generalizing cur avail with
  | nil =>
    cases post with
    | nil => rfl
    | cons e' post =>
      exfalso
      simp only [List.nil_append, Replay] at hrep
      obtain ⟨hu, ha, hu', ha', _⟩ := hrep
      obtain ⟨ho, hp, hh, _⟩ := hsound e' (by simp)
      rw [hu', hh] at ho
      rw [ha'] at hp
      rw [hu, ha] at h
      rcases h with h | h
      · rw [ho] at h; cases h
      · rw [hp] at h; cases h
  | cons x pre ih =>
    simp only [List.cons_append, Replay] at hrep
    exact ih _ _ (fun e' he' => hsound e' (by simp [he'])) hrep.2.2

/-! ### pods: only pods that passed the filters (and, with NodeFit, have a metric and a fitting target) -/

theorem removable_sub (nodeFit : Bool) (ps : List Pod) (tg : List Tgt) (p : Pod)
    (hp : p ∈ (removable nodeFit tg ps).1) :
    p ∈ ps ∧ p.filt1 = true ∧ (nodeFit = true → p.hasMetric = true) := by
  cases nodeFit with
  | false =>
    induction ps generalizing tg with
    | nil => simp [removable] at hp
    | cons q qs ih =>
      unfold removable at hp
      by_cases h1 : q.filt1 = true
      case neg =>
        simp only [h1, Bool.not_false, if_true] at hp
        obtain ⟨a, b⟩ := ih _ hp
        exact ⟨List.mem_cons_of_mem _ a, b⟩
      simp only [h1, Bool.not_true, Bool.not_false, Bool.false_eq_true, if_false, if_true] at hp
      rcases List.mem_cons.mp hp with rfl | hp'
      · exact ⟨by simp, h1, by simp⟩
      · obtain ⟨a, b⟩ := ih _ hp'
        exact ⟨List.mem_cons_of_mem _ a, b⟩
  | true =>
    induction ps generalizing tg with
    | nil => simp [removable] at hp
    | cons q qs ih =>
      unfold removable at hp
      by_cases h1 : q.filt1 = true
      case neg =>
        simp only [h1, Bool.not_false, if_true] at hp
        obtain ⟨a, b⟩ := ih _ hp
        exact ⟨List.mem_cons_of_mem _ a, b⟩
      by_cases h3 : q.hasMetric = true
      case neg =>
        simp only [h1, h3, Bool.not_true, Bool.not_false, Bool.false_eq_true, if_false, if_true] at hp
        obtain ⟨a, b⟩ := ih _ hp
        exact ⟨List.mem_cons_of_mem _ a, b⟩
      simp only [h1, h3, Bool.not_true, Bool.false_eq_true, if_false] at hp
      split at hp
      · obtain ⟨a, b⟩ := ih _ hp
        exact ⟨List.mem_cons_of_mem _ a, b⟩
      · rcases List.mem_cons.mp hp with rfl | hp'
        · exact ⟨by simp, h1, fun _ => h3⟩
        · obtain ⟨a, b⟩ := ih _ hp'
          exact ⟨List.mem_cons_of_mem _ a, b⟩

theorem applyOrder_sub (ord : List Nat) (ps : List Pod) (p : Pod) (hp : p ∈ applyOrder ord ps) : p ∈ ps := by
  unfold applyOrder at hp
  rcases List.mem_append.mp hp with h | h
  · obtain ⟨i, _, hi⟩ := List.mem_filterMap.mp h
    exact List.mem_of_find?_eq_some hi
  · exact (List.mem_filter.mp h).1

theorem orderNodes_sub (ord : List Nat) (ns : List Node) (n : Node) (hn : n ∈ orderNodes ord ns) : n ∈ ns := by
  unfold orderNodes at hn
  rcases List.mem_append.mp hn with h | h
  · obtain ⟨i, _, hi⟩ := List.mem_filterMap.mp h
    exact List.mem_of_find?_eq_some hi
  · exact (List.mem_filter.mp h).1

theorem mem_insertBy {α} (le : α → α → Bool) (x a : α) (l : List α) :
    a ∈ insertBy le x l ↔ a = x ∨ a ∈ l := by
  induction l with
  | nil => simp [insertBy]
  | cons y ys ih =>
    unfold insertBy
    split
    · simp
    · simp only [List.mem_cons, ih]
      constructor
      · rintro (h | h | h)
        · exact Or.inr (Or.inl h)
        · exact Or.inl h
        · exact Or.inr (Or.inr h)
      · rintro (h | h | h)
        · exact Or.inr (Or.inl h)
        · exact Or.inl h
        · exact Or.inr (Or.inr h)

theorem mem_sortBy {α} (le : α → α → Bool) (a : α) (l : List α) : a ∈ sortBy le l ↔ a ∈ l := by
  induction l with
  | nil => simp [sortBy]
  | cons x xs ih => simp [sortBy, mem_insertBy, ih]

theorem sortSources_sub (score : Nat → Int) (ord : List Nat) (ns : List Node) (n : Node)
    (hn : n ∈ sortSources score ord ns) : n ∈ ns :=
  orderNodes_sub ord ns n ((mem_sortBy _ _ _).mp hn)

/-- what is known about one Evict call of a pass over the source list `src`. -/
def EvOK (dry nodeFit prod : Bool) (src : List Node) (e : Ev) : Prop :=
  dry = false ∧ e.prod = prod ∧ over e.usage e.high = true ∧ allPos e.avail = true ∧
  ∃ s ∈ src, s.id = e.node ∧ e.high = (if prod then s.phigh else s.high) ∧
    ∃ p ∈ s.pods, p.id = e.pod ∧ p.filt1 = true ∧ p.filt2 = true ∧ e.ok = p.evictOK ∧
      (prod = true → p.prod = true) ∧ (nodeFit = true → p.hasMetric = true)

theorem balanceLoop_sound (dry nodeFit prod : Bool) (order : Nat → List Nat) (src : List Node)
    (tg : List Tgt) (avail : Vec) (e : Ev)
    (he : e ∈ (balanceLoop dry nodeFit prod order tg avail src).evs) : EvOK dry nodeFit prod src e := by
  induction src generalizing tg avail with
  | nil => simp [balanceLoop] at he
  | cons s ss ih =>
    have lift : EvOK dry nodeFit prod ss e → EvOK dry nodeFit prod (s :: ss) e := by
      rintro ⟨a, b, c, d, s', hs', r⟩
      exact ⟨a, b, c, d, s', List.mem_cons_of_mem _ hs', r⟩
    unfold balanceLoop at he
    simp only at he
    generalize hall : (if prod = true then List.filter (fun x => x.prod) s.pods else s.pods) = all at he
    by_cases hE : (removable nodeFit tg all).fst.isEmpty = true
    · rw [if_pos hE] at he
      exact lift (ih _ _ he)
    · rw [if_neg hE] at he
      rcases List.mem_append.mp he with h | h
      · obtain ⟨ho, hp, hh, hn, hpr, hd, p, hpm, hid, hf2, hok, _⟩ := evictLoop_sound _ _ _ _ _ _ _ e h
        have hrem := removable_sub nodeFit _ tg p (applyOrder_sub _ _ p hpm)
        rw [← hall] at hrem
        refine ⟨hd, hpr, ho, hp, s, by simp, hn.symm, hh, p, ?_, hid, hrem.2.1, hf2, hok, ?_, hrem.2.2⟩
        · by_cases hprod : prod = true
          · simp only [hprod, if_true] at hrem
            exact (List.mem_filter.mp hrem.1).1
          · simpa [hprod] using hrem.1
        · intro hprod
          simp only [hprod, if_true] at hrem
          simpa using (List.mem_filter.mp hrem.1).2
      · exact lift (ih _ _ h)

/-- the headroom seen by the calls of one pass is one running estimate across all its source nodes. -/
theorem balanceLoop_availChain (nodeFit prod : Bool) (order : Nat → List Nat) (src : List Node)
    (tg : List Tgt) (avail : Vec) :
    AvailChain avail (balanceLoop false nodeFit prod order tg avail src).evs ∧
    (balanceLoop false nodeFit prod order tg avail src).avail =
      finalAvail avail (balanceLoop false nodeFit prod order tg avail src).evs := by
  induction src generalizing tg avail with
  | nil => simp [balanceLoop, AvailChain, finalAvail]
  | cons s ss ih =>
    unfold balanceLoop
    simp only
    generalize (if prod = true then List.filter (fun x => x.prod) s.pods else s.pods) = all
    generalize removable nodeFit tg all = rm
    by_cases hE : rm.fst.isEmpty = true
    · rw [if_pos hE]
      exact ih _ _
    · rw [if_neg hE]
      obtain ⟨hr, hf⟩ := evictLoop_replay prod s.id (if prod = true then s.phigh else s.high)
        (applyOrder (order s.id) rm.fst) (if prod = true then s.prodUsage else s.usage) avail
      generalize evictLoop false prod s.id (if prod = true then s.phigh else s.high)
        (if prod = true then s.prodUsage else s.usage) avail (applyOrder (order s.id) rm.fst) = lo at hr hf ⊢
      obtain ⟨ih1, ih2⟩ := ih rm.snd lo.avail
      constructor
      · rw [availChain_append]
        refine ⟨replay_availChain _ _ _ hr, ?_⟩
        rw [← hf]; exact ih1
      · simp only [finalAvail, List.foldl_append] at *
        rw [ih2, hf]

/-! ### anomaly detector -/

/-- Mark(false) reports "anomaly" only if the detector already was anomalous, or this mark makes
    the count of abnormal marks since the counter was last cleared exceed the configured number. -/
theorem markAbn_anomaly (c : Cond) (d : Det) (h : (d.markAbn c).anomaly = true) :
    (d.current c).anomaly = true ∨ (d.current c).cAbn + 1 > c.abn := by
  unfold Det.markAbn at h
  generalize d.current c = d' at h ⊢
  rcases d' with ⟨a, x, y⟩
  by_cases hx : c.abn < x + 1 <;> cases a <;> simp [Det.current, hx] at h ⊢ <;> omega

inductive Mark where
  | abn | norm | reset
deriving Repr, DecidableEq

def Det.step (c : Cond) (d : Det) : Mark → Det
  | .abn => d.markAbn c
  | .norm => d.markNorm c
  | .reset => d.reset

/-- abnormal marks since the last normal mark (a Reset does not interrupt the count: it is a
    no-op in state OK). -/
def streakFrom (k : Nat) : List Mark → Nat
  | [] => k
  | .abn :: ms => streakFrom (k + 1) ms
  | .norm :: ms => streakFrom 0 ms
  | .reset :: ms => streakFrom k ms

theorem step_inv (c : Cond) (d : Det) (k : Nat) (m : Mark)
    (h : d.anomaly = false → d.cAbn ≤ k) :
    (d.step c m).anomaly = false → (d.step c m).cAbn ≤ streakFrom k [m] := by
  rcases d with ⟨a, x, y⟩
  cases m <;> cases a <;>
    simp only [Det.step, Det.markAbn, Det.markNorm, Det.reset, Det.current, Det.fresh, streakFrom] at h ⊢ <;>
    (repeat' split) <;> simp_all <;> omega

theorem run_inv (c : Cond) (ms : List Mark) (d : Det) (k : Nat)
    (h : d.anomaly = false → d.cAbn ≤ k) :
    (ms.foldl (Det.step c) d).anomaly = false → (ms.foldl (Det.step c) d).cAbn ≤ streakFrom k ms := by
  induction ms generalizing d k with
  | nil => simpa [streakFrom] using h
  | cons m ms ih =>
    simp only [List.foldl_cons]
    cases m with
    | abn => exact ih _ _ (by simpa [streakFrom] using step_inv c d k .abn h)
    | norm => exact ih _ _ (by simpa [streakFrom] using step_inv c d k .norm h)
    | reset => exact ih _ _ (by simpa [streakFrom] using step_inv c d k .reset h)

/-
FULL STATEMENT (property text): "when anomaly detection is configured, [the node] has been [above
its high threshold] for the required consecutive rounds" — i.e. `ConsecutiveRule` below.  It is
FALSE for the code as written (`anomaly_gating_counterexample`): a round in which the node is not
over its threshold produces no mark at all, and Reset() keeps the counters in state OK, so the
count has gaps.  What holds (`anomaly_gating_partial`): a detector that is OK and turns anomalous
on an abnormal mark has seen more than `abn` abnormal marks not separated by a normal mark.
-/
theorem anomaly_gating_partial (c : Cond) (ms : List Mark)
    (hbefore : (ms.foldl (Det.step c) Det.fresh).anomaly = false)
    (hafter : ((ms ++ [Mark.abn]).foldl (Det.step c) Det.fresh).anomaly = true) :
    streakFrom 0 (ms ++ [Mark.abn]) > c.abn := by
  have hinv := run_inv c ms Det.fresh 0 (by simp [Det.fresh]) hbefore
  simp only [List.foldl_append, List.foldl_cons, List.foldl_nil, Det.step] at hafter
  have hstreak : ∀ (k : Nat) (l : List Mark), streakFrom k (l ++ [Mark.abn]) = streakFrom k l + 1 := by
    intro k l
    induction l generalizing k with
    | nil => simp [streakFrom]
    | cons m l ih => cases m <;> simp [streakFrom, ih]
  rw [hstreak]
  generalize ms.foldl (Det.step c) Det.fresh = d at *
  rcases markAbn_anomaly c d hafter with h | h
  · simp [Det.current, hbefore] at h
  · simp only [Det.current, hbefore, Bool.false_and, Bool.false_eq_true, if_false] at h
    omega

/-! ### the round -/

theorem mem_ofClass (c : Cls) (ns : List Node) (n : Node) : n ∈ ofClass c ns ↔ n ∈ ns ∧ classify n = c := by
  simp [ofClass, List.mem_filter]

theorem filterAbnormal_sub (c : Cond) (src : List Node) (ds : Dets) (n : Node)
    (h : n ∈ (filterAbnormal c ds src).1) : n ∈ src := by
  induction src generalizing ds with
  | nil => simp [filterAbnormal] at h
  | cons s ss ih =>
    unfold filterAbnormal at h
    simp only at h
    split at h
    · rcases List.mem_cons.mp h with rfl | h'
      · simp
      · exact List.mem_cons_of_mem _ (ih _ h')
    · exact List.mem_cons_of_mem _ (ih _ h)

theorem filterRealAbnormal_sub (c : Option Cond) (src : List Node) (ds : Dets) (n : Node)
    (h : n ∈ (filterRealAbnormal c ds src).1) : n ∈ src := by
  unfold filterRealAbnormal at h
  split at h
  · exact h
  · split at h
    · exact h
    · exact filterAbnormal_sub _ _ _ _ h

theorem balancePods_sound (dry nodeFit prod : Bool) (order : Nat → List Nat) (src : List Node)
    (tg : List Tgt) (avail : Vec) (e : Ev)
    (he : e ∈ (balancePods dry nodeFit prod order tg avail src).evs) :
    tg ≠ [] ∧ EvOK dry nodeFit prod src e := by
  unfold balancePods at he
  split at he
  · simp at he
  · rename_i h
    exact ⟨by intro h0; simp [h0] at h, balanceLoop_sound _ _ _ _ _ _ _ _ he⟩

/-- 1./2./3./6. Every Evict call of a balance round (all node pools, thresholds, pods, filters,
    detector states, observed orders):
    * comes from a measured node that is classified over its (prod) high threshold on the round's
      measurements, and whose *running* usage is still above that threshold at the call;
    * another measured node is classified under the low thresholds (a receiver exists);
    * every tracked resource still has headroom at the call;
    * the pod is one of that node's pods and passed the pod filter both at classification time
      and right before the call (in the prod pass it is a prod pod; with NodeFit it has a metric);
    * the round is not a dry run, and none of the early exits applied. -/
theorem round_evict_sound (cfg : Cfg) (st : St) (r : RoundIn) (e : Ev)
    (he : e ∈ (runRound cfg st r).evs) :
    cfg.dryRun = false ∧ over e.usage e.high = true ∧ allPos e.avail = true ∧
    (∃ n ∈ r.nodes, n.id = e.node ∧ classify n = (if e.prod then Cls.prodHigh else Cls.high) ∧
      e.high = (if e.prod then n.phigh else n.high) ∧
      (∃ p ∈ n.pods, p.id = e.pod ∧ p.filt1 = true ∧ p.filt2 = true ∧ e.ok = p.evictOK ∧
        (e.prod = true → p.prod = true) ∧ (r.nodeFit = true → p.hasMetric = true)) ∧
      ∃ m ∈ r.nodes, m ≠ n ∧ (classify m = Cls.bothLow ∨ classify m = (if e.prod then Cls.prodLow else Cls.low))) := by
  unfold runRound at he
  split at he
  · simp at he
  simp only at he
  split at he
  · simp at he
  split at he
  · simp at he
  split at he
  · simp at he
  split at he
  · simp at he
  split at he
  · simp at he
  simp only [evictFromSources] at he
  rcases List.mem_append.mp he with h | h
  · obtain ⟨htg, hd, hpr, ho, hp, s, hs, hid, hh, hpod⟩ := balancePods_sound _ _ _ _ _ _ _ _ h
    have hs1 := filterRealAbnormal_sub _ _ _ _ (sortSources_sub _ _ _ _ hs)
    rw [mem_ofClass] at hs1
    have hprf : e.prod = false := hpr
    refine ⟨hd, ho, hp, s, hs1.1, hid, by simp [hprf, hs1.2], by simpa [hprf] using hh, ?_, ?_⟩
    · obtain ⟨p, hp1, hp2, hp3, hp4, hp5, _, hp7⟩ := hpod
      exact ⟨p, hp1, hp2, hp3, hp4, hp5, by simp [hprf], hp7⟩
    · have : ∃ t, t ∈ (ofClass Cls.low r.nodes ++ ofClass Cls.bothLow r.nodes) := by
        cases hl : (ofClass Cls.low r.nodes ++ ofClass Cls.bothLow r.nodes) with
        | nil => simp [hl] at htg
        | cons t _ => exact ⟨t, by simp⟩
      obtain ⟨t, ht⟩ := this
      rcases List.mem_append.mp ht with ht | ht
      · rw [mem_ofClass] at ht
        refine ⟨t, ht.1, ?_, Or.inr (by simp [hprf, ht.2])⟩
        intro heq; rw [heq, hs1.2] at ht; cases ht.2
      · rw [mem_ofClass] at ht
        refine ⟨t, ht.1, ?_, Or.inl ht.2⟩
        intro heq; rw [heq, hs1.2] at ht; cases ht.2
  · obtain ⟨htg, hd, hpr, ho, hp, s, hs, hid, hh, hpod⟩ := balancePods_sound _ _ _ _ _ _ _ _ h
    have hs1 := filterRealAbnormal_sub _ _ _ _ (sortSources_sub _ _ _ _ hs)
    rw [mem_ofClass] at hs1
    have hprt : e.prod = true := hpr
    refine ⟨hd, ho, hp, s, hs1.1, hid, by simp [hprt, hs1.2], by simpa [hprt] using hh, ?_, ?_⟩
    · obtain ⟨p, hp1, hp2, hp3, hp4, hp5, hp6, hp7⟩ := hpod
      exact ⟨p, hp1, hp2, hp3, hp4, hp5, fun _ => hp6 rfl, hp7⟩
    · have : ∃ t, t ∈ (ofClass Cls.prodLow r.nodes ++ ofClass Cls.bothLow r.nodes) := by
        cases hl : (ofClass Cls.prodLow r.nodes ++ ofClass Cls.bothLow r.nodes) with
        | nil => simp [hl] at htg
        | cons t _ => exact ⟨t, by simp⟩
      obtain ⟨t, ht⟩ := this
      rcases List.mem_append.mp ht with ht | ht
      · rw [mem_ofClass] at ht
        refine ⟨t, ht.1, ?_, Or.inr (by simp [hprt, ht.2])⟩
        intro heq; rw [heq, hs1.2] at ht; cases ht.2
      · rw [mem_ofClass] at ht
        refine ⟨t, ht.1, ?_, Or.inl ht.2⟩
        intro heq; rw [heq, hs1.2] at ht; cases ht.2

theorem balancePods_availChain (nodeFit prod : Bool) (order : Nat → List Nat) (src : List Node)
    (tg : List Tgt) (avail : Vec) :
    AvailChain avail (balancePods false nodeFit prod order tg avail src).evs := by
  unfold balancePods
  split
  · trivial
  · exact (balanceLoop_availChain _ _ _ _ _ _).1

/-- the headroom every call of a round sees is exact: the Σ (high − usage) of the underused
    nodes of the pass (`targetAvail`, node pass: low + both-low nodes; prod pass: prod-low nodes
    plus the both-low share that the node pass left) minus everything moved earlier in the pass. -/
theorem round_headroom_exact (nodeFit : Bool) (dims : Nat) (podOrd : Nat → List Nat)
    (src low psrc plow both : List Node) :
    AvailChain (vadd (vadd (List.replicate dims 0) (targetAvail false (List.replicate dims 0) low))
        (targetAvail false (List.replicate dims 0) both))
      (evictFromSources false nodeFit dims podOrd src low psrc plow both).1.evs ∧
    AvailChain (vadd (vadd (List.replicate dims 0) (targetAvail true (List.replicate dims 0) plow))
        (vmin (targetAvail true (List.replicate dims 0) both)
          (vmin (targetAvail false (List.replicate dims 0) both)
            (evictFromSources false nodeFit dims podOrd src low psrc plow both).1.avail)))
      (evictFromSources false nodeFit dims podOrd src low psrc plow both).2.evs := by
  exact ⟨balancePods_availChain _ _ _ _ _ _, balancePods_availChain _ _ _ _ _ _⟩

theorem get?_set_ne (ds : Dets) (k n : Nat) (d : Det) (h : k ≠ n) :
    Dets.get? (Dets.set ds k d) n = Dets.get? ds n := by
  induction ds with
  | nil => simp [Dets.set, Dets.get?, h]
  | cons x xs ih =>
    rcases x with ⟨k', d'⟩
    unfold Dets.set
    by_cases h1 : k' = k
    · subst h1; simp [Dets.get?, h]
    · simp only [h1, if_false, Dets.get?]
      split
      · rfl
      · exact ih

theorem filterAbnormal_gated (c : Cond) (src : List Node) (ds : Dets) (n : Node)
    (hnd : (src.map (·.id)).Nodup) (h : n ∈ (filterAbnormal c ds src).1) :
    (((Dets.get? ds n.id).getD Det.fresh).markAbn c).anomaly = true := by
  induction src generalizing ds with
  | nil => simp [filterAbnormal] at h
  | cons s ss ih =>
    simp only [List.map_cons, List.nodup_cons] at hnd
    unfold filterAbnormal at h
    simp only at h
    have tail : n ∈ (filterAbnormal c (Dets.set ds s.id (((Dets.get? ds s.id).getD Det.fresh).markAbn c)) ss).1 →
        (((Dets.get? ds n.id).getD Det.fresh).markAbn c).anomaly = true := by
      intro h'
      have hne : s.id ≠ n.id := by
        intro heq
        exact hnd.1 (heq ▸ List.mem_map.mpr ⟨n, filterAbnormal_sub _ _ _ _ h', rfl⟩)
      have := ih _ hnd.2 h'
      rwa [get?_set_ne _ _ _ _ hne] at this
    split at h
    · rename_i hd
      rcases List.mem_cons.mp h with rfl | h'
      · exact hd
      · exact tail h'
    · exact tail h

/-- 5. (round level, partial — see `anomaly_gating_partial` / `anomaly_gating_counterexample`)
    with an anomaly condition other than "1 abnormality", every Evict call comes from a node whose
    detector answered "anomaly" to this round's abnormal mark — hence (`markAbn_anomaly`) it was
    anomalous before, or this mark took its count of abnormal marks above the configured number. -/
theorem round_evict_gated (cfg : Cfg) (st : St) (r : RoundIn) (c : Cond) (hc : cfg.cond = some c)
    (h1 : c.abn ≠ 1) (hnd : (r.nodes.map (·.id)).Nodup) (e : Ev) (he : e ∈ (runRound cfg st r).evs) :
    ∃ n ∈ r.nodes, n.id = e.node ∧
      (((Dets.get? (if e.prod then st.prodDet else st.nodeDet) n.id).getD Det.fresh).markAbn c).anomaly = true := by
  have sub : ∀ k, ((ofClass k r.nodes).map (·.id)).Nodup := fun k =>
    hnd.sublist ((List.filter_sublist (l := r.nodes)).map _)
  unfold runRound at he
  split at he
  · simp at he
  simp only at he
  split at he
  · simp at he
  split at he
  · simp at he
  split at he
  · simp at he
  split at he
  · simp at he
  split at he
  · simp at he
  simp only [evictFromSources] at he
  simp only [hc, filterRealAbnormal, h1, if_false] at he
  rcases List.mem_append.mp he with h | h
  · obtain ⟨_, _, hpr, _, _, s, hs, hid, _⟩ := balancePods_sound _ _ _ _ _ _ _ _ h
    have hprf : e.prod = false := hpr
    have hs0 := sortSources_sub _ _ _ _ hs
    have hs1 := filterAbnormal_sub _ _ _ _ hs0
    rw [mem_ofClass] at hs1
    exact ⟨s, hs1.1, hid, by simpa [hprf] using filterAbnormal_gated c _ _ s (sub _) hs0⟩
  · obtain ⟨_, _, hpr, _, _, s, hs, hid, _⟩ := balancePods_sound _ _ _ _ _ _ _ _ h
    have hprt : e.prod = true := hpr
    have hs0 := sortSources_sub _ _ _ _ hs
    have hs1 := filterAbnormal_sub _ _ _ _ hs0
    rw [mem_ofClass] at hs1
    exact ⟨s, hs1.1, hid, by simpa [hprt] using filterAbnormal_gated c _ _ s (sub _) hs0⟩

/-- a node classified `high` (`prodHigh`) really is above its (prod) high threshold in some
    resource on the round's measurements, and a receiver really is a schedulable node at or under
    every (prod) low threshold. -/
theorem classify_meaning (n : Node) :
    (classify n = Cls.high → over n.usage n.high = true) ∧
    (classify n = Cls.prodHigh → over n.prodUsage n.phigh = true) ∧
    (classify n = Cls.low ∨ classify n = Cls.bothLow → n.unsched = false ∧ under n.usage n.low = true) ∧
    (classify n = Cls.prodLow ∨ classify n = Cls.bothLow → n.unsched = false ∧ under n.prodUsage n.plow = true) := by
  unfold classify lowFilter prodLowFilter highFilter prodHighFilter
  by_cases a : n.unsched = true <;> by_cases b : under n.usage n.low = true <;>
    by_cases c : over n.usage n.high = true <;> by_cases d : over n.prodUsage n.phigh = true <;>
    by_cases f : under n.prodUsage n.plow = true <;> simp [a, b, c, d, f]

/-! ### 4. nothing is evicted when … -/

theorem nothing_when_no_source (cfg : Cfg) (st : St) (r : RoundIn)
    (h1 : ofClass .high r.nodes = []) (h2 : ofClass .prodHigh r.nodes = []) :
    (runRound cfg st r).evs = [] := by
  unfold runRound
  split
  · rfl
  · simp [h1, h2]

theorem nothing_when_no_receiver (cfg : Cfg) (st : St) (r : RoundIn)
    (h1 : ofClass .low r.nodes = []) (h2 : ofClass .prodLow r.nodes = []) (h3 : ofClass .bothLow r.nodes = []) :
    (runRound cfg st r).evs = [] := by
  unfold runRound
  split
  · rfl
  simp only
  split
  · rfl
  split
  · rfl
  simp [h1, h2, h3]

theorem nothing_when_all_low (cfg : Cfg) (st : St) (r : RoundIn)
    (h : (ofClass .low r.nodes).length + (ofClass .prodLow r.nodes).length + (ofClass .bothLow r.nodes).length = r.total) :
    (runRound cfg st r).evs = [] := by
  unfold runRound
  split
  · rfl
  simp only
  split
  · rfl
  split
  · rfl
  split
  · rfl
  split
  · rfl
  simp

theorem nothing_when_few_low (cfg : Cfg) (st : St) (r : RoundIn)
    (h : (((ofClass .low r.nodes).length + (ofClass .prodLow r.nodes).length + (ofClass .bothLow r.nodes).length : Nat) : Int)
      ≤ cfg.numberOfNodes) :
    (runRound cfg st r).evs = [] := by
  unfold runRound
  split
  · rfl
  simp only
  split
  · rfl
  split
  · rfl
  split
  · rfl
  simp

/-- nobody anomalous ⇒ nothing evicted. -/
theorem nothing_when_not_anomalous (cfg : Cfg) (st : St) (r : RoundIn)
    (h1 : (filterRealAbnormal cfg.cond st.nodeDet (ofClass .high r.nodes)).1 = [])
    (h2 : (filterRealAbnormal cfg.cond st.prodDet (ofClass .prodHigh r.nodes)).1 = []) :
    (runRound cfg st r).evs = [] := by
  unfold runRound
  split
  · rfl
  simp only
  split
  · rfl
  simp [h1, h2]

/-! ### 5. anomaly gating over rounds: the full statement fails on the code as written -/

/-- the events of each round of a history, from the given state. -/
def runHistory (cfg : Cfg) : St → List RoundIn → List (List Ev)
  | _, [] => []
  | st, r :: rs => (runRound cfg st r).evs :: runHistory cfg (runRound cfg st r).st rs

/-- node `id` is measured and classified over its (prod) high threshold in round `r`. -/
def overIn (r : RoundIn) (id : Nat) (prod : Bool) : Bool :=
  r.nodes.any fun n => n.id == id && (classify n == (if prod then Cls.prodHigh else Cls.high))

/-- FULL STATEMENT of the gating clause: an eviction in round `k` only from a node that was over
    its threshold in each of the last `abn` rounds `k+1-abn … k`. -/
def ConsecutiveRule (cfg : Cfg) (rs : List RoundIn) : Prop :=
  ∀ c, cfg.cond = some c → ∀ k evs, (runHistory cfg ⟨[], []⟩ rs)[k]? = some evs → ∀ e ∈ evs,
    ∀ j r, k + 1 - c.abn ≤ j → j ≤ k → rs[j]? = some r → overIn r e.node e.prod = true

namespace Witness
def pod : Pod := ⟨1, false, true, [50], [50], true, true, true⟩
def cold : Node := ⟨0, false, false, [10], [0], [30], [60], [10], [100], []⟩
def hot : Node := ⟨1, false, false, [80], [20], [30], [60], [10], [100], [pod]⟩
def mid : Node := ⟨1, false, false, [45], [20], [30], [60], [10], [100], [pod]⟩
def rHot : RoundIn := ⟨2, false, 1, [cold, hot], [], fun _ => [], fun _ => 0, fun _ => 0, fun _ => []⟩
def rMid : RoundIn := ⟨2, false, 1, [cold, mid], [], fun _ => [], fun _ => 0, fun _ => 0, fun _ => []⟩
def cfg : Cfg := ⟨some ⟨2, 1⟩, 0, false⟩
def ev : Ev := ⟨1, 1, false, true, [80], [60], [50], true, [50]⟩
end Witness

/-- consecutiveAbnormalities = 2; node 1 is over its threshold in rounds 0, 1, not in round 2,
    again in round 3 — and is evicted from in round 3. -/
theorem anomaly_gating_counterexample : ¬ ∀ cfg rs, ConsecutiveRule cfg rs := by
  intro h
  have h3 : (runHistory Witness.cfg ⟨[], []⟩ [Witness.rHot, Witness.rHot, Witness.rMid, Witness.rHot])[3]?
      = some [Witness.ev] := by decide
  have := h Witness.cfg [Witness.rHot, Witness.rHot, Witness.rMid, Witness.rHot] ⟨2, 1⟩ rfl 3 _ h3
    Witness.ev (by simp) 2 Witness.rMid (by decide) (by decide) rfl
  revert this
  decide

/-! ### non-vacuity -/

-- a round that does evict, and whose single call satisfies the conclusions of `round_evict_sound`
example : (runRound ⟨none, 0, false⟩ ⟨[], []⟩ Witness.rHot).evs = [Witness.ev] := by decide
example : classify Witness.hot = .high ∧ classify Witness.cold = .bothLow ∧ classify Witness.mid = .normal := by decide
-- the hypotheses of `anomaly_gating_partial` are satisfiable: three abnormal marks with abn = 2
example : ([Mark.abn, .abn].foldl (Det.step ⟨2, 1⟩) Det.fresh).anomaly = false ∧
    ([Mark.abn, .abn, .abn].foldl (Det.step ⟨2, 1⟩) Det.fresh).anomaly = true := by decide
-- the loop stops after one call although a second removable pod is left
example : (evictLoop false false 1 [60] [80] [50]
    [⟨1, false, true, [50], [50], true, true, true⟩, ⟨2, false, true, [5], [5], true, true, true⟩]).evs.length = 1 := by decide


/-! ### measured usage (getNodeUsage): what counts as PROD usage -/

/-- the filter of `measuredProdUsage`: the entry's namespace/name is in `prodPodsMap`. -/
def countsAsProd (pods : List PodRef) (m : MetricEntry) : Bool := (prodKeys pods).contains m.key

theorem measuredProdUsage_eq (zero : Vec) (pods : List PodRef) (ms : List MetricEntry) :
    measuredProdUsage zero pods ms = vsum zero ((ms.filter (countsAsProd pods)).map (·.use)) := rfl

/-- a reported pod metric counts towards the node's prod usage exactly when a PROD pod assigned to
    the node has the same namespace AND the same name.  (A non-prod pod that merely shares its name
    with a prod pod of another namespace is not counted.) -/
theorem countsAsProd_iff (pods : List PodRef) (m : MetricEntry) :
    countsAsProd pods m = true ↔
      ∃ p ∈ pods, p.prod = true ∧ p.key.1 = m.key.1 ∧ p.key.2 = m.key.2 := by
  unfold countsAsProd prodKeys
  rw [List.contains_iff_mem]
  constructor
  · intro h
    obtain ⟨p, hp, hk⟩ := List.mem_map.mp h
    obtain ⟨hp1, hp2⟩ := List.mem_filter.mp hp
    exact ⟨p, hp1, hp2, by rw [hk], by rw [hk]⟩
  · rintro ⟨p, hp, hprod, h1, h2⟩
    exact List.mem_map.mpr ⟨p, List.mem_filter.mpr ⟨hp, hprod⟩, Prod.ext h1 h2⟩

/-- an entry that is not the metric of a prod pod of the node — e.g. the metric of a batch pod
    `dev/redis-0` next to the prod pod `prod/redis-0` — leaves the measured prod usage unchanged,
    wherever it stands in the list. -/
theorem measuredProdUsage_ignores (zero : Vec) (pods : List PodRef) (pre post : List MetricEntry)
    (m : MetricEntry)
    (h : ∀ p ∈ pods, p.prod = true → ¬ (p.key.1 = m.key.1 ∧ p.key.2 = m.key.2)) :
    measuredProdUsage zero pods (pre ++ m :: post) = measuredProdUsage zero pods (pre ++ post) := by
  have hm : countsAsProd pods m = false := by
    cases hc : countsAsProd pods m with
    | false => rfl
    | true =>
      obtain ⟨p, hp, hprod, hk⟩ := (countsAsProd_iff pods m).mp hc
      exact absurd hk (h p hp hprod)
  simp only [measuredProdUsage_eq, List.filter_append, List.filter_cons, hm]
  simp

/-- the node-level usage counts every reported entry. -/
theorem measuredUsage_append (sys : Vec) (ms : List MetricEntry) (m : MetricEntry) :
    measuredUsage sys (ms ++ [m]) = vadd (measuredUsage sys ms) m.use := by
  simp [measuredUsage, vsum, List.foldl_append]

/-- `podMetrics[namespace/name]`: some entry with exactly that key, and it is the LAST one. -/
theorem podMetric?_some (ms : List MetricEntry) (k : Key) (v : Vec) (h : podMetric? ms k = some v) :
    ∃ pre m post, ms = pre ++ m :: post ∧ m.key = k ∧ m.use = v ∧ ∀ x ∈ post, x.key ≠ k := by
  induction ms with
  | nil => simp [podMetric?] at h
  | cons m ms ih =>
    unfold podMetric? at h
    cases hr : podMetric? ms k with
    | some w =>
      rw [hr] at h
      simp only [Option.some.injEq] at h
      subst h
      obtain ⟨pre, x, post, he, hk, hu, hp⟩ := ih hr
      exact ⟨m :: pre, x, post, by rw [he]; rfl, hk, hu, hp⟩
    | none =>
      rw [hr] at h
      simp only at h
      split at h
      · rename_i hk
        simp only [Option.some.injEq] at h
        refine ⟨[], m, ms, rfl, hk, h, ?_⟩
        intro x hx hxk
        have : ∀ (l : List MetricEntry), podMetric? l k = none → ∀ y ∈ l, y.key ≠ k := by
          intro l
          induction l with
          | nil => intro _ y hy; cases hy
          | cons a l ihl =>
            intro hn y hy
            unfold podMetric? at hn
            cases hl : podMetric? l k with
            | some w => rw [hl] at hn; cases hn
            | none =>
              rw [hl] at hn
              simp only at hn
              rcases List.mem_cons.mp hy with rfl | hy'
              · intro hyk; simp [hyk] at hn
              · exact ihl hl y hy'
        exact this ms hr x hx hxk
      · cases h

theorem podMetric?_none (ms : List MetricEntry) (k : Key) :
    podMetric? ms k = none ↔ ∀ m ∈ ms, m.key ≠ k := by
  induction ms with
  | nil => simp [podMetric?]
  | cons m ms ih =>
    unfold podMetric?
    cases hr : podMetric? ms k with
    | some w =>
      simp only [reduceCtorEq, false_iff]
      intro hall
      exact absurd (ih.mpr fun x hx => hall x (List.mem_cons_of_mem _ hx)) (by rw [hr]; simp)
    | none =>
      simp only
      have hrest := ih.mp hr
      by_cases hk : m.key = k
      · simp [hk]
      · simp only [hk, if_false, true_iff]
        intro x hx
        rcases List.mem_cons.mp hx with rfl | hx'
        · exact hk
        · exact hrest x hx'

/-! ### which capacity: every percentage formula divides by the raw allocatable -/

theorem capacity_always_raw (u : CapUse) (alloc : Vec) (a : RawAnno) :
    capacityFor u alloc a = rawAllocatable alloc a := by
  cases u <;> rfl

/-- on an amplified node the amplified status.allocatable never enters for a resource the
    (parsable) annotation names — and a resource it does not name keeps its status value. -/
theorem overlay_get (alloc : Vec) (raw : List (Option Int)) (i : Nat) (hi : i < alloc.length) :
    (overlay alloc raw)[i]? = some (((raw[i]?).getD none).getD (alloc[i]'hi)) := by
  induction alloc generalizing raw i with
  | nil => simp at hi
  | cons a as ih =>
    cases raw with
    | nil => simp [overlay]
    | cons r rs =>
      cases i with
      | zero => simp [overlay]
      | succ j =>
        simp only [overlay, List.getElem?_cons_succ, List.getElem_cons_succ]
        exact ih rs j (by simpa using hi)

theorem capacity_named_resource (u : CapUse) (alloc : Vec) (raw : List (Option Int)) (i : Nat) (v : Int)
    (hi : i < alloc.length) (hv : raw[i]? = some (some v)) :
    (capacityFor u alloc (.parsed raw))[i]? = some v := by
  rw [capacity_always_raw]
  simp [rawAllocatable, overlay_get alloc raw i hi, hv]

theorem capacity_unnamed_resource (u : CapUse) (alloc : Vec) (raw : List (Option Int)) (i : Nat)
    (hi : i < alloc.length) (hv : raw[i]? = some none ∨ raw[i]? = none) :
    (capacityFor u alloc (.parsed raw))[i]? = some (alloc[i]'hi) := by
  rw [capacity_always_raw]
  rcases hv with hv | hv <;> simp [rawAllocatable, overlay_get alloc raw i hi, hv]

-- cpu amplified x2, annotation names cpu and memory only: pods keeps the status value 110
example : capacityFor .thresholds [128000, 8, 110] (.parsed [some 64000, some 8, none]) = [64000, 8, 110] := by decide

-- non-vacuity: prod/redis-0 (prod) and dev/redis-0 (batch) on one node
example : measuredProdUsage [0] [⟨(0, 7), true⟩, ⟨(1, 7), false⟩] [⟨(0, 7), [3000]⟩, ⟨(1, 7), [4000]⟩] = [3000] ∧
    measuredUsage [500] [⟨(0, 7), [3000]⟩, ⟨(1, 7), [4000]⟩] = [7500] := by decide
example : podMetric? [⟨(0, 7), [1]⟩, ⟨(1, 7), [2]⟩, ⟨(0, 7), [3]⟩] (0, 7) = some [3] := by decide

/-! ### a drained source node has its detector reset (continueEvictionCond) -/

theorem get?_set_eq (ds : Dets) (k : Nat) (d : Det) : Dets.get? (Dets.set ds k d) k = some d := by
  induction ds with
  | nil => simp [Dets.set, Dets.get?]
  | cons x xs ih =>
    rcases x with ⟨k', d'⟩
    unfold Dets.set
    by_cases h1 : k' = k
    · simp [h1, Dets.get?]
    · simp [h1, Dets.get?, ih]

theorem reset_reset (d : Det) : d.reset.reset = d.reset := by
  rcases d with ⟨a, x, y⟩
  cases a <;> simp [Det.reset, Det.fresh]

/-- resetNodesAsNormal: exactly the listed detectors are Reset(), nothing else changes. -/
theorem resetAll_get (ds : Dets) (ids : List Nat) (k : Nat) :
    Dets.get? (resetAll ds ids) k =
      if k ∈ ids then (Dets.get? ds k).map Det.reset else Dets.get? ds k := by
  unfold resetAll
  induction ids generalizing ds with
  | nil => simp
  | cons n ns ih =>
    simp only [List.foldl_cons]
    rw [ih]
    by_cases hnk : n = k
    · subst hnk
      cases hg : Dets.get? ds n with
      | none => simp [hg]
      | some d =>
        simp only [get?_set_eq, Option.map_some, List.mem_cons, true_or, if_true]
        split <;> simp [reset_reset]
    · have hkn : ¬ k = n := fun h => hnk h.symm
      cases hg : Dets.get? ds n with
      | none => simp [hkn]
      | some d => simp [hkn, get?_set_ne _ _ _ _ hnk]

/-- "starts from scratch": state OK and no abnormal mark counted. -/
def Det.Clean (d : Det) : Prop := d.anomaly = false ∧ d.cAbn = 0

theorem markNorm_clean (c : Cond) (d : Det) (h : d.Clean) : (d.markNorm c).Clean := by
  rcases d with ⟨a, x, y⟩
  obtain ⟨h1, h2⟩ := h
  simp only at h1 h2
  subst h1; subst h2
  simp [Det.markNorm, Det.current, Det.Clean]

theorem markNormAll_clean (c : Option Cond) (ds : Dets) (ids : List Nat) (k : Nat) (d : Det)
    (hg : Dets.get? ds k = some d) (hc : d.Clean) :
    ∃ d', Dets.get? (markNormAll c ds ids) k = some d' ∧ d'.Clean := by
  cases c with
  | none => exact ⟨d, hg, hc⟩
  | some c =>
    simp only [markNormAll]
    induction ids generalizing ds d with
    | nil => exact ⟨d, hg, hc⟩
    | cons n ns ih =>
      simp only [List.foldl_cons]
      by_cases hnk : n = k
      · subst hnk
        rw [hg]
        exact ih _ _ (get?_set_eq _ _ _) (markNorm_clean c d hc)
      · cases hn : Dets.get? ds n with
        | none => exact ih _ _ hg hc
        | some x => exact ih _ _ (by rw [get?_set_ne _ _ _ _ hnk]; exact hg) hc

/-- a clean detector does not answer "anomaly" to the next abnormal mark when more than one
    abnormality is required. -/
theorem clean_markAbn (c : Cond) (d : Det) (h : d.Clean) (h2 : 1 ≤ c.abn) :
    (d.markAbn c).anomaly = false := by
  rcases d with ⟨a, x, y⟩
  obtain ⟨h1, h3⟩ := h
  simp only at h1 h3
  subst h1; subst h3
  have : ¬ (c.abn < 1) := by omega
  simp [Det.markAbn, Det.current, this]

theorem filterAbnormal_get_other (c : Cond) (src : List Node) (ds : Dets) (k : Nat)
    (hk : k ∉ src.map (·.id)) : Dets.get? (filterAbnormal c ds src).2 k = Dets.get? ds k := by
  induction src generalizing ds with
  | nil => simp [filterAbnormal]
  | cons s ss ih =>
    simp only [List.map_cons, List.mem_cons, not_or] at hk
    unfold filterAbnormal
    simp only
    rw [ih _ hk.2, get?_set_ne _ _ _ _ (fun h => hk.1 h.symm)]

/-- a node that filterRealAbnormalNodes lets through has its (cached) detector in state Anomaly. -/
theorem filterAbnormal_get (c : Cond) (src : List Node) (ds : Dets) (n : Node)
    (hnd : (src.map (·.id)).Nodup) (h : n ∈ (filterAbnormal c ds src).1) :
    ∃ d, Dets.get? (filterAbnormal c ds src).2 n.id = some d ∧ d.anomaly = true := by
  induction src generalizing ds with
  | nil => simp [filterAbnormal] at h
  | cons s ss ih =>
    simp only [List.map_cons, List.nodup_cons] at hnd
    unfold filterAbnormal at h ⊢
    simp only at h ⊢
    split at h
    · rename_i hd
      rcases List.mem_cons.mp h with rfl | h'
      · refine ⟨_, ?_, hd⟩
        rw [filterAbnormal_get_other _ _ _ _ hnd.1, get?_set_eq]
      · exact ih _ hnd.2 h'
    · exact ih _ hnd.2 h

theorem balanceLoop_resets_sub (dry nodeFit prod : Bool) (order : Nat → List Nat) (src : List Node)
    (tg : List Tgt) (avail : Vec) (id : Nat)
    (h : id ∈ (balanceLoop dry nodeFit prod order tg avail src).resets) : ∃ s ∈ src, s.id = id := by
  induction src generalizing tg avail with
  | nil => simp [balanceLoop] at h
  | cons s ss ih =>
    unfold balanceLoop at h
    simp only at h
    generalize (if prod = true then List.filter (fun x => x.prod) s.pods else s.pods) = all at h
    generalize removable nodeFit tg all = rm at h
    by_cases hE : rm.fst.isEmpty = true
    · rw [if_pos hE] at h
      obtain ⟨s', hs', hid⟩ := ih _ _ h
      exact ⟨s', List.mem_cons_of_mem _ hs', hid⟩
    · rw [if_neg hE] at h
      rcases List.mem_append.mp h with h1 | h1
      · by_cases hr : (evictLoop dry prod s.id (if prod = true then s.phigh else s.high)
            (if prod = true then s.prodUsage else s.usage) avail (applyOrder (order s.id) rm.fst)).relieved = true
        · simp only [hr, if_true, List.mem_singleton] at h1
          exact ⟨s, by simp, h1.symm⟩
        · simp [hr] at h1
      · obtain ⟨s', hs', hid⟩ := ih _ _ h1
        exact ⟨s', List.mem_cons_of_mem _ hs', hid⟩

theorem balancePods_resets_sub (dry nodeFit prod : Bool) (order : Nat → List Nat) (src : List Node)
    (tg : List Tgt) (avail : Vec) (id : Nat)
    (h : id ∈ (balancePods dry nodeFit prod order tg avail src).resets) : ∃ s ∈ src, s.id = id := by
  unfold balancePods at h
  split at h
  · cases h
  · exact balanceLoop_resets_sub _ _ _ _ _ _ _ _ h

/-- the loop reports "relieved" only when the node's running usage — the initial estimate minus
    everything the successful calls moved — is at or under the high threshold. -/
theorem evictLoop_relieved (prod : Bool) (nid : Nat) (high : Vec) (ps : List Pod) (cur avail : Vec)
    (h : (evictLoop false prod nid high cur avail ps).relieved = true) :
    over (finalAvail cur (evictLoop false prod nid high cur avail ps).evs) high = false := by
  induction ps generalizing cur avail with
  | nil => simp [evictLoop] at h
  | cons p ps ih =>
    unfold evictLoop at h ⊢
    by_cases h1 : over cur high = true
    case neg => simpa [h1, finalAvail] using h1
    by_cases h2 : allPos avail = true
    case neg => simp [h1, h2] at h
    by_cases h3 : p.filt2 = true
    case neg =>
      simp only [h1, h2, h3, Bool.not_true, Bool.not_false, Bool.false_eq_true, if_false, if_true] at h ⊢
      exact ih _ _ h
    simp only [h1, h2, h3, Bool.not_true, Bool.false_eq_true, if_false] at h ⊢
    by_cases h5 : (p.evictOK && p.hasMetric) = true
    · simp only [h5, if_true] at h ⊢
      simpa [finalAvail, Ev.after, h5] using ih _ _ h
    · simp only [h5, Bool.false_eq_true, if_false] at h ⊢
      simpa [finalAvail, Ev.after, h5] using ih _ _ h

/-- the detector state a drained source node is left with at the end of the round: Reset() took it
    from Anomaly to OK with cleared counters, tryMarkNodesAsNormal only adds a normal mark. -/
def DrainedClean (ds : Dets) (id : Nat) : Prop := ∃ d, Dets.get? ds id = some d ∧ d.Clean

theorem resetAll_keeps (ds : Dets) (l : List Nat) (id : Nat) (d0 d : Det)
    (hg : Dets.get? ds id = some d) (hq : d = d0 ∨ d = d0.reset) :
    ∃ d', Dets.get? (resetAll ds l) id = some d' ∧ (d' = d0 ∨ d' = d0.reset) := by
  rw [resetAll_get, hg]
  split
  · refine ⟨d.reset, rfl, Or.inr ?_⟩
    rcases hq with rfl | rfl
    · rfl
    · exact reset_reset _
  · exact ⟨d, rfl, hq⟩

theorem resetAll_hit (ds : Dets) (l : List Nat) (id : Nat) (d0 d : Det)
    (hg : Dets.get? ds id = some d) (hq : d = d0 ∨ d = d0.reset) (hid : id ∈ l) :
    Dets.get? (resetAll ds l) id = some d0.reset := by
  rw [resetAll_get, hg, if_pos hid]
  rcases hq with rfl | rfl
  · rfl
  · simp [reset_reset]

theorem reset_anomalous (d : Det) (h : d.anomaly = true) : d.reset = Det.fresh := by
  simp [Det.reset, h]

/-- `drained_node_detector_reset`: in a round that evicts (anomaly condition other than "1
    abnormality", distinct node names), every source node whose eviction loop ended because its
    running usage was back at/under the high threshold leaves the round with a CLEAN detector of
    the pass's own kind — node pass: node detector, PROD pass: PROD detector — so it has to prove
    itself abnormal again. -/
theorem drained_node_detector_reset (cfg : Cfg) (st : St) (r : RoundIn) (c : Cond)
    (hc : cfg.cond = some c) (h1 : c.abn ≠ 1) (hnd : (r.nodes.map (·.id)).Nodup) :
    (∀ id ∈ (runRound cfg st r).nodeResets, DrainedClean (runRound cfg st r).st.nodeDet id) ∧
    (∀ id ∈ (runRound cfg st r).prodResets, DrainedClean (runRound cfg st r).st.prodDet id) := by
  have sub : ∀ k, ((ofClass k r.nodes).map (·.id)).Nodup := fun k =>
    hnd.sublist ((List.filter_sublist (l := r.nodes)).map _)
  unfold runRound
  split
  · refine ⟨fun id h => ?_, fun id h => ?_⟩ <;> simp at h
  simp only
  split
  · refine ⟨fun id h => ?_, fun id h => ?_⟩ <;> simp at h
  split
  · refine ⟨fun id h => ?_, fun id h => ?_⟩ <;> simp at h
  split
  · refine ⟨fun id h => ?_, fun id h => ?_⟩ <;> simp at h
  split
  · refine ⟨fun id h => ?_, fun id h => ?_⟩ <;> simp at h
  split
  · refine ⟨fun id h => ?_, fun id h => ?_⟩ <;> simp at h
  simp only [evictFromSources]
  simp only [hc, filterRealAbnormal, h1, if_false]
  constructor
  · intro id hid
    obtain ⟨s, hs, hsid⟩ := balancePods_resets_sub _ _ _ _ _ _ _ _ hid
    obtain ⟨d0, hg, ha⟩ := filterAbnormal_get c _ st.nodeDet s (sub _) (sortSources_sub _ _ _ _ hs)
    rw [hsid] at hg
    obtain ⟨d1, hg1, hq1⟩ := resetAll_keeps _ (List.map (fun x => x.id) (ofClass Cls.low r.nodes)) id d0 d0 hg (Or.inl rfl)
    obtain ⟨d2, hg2, hq2⟩ := resetAll_keeps _ (List.map (fun x => x.id) (ofClass Cls.bothLow r.nodes)) id d0 d1 hg1 hq1
    have hg3 := resetAll_hit _ _ id d0 d2 hg2 hq2 hid
    rw [reset_anomalous d0 ha] at hg3
    exact markNormAll_clean (some c) _ _ _ _ hg3 ⟨rfl, rfl⟩
  · intro id hid
    obtain ⟨s, hs, hsid⟩ := balancePods_resets_sub _ _ _ _ _ _ _ _ hid
    obtain ⟨d0, hg, ha⟩ := filterAbnormal_get c _ st.prodDet s (sub _) (sortSources_sub _ _ _ _ hs)
    rw [hsid] at hg
    obtain ⟨d1, hg1, hq1⟩ := resetAll_keeps _ (List.map (fun x => x.id) (ofClass Cls.prodLow r.nodes)) id d0 d0 hg (Or.inl rfl)
    have hg3 := resetAll_hit _ _ id d0 d1 hg1 hq1 hid
    rw [reset_anomalous d0 ha] at hg3
    exact markNormAll_clean (some c) _ _ _ _ hg3 ⟨rfl, rfl⟩

/-- what "drained" means: a node is in the reset list of a pass only if the running usage its own
    eviction loop ended with (initial estimate minus what its successful calls moved) is at or under
    its (prod) high threshold. -/
theorem balanceLoop_resets_drained (nodeFit prod : Bool) (order : Nat → List Nat) (src : List Node)
    (tg : List Tgt) (avail : Vec) (id : Nat)
    (h : id ∈ (balanceLoop false nodeFit prod order tg avail src).resets) :
    ∃ s ∈ src, s.id = id ∧ ∃ av ps,
      over (finalAvail (if prod then s.prodUsage else s.usage)
        (evictLoop false prod s.id (if prod then s.phigh else s.high)
          (if prod then s.prodUsage else s.usage) av ps).evs) (if prod then s.phigh else s.high) = false := by
  induction src generalizing tg avail with
  | nil => simp [balanceLoop] at h
  | cons s ss ih =>
    unfold balanceLoop at h
    simp only at h
    generalize (if prod = true then List.filter (fun x => x.prod) s.pods else s.pods) = all at h
    generalize removable nodeFit tg all = rm at h
    by_cases hE : rm.fst.isEmpty = true
    · rw [if_pos hE] at h
      obtain ⟨s', hs', r⟩ := ih _ _ h
      exact ⟨s', List.mem_cons_of_mem _ hs', r⟩
    · rw [if_neg hE] at h
      rcases List.mem_append.mp h with h1 | h1
      · by_cases hr : (evictLoop false prod s.id (if prod = true then s.phigh else s.high)
            (if prod = true then s.prodUsage else s.usage) avail (applyOrder (order s.id) rm.fst)).relieved = true
        · simp only [hr, if_true, List.mem_singleton] at h1
          exact ⟨s, by simp, h1.symm, avail, _, evictLoop_relieved _ _ _ _ _ _ hr⟩
        · simp [hr] at h1
      · obtain ⟨s', hs', r⟩ := ih _ _ h1
        exact ⟨s', List.mem_cons_of_mem _ hs', r⟩

/-- consequence for the NEXT round (whatever it looks like): with at least two required
    abnormalities, a node drained in this round's node (prod) pass is not evicted from in the next
    round's node (prod) pass — its first new overload only counts as mark number one. -/
theorem drained_node_not_evicted_next_round (cfg : Cfg) (st : St) (r r' : RoundIn) (c : Cond)
    (hc : cfg.cond = some c) (h2 : 2 ≤ c.abn)
    (hnd : (r.nodes.map (·.id)).Nodup) (hnd' : (r'.nodes.map (·.id)).Nodup)
    (e : Ev) (he : e ∈ (runRound cfg (runRound cfg st r).st r').evs) :
    (e.prod = false → e.node ∉ (runRound cfg st r).nodeResets) ∧
    (e.prod = true → e.node ∉ (runRound cfg st r).prodResets) := by
  obtain ⟨hN, hP⟩ := drained_node_detector_reset cfg st r c hc (by omega) hnd
  obtain ⟨n, _, hid, hm⟩ := round_evict_gated cfg (runRound cfg st r).st r' c hc (by omega) hnd' e he
  constructor
  · intro hpr hmem
    obtain ⟨d, hg, hcl⟩ := hN _ hmem
    rw [hpr, hid] at hm
    simp only [Bool.false_eq_true, if_false, hg, Option.getD_some] at hm
    rw [clean_markAbn c d hcl (by omega)] at hm
    cases hm
  · intro hpr hmem
    obtain ⟨d, hg, hcl⟩ := hP _ hmem
    rw [hpr, hid] at hm
    simp only [if_true, hg, Option.getD_some] at hm
    rw [clean_markAbn c d hcl (by omega)] at hm
    cases hm

-- non-vacuity of `drained_node_detector_reset`: consecutiveAbnormalities = 2, node 1 is prod-overloaded for
-- three rounds; round 3 evicts one pod, the second candidate finds the node relieved ⇒ prod detector reset
namespace Witness
def pp1 : Pod := ⟨1, true, true, [30], [30], true, true, true⟩
def pp2 : Pod := ⟨2, true, true, [5], [5], true, true, true⟩
def phot : Node := ⟨1, false, false, [50], [40], [30], [60], [10], [20], [pp1, pp2]⟩
def rProd : RoundIn := ⟨2, false, 1, [cold, phot], [], fun _ => [], fun _ => 0, fun _ => 0, fun _ => []⟩
end Witness
example :
    let r3 := runRound Witness.cfg (runRound Witness.cfg (runRound Witness.cfg ⟨[], []⟩ Witness.rProd).st Witness.rProd).st Witness.rProd
    r3.prodResets = [1] ∧ r3.nodeResets = [] ∧ r3.evs.length = 1 ∧
      Dets.get? r3.st.prodDet 1 = some ⟨false, 0, 1⟩ ∧
      (runRound Witness.cfg r3.st Witness.rProd).evs = [] := by decide


/-! ### sort orders: who is evicted first -/

theorem pairwise_insertBy {α} (le : α → α → Bool)
    (htot : ∀ a b, le a b = true ∨ le b a = true)
    (htr : ∀ a b c, le a b = true → le b c = true → le a c = true)
    (x : α) (l : List α) (h : l.Pairwise (fun a b => le a b = true)) :
    (insertBy le x l).Pairwise (fun a b => le a b = true) := by
  induction l with
  | nil => simp [insertBy]
  | cons y ys ih =>
    unfold insertBy
    obtain ⟨hy, hys⟩ := List.pairwise_cons.mp h
    by_cases hxy : le x y = true
    · rw [if_pos hxy]
      refine List.pairwise_cons.mpr ⟨?_, h⟩
      intro z hz
      rcases List.mem_cons.mp hz with rfl | hz'
      · exact hxy
      · exact htr _ _ _ hxy (hy z hz')
    · rw [if_neg hxy]
      have hyx : le y x = true := (htot x y).resolve_left hxy
      refine List.pairwise_cons.mpr ⟨?_, ih hys⟩
      intro z hz
      rcases (mem_insertBy le x z ys).mp hz with rfl | hz'
      · exact hyx
      · exact hy z hz'

theorem pairwise_sortBy {α} (le : α → α → Bool)
    (htot : ∀ a b, le a b = true ∨ le b a = true)
    (htr : ∀ a b c, le a b = true → le b c = true → le a c = true) (l : List α) :
    (sortBy le l).Pairwise (fun a b => le a b = true) := by
  induction l with
  | nil => simp [sortBy]
  | cons x xs ih => exact pairwise_insertBy le htot htr x _ ih

/-- sortNodesByUsage: the source nodes are processed in non-increasing score order. -/
theorem sources_sorted (score : Nat → Int) (ord : List Nat) (ns : List Node) :
    (sortSources score ord ns).Pairwise (fun a b => score a.id ≥ score b.id) := by
  have := pairwise_sortBy (fun (a b : Node) => decide (score a.id ≥ score b.id))
    (by intro a b; simp only [decide_eq_true_eq]; omega)
    (by intro a b c; simp only [decide_eq_true_eq]; omega) (orderNodes ord ns)
  simpa [sortSources] using this

theorem lexLe_total (a b : List Int) : lexLe a b = true ∨ lexLe b a = true := by
  induction a generalizing b with
  | nil => simp [lexLe]
  | cons x xs ih =>
    cases b with
    | nil => simp [lexLe]
    | cons y ys =>
      unfold lexLe
      by_cases h1 : x < y
      · simp [h1]
      · by_cases h2 : y < x
        · simp [h2]
        · simpa [h1, h2] using ih ys

theorem lexLe_trans (a b c : List Int) (h1 : lexLe a b = true) (h2 : lexLe b c = true) :
    lexLe a c = true := by
  induction a generalizing b c with
  | nil => simp [lexLe]
  | cons x xs ih =>
    cases b with
    | nil => simp [lexLe] at h1
    | cons y ys =>
      cases c with
      | nil => simp [lexLe] at h2
      | cons z zs =>
        unfold lexLe at h1 h2 ⊢
        by_cases hxy : x < y
        · by_cases hyz : y < z
          · have : x < z := by omega
            simp [this]
          · by_cases hzy : z < y
            · simp [hyz, hzy] at h2
            · have : x < z := by omega
              simp [this]
        · by_cases hyx : y < x
          · simp [hxy, hyx] at h1
          · have hxe : x = y := by omega
            subst hxe
            simp only [hxy, if_false] at h1
            by_cases hyz : x < z
            · simp [hyz]
            · by_cases hzy : z < x
              · simp [hyz, hzy] at h2
              · simp only [hyz, hzy, if_false] at h2 ⊢
                exact ih _ _ h1 h2

/-- sortPodsOnOneOverloadedNode: the pod ids handed to the eviction loop are in ascending key
    order (lowest priority class, then lowest priority, then lowest deletion / eviction cost,
    then pods with a metric, then highest usage score first). -/
theorem podOrder_sorted (key : Nat → List Int) (obs : List Nat) (ps : List Pod) :
    (podOrder key obs ps).Pairwise (fun i j => lexLe (key i) (key j) = true) := by
  have := pairwise_sortBy (fun (a b : Pod) => lexLe (key a.id) (key b.id))
    (fun a b => lexLe_total _ _) (fun a b c => lexLe_trans _ _ _) (applyOrder obs ps)
  unfold podOrder
  exact List.pairwise_map.mpr this

/-- every pod of the node is in the order list, so `applyOrder` takes all of its output from it. -/
theorem podOrder_complete (key : Nat → List Int) (obs : List Nat) (ps : List Pod) (p : Pod)
    (hp : p ∈ ps) : p.id ∈ podOrder key obs ps := by
  unfold podOrder
  suffices h : ∃ q ∈ applyOrder obs ps, q.id = p.id by
    obtain ⟨q, hq, hid⟩ := h
    exact List.mem_map.mpr ⟨q, (mem_sortBy _ _ _).mpr hq, hid⟩
  unfold applyOrder
  by_cases h : obs.contains p.id = true
  · cases hf : ps.find? (fun x => decide (x.id = p.id)) with
    | none =>
      have := List.find?_eq_none.mp hf p hp
      simp at this
    | some q =>
      have hq : q.id = p.id := by simpa using List.find?_some hf
      refine ⟨q, List.mem_append.mpr (Or.inl ?_), hq⟩
      exact List.mem_filterMap.mpr ⟨p.id, by simpa using h, hf⟩
  · exact ⟨p, List.mem_append.mpr (Or.inr (List.mem_filter.mpr ⟨hp, by simpa using h⟩)), rfl⟩

/-- restricting a sorted id list to the removable pods keeps it sorted (and nothing is appended
    when the list names every pod). -/
theorem applyOrder_sorted (R : Nat → Nat → Prop) (ord : List Nat) (ps : List Pod)
    (hord : ord.Pairwise R) (hall : ∀ p ∈ ps, p.id ∈ ord) :
    (applyOrder ord ps).Pairwise (fun p q => R p.id q.id) := by
  unfold applyOrder
  have hrest : ps.filter (fun p => !ord.contains p.id) = [] := by
    apply List.filter_eq_nil_iff.mpr
    intro p hp
    simpa using hall p hp
  rw [hrest, List.append_nil]
  refine List.Pairwise.filterMap _ ?_ hord
  intro i j hij p hp q hq
  have h1 : p.id = i := by simpa using List.find?_some hp
  have h2 : q.id = j := by simpa using List.find?_some hq
  rw [h1, h2]; exact hij

/-- the Evict calls of one source node follow the order of its pod list. -/
theorem evictLoop_order (R : Nat → Nat → Prop) (dry prod : Bool) (nid : Nat) (high : Vec) (ps : List Pod)
    (cur avail : Vec) (h : ps.Pairwise (fun p q => R p.id q.id)) :
    (evictLoop dry prod nid high cur avail ps).evs.Pairwise (fun e e' => R e.pod e'.pod) := by
  induction ps generalizing cur avail with
  | nil => simp [evictLoop]
  | cons p ps ih =>
    obtain ⟨hp, hps⟩ := List.pairwise_cons.mp h
    unfold evictLoop
    by_cases h1 : over cur high = true
    case neg => simp [h1]
    by_cases h2 : allPos avail = true
    case neg => simp [h1, h2]
    by_cases h3 : p.filt2 = true
    case neg => simpa [h1, h2, h3] using ih cur avail hps
    simp only [h1, h2, h3, Bool.not_true, Bool.false_eq_true, if_false]
    cases dry with
    | true =>
      simp only [if_true]
      split <;> exact ih _ _ hps
    | false =>
      simp only [Bool.false_eq_true, if_false]
      refine List.pairwise_cons.mpr ⟨?_, ?_⟩
      · intro e' he'
        have : ∃ q ∈ ps, q.id = e'.pod := by
          split at he'
          · obtain ⟨_, _, _, _, _, _, q, hq, hid, _⟩ := evictLoop_sound _ _ _ _ _ _ _ e' he'
            exact ⟨q, hq, hid⟩
          · obtain ⟨_, _, _, _, _, _, q, hq, hid, _⟩ := evictLoop_sound _ _ _ _ _ _ _ e' he'
            exact ⟨q, hq, hid⟩
        obtain ⟨q, hq, hid⟩ := this
        rw [← hid]
        exact hp q hq
      · split <;> exact ih _ _ hps

/-- WHO goes first on one source node: whatever subset `rem` of the node's pods `all` is
    removable, and whatever the observed order, the Evict calls come in ascending pod-key order. -/
theorem source_node_evictions_sorted (key : Nat → List Int) (obs : List Nat) (all rem : List Pod)
    (hsub : ∀ p ∈ rem, p ∈ all) (dry prod : Bool) (nid : Nat) (high cur avail : Vec) :
    (evictLoop dry prod nid high cur avail (applyOrder (podOrder key obs all) rem)).evs.Pairwise
      (fun e e' => lexLe (key e.pod) (key e'.pod) = true) :=
  evictLoop_order (fun i j => lexLe (key i) (key j) = true) _ _ _ _ _ _ _
    (applyOrder_sorted _ _ _ (podOrder_sorted key obs all)
      (fun p hp => podOrder_complete key obs all p (hsub p hp)))

/-- WHO goes first among the source nodes of a pass: the Evict calls come in the order of the
    source list. -/
theorem balanceLoop_order (f : Nat → Int) (dry nodeFit prod : Bool) (order : Nat → List Nat) (src : List Node)
    (tg : List Tgt) (avail : Vec) (h : src.Pairwise (fun a b => f a.id ≥ f b.id)) :
    (balanceLoop dry nodeFit prod order tg avail src).evs.Pairwise (fun e e' => f e.node ≥ f e'.node) := by
  induction src generalizing tg avail with
  | nil => simp [balanceLoop]
  | cons s ss ih =>
    obtain ⟨hs, hss⟩ := List.pairwise_cons.mp h
    unfold balanceLoop
    simp only
    generalize (if prod = true then List.filter (fun x => x.prod) s.pods else s.pods) = all
    generalize removable nodeFit tg all = rm
    by_cases hE : rm.fst.isEmpty = true
    · rw [if_pos hE]; exact ih _ _ hss
    · rw [if_neg hE]
      simp only
      refine List.pairwise_append.mpr ⟨?_, ih _ _ hss, ?_⟩
      · refine List.Pairwise.imp_of_mem ?_ (List.pairwise_of_forall (R := fun _ _ => True) (fun _ _ => trivial))
        intro e e' he he' _
        obtain ⟨_, _, _, hn, _⟩ := evictLoop_sound _ _ _ _ _ _ _ e he
        obtain ⟨_, _, _, hn', _⟩ := evictLoop_sound _ _ _ _ _ _ _ e' he'
        rw [hn, hn']; exact Int.le_refl _
      · intro e he e' he'
        obtain ⟨_, _, _, hn, _⟩ := evictLoop_sound _ _ _ _ _ _ _ e he
        obtain ⟨_, _, _, _, s', hs', hid, _⟩ := balanceLoop_sound _ _ _ _ _ _ _ e' he'
        rw [hn, ← hid]
        exact hs s' hs'

theorem balancePods_order (f : Nat → Int) (dry nodeFit prod : Bool) (order : Nat → List Nat) (src : List Node)
    (tg : List Tgt) (avail : Vec) (h : src.Pairwise (fun a b => f a.id ≥ f b.id)) :
    (balancePods dry nodeFit prod order tg avail src).evs.Pairwise (fun e e' => f e.node ≥ f e'.node) := by
  unfold balancePods
  split
  · simp
  · exact balanceLoop_order f _ _ _ _ _ _ _ h

/-- the whole round: within the node pass the Evict calls go through the source nodes in
    non-increasing usage score (`nscore`), within the prod pass in non-increasing prod-usage score
    (`pscore`) — so when the receivers' headroom runs out, it is the lower-scored nodes that are
    left alone.  (The node pass precedes the prod pass.) -/
theorem round_sources_by_score (cfg : Cfg) (st : St) (r : RoundIn) :
    (runRound cfg st r).evs.Pairwise (fun e e' =>
      (e.prod = true → e'.prod = true) ∧
      (e.prod = false → e'.prod = false → r.nscore e.node ≥ r.nscore e'.node) ∧
      (e.prod = true → e'.prod = true → r.pscore e.node ≥ r.pscore e'.node)) := by
  unfold runRound
  split
  · simp
  simp only
  split
  · simp
  split
  · simp
  split
  · simp
  split
  · simp
  split
  · simp
  simp only [evictFromSources]
  refine List.pairwise_append.mpr ⟨?_, ?_, ?_⟩
  · refine List.Pairwise.imp_of_mem ?_ (balancePods_order r.nscore _ _ _ _ _ _ _ (sources_sorted _ _ _))
    intro e e' he he' hsc
    have h1 : e.prod = false := (balancePods_sound _ _ _ _ _ _ _ _ he).2.2.1
    have h2 : e'.prod = false := (balancePods_sound _ _ _ _ _ _ _ _ he').2.2.1
    exact ⟨by simp [h1], fun _ _ => hsc, by simp [h1]⟩
  · refine List.Pairwise.imp_of_mem ?_ (balancePods_order r.pscore _ _ _ _ _ _ _ (sources_sorted _ _ _))
    intro e e' he he' hsc
    have h1 : e.prod = true := (balancePods_sound _ _ _ _ _ _ _ _ he).2.2.1
    have h2 : e'.prod = true := (balancePods_sound _ _ _ _ _ _ _ _ he').2.2.1
    exact ⟨fun _ => h2, by simp [h1], fun _ _ => hsc⟩
  · intro e he e' he'
    have h1 : e.prod = false := (balancePods_sound _ _ _ _ _ _ _ _ he).2.2.1
    have h2 : e'.prod = true := (balancePods_sound _ _ _ _ _ _ _ _ he').2.2.1
    exact ⟨fun _ => h2, by simp [h2], by simp [h1]⟩

/-- the score is a per-mille value: between 0 and 1000 for non-negative usages, capacities, weights. -/
theorem mostRequestedScore_range (req cap : Int) (h1 : 0 ≤ req) (h2 : 0 ≤ cap) :
    0 ≤ mostRequestedScore req cap ∧ mostRequestedScore req cap ≤ 1000 := by
  unfold mostRequestedScore
  by_cases hc : cap = 0
  · simp [hc]
  · simp only [hc, if_false]
    have hpos : 0 < cap := by omega
    by_cases hr : req > cap
    · simp only [hr, if_true]
      rw [Int.tdiv_eq_ediv_of_nonneg (by omega)]
      have : cap * 1000 / cap = 1000 := Int.mul_ediv_cancel_left 1000 hc
      omega
    · simp only [hr, if_false]
      rw [Int.tdiv_eq_ediv_of_nonneg (by omega)]
      constructor
      · exact Int.ediv_nonneg (by omega) (by omega)
      · have : req * 1000 ≤ 1000 * cap := by omega
        calc req * 1000 / cap ≤ 1000 * cap / cap := Int.ediv_le_ediv hpos this
          _ = 1000 := Int.mul_ediv_cancel 1000 hc

-- non-vacuity: two sources with scores 700 / 300 (observed in the "wrong" order) and pod keys
example : (sortSources (fun i => if i = 1 then 300 else 700) [1, 2]
    [⟨1, false, false, [], [], [], [], [], [], []⟩, ⟨2, false, false, [], [], [], [], [], [], []⟩]).map (·.id) = [2, 1] := by decide
example : podOrder (fun i => if i = 5 then [4, 0] else if i = 6 then [2, 7] else [2, 3]) [5, 6, 7]
    [⟨5, true, true, [], [], true, true, true⟩, ⟨6, false, true, [], [], true, true, true⟩,
     ⟨7, false, true, [], [], true, true, true⟩] = [7, 6, 5] := by decide
example : usageScore [(500, 1000, 1), (3, 4, 1), (0, 0, 5)] = 178 := by decide


/-! ## several node pools (extension round 2)

Conversion of the v1alpha2 document (the implicit default pool comes FIRST, the user's entries keep
their order), `filterNodes` / `processedNodes`, and the loop of Balance: a node evicted from by one
pool - in the node pass or in the prod pass - is taken by no later pool of the same Balance call, so
the running estimate the evicting pool compared with its high threshold (`round_evict_sound`,
`evictLoop_replay`) is the node's estimate over the whole call. -/

/-! ### conversion -/

theorem convertPools_default_first (a : VArgs) :
    (convertPools a).head? = some (topPool a) ∧ (topPool a).name = 0 ∧ (topPool a).sel = a.sel ∧
    (topPool a).low = a.low ∧ (topPool a).high = a.high ∧ (topPool a).plow = a.plow ∧
    (topPool a).phigh = a.phigh := by
  simp [convertPools, topPool]

theorem convertPools_keeps_order (a : VArgs) :
    (convertPools a).length = a.pools.length + 1 ∧
    (convertPools a).tail.map (·.name) = a.pools.map (·.name) ∧
    (convertPools a).tail.map (·.sel) = a.pools.map (·.sel) ∧
    (convertPools a).tail.map (·.dev) = a.pools.map (·.dev) := by
  simp [convertPools, userPools, VPool.toC, defaultPool, List.map_map, Function.comp_def]

theorem defaultPool_inherits (low high plow phigh : Option IMap) (w : IMap) (c : ACond) (p : VPool) :
    let q := defaultPool low high plow phigh w c p
    q.low = (match p.low with | some m => some m | none => low) ∧
    q.high = (match p.high with | some m => some m | none => high) ∧
    q.plow = (match p.plow with | some m => some m | none => plow) ∧
    q.phigh = (match p.phigh with | some m => some m | none => phigh) ∧
    q.wts = some (match p.wts with | some m => m | none => w) ∧
    q.name = p.name ∧ q.sel = p.sel := by
  obtain ⟨name, sel, dev, l, h, pl, ph, wts, cond⟩ := p
  cases l <;> cases h <;> cases pl <;> cases ph <;> cases wts <;> simp [defaultPool]

theorem convertPools_selectorless_only_first (a : VArgs) (h : ∀ p ∈ a.pools, p.sel.isSome = true) :
    ∀ q ∈ (convertPools a).tail, q.sel.isSome = true := by
  intro q hq
  simp only [convertPools, List.tail_cons, userPools, List.mem_map] at hq
  obtain ⟨p, hp, rfl⟩ := hq
  simpa [VPool.toC, defaultPool] using h p hp

/-! ### filterNodes -/

theorem filterNodes_sub (sel : Option Labels) (nodes : List (Nat × Labels)) (pr : List Nat) (id : Nat)
    (h : id ∈ filterNodes sel nodes pr) : id ∈ nodes.map (·.1) := by
  simp only [filterNodes, List.mem_map, List.mem_filter] at h
  obtain ⟨n, ⟨hn, _⟩, rfl⟩ := h
  exact List.mem_map.mpr ⟨n, hn, rfl⟩

/-- EVERY pool - with or without selector - leaves the processed nodes alone. -/
theorem filterNodes_skips_processed (sel : Option Labels) (nodes : List (Nat × Labels)) (pr : List Nat) (id : Nat)
    (h : id ∈ filterNodes sel nodes pr) : id ∉ pr := by
  simp only [filterNodes, List.mem_map, List.mem_filter] at h
  obtain ⟨n, ⟨_, hc⟩, rfl⟩ := h
  simp only [Bool.and_eq_true, Bool.not_eq_true', List.contains_eq_mem, decide_eq_false_iff_not] at hc
  exact hc.1

/-- a pool without selector takes exactly the nodes not yet processed. -/
theorem filterNodes_nil (nodes : List (Nat × Labels)) (pr : List Nat) :
    filterNodes none nodes pr = (nodes.filter fun n => !pr.contains n.1).map (·.1) := by
  simp [filterNodes]

/-- with a selector: the matching nodes not yet processed. -/
theorem filterNodes_mem (s : Labels) (nodes : List (Nat × Labels)) (pr : List Nat) (id : Nat) :
    id ∈ filterNodes (some s) nodes pr ↔ ∃ n ∈ nodes, n.1 = id ∧ id ∉ pr ∧ selMatches s n.2 = true := by
  simp only [filterNodes, List.mem_map, List.mem_filter, Bool.and_eq_true, Bool.not_eq_true',
    List.contains_eq_mem, decide_eq_false_iff_not]
  constructor
  · rintro ⟨n, ⟨hn, hp, hm⟩, rfl⟩; exact ⟨n, hn, rfl, hp, hm⟩
  · rintro ⟨n, hn, rfl, hp, hm⟩; exact ⟨n, ⟨hn, hp, hm⟩, rfl⟩

/-! ### the loop of Balance -/

section loop
variable {σ ε P : Type} (selOf : P → Option Labels) (run : Nat → P → List Nat → σ → PoolOut σ ε)
  (nodes : List (Nat × Labels))

/-- every segment is one `run` call on the filtered nodes. -/
theorem balancePools_seg_run : ∀ (ps : List P) (i : Nat) (st : σ) (pr : List Nat),
    ∀ s ∈ (balancePools selOf run nodes i ps st pr).2,
      ∃ (j : Nat) (p : P) (st0 : σ) (pr0 : List Nat), p ∈ ps ∧ s.ids = filterNodes (selOf p) nodes pr0 ∧
        s.evs = (run j p s.ids st0).evs ∧ s.sources = (run j p s.ids st0).sources := by
  intro ps
  induction ps with
  | nil => intro i st pr s hs; simp [balancePools] at hs
  | cons p ps ih =>
    intro i st pr s hs
    simp only [balancePools] at hs
    split at hs
    · obtain ⟨j, q, st0, pr0, hq, h⟩ := ih _ _ _ s hs
      exact ⟨j, q, st0, pr0, List.mem_cons_of_mem _ hq, h⟩
    · simp only [List.mem_cons] at hs
      rcases hs with rfl | hs
      · exact ⟨i, p, st, pr, List.mem_cons_self, rfl, rfl, rfl⟩
      · obtain ⟨j, q, st0, pr0, hq, h⟩ := ih _ _ _ s hs
        exact ⟨j, q, st0, pr0, List.mem_cons_of_mem _ hq, h⟩

/-- no pool takes a node that is already in `processedNodes`. -/
theorem balancePools_processed_skipped : ∀ (ps : List P) (i : Nat) (st : σ) (pr : List Nat),
    ∀ s ∈ (balancePools selOf run nodes i ps st pr).2, ∀ id ∈ s.ids, id ∉ pr := by
  intro ps
  induction ps with
  | nil => intro i st pr s hs; simp [balancePools] at hs
  | cons p ps ih =>
    intro i st pr s hs id hid
    simp only [balancePools] at hs
    split at hs
    · exact ih _ _ _ s hs id hid
    · simp only [List.mem_cons] at hs
      rcases hs with rfl | hs
      · exact filterNodes_skips_processed _ nodes pr id hid
      · intro hmem
        exact ih _ _ _ s hs id hid (List.mem_append_left _ hmem)

/-- a node that one pool inserted into `processedNodes` is in the node set of no later pool of the
    same Balance call - whatever the selectors and the order of the pools. -/
theorem balancePools_sources_once : ∀ (ps : List P) (i : Nat) (st : σ) (pr : List Nat),
    ((balancePools selOf run nodes i ps st pr).2).Pairwise (fun s1 s2 => ∀ id ∈ s1.sources, id ∉ s2.ids) := by
  intro ps
  induction ps with
  | nil => intro i st pr; simp [balancePools]
  | cons p ps ih =>
    intro i st pr
    simp only [balancePools]
    split
    · exact ih _ _ _
    · refine List.Pairwise.cons ?_ (ih _ _ _)
      intro s2 hs2 id hid hid2
      exact balancePools_processed_skipped selOf run nodes ps _ _ _ s2 hs2 id hid2 (List.mem_append_right _ hid)

end loop

/-- non-vacuous: two overlapping pools, the second one without selector; the node the first pool
    reports as a source is left out of the second pool's node set, the other node is not. -/
theorem balancePools_sources_once_witness :
    ((balancePools (fun (s : Option Labels) => s)
        (fun _ _ ids (st : Unit) => (⟨st, ([] : List Unit), ids.take 1⟩ : PoolOut Unit Unit))
        [(0, [(0, 0)]), (1, [(0, 0)]), (2, [(0, 1)])] 0 [some [(0, 0)], none] () []).2).map (·.ids)
      = [[0, 1], [1, 2]] := by
  decide

/-! ### with processOneNodePool = runRound -/

theorem runRound_exit_evs (cfg : Cfg) (st : St) (r : RoundIn) :
    (runRound cfg st r).exit ≠ 0 → (runRound cfg st r).evs = [] := by
  unfold runRound
  split
  · intro _; rfl
  simp only
  split
  · intro _; rfl
  split
  · intro _; rfl
  split
  · intro _; rfl
  split
  · intro _; rfl
  split
  · intro _; rfl
  intro h; exact absurd rfl h

theorem runRound_evs_exit (cfg : Cfg) (st : St) (r : RoundIn) (e : Ev)
    (he : e ∈ (runRound cfg st r).evs) : (runRound cfg st r).exit = 0 := by
  apply Classical.byContradiction
  intro h
  rw [runRound_exit_evs cfg st r h] at he
  simp at he

/-- every Evict call - node pass or prod pass - comes from a node of the pool's round that the pool
    inserts into `processedNodes`. -/
theorem poolStep_evs_sources (cfg : Cfg) (st : St) (r : RoundIn) (e : Ev) (he : e ∈ (poolStep cfg r st).evs) :
    (∃ n ∈ r.nodes, n.id = e.node) ∧ e.node ∈ (poolStep cfg r st).sources := by
  simp only [poolStep] at he ⊢
  have hs := round_evict_sound cfg st r e he
  obtain ⟨_, _, _, n, hn, hid, hcls, _⟩ := hs
  refine ⟨⟨n, hn, hid⟩, ?_⟩
  have hex := runRound_evs_exit cfg st r e he
  rw [if_neg (by rw [hex]; decide)]
  simp only [poolSources, List.mem_append, List.mem_map]
  cases hp : e.prod with
  | false =>
    simp only [hp] at hcls
    exact Or.inl ⟨n, by simp [ofClass, hn, hcls], hid⟩
  | true =>
    simp only [hp] at hcls
    exact Or.inr ⟨n, by simp [ofClass, hn, hcls], hid⟩

/-- Balance over ANY list of pools: a node evicted from by one pool (node pass or prod pass) is not
    evicted from by any later pool of the same Balance call - so the running estimate that pool compared
    with its high threshold (`round_evict_sound`, `evictLoop_replay`) is the node's estimate over the whole
    call, and the node is left alone once that pool is done with it. -/
theorem balance_evicted_by_one_pool {P : Type} (selOf : P → Option Labels) (cfgOf : P → Cfg)
    (mk : Nat → P → List Nat → RoundIn) (nodes : List (Nat × Labels)) (ps : List P) (st : St)
    (hmk : ∀ i q ids, ∀ n ∈ (mk i q ids).nodes, n.id ∈ ids) :
    ((balanceAll selOf cfgOf mk nodes ps st).2).Pairwise
      (fun s1 s2 => ∀ e1 ∈ s1.evs, ∀ e2 ∈ s2.evs, e2.node ≠ e1.node) := by
  have hpw := balancePools_sources_once selOf (fun i p ids st => poolStep (cfgOf p) (mk i p ids) st) nodes ps 0 st []
  have hrun := balancePools_seg_run selOf (fun i p ids st => poolStep (cfgOf p) (mk i p ids) st) nodes ps 0 st []
  unfold balanceAll
  generalize (balancePools selOf (fun i p ids st => poolStep (cfgOf p) (mk i p ids) st) nodes 0 ps st []).2 = segs at hpw hrun
  induction hpw with
  | nil => exact List.Pairwise.nil
  | @cons s1 rest hhead _ ih =>
    refine List.Pairwise.cons ?_ (ih fun s hs => hrun s (List.mem_cons_of_mem _ hs))
    intro s2 hs2 e1 he1 e2 he2 heq
    obtain ⟨j1, q1, st1, _, _, _, hev1, hsrc1⟩ := hrun s1 List.mem_cons_self
    obtain ⟨j2, q2, st2, _, _, _, hev2, _⟩ := hrun s2 (List.mem_cons_of_mem _ hs2)
    rw [hev1] at he1
    rw [hev2] at he2
    have h1 := (poolStep_evs_sources _ _ _ e1 he1).2
    obtain ⟨n2, hn2, hid2⟩ := (poolStep_evs_sources _ _ _ e2 he2).1
    have hin : e2.node ∈ s2.ids := hid2 ▸ hmk j2 q2 s2.ids n2 hn2
    rw [← hsrc1] at h1
    exact hhead s2 hs2 e1.node h1 (heq ▸ hin)

/-- every Evict call of a Balance call is sound for the pool that issued it (`round_evict_sound`):
    at the call the pool's running estimate is above the pool's (prod) high threshold for that node and
    every tracked resource of the receivers' headroom is positive; the node is one of the pool's nodes. -/
theorem balance_evict_sound {P : Type} (selOf : P → Option Labels) (cfgOf : P → Cfg)
    (mk : Nat → P → List Nat → RoundIn) (nodes : List (Nat × Labels)) (ps : List P) (st : St)
    (hmk : ∀ i q ids, ∀ n ∈ (mk i q ids).nodes, n.id ∈ ids) :
    ∀ s ∈ (balanceAll selOf cfgOf mk nodes ps st).2, ∀ e ∈ s.evs,
      over e.usage e.high = true ∧ allPos e.avail = true ∧ e.node ∈ s.ids := by
  intro s hs e he
  obtain ⟨j, q, st0, _, _, _, hev, _⟩ :=
    balancePools_seg_run selOf (fun i p ids st => poolStep (cfgOf p) (mk i p ids) st) nodes ps 0 st [] s hs
  rw [hev] at he
  have h := round_evict_sound (cfgOf q) st0 (mk j q s.ids) e he
  obtain ⟨n, hn, hid⟩ := (poolStep_evs_sources _ _ _ e he).1
  exact ⟨h.2.1, h.2.2.1, hid ▸ hmk j q s.ids n hn⟩

/-- the document-level corollary: whatever the nodePools entries of the document are, the Balance
    call over the converted pools (default pool first) touches no node twice. -/
theorem converted_evicted_by_one_pool (a : VArgs) (cfgOf : CPool → Cfg)
    (mk : Nat → CPool → List Nat → RoundIn) (nodes : List (Nat × Labels)) (st : St)
    (hmk : ∀ i q ids, ∀ n ∈ (mk i q ids).nodes, n.id ∈ ids) :
    ((balanceAll (·.sel) cfgOf mk nodes (convertPools a) st).2).Pairwise
      (fun s1 s2 => ∀ e1 ∈ s1.evs, ∀ e2 ∈ s2.evs, e2.node ≠ e1.node) :=
  balance_evicted_by_one_pool (·.sel) cfgOf mk nodes (convertPools a) st hmk

theorem restrict_nodes_in (r : RoundIn) (ids : List Nat) : ∀ n ∈ (r.restrict ids).nodes, n.id ∈ ids := by
  intro n hn
  simp only [RoundIn.restrict, List.mem_filter, List.contains_eq_mem, decide_eq_true_eq] at hn
  exact hn.2

/-- the two Balance theorems without side condition, for round inputs restricted to the pool's nodes
    (what the driver builds and what getNodeUsage does). -/
theorem balance_restricted_evicted_by_one_pool {P : Type} (selOf : P → Option Labels) (cfgOf : P → Cfg)
    (mk : Nat → P → List Nat → RoundIn) (nodes : List (Nat × Labels)) (ps : List P) (st : St) :
    ((balanceAll selOf cfgOf (fun i q ids => (mk i q ids).restrict ids) nodes ps st).2).Pairwise
      (fun s1 s2 => ∀ e1 ∈ s1.evs, ∀ e2 ∈ s2.evs, e2.node ≠ e1.node) :=
  balance_evicted_by_one_pool selOf cfgOf _ nodes ps st fun i q ids => restrict_nodes_in (mk i q ids) ids

theorem balance_restricted_evict_sound {P : Type} (selOf : P → Option Labels) (cfgOf : P → Cfg)
    (mk : Nat → P → List Nat → RoundIn) (nodes : List (Nat × Labels)) (ps : List P) (st : St) :
    ∀ s ∈ (balanceAll selOf cfgOf (fun i q ids => (mk i q ids).restrict ids) nodes ps st).2, ∀ e ∈ s.evs,
      over e.usage e.high = true ∧ allPos e.avail = true ∧ e.node ∈ s.ids :=
  balance_evict_sound selOf cfgOf _ nodes ps st fun i q ids => restrict_nodes_in (mk i q ids) ids

/-- a pool that gets past its first two exits ("no nodes", "no source nodes") hands exactly its
    `high` and `prodHigh` nodes to filterRealAbnormalNodes and records exactly them as processed. -/
theorem poolStep_sources_eq (cfg : Cfg) (st : St) (r : RoundIn)
    (h1 : (runRound cfg st r).exit ≠ 1) (h2 : (runRound cfg st r).exit ≠ 2) :
    (poolStep cfg r st).sources = poolSources r := by
  simp only [poolStep]
  rw [if_neg (by intro h; rcases h with h | h <;> contradiction)]

/-- anomaly gating over several pools: the nodes a pool has marked abnormal (its sources) are in the
    node set of no later pool of the same Balance call - a node gets at most ONE abnormal mark per
    Balance call, however many pools select it (the detectors are shared by the pools). -/
theorem balance_marked_once {P : Type} (selOf : P → Option Labels) (cfgOf : P → Cfg)
    (mk : Nat → P → List Nat → RoundIn) (nodes : List (Nat × Labels)) (ps : List P) (st : St) :
    ((balanceAll selOf cfgOf mk nodes ps st).2).Pairwise (fun s1 s2 => ∀ id ∈ s1.sources, id ∉ s2.ids) :=
  balancePools_sources_once selOf _ nodes ps 0 st []

/-! ### defaulting quirks of the anomaly condition -/

theorem defaultTopCond_abn_pos (c : Option ACond) : (defaultTopCond c).abn > 0 := by
  cases c with
  | none => decide
  | some c =>
    by_cases h : c.abn = 0 <;> by_cases h2 : c.norm = 0 <;> simp [defaultTopCond, defaultCond, h, h2] <;> omega

/-- the `else if` chain of SetDefaults_LowNodeLoadArgs: a present anomalyCondition with BOTH numbers
    absent keeps consecutiveNormalities = 0 (and is then refused by the validation). -/
theorem defaultTopCond_norm_zero_iff (c : ACond) :
    (defaultTopCond (some c)).norm = 0 ↔ c.abn = 0 ∧ c.norm = 0 := by
  simp only [defaultTopCond]
  split
  · rename_i h; simp [h]
  · rename_i h
    split
    · simp [defaultCond, h]
    · rename_i h2; simp [h, h2]

-- non-vacuity: a document with top-level thresholds and two labelled entries, one inheriting everything, one with
-- an EMPTY high map (kept, not inherited) and an anomaly number 0 (inherited)
example : convertPools ⟨none, none, none, none, none, none, some [(0, 120)], some [(0, 200)], none, none, none, none,
    [⟨1, some [(0, 1)], false, none, none, none, none, none, none⟩,
     ⟨2, some [], false, some [(1, 100)], some [], none, none, some [(2, 3)], some ⟨0, 2⟩⟩]⟩
    = [⟨0, none, false, some [(0, 120)], some [(0, 200)], none, none, some [(0, 1), (1, 1)], some ⟨5, 3⟩⟩,
       ⟨1, some [(0, 1)], false, some [(0, 120)], some [(0, 200)], none, none, some [(0, 1), (1, 1)], some ⟨5, 3⟩⟩,
       ⟨2, some [], false, some [(1, 100)], some [], none, none, some [(2, 3)], some ⟨5, 2⟩⟩] := by decide
example : validArgs ⟨none, none, none, none, none, none, some [(0, 120)], some [(0, 200)], none, none, none, some ⟨0, 0⟩, []⟩ = false := by decide
example : validArgs ⟨none, none, none, none, none, none, some [(0, 120)], some [(0, 200)], none, none, none, some ⟨0, 1⟩, []⟩ = true := by decide
example : filterNodes none [(0, []), (1, [(0, 1)])] [0] = [1] := by decide
example : filterNodes (some [(0, 1)]) [(0, []), (1, [(0, 1)]), (2, [(0, 1), (1, 0)])] [2] = [1] := by decide

/-! ## extension round 5: what the PROD pass of a round may count as headroom

utilization_util.go evictPodsFromSourceNodes: after the node-level pass the both-low nodes' node
headroom is capped at what that pass left (`if both > remaining { both = remaining }`), and the prod
pass starts from   Σ prod-low-only (prodHigh − prodUsage)  +  min(Σ both-low (prodHigh − prodUsage), both).
`remaining` also holds the headroom of the nodes that are low at NODE level only; they are no
destination of the prod pass.  Proved here (all inputs of the model): the prod pass never starts
with — and no prod Evict call ever sees — more headroom than
   prod headroom of the prod-low-only nodes + NODE headroom of the both-low nodes
(nor more than … + their prod headroom, nor more than … + what the node pass left), whatever the
node-level-only receivers have; and the headroom a prod call sees is positive.
-/

/-- componentwise `≤` on the common prefix (the vectors of one round all have `dims` entries). -/
def VLe : Vec → Vec → Prop
  | a :: as, b :: bs => a ≤ b ∧ VLe as bs
  | _, _ => True

theorem VLe.refl (a : Vec) : VLe a a := by
  induction a with
  | nil => trivial
  | cons x xs ih => exact ⟨Int.le_refl _, ih⟩

theorem vmin_le_left (a b : Vec) : VLe (vmin a b) a := by
  induction a generalizing b with
  | nil => simp [VLe]
  | cons x xs ih =>
    cases b with
    | nil => simp [vmin, VLe]
    | cons y ys =>
      simp only [vmin, VLe]
      refine ⟨?_, ih ys⟩
      split <;> omega

theorem vmin_le_right (a b : Vec) : VLe (vmin a b) b := by
  induction a generalizing b with
  | nil => cases b <;> simp [vmin, VLe]
  | cons x xs ih =>
    cases b with
    | nil => simp [vmin, VLe]
    | cons y ys =>
      simp only [vmin, VLe]
      refine ⟨?_, ih ys⟩
      split <;> omega

theorem vmin_vmin_le_mid (a b c : Vec) : VLe (vmin a (vmin b c)) b := by
  induction a generalizing b c with
  | nil => cases b <;> simp [vmin, VLe]
  | cons x xs ih =>
    cases b with
    | nil => simp [vmin, VLe]
    | cons y ys =>
      cases c with
      | nil => simp [vmin, VLe]
      | cons z zs =>
        simp only [vmin, VLe]
        refine ⟨?_, ih ys zs⟩
        split <;> split <;> omega

theorem vmin_vmin_le_last (a b c : Vec) : VLe (vmin a (vmin b c)) c := by
  induction a generalizing b c with
  | nil => cases c <;> simp [vmin, VLe]
  | cons x xs ih =>
    cases b with
    | nil => simp [vmin, VLe]
    | cons y ys =>
      cases c with
      | nil => simp [vmin, VLe]
      | cons z zs =>
        simp only [vmin, VLe]
        refine ⟨?_, ih ys zs⟩
        split <;> split <;> omega

theorem vadd_mono_right (p a b : Vec) (h : VLe a b) : VLe (vadd p a) (vadd p b) := by
  induction p generalizing a b with
  | nil => simp [vadd, VLe]
  | cons x xs ih =>
    cases a with
    | nil => simp [vadd, VLe]
    | cons y ys =>
      cases b with
      | nil => simp [vadd, VLe]
      | cons z zs =>
        simp only [vadd, VLe] at h ⊢
        exact ⟨by omega, ih ys zs h.2⟩

theorem vsub_mono_left (a b m : Vec) (h : VLe a b) : VLe (vsub a m) (vsub b m) := by
  induction m generalizing a b with
  | nil => cases a <;> cases b <;> simp [vsub, VLe]
  | cons x xs ih =>
    cases a with
    | nil => simp [vsub, VLe]
    | cons y ys =>
      cases b with
      | nil => simp [vsub, VLe]
      | cons z zs =>
        simp only [vsub, VLe] at h ⊢
        exact ⟨by omega, ih ys zs h.2⟩

theorem finalAvail_mono (es : List Ev) (a b : Vec) (h : VLe a b) :
    VLe (finalAvail a es) (finalAvail b es) := by
  induction es generalizing a b with
  | nil => simpa [finalAvail] using h
  | cons e es ih =>
    simp only [finalAvail, List.foldl_cons]
    apply ih
    unfold Ev.after
    split
    · exact vsub_mono_left _ _ _ h
    · exact h

/-- the i-th call of a pass sees the initial headroom minus what the calls before it moved. -/
theorem availChain_split (a : Vec) (pre post : List Ev) (e : Ev)
    (h : AvailChain a (pre ++ e :: post)) : e.avail = finalAvail a pre := by
  have := (availChain_append a pre (e :: post)).mp h
  exact this.2.1

/-- the headroom the prod pass of a round starts with (evictPodsFromSourceNodes). -/
def prodStart (nodeFit : Bool) (dims : Nat) (podOrd : Nat → List Nat)
    (src low psrc plow both : List Node) : Vec :=
  vadd (vadd (List.replicate dims 0) (targetAvail true (List.replicate dims 0) plow))
    (vmin (targetAvail true (List.replicate dims 0) both)
      (vmin (targetAvail false (List.replicate dims 0) both)
        (evictFromSources false nodeFit dims podOrd src low psrc plow both).1.avail))

/-- the bound that does not mention the node-level-only receivers `low` at all:
    prod headroom of the prod-low-only nodes + NODE headroom of the both-low nodes. -/
def prodCapNode (dims : Nat) (plow both : List Node) : Vec :=
  vadd (vadd (List.replicate dims 0) (targetAvail true (List.replicate dims 0) plow))
    (targetAvail false (List.replicate dims 0) both)

/-- … + PROD headroom of the both-low nodes. -/
def prodCapProd (dims : Nat) (plow both : List Node) : Vec :=
  vadd (vadd (List.replicate dims 0) (targetAvail true (List.replicate dims 0) plow))
    (targetAvail true (List.replicate dims 0) both)

/-- The prod pass starts with at most: the prod headroom of the prod-low-only nodes plus
    (a) the NODE headroom of the both-low nodes, (b) their PROD headroom, (c) what the node pass
    left of its own headroom — in every resource.  (a) and (b) do not depend on the nodes that are
    low at node level only, however much room those have. -/
theorem prod_headroom_capped (nodeFit : Bool) (dims : Nat) (podOrd : Nat → List Nat)
    (src low psrc plow both : List Node) :
    VLe (prodStart nodeFit dims podOrd src low psrc plow both) (prodCapNode dims plow both) ∧
    VLe (prodStart nodeFit dims podOrd src low psrc plow both) (prodCapProd dims plow both) ∧
    VLe (prodStart nodeFit dims podOrd src low psrc plow both)
      (vadd (vadd (List.replicate dims 0) (targetAvail true (List.replicate dims 0) plow))
        (evictFromSources false nodeFit dims podOrd src low psrc plow both).1.avail) := by
  refine ⟨?_, ?_, ?_⟩
  · exact vadd_mono_right _ _ _ (vmin_vmin_le_mid _ _ _)
  · exact vadd_mono_right _ _ _ (vmin_le_left _ _)
  · exact vadd_mono_right _ _ _ (vmin_vmin_le_last _ _ _)

/-- Every Evict call of the prod pass — written as `pre ++ e :: post`, `pre` the prod calls before
    it — sees a headroom that is positive in every tracked resource, equals the start value minus
    what `pre` moved, and is therefore at most  (prod headroom of the prod-low-only nodes + NODE
    headroom of the both-low nodes) − moved by `pre`:  once the prod pass has moved that much, it
    issues no further call, whatever room the node-level-only receivers have left. -/
theorem prod_evict_within_both_low_node_headroom (nodeFit : Bool) (dims : Nat)
    (podOrd : Nat → List Nat) (src low psrc plow both : List Node) (pre post : List Ev) (e : Ev)
    (h : (evictFromSources false nodeFit dims podOrd src low psrc plow both).2.evs = pre ++ e :: post) :
    allPos e.avail = true ∧
    e.avail = finalAvail (prodStart nodeFit dims podOrd src low psrc plow both) pre ∧
    VLe e.avail (finalAvail (prodCapNode dims plow both) pre) ∧
    VLe e.avail (finalAvail (prodCapProd dims plow both) pre) := by
  have hc := (round_headroom_exact nodeFit dims podOrd src low psrc plow both).2
  rw [h] at hc
  have heq : e.avail = finalAvail (prodStart nodeFit dims podOrd src low psrc plow both) pre :=
    availChain_split _ pre post e hc
  have hmem : e ∈ (evictFromSources false nodeFit dims podOrd src low psrc plow both).2.evs := by
    rw [h]; simp
  have hpos : allPos e.avail = true := by
    unfold evictFromSources at hmem
    exact (balancePods_sound _ _ _ _ _ _ _ _ hmem).2.2.2.2.1
  have hcap := prod_headroom_capped nodeFit dims podOrd src low psrc plow both
  refine ⟨hpos, heq, ?_, ?_⟩
  · rw [heq]; exact finalAvail_mono _ _ _ hcap.1
  · rw [heq]; exact finalAvail_mono _ _ _ hcap.2.1

/-! ### non-vacuity: the three-node shape (one resource, quantities in milli-cpu)

 S (8000m): prod usage 4380 > prod high 4000, node usage 4400 ≤ node high 4800: prod-pass source with
            three removable prod pods of 180m;
 B (1000m): usage 317 ≤ low 350, prod usage 0: both-low; NODE headroom 600 − 317 = 283, prod headroom 500;
 L (16000m): usage 4680 ≤ low 5600, prod usage 4680 between prod low 4560 and prod high 8000: receiver
            of the node pass only, node headroom 4920.
 The prod pass issues TWO calls (283 → 103 → −77) although S is still over its prod high threshold
 (4380 − 360 = 4020 > 4000) and a third removable pod is left: L's 4920 are no room for prod pods. -/
namespace Shape
def sp (i : Nat) : Pod := ⟨i, true, true, [180], [180], true, true, true⟩
def S : Node := ⟨0, false, false, [4400], [4380], [2800], [4800], [2280], [4000], [sp 2, sp 3, sp 4]⟩
def B : Node := ⟨1, false, false, [317], [0], [350], [600], [285], [500], []⟩
def L : Node := ⟨2, false, false, [4680], [4680], [5600], [9600], [4560], [8000], []⟩
def rin : RoundIn := ⟨3, false, 1, [S, B, L], [], fun _ => [], fun _ => 0, fun _ => 0, fun _ => []⟩
end Shape

example : classify Shape.S = .prodHigh ∧ classify Shape.B = .bothLow ∧ classify Shape.L = .low := by decide
example : prodStart false 1 (fun _ => []) [] [Shape.L] [Shape.S] [] [Shape.B] = [283] ∧
    prodCapNode 1 [] [Shape.B] = [283] ∧ prodCapProd 1 [] [Shape.B] = [500] := by decide
example : ((runRound ⟨none, 0, false⟩ ⟨[], []⟩ Shape.rin).evs.map (fun e => (e.pod, e.avail, e.usage))) =
    [(2, [283], [4380]), (3, [103], [4200])] := by decide

end KoordVerif.C18
