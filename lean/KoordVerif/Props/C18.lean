import KoordVerif.Model.C18
/-
C18 — property theorems (DESIGN.md §4 C18).  All statements are about the executable model
`Model/C18.lean`, for arbitrary threshold quantities, usages, pod sets, filter/evictor answers,
detector states and observed sort orders (no bound on sizes).
`Ev.usage / Ev.high / Ev.avail` are the running estimates the code compared right before the
`Evictor.Evict` call the event stands for.
-/
namespace KoordVerif.C18

/-! ### helpers -/

/-- what one Evict call leaves of an estimate. -/
def Ev.after (e : Ev) (v : Vec) : Vec := if e.moved then vsub v e.metric else v

/-- the events replay the running estimates: every call sees the initial estimate minus what
    the earlier successful calls (with a pod metric) moved. -/
def Replay : Vec → Vec → List Ev → Prop
  | _, _, [] => True
  | cur, avail, e :: es => e.usage = cur ∧ e.avail = avail ∧ Replay (e.after cur) (e.after avail) es

/-- the headroom part alone (it is shared by all source nodes of one pass). -/
def AvailChain : Vec → List Ev → Prop
  | _, [] => True
  | a, e :: es => e.avail = a ∧ AvailChain (e.after a) es

def finalAvail (a : Vec) (es : List Ev) : Vec := es.foldl (fun a e => e.after a) a

theorem replay_availChain (cur a : Vec) (es : List Ev) (h : Replay cur a es) : AvailChain a es := by
  induction es generalizing cur a with
  | nil => trivial
  | cons e es ih => exact ⟨h.2.1, ih _ _ h.2.2⟩

theorem availChain_append (a : Vec) (xs ys : List Ev) :
    AvailChain a (xs ++ ys) ↔ AvailChain a xs ∧ AvailChain (finalAvail a xs) ys := by
  induction xs generalizing a with
  | nil => simp [AvailChain, finalAvail]
  | cons x xs ih =>
    simp only [List.cons_append, AvailChain, finalAvail, List.foldl_cons]
    rw [ih]
    simp [finalAvail, and_assoc]

/-! ### 1./3. the eviction loop of one source node: only while over the high threshold and while
       headroom is left; exact running estimates; stops -/

/-- dry-run never calls the evictor. -/
theorem evictLoop_dry_no_calls (prod : Bool) (nid : Nat) (high : Vec) (ps : List Pod) (cur avail : Vec) :
    (evictLoop true prod nid high cur avail ps).evs = [] := by
  induction ps generalizing cur avail with
  | nil => simp [evictLoop]
  | cons p ps ih =>
    unfold evictLoop
    split
    · rfl
    · split
      · rfl
      · split
        · exact ih _ _
        · simp only [if_true]
          split <;> exact ih _ _

/-- every Evict call of the loop: the node's running usage is above its high threshold in some
    resource, every resource still has headroom, and the pod passed the filter right before. -/
theorem evictLoop_sound (dry prod : Bool) (nid : Nat) (high : Vec) (ps : List Pod) (cur avail : Vec)
    (e : Ev) (he : e ∈ (evictLoop dry prod nid high cur avail ps).evs) :
    over e.usage e.high = true ∧ allPos e.avail = true ∧ e.high = high ∧ e.node = nid ∧ e.prod = prod ∧
    dry = false ∧
    ∃ p ∈ ps, p.id = e.pod ∧ p.filt2 = true ∧ e.ok = p.evictOK ∧ e.metric = p.metric ∧
      e.moved = (p.evictOK && p.hasMetric) := by
  cases dry with
  | true => rw [evictLoop_dry_no_calls] at he; cases he
  | false =>
  induction ps generalizing cur avail with
  | nil => simp [evictLoop] at he
  | cons p ps ih =>
    unfold evictLoop at he
    by_cases h1 : over cur high = true
    case neg => simp [h1] at he
    by_cases h2 : allPos avail = true
    case neg => simp [h1, h2] at he
    by_cases h3 : p.filt2 = true
    case neg =>
      simp only [h1, h2, h3, Bool.not_true, Bool.not_false, Bool.false_eq_true, if_false, if_true] at he
      obtain ⟨a, b, c, d, f, g, q, hq, r⟩ := ih _ _ he
      exact ⟨a, b, c, d, f, g, q, List.mem_cons_of_mem _ hq, r⟩
    simp only [h1, h2, h3, Bool.not_true, Bool.false_eq_true, if_false] at he
    rcases List.mem_cons.mp he with rfl | he'
    · exact ⟨h1, h2, rfl, rfl, rfl, rfl, p, by simp, rfl, h3, rfl, rfl, rfl⟩
    · split at he'
      all_goals
        obtain ⟨a, b, c, d, f, g, q, hq, r⟩ := ih _ _ he'
        exact ⟨a, b, c, d, f, g, q, List.mem_cons_of_mem _ hq, r⟩

/-- the estimates at every call are exactly: initial value minus what was moved before; and the
    headroom handed to the next source node is what is left after the last call. -/
theorem evictLoop_replay (prod : Bool) (nid : Nat) (high : Vec) (ps : List Pod) (cur avail : Vec) :
    Replay cur avail (evictLoop false prod nid high cur avail ps).evs ∧
    (evictLoop false prod nid high cur avail ps).avail =
      finalAvail avail (evictLoop false prod nid high cur avail ps).evs := by
  induction ps generalizing cur avail with
  | nil => simp [evictLoop, Replay, finalAvail]
  | cons p ps ih =>
    unfold evictLoop
    by_cases h1 : over cur high = true
    case neg => simp [h1, Replay, finalAvail]
    by_cases h2 : allPos avail = true
    case neg => simp [h1, h2, Replay, finalAvail]
    by_cases h3 : p.filt2 = true
    case neg => simpa [h1, h2, h3] using ih cur avail
    simp only [h1, h2, h3, Bool.not_true, Bool.false_eq_true, if_false]
    by_cases h5 : (p.evictOK && p.hasMetric) = true
    · simp only [h5, if_true]
      refine ⟨⟨rfl, rfl, ?_⟩, ?_⟩
      · simpa [Ev.after, h5] using (ih (vsub cur p.metric) (vsub avail p.metric)).1
      · simpa [finalAvail, Ev.after, h5] using (ih (vsub cur p.metric) (vsub avail p.metric)).2
    · simp only [h5, Bool.false_eq_true, if_false]
      refine ⟨⟨rfl, rfl, ?_⟩, ?_⟩
      · simpa [Ev.after, h5] using (ih cur avail).1
      · simpa [finalAvail, Ev.after, h5] using (ih cur avail).2

/-- stops: when the running usage is back at or under the high threshold, or some resource has
    no headroom left, the loop makes no further call — whatever pods remain. -/
theorem evictLoop_stops (dry prod : Bool) (nid : Nat) (high : Vec) (ps : List Pod) (cur avail : Vec)
    (h : over cur high = false ∨ allPos avail = false) :
    (evictLoop dry prod nid high cur avail ps).evs = [] ∧
    (evictLoop dry prod nid high cur avail ps).avail = avail := by
  cases ps with
  | nil => simp [evictLoop]
  | cons p ps =>
    unfold evictLoop
    rcases h with h | h
    · simp [h]
    · by_cases h1 : over cur high = true <;> simp [h1, h]

/-- "as soon as": in the call sequence of a source node, once a call leaves the estimate at or
    under the threshold (or the headroom exhausted) it is the last call. -/
theorem evictLoop_stops_as_soon_as (prod : Bool) (nid : Nat) (high : Vec) (ps : List Pod) (cur avail : Vec)
    (pre post : List Ev) (e : Ev)
    (hs : (evictLoop false prod nid high cur avail ps).evs = pre ++ e :: post)
    (h : over (e.after e.usage) high = false ∨ allPos (e.after e.avail) = false) : post = [] := by
  have hsound := evictLoop_sound false prod nid high ps cur avail
  have hrep := (evictLoop_replay prod nid high ps cur avail).1
  rw [hs] at hsound hrep
  clear hs
  induction pre generalizing cur avail with
  | nil =>
    cases post with
    | nil => rfl
    | cons e' post =>
      exfalso
      simp only [List.nil_append, Replay] at hrep
      obtain ⟨hu, ha, hu', ha', _⟩ := hrep
      obtain ⟨ho, hp, hh, _⟩ := hsound e' (by simp)
      rw [hu', hh] at ho
      rw [ha'] at hp
      rw [hu, ha] at h
      rcases h with h | h
      · rw [ho] at h; cases h
      · rw [hp] at h; cases h
  | cons x pre ih =>
    simp only [List.cons_append, Replay] at hrep
    exact ih _ _ (fun e' he' => hsound e' (by simp [he'])) hrep.2.2

/-! ### pods: only pods that passed the filters (and, with NodeFit, have a metric and a fitting target) -/

theorem removable_sub (nodeFit : Bool) (ps : List Pod) (tg : List Tgt) (p : Pod)
    (hp : p ∈ (removable nodeFit tg ps).1) :
    p ∈ ps ∧ p.filt1 = true ∧ (nodeFit = true → p.hasMetric = true) := by
  cases nodeFit with
  | false =>
    induction ps generalizing tg with
    | nil => simp [removable] at hp
    | cons q qs ih =>
      unfold removable at hp
      by_cases h1 : q.filt1 = true
      case neg =>
        simp only [h1, Bool.not_false, if_true] at hp
        obtain ⟨a, b⟩ := ih _ hp
        exact ⟨List.mem_cons_of_mem _ a, b⟩
      simp only [h1, Bool.not_true, Bool.not_false, Bool.false_eq_true, if_false, if_true] at hp
      rcases List.mem_cons.mp hp with rfl | hp'
      · exact ⟨by simp, h1, by simp⟩
      · obtain ⟨a, b⟩ := ih _ hp'
        exact ⟨List.mem_cons_of_mem _ a, b⟩
  | true =>
    induction ps generalizing tg with
    | nil => simp [removable] at hp
    | cons q qs ih =>
      unfold removable at hp
      by_cases h1 : q.filt1 = true
      case neg =>
        simp only [h1, Bool.not_false, if_true] at hp
        obtain ⟨a, b⟩ := ih _ hp
        exact ⟨List.mem_cons_of_mem _ a, b⟩
      by_cases h3 : q.hasMetric = true
      case neg =>
        simp only [h1, h3, Bool.not_true, Bool.not_false, Bool.false_eq_true, if_false, if_true] at hp
        obtain ⟨a, b⟩ := ih _ hp
        exact ⟨List.mem_cons_of_mem _ a, b⟩
      simp only [h1, h3, Bool.not_true, Bool.false_eq_true, if_false] at hp
      split at hp
      · obtain ⟨a, b⟩ := ih _ hp
        exact ⟨List.mem_cons_of_mem _ a, b⟩
      · rcases List.mem_cons.mp hp with rfl | hp'
        · exact ⟨by simp, h1, fun _ => h3⟩
        · obtain ⟨a, b⟩ := ih _ hp'
          exact ⟨List.mem_cons_of_mem _ a, b⟩

theorem applyOrder_sub (ord : List Nat) (ps : List Pod) (p : Pod) (hp : p ∈ applyOrder ord ps) : p ∈ ps := by
  unfold applyOrder at hp
  rcases List.mem_append.mp hp with h | h
  · obtain ⟨i, _, hi⟩ := List.mem_filterMap.mp h
    exact List.mem_of_find?_eq_some hi
  · exact (List.mem_filter.mp h).1

theorem orderNodes_sub (ord : List Nat) (ns : List Node) (n : Node) (hn : n ∈ orderNodes ord ns) : n ∈ ns := by
  unfold orderNodes at hn
  rcases List.mem_append.mp hn with h | h
  · obtain ⟨i, _, hi⟩ := List.mem_filterMap.mp h
    exact List.mem_of_find?_eq_some hi
  · exact (List.mem_filter.mp h).1

/-- what is known about one Evict call of a pass over the source list `src`. -/
def EvOK (dry nodeFit prod : Bool) (src : List Node) (e : Ev) : Prop :=
  dry = false ∧ e.prod = prod ∧ over e.usage e.high = true ∧ allPos e.avail = true ∧
  ∃ s ∈ src, s.id = e.node ∧ e.high = (if prod then s.phigh else s.high) ∧
    ∃ p ∈ s.pods, p.id = e.pod ∧ p.filt1 = true ∧ p.filt2 = true ∧ e.ok = p.evictOK ∧
      (prod = true → p.prod = true) ∧ (nodeFit = true → p.hasMetric = true)

theorem balanceLoop_sound (dry nodeFit prod : Bool) (order : Nat → List Nat) (src : List Node)
    (tg : List Tgt) (avail : Vec) (e : Ev)
    (he : e ∈ (balanceLoop dry nodeFit prod order tg avail src).evs) : EvOK dry nodeFit prod src e := by
  induction src generalizing tg avail with
  | nil => simp [balanceLoop] at he
  | cons s ss ih =>
    have lift : EvOK dry nodeFit prod ss e → EvOK dry nodeFit prod (s :: ss) e := by
      rintro ⟨a, b, c, d, s', hs', r⟩
      exact ⟨a, b, c, d, s', List.mem_cons_of_mem _ hs', r⟩
    unfold balanceLoop at he
    simp only at he
    generalize hall : (if prod = true then List.filter (fun x => x.prod) s.pods else s.pods) = all at he
    by_cases hE : (removable nodeFit tg all).fst.isEmpty = true
    · rw [if_pos hE] at he
      exact lift (ih _ _ he)
    · rw [if_neg hE] at he
      rcases List.mem_append.mp he with h | h
      · obtain ⟨ho, hp, hh, hn, hpr, hd, p, hpm, hid, hf2, hok, _⟩ := evictLoop_sound _ _ _ _ _ _ _ e h
        have hrem := removable_sub nodeFit _ tg p (applyOrder_sub _ _ p hpm)
        rw [← hall] at hrem
        refine ⟨hd, hpr, ho, hp, s, by simp, hn.symm, hh, p, ?_, hid, hrem.2.1, hf2, hok, ?_, hrem.2.2⟩
        · by_cases hprod : prod = true
          · simp only [hprod, if_true] at hrem
            exact (List.mem_filter.mp hrem.1).1
          · simpa [hprod] using hrem.1
        · intro hprod
          simp only [hprod, if_true] at hrem
          simpa using (List.mem_filter.mp hrem.1).2
      · exact lift (ih _ _ h)

/-- the headroom seen by the calls of one pass is one running estimate across all its source nodes. -/
theorem balanceLoop_availChain (nodeFit prod : Bool) (order : Nat → List Nat) (src : List Node)
    (tg : List Tgt) (avail : Vec) :
    AvailChain avail (balanceLoop false nodeFit prod order tg avail src).evs ∧
    (balanceLoop false nodeFit prod order tg avail src).avail =
      finalAvail avail (balanceLoop false nodeFit prod order tg avail src).evs := by
  induction src generalizing tg avail with
  | nil => simp [balanceLoop, AvailChain, finalAvail]
  | cons s ss ih =>
    unfold balanceLoop
    simp only
    generalize (if prod = true then List.filter (fun x => x.prod) s.pods else s.pods) = all
    generalize removable nodeFit tg all = rm
    by_cases hE : rm.fst.isEmpty = true
    · rw [if_pos hE]
      exact ih _ _
    · rw [if_neg hE]
      obtain ⟨hr, hf⟩ := evictLoop_replay prod s.id (if prod = true then s.phigh else s.high)
        (applyOrder (order s.id) rm.fst) (if prod = true then s.prodUsage else s.usage) avail
      generalize evictLoop false prod s.id (if prod = true then s.phigh else s.high)
        (if prod = true then s.prodUsage else s.usage) avail (applyOrder (order s.id) rm.fst) = lo at hr hf ⊢
      obtain ⟨ih1, ih2⟩ := ih rm.snd lo.avail
      constructor
      · rw [availChain_append]
        refine ⟨replay_availChain _ _ _ hr, ?_⟩
        rw [← hf]; exact ih1
      · simp only [finalAvail, List.foldl_append] at *
        rw [ih2, hf]

/-! ### anomaly detector -/

/-- Mark(false) reports "anomaly" only if the detector already was anomalous, or this mark makes
    the count of abnormal marks since the counter was last cleared exceed the configured number. -/
theorem markAbn_anomaly (c : Cond) (d : Det) (h : (d.markAbn c).anomaly = true) :
    (d.current c).anomaly = true ∨ (d.current c).cAbn + 1 > c.abn := by
  unfold Det.markAbn at h
  generalize d.current c = d' at h ⊢
  rcases d' with ⟨a, x, y⟩
  by_cases hx : c.abn < x + 1 <;> cases a <;> simp [Det.current, hx] at h ⊢ <;> omega

inductive Mark where
  | abn | norm | reset
deriving Repr, DecidableEq

def Det.step (c : Cond) (d : Det) : Mark → Det
  | .abn => d.markAbn c
  | .norm => d.markNorm c
  | .reset => d.reset

/-- abnormal marks since the last normal mark (a Reset does not interrupt the count: it is a
    no-op in state OK). -/
def streakFrom (k : Nat) : List Mark → Nat
  | [] => k
  | .abn :: ms => streakFrom (k + 1) ms
  | .norm :: ms => streakFrom 0 ms
  | .reset :: ms => streakFrom k ms

theorem step_inv (c : Cond) (d : Det) (k : Nat) (m : Mark)
    (h : d.anomaly = false → d.cAbn ≤ k) :
    (d.step c m).anomaly = false → (d.step c m).cAbn ≤ streakFrom k [m] := by
  rcases d with ⟨a, x, y⟩
  cases m <;> cases a <;>
    simp only [Det.step, Det.markAbn, Det.markNorm, Det.reset, Det.current, Det.fresh, streakFrom] at h ⊢ <;>
    (repeat' split) <;> simp_all <;> omega

theorem run_inv (c : Cond) (ms : List Mark) (d : Det) (k : Nat)
    (h : d.anomaly = false → d.cAbn ≤ k) :
    (ms.foldl (Det.step c) d).anomaly = false → (ms.foldl (Det.step c) d).cAbn ≤ streakFrom k ms := by
  induction ms generalizing d k with
  | nil => simpa [streakFrom] using h
  | cons m ms ih =>
    simp only [List.foldl_cons]
    cases m with
    | abn => exact ih _ _ (by simpa [streakFrom] using step_inv c d k .abn h)
    | norm => exact ih _ _ (by simpa [streakFrom] using step_inv c d k .norm h)
    | reset => exact ih _ _ (by simpa [streakFrom] using step_inv c d k .reset h)

/-
FULL STATEMENT (property text): "when anomaly detection is configured, [the node] has been [above
its high threshold] for the required consecutive rounds" — i.e. `ConsecutiveRule` below.  It is
FALSE for the code as written (`anomaly_gating_counterexample`): a round in which the node is not
over its threshold produces no mark at all, and Reset() keeps the counters in state OK, so the
count has gaps.  What holds (`anomaly_gating_partial`): a detector that is OK and turns anomalous
on an abnormal mark has seen more than `abn` abnormal marks not separated by a normal mark.
-/
theorem anomaly_gating_partial (c : Cond) (ms : List Mark)
    (hbefore : (ms.foldl (Det.step c) Det.fresh).anomaly = false)
    (hafter : ((ms ++ [Mark.abn]).foldl (Det.step c) Det.fresh).anomaly = true) :
    streakFrom 0 (ms ++ [Mark.abn]) > c.abn := by
  have hinv := run_inv c ms Det.fresh 0 (by simp [Det.fresh]) hbefore
  simp only [List.foldl_append, List.foldl_cons, List.foldl_nil, Det.step] at hafter
  have hstreak : ∀ (k : Nat) (l : List Mark), streakFrom k (l ++ [Mark.abn]) = streakFrom k l + 1 := by
    intro k l
    induction l generalizing k with
    | nil => simp [streakFrom]
    | cons m l ih => cases m <;> simp [streakFrom, ih]
  rw [hstreak]
  generalize ms.foldl (Det.step c) Det.fresh = d at *
  rcases markAbn_anomaly c d hafter with h | h
  · simp [Det.current, hbefore] at h
  · simp only [Det.current, hbefore, Bool.false_and, Bool.false_eq_true, if_false] at h
    omega

/-! ### the round -/

theorem mem_ofClass (c : Cls) (ns : List Node) (n : Node) : n ∈ ofClass c ns ↔ n ∈ ns ∧ classify n = c := by
  simp [ofClass, List.mem_filter]

theorem filterAbnormal_sub (c : Cond) (src : List Node) (ds : Dets) (n : Node)
    (h : n ∈ (filterAbnormal c ds src).1) : n ∈ src := by
  induction src generalizing ds with
  | nil => simp [filterAbnormal] at h
  | cons s ss ih =>
    unfold filterAbnormal at h
    simp only at h
    split at h
    · rcases List.mem_cons.mp h with rfl | h'
      · simp
      · exact List.mem_cons_of_mem _ (ih _ h')
    · exact List.mem_cons_of_mem _ (ih _ h)

theorem filterRealAbnormal_sub (c : Option Cond) (src : List Node) (ds : Dets) (n : Node)
    (h : n ∈ (filterRealAbnormal c ds src).1) : n ∈ src := by
  unfold filterRealAbnormal at h
  split at h
  · exact h
  · split at h
    · exact h
    · exact filterAbnormal_sub _ _ _ _ h

theorem balancePods_sound (dry nodeFit prod : Bool) (order : Nat → List Nat) (src : List Node)
    (tg : List Tgt) (avail : Vec) (e : Ev)
    (he : e ∈ (balancePods dry nodeFit prod order tg avail src).evs) :
    tg ≠ [] ∧ EvOK dry nodeFit prod src e := by
  unfold balancePods at he
  split at he
  · simp at he
  · rename_i h
    exact ⟨by intro h0; simp [h0] at h, balanceLoop_sound _ _ _ _ _ _ _ _ he⟩

/-- 1./2./3./6. Every Evict call of a balance round (all node pools, thresholds, pods, filters,
    detector states, observed orders):
    * comes from a measured node that is classified over its (prod) high threshold on the round's
      measurements, and whose *running* usage is still above that threshold at the call;
    * another measured node is classified under the low thresholds (a receiver exists);
    * every tracked resource still has headroom at the call;
    * the pod is one of that node's pods and passed the pod filter both at classification time
      and right before the call (in the prod pass it is a prod pod; with NodeFit it has a metric);
    * the round is not a dry run, and none of the early exits applied. -/
theorem round_evict_sound (cfg : Cfg) (st : St) (r : RoundIn) (e : Ev)
    (he : e ∈ (runRound cfg st r).evs) :
    cfg.dryRun = false ∧ over e.usage e.high = true ∧ allPos e.avail = true ∧
    (∃ n ∈ r.nodes, n.id = e.node ∧ classify n = (if e.prod then Cls.prodHigh else Cls.high) ∧
      e.high = (if e.prod then n.phigh else n.high) ∧
      (∃ p ∈ n.pods, p.id = e.pod ∧ p.filt1 = true ∧ p.filt2 = true ∧ e.ok = p.evictOK ∧
        (e.prod = true → p.prod = true) ∧ (r.nodeFit = true → p.hasMetric = true)) ∧
      ∃ m ∈ r.nodes, m ≠ n ∧ (classify m = Cls.bothLow ∨ classify m = (if e.prod then Cls.prodLow else Cls.low))) := by
  unfold runRound at he
  split at he
  · simp at he
  simp only at he
  split at he
  · simp at he
  split at he
  · simp at he
  split at he
  · simp at he
  split at he
  · simp at he
  split at he
  · simp at he
  simp only [evictFromSources] at he
  rcases List.mem_append.mp he with h | h
  · obtain ⟨htg, hd, hpr, ho, hp, s, hs, hid, hh, hpod⟩ := balancePods_sound _ _ _ _ _ _ _ _ h
    have hs1 := filterRealAbnormal_sub _ _ _ _ (orderNodes_sub _ _ _ hs)
    rw [mem_ofClass] at hs1
    have hprf : e.prod = false := hpr
    refine ⟨hd, ho, hp, s, hs1.1, hid, by simp [hprf, hs1.2], by simpa [hprf] using hh, ?_, ?_⟩
    · obtain ⟨p, hp1, hp2, hp3, hp4, hp5, _, hp7⟩ := hpod
      exact ⟨p, hp1, hp2, hp3, hp4, hp5, by simp [hprf], hp7⟩
    · have : ∃ t, t ∈ (ofClass Cls.low r.nodes ++ ofClass Cls.bothLow r.nodes) := by
        cases hl : (ofClass Cls.low r.nodes ++ ofClass Cls.bothLow r.nodes) with
        | nil => simp [hl] at htg
        | cons t _ => exact ⟨t, by simp⟩
      obtain ⟨t, ht⟩ := this
      rcases List.mem_append.mp ht with ht | ht
      · rw [mem_ofClass] at ht
        refine ⟨t, ht.1, ?_, Or.inr (by simp [hprf, ht.2])⟩
        intro heq; rw [heq, hs1.2] at ht; cases ht.2
      · rw [mem_ofClass] at ht
        refine ⟨t, ht.1, ?_, Or.inl ht.2⟩
        intro heq; rw [heq, hs1.2] at ht; cases ht.2
  · obtain ⟨htg, hd, hpr, ho, hp, s, hs, hid, hh, hpod⟩ := balancePods_sound _ _ _ _ _ _ _ _ h
    have hs1 := filterRealAbnormal_sub _ _ _ _ (orderNodes_sub _ _ _ hs)
    rw [mem_ofClass] at hs1
    have hprt : e.prod = true := hpr
    refine ⟨hd, ho, hp, s, hs1.1, hid, by simp [hprt, hs1.2], by simpa [hprt] using hh, ?_, ?_⟩
    · obtain ⟨p, hp1, hp2, hp3, hp4, hp5, hp6, hp7⟩ := hpod
      exact ⟨p, hp1, hp2, hp3, hp4, hp5, fun _ => hp6 rfl, hp7⟩
    · have : ∃ t, t ∈ (ofClass Cls.prodLow r.nodes ++ ofClass Cls.bothLow r.nodes) := by
        cases hl : (ofClass Cls.prodLow r.nodes ++ ofClass Cls.bothLow r.nodes) with
        | nil => simp [hl] at htg
        | cons t _ => exact ⟨t, by simp⟩
      obtain ⟨t, ht⟩ := this
      rcases List.mem_append.mp ht with ht | ht
      · rw [mem_ofClass] at ht
        refine ⟨t, ht.1, ?_, Or.inr (by simp [hprt, ht.2])⟩
        intro heq; rw [heq, hs1.2] at ht; cases ht.2
      · rw [mem_ofClass] at ht
        refine ⟨t, ht.1, ?_, Or.inl ht.2⟩
        intro heq; rw [heq, hs1.2] at ht; cases ht.2

theorem balancePods_availChain (nodeFit prod : Bool) (order : Nat → List Nat) (src : List Node)
    (tg : List Tgt) (avail : Vec) :
    AvailChain avail (balancePods false nodeFit prod order tg avail src).evs := by
  unfold balancePods
  split
  · trivial
  · exact (balanceLoop_availChain _ _ _ _ _ _).1

/-- the headroom every call of a round sees is exact: the Σ (high − usage) of the underused
    nodes of the pass (`targetAvail`, node pass: low + both-low nodes; prod pass: prod-low nodes
    plus the both-low share that the node pass left) minus everything moved earlier in the pass. -/
theorem round_headroom_exact (nodeFit : Bool) (dims : Nat) (podOrd : Nat → List Nat)
    (src low psrc plow both : List Node) :
    AvailChain (vadd (vadd (List.replicate dims 0) (targetAvail false (List.replicate dims 0) low))
        (targetAvail false (List.replicate dims 0) both))
      (evictFromSources false nodeFit dims podOrd src low psrc plow both).1.evs ∧
    AvailChain (vadd (vadd (List.replicate dims 0) (targetAvail true (List.replicate dims 0) plow))
        (vmin (targetAvail true (List.replicate dims 0) both)
          (vmin (targetAvail false (List.replicate dims 0) both)
            (evictFromSources false nodeFit dims podOrd src low psrc plow both).1.avail)))
      (evictFromSources false nodeFit dims podOrd src low psrc plow both).2.evs := by
  exact ⟨balancePods_availChain _ _ _ _ _ _, balancePods_availChain _ _ _ _ _ _⟩

theorem get?_set_ne (ds : Dets) (k n : Nat) (d : Det) (h : k ≠ n) :
    Dets.get? (Dets.set ds k d) n = Dets.get? ds n := by
  induction ds with
  | nil => simp [Dets.set, Dets.get?, h]
  | cons x xs ih =>
    rcases x with ⟨k', d'⟩
    unfold Dets.set
    by_cases h1 : k' = k
    · subst h1; simp [Dets.get?, h]
    · simp only [h1, if_false, Dets.get?]
      split
      · rfl
      · exact ih

theorem filterAbnormal_gated (c : Cond) (src : List Node) (ds : Dets) (n : Node)
    (hnd : (src.map (·.id)).Nodup) (h : n ∈ (filterAbnormal c ds src).1) :
    (((Dets.get? ds n.id).getD Det.fresh).markAbn c).anomaly = true := by
  induction src generalizing ds with
  | nil => simp [filterAbnormal] at h
  | cons s ss ih =>
    simp only [List.map_cons, List.nodup_cons] at hnd
    unfold filterAbnormal at h
    simp only at h
    have tail : n ∈ (filterAbnormal c (Dets.set ds s.id (((Dets.get? ds s.id).getD Det.fresh).markAbn c)) ss).1 →
        (((Dets.get? ds n.id).getD Det.fresh).markAbn c).anomaly = true := by
      intro h'
      have hne : s.id ≠ n.id := by
        intro heq
        exact hnd.1 (heq ▸ List.mem_map.mpr ⟨n, filterAbnormal_sub _ _ _ _ h', rfl⟩)
      have := ih _ hnd.2 h'
      rwa [get?_set_ne _ _ _ _ hne] at this
    split at h
    · rename_i hd
      rcases List.mem_cons.mp h with rfl | h'
      · exact hd
      · exact tail h'
    · exact tail h

/-- 5. (round level, partial — see `anomaly_gating_partial` / `anomaly_gating_counterexample`)
    with an anomaly condition other than "1 abnormality", every Evict call comes from a node whose
    detector answered "anomaly" to this round's abnormal mark — hence (`markAbn_anomaly`) it was
    anomalous before, or this mark took its count of abnormal marks above the configured number. -/
theorem round_evict_gated (cfg : Cfg) (st : St) (r : RoundIn) (c : Cond) (hc : cfg.cond = some c)
    (h1 : c.abn ≠ 1) (hnd : (r.nodes.map (·.id)).Nodup) (e : Ev) (he : e ∈ (runRound cfg st r).evs) :
    ∃ n ∈ r.nodes, n.id = e.node ∧
      (((Dets.get? (if e.prod then st.prodDet else st.nodeDet) n.id).getD Det.fresh).markAbn c).anomaly = true := by
  have sub : ∀ k, ((ofClass k r.nodes).map (·.id)).Nodup := fun k =>
    hnd.sublist ((List.filter_sublist (l := r.nodes)).map _)
  unfold runRound at he
  split at he
  · simp at he
  simp only at he
  split at he
  · simp at he
  split at he
  · simp at he
  split at he
  · simp at he
  split at he
  · simp at he
  split at he
  · simp at he
  simp only [evictFromSources] at he
  simp only [hc, filterRealAbnormal, h1, if_false] at he
  rcases List.mem_append.mp he with h | h
  · obtain ⟨_, _, hpr, _, _, s, hs, hid, _⟩ := balancePods_sound _ _ _ _ _ _ _ _ h
    have hprf : e.prod = false := hpr
    have hs0 := orderNodes_sub _ _ _ hs
    have hs1 := filterAbnormal_sub _ _ _ _ hs0
    rw [mem_ofClass] at hs1
    exact ⟨s, hs1.1, hid, by simpa [hprf] using filterAbnormal_gated c _ _ s (sub _) hs0⟩
  · obtain ⟨_, _, hpr, _, _, s, hs, hid, _⟩ := balancePods_sound _ _ _ _ _ _ _ _ h
    have hprt : e.prod = true := hpr
    have hs0 := orderNodes_sub _ _ _ hs
    have hs1 := filterAbnormal_sub _ _ _ _ hs0
    rw [mem_ofClass] at hs1
    exact ⟨s, hs1.1, hid, by simpa [hprt] using filterAbnormal_gated c _ _ s (sub _) hs0⟩

/-- a node classified `high` (`prodHigh`) really is above its (prod) high threshold in some
    resource on the round's measurements, and a receiver really is a schedulable node at or under
    every (prod) low threshold. -/
theorem classify_meaning (n : Node) :
    (classify n = Cls.high → over n.usage n.high = true) ∧
    (classify n = Cls.prodHigh → over n.prodUsage n.phigh = true) ∧
    (classify n = Cls.low ∨ classify n = Cls.bothLow → n.unsched = false ∧ under n.usage n.low = true) ∧
    (classify n = Cls.prodLow ∨ classify n = Cls.bothLow → n.unsched = false ∧ under n.prodUsage n.plow = true) := by
  unfold classify lowFilter prodLowFilter highFilter prodHighFilter
  by_cases a : n.unsched = true <;> by_cases b : under n.usage n.low = true <;>
    by_cases c : over n.usage n.high = true <;> by_cases d : over n.prodUsage n.phigh = true <;>
    by_cases f : under n.prodUsage n.plow = true <;> simp [a, b, c, d, f]

/-! ### 4. nothing is evicted when … -/

theorem nothing_when_no_source (cfg : Cfg) (st : St) (r : RoundIn)
    (h1 : ofClass .high r.nodes = []) (h2 : ofClass .prodHigh r.nodes = []) :
    (runRound cfg st r).evs = [] := by
  unfold runRound
  split
  · rfl
  · simp [h1, h2]

theorem nothing_when_no_receiver (cfg : Cfg) (st : St) (r : RoundIn)
    (h1 : ofClass .low r.nodes = []) (h2 : ofClass .prodLow r.nodes = []) (h3 : ofClass .bothLow r.nodes = []) :
    (runRound cfg st r).evs = [] := by
  unfold runRound
  split
  · rfl
  simp only
  split
  · rfl
  split
  · rfl
  simp [h1, h2, h3]

theorem nothing_when_all_low (cfg : Cfg) (st : St) (r : RoundIn)
    (h : (ofClass .low r.nodes).length + (ofClass .prodLow r.nodes).length + (ofClass .bothLow r.nodes).length = r.total) :
    (runRound cfg st r).evs = [] := by
  unfold runRound
  split
  · rfl
  simp only
  split
  · rfl
  split
  · rfl
  split
  · rfl
  split
  · rfl
  simp

theorem nothing_when_few_low (cfg : Cfg) (st : St) (r : RoundIn)
    (h : (((ofClass .low r.nodes).length + (ofClass .prodLow r.nodes).length + (ofClass .bothLow r.nodes).length : Nat) : Int)
      ≤ cfg.numberOfNodes) :
    (runRound cfg st r).evs = [] := by
  unfold runRound
  split
  · rfl
  simp only
  split
  · rfl
  split
  · rfl
  split
  · rfl
  simp

/-- nobody anomalous ⇒ nothing evicted. -/
theorem nothing_when_not_anomalous (cfg : Cfg) (st : St) (r : RoundIn)
    (h1 : (filterRealAbnormal cfg.cond st.nodeDet (ofClass .high r.nodes)).1 = [])
    (h2 : (filterRealAbnormal cfg.cond st.prodDet (ofClass .prodHigh r.nodes)).1 = []) :
    (runRound cfg st r).evs = [] := by
  unfold runRound
  split
  · rfl
  simp only
  split
  · rfl
  simp [h1, h2]

/-! ### 5. anomaly gating over rounds: the full statement fails on the code as written -/

/-- the events of each round of a history, from the given state. -/
def runHistory (cfg : Cfg) : St → List RoundIn → List (List Ev)
  | _, [] => []
  | st, r :: rs => (runRound cfg st r).evs :: runHistory cfg (runRound cfg st r).st rs

/-- node `id` is measured and classified over its (prod) high threshold in round `r`. -/
def overIn (r : RoundIn) (id : Nat) (prod : Bool) : Bool :=
  r.nodes.any fun n => n.id == id && (classify n == (if prod then Cls.prodHigh else Cls.high))

/-- FULL STATEMENT of the gating clause: an eviction in round `k` only from a node that was over
    its threshold in each of the last `abn` rounds `k+1-abn … k`. -/
def ConsecutiveRule (cfg : Cfg) (rs : List RoundIn) : Prop :=
  ∀ c, cfg.cond = some c → ∀ k evs, (runHistory cfg ⟨[], []⟩ rs)[k]? = some evs → ∀ e ∈ evs,
    ∀ j r, k + 1 - c.abn ≤ j → j ≤ k → rs[j]? = some r → overIn r e.node e.prod = true

namespace Witness
def pod : Pod := ⟨1, false, true, [50], [50], true, true, true⟩
def cold : Node := ⟨0, false, false, [10], [0], [30], [60], [10], [100], []⟩
def hot : Node := ⟨1, false, false, [80], [20], [30], [60], [10], [100], [pod]⟩
def mid : Node := ⟨1, false, false, [45], [20], [30], [60], [10], [100], [pod]⟩
def rHot : RoundIn := ⟨2, false, 1, [cold, hot], [], fun _ => []⟩
def rMid : RoundIn := ⟨2, false, 1, [cold, mid], [], fun _ => []⟩
def cfg : Cfg := ⟨some ⟨2, 1⟩, 0, false⟩
def ev : Ev := ⟨1, 1, false, true, [80], [60], [50], true, [50]⟩
end Witness

/-- consecutiveAbnormalities = 2; node 1 is over its threshold in rounds 0, 1, not in round 2,
    again in round 3 — and is evicted from in round 3. -/
theorem anomaly_gating_counterexample : ¬ ∀ cfg rs, ConsecutiveRule cfg rs := by
  intro h
  have h3 : (runHistory Witness.cfg ⟨[], []⟩ [Witness.rHot, Witness.rHot, Witness.rMid, Witness.rHot])[3]?
      = some [Witness.ev] := by decide
  have := h Witness.cfg [Witness.rHot, Witness.rHot, Witness.rMid, Witness.rHot] ⟨2, 1⟩ rfl 3 _ h3
    Witness.ev (by simp) 2 Witness.rMid (by decide) (by decide) rfl
  revert this
  decide

/-! ### non-vacuity -/

-- a round that does evict, and whose single call satisfies the conclusions of `round_evict_sound`
example : (runRound ⟨none, 0, false⟩ ⟨[], []⟩ Witness.rHot).evs = [Witness.ev] := by decide
example : classify Witness.hot = .high ∧ classify Witness.cold = .bothLow ∧ classify Witness.mid = .normal := by decide
-- the hypotheses of `anomaly_gating_partial` are satisfiable: three abnormal marks with abn = 2
example : ([Mark.abn, .abn].foldl (Det.step ⟨2, 1⟩) Det.fresh).anomaly = false ∧
    ([Mark.abn, .abn, .abn].foldl (Det.step ⟨2, 1⟩) Det.fresh).anomaly = true := by decide
-- the loop stops after one call although a second removable pod is left
example : (evictLoop false false 1 [60] [80] [50]
    [⟨1, false, true, [50], [50], true, true, true⟩, ⟨2, false, true, [5], [5], true, true, true⟩]).evs.length = 1 := by decide

end KoordVerif.C18
