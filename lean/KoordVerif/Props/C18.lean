import KoordVerif.Model.C18
namespace KoordVerif.C18

theorem placeholder_tmp : over [2] [1] = true := by decide

end KoordVerif.C18
