import KoordVerif.Model.C10
namespace KoordVerif.C10
end KoordVerif.C10
