import KoordVerif.Model.C10
import KoordVerif.Proofs.C10Policy
import KoordVerif.Model.C10Exec
import KoordVerif.Proofs.C10ExtExec
/-
C10 — property theorems (DESIGN.md §4 C10).  All amounts are milli-CPU integers.
`FloatOK` lists the only facts assumed about the float64 computations (tested on every generated
input by the harness, fingerprint `C10:float-assumption`).
-/
namespace KoordVerif.C10

/-- what the theorems assume about the float64 computations. -/
structure FloatOK (f : FloatOps) : Prop where
  /-- milli -> cores -> milli of the node reservation loses at most one milli-CPU (e.g. 1001 -> 1000). -/
  rt_le : ∀ m, 0 ≤ m → f.rt m ≤ m
  rt_ge : ∀ m, 0 ≤ m → m - 1 ≤ f.rt m
  /-- `ceil(m/1000)`. -/
  ceilMilli_eq : ∀ m, f.ceilMilli m = -((-m) / 1000)
  /-- `ceil(n*0.1)`. -/
  stepCpus_eq : ∀ n, 0 ≤ n → f.stepCpus n = (n + 9) / 10
  bypass_iff : ∀ q cur c, 0 ≤ c → (f.bypassLt q cur c = true ↔ (q - cur < c * 1000 ∧ cur - q < c * 1000))
  step_iff : ∀ q cur c, 0 ≤ c → (f.stepGt q cur c = true ↔ q - cur > c * 10000)
  stepInc_eq : ∀ c, 0 ≤ c → f.stepInc c = c * 10000

/-- the exact-arithmetic instance (non-vacuity of `FloatOK`; also what the harness compares the floats with). -/
def exactOps : FloatOps where
  rt m := m
  ceilMilli m := -((-m) / 1000)
  stepCpus n := (n + 9) / 10
  bypassLt q cur c := decide (q - cur < c * 1000 ∧ cur - q < c * 1000)
  stepGt q cur c := decide (q - cur > c * 10000)
  stepInc c := c * 10000

example : FloatOK exactOps := by
  refine ⟨?_, ?_, ?_, ?_, ?_, ?_, ?_⟩ <;> intros <;> simp [exactOps] <;> omega

/-! ### 1. the budget -/

/-- the system term is `max(node usage − all pods − all host apps, 0, node reservation)`, up to the
    one milli-CPU the float round trip of the reservation may lose. -/
theorem system_term (f : FloatOps) (hf : FloatOK f) (node pa aa R : Int) (hR : 0 ≤ R) :
    max (max (node - pa - aa) 0) R - 1 ≤ systemUsed f node pa aa R ∧
    systemUsed f node pa aa R ≤ max (max (node - pa - aa) 0) R ∧
    (f.rt R = R → systemUsed f node pa aa R = max (max (node - pa - aa) 0) R) := by
  have h1 := hf.rt_le R hR
  have h2 := hf.rt_ge R hR
  unfold systemUsed
  simp only []
  by_cases h0 : node - pa - aa < 0 <;> simp only [h0, if_true, if_false] <;>
    (split <;> refine ⟨by omega, by omega, fun h => by omega⟩)

/-- budget = capacity × threshold − non-BE pods − non-BE host apps − system term, floored by
    capacity × min percent (the statement's formula; `S` is characterised by `system_term`). -/
theorem budget_eq (f : FloatOps) (cap thr : Int) (minPct : Option Int) (R node pa pf aa af : Int)
    (hc : 0 ≤ cap) (ht : 0 ≤ thr) :
    budgetAgg f cap thr minPct R node pa pf aa af =
      match minPct with
      | none => cap * thr / 100 - pf - af - systemUsed f node pa aa R
      | some m => max (cap * thr / 100 - pf - af - systemUsed f node pa aa R) (Int.tdiv (cap * m) 100) := by
  unfold budgetAgg
  have : 0 ≤ cap * thr := Int.mul_nonneg hc ht
  rw [Int.tdiv_eq_ediv_of_nonneg this]
  cases minPct with
  | none => rfl
  | some m => simp only []; split <;> omega

/-- the budget is at least the configured floor. -/
theorem budget_ge_min (f : FloatOps) (cap thr m R node pa pf aa af : Int) :
    Int.tdiv (cap * m) 100 ≤ budgetAgg f cap thr (some m) R node pa pf aa af := by
  unfold budgetAgg
  simp only []
  split <;> omega

/-- the budget does not grow when non-BE pod usage grows by `dp`, non-BE host application usage
    by `da`, and the node-level usage by any `dn ≥ 0` (system growth, and/or the node metric
    seeing the same pod growth). -/
theorem budget_antitone (f : FloatOps) (hf : FloatOK f) (cap thr : Int) (minPct : Option Int)
    (R node pa pf aa af dp da dn : Int) (hR : 0 ≤ R) (hdp : 0 ≤ dp) (hda : 0 ≤ da) (hdn : 0 ≤ dn) :
    budgetAgg f cap thr minPct R (node + dn) (pa + dp) (pf + dp) (aa + da) (af + da) ≤
      budgetAgg f cap thr minPct R node pa pf aa af := by
  have h1 := hf.rt_le R hR
  have h2 := hf.rt_ge R hR
  have hs : systemUsed f node pa aa R - dp - da ≤ systemUsed f (node + dn) (pa + dp) (aa + da) R := by
    unfold systemUsed
    simp only []
    (repeat' split) <;> omega
  unfold budgetAgg
  cases minPct with
  | none => simp only []; omega
  | some m => simp only []; (repeat' split) <;> omega

theorem sum_bump (l₁ l₂ : List Int) (x d : Int) : (l₁ ++ (x + d) :: l₂).sum = (l₁ ++ x :: l₂).sum + d := by
  simp only [List.sum_append, List.sum_cons]; omega

/-- list form: raising the usage of one pod that counts as non-BE never raises the budget. -/
theorem budget_antitone_pod (f : FloatOps) (hf : FloatOK f) (cap alloc anno thr : Int) (minPct : Option Int)
    (node : Int) (ps₁ ps₂ : List PodU) (p : PodU) (apps : List AppU) (d : Int) (hd : 0 ≤ d)
    (hp : p.counted = true) :
    budget f cap alloc anno thr minPct node (ps₁ ++ { p with used := p.used + d } :: ps₂) apps ≤
      budget f cap alloc anno thr minPct node (ps₁ ++ p :: ps₂) apps := by
  have hR : 0 ≤ nodeReserved cap alloc anno := by
    unfold nodeReserved; simp only []; split <;> split <;> omega
  have hc : ({ p with used := p.used + d } : PodU).counted = true := by
    simpa [PodU.counted] using hp
  have e1 : podsAll (ps₁ ++ { p with used := p.used + d } :: ps₂) = podsAll (ps₁ ++ p :: ps₂) + d := by
    simp only [podsAll, List.map_append, List.map_cons]; exact sum_bump _ _ _ _
  have e2 : podsCounted (ps₁ ++ { p with used := p.used + d } :: ps₂) = podsCounted (ps₁ ++ p :: ps₂) + d := by
    simp only [podsCounted, List.filter_append, List.filter_cons, hc, hp, if_true, List.map_append, List.map_cons]
    exact sum_bump _ _ _ _
  unfold budget
  rw [e1, e2]
  have := budget_antitone f hf cap thr minPct (nodeReserved cap alloc anno) node (podsAll (ps₁ ++ p :: ps₂))
    (podsCounted (ps₁ ++ p :: ps₂)) (appsAll apps) (appsCounted apps) d 0 0 hR hd (Int.le_refl 0) (Int.le_refl 0)
  simpa using this

/-! ### 2. the split between the LSR pool and the LS pool -/

theorem split_fits (c : Int) (L S : Nat) (hc : 0 ≤ c) (hle : c ≤ (L : Int) + S) (hpos : 0 < (L : Int) + S) :
    0 ≤ Int.tdiv (c * L) ((L : Int) + S) ∧ Int.tdiv (c * L) ((L : Int) + S) ≤ L ∧
    c - Int.tdiv (c * L) ((L : Int) + S) ≤ S ∧ Int.tdiv (c * L) ((L : Int) + S) ≤ c := by
  have hL : (0 : Int) ≤ L := Int.natCast_nonneg L
  have hS : (0 : Int) ≤ S := Int.natCast_nonneg S
  have hcl : 0 ≤ c * L := Int.mul_nonneg hc hL
  rw [Int.tdiv_eq_ediv_of_nonneg hcl]
  refine ⟨Int.ediv_nonneg hcl (by omega), ?_, ?_, ?_⟩
  · apply Int.ediv_le_of_le_mul hpos
    have := Int.mul_le_mul_of_nonneg_right hle hL
    rw [Int.mul_comm (L : Int) ((L : Int) + S)]
    exact this
  · have h1 : (c - S) * ((L : Int) + S) ≤ c * L := by
      have h2 : 0 ≤ (S : Int) * ((L : Int) + S - c) := Int.mul_nonneg hS (by omega)
      have h3 : (c - S) * ((L : Int) + S) = c * L - (S : Int) * ((L : Int) + S - c) := by
        simp only [Int.sub_mul, Int.mul_add, Int.mul_sub]
        have := Int.mul_comm (S : Int) (L : Int)
        have := Int.mul_comm (S : Int) c
        omega
      omega
    have := Int.le_ediv_of_mul_le hpos h1
    omega
  · apply Int.ediv_le_of_le_mul hpos
    have : c * (L : Int) ≤ c * ((L : Int) + S) := Int.mul_le_mul_of_nonneg_left (by omega) hc
    exact this

/-! ### 3./4. the selection inside one pool (`policy` = calculateBESuppressCPUSetPolicy) -/

/-- enough CPUs ⇒ exactly `k` pairwise distinct CPUs of the list, for every topology with distinct CPU ids. -/
theorem policy_exact (k : Int) (ps : List Proc) (hnd : (cpusOf ps).Nodup) (hk0 : 0 ≤ k) (hkn : k ≤ ps.length) :
    (policy k ps).Nodup ∧ (∀ x ∈ policy k ps, x ∈ cpusOf ps) ∧ (policy k ps).length = k :=
  policy_spec k ps hnd hk0 hkn

/-- fewer CPUs than asked for ⇒ nothing. -/
theorem policy_short_empty (k : Int) (ps : List Proc) (h : (ps.length : Int) < k) : policy k ps = [] :=
  policy_short k ps h

/-- for every `k`: distinct, from the list, never more than `k`. -/
theorem policy_sound (k : Int) (ps : List Proc) (hnd : (cpusOf ps).Nodup) :
    (policy k ps).Nodup ∧ (∀ x ∈ policy k ps, x ∈ cpusOf ps) ∧ ((policy k ps).length : Int) ≤ max k 0 := by
  obtain ⟨a, b, c⟩ := policy_general k ps hnd
  refine ⟨a, b, ?_⟩
  rcases c with c | c <;> omega

/-- the model's loop fuel never cuts a loop short: any fuel ≥ k gives the selection `policy` computes
    (so `policy` is the Go loop run to its own `break`). -/
theorem policy_fuel_irrelevant (k : Int) (ps : List Proc) (f₁ f₂ : Nat) (h1 : k.toNat ≤ f₁) (h2 : k.toNat ≤ f₂)
    (hk : ¬ (ps.length : Int) < k) :
    (pass2 (rot (pass1 (sortedBuckets ps) f₁ { need := k, out := [] }).2 (sortedBuckets ps)) f₂
      (pass1 (sortedBuckets ps) f₁ { need := k, out := [] }).1).out = policy k ps := by
  unfold policy
  simp only [hk, if_false]
  rw [pass1_fuel_irrelevant (sortedBuckets ps) f₁ (k.toNat + 1) { need := k, out := [] } h1 (by simp)]
  have hle := pass1_need_le (sortedBuckets ps) (k.toNat + 1) { need := k, out := [] }
  simp only at hle
  rw [pass2_fuel_irrelevant _ f₂ (k.toNat + 1) _ (by omega) (by omega)]

/-! ### 5.–7. adjustByCPUSet -/

theorem mem_lsrPool {pods : List PodC} {res sys : List Int} {procs : List Proc} {x : Int}
    (h : x ∈ cpusOf (lsrPool pods res sys procs)) :
    x ∈ cpusOf procs ∧ x ∉ res ∧ x ∉ sys ∧ poolOf pods x = qLSR := by
  obtain ⟨p, hp, rfl⟩ := List.mem_map.mp h
  obtain ⟨hp1, hp2⟩ := List.mem_filter.mp hp
  simp only [eligible, Bool.and_eq_true, Bool.not_eq_true', Bool.or_eq_false_iff, beq_iff_eq] at hp2
  refine ⟨List.mem_map.mpr ⟨p, hp1, rfl⟩, ?_, ?_, hp2.2⟩
  · simpa using hp2.1.1
  · simpa using hp2.1.2

theorem mem_lsPool {pods : List PodC} {res sys : List Int} {procs : List Proc} {x : Int}
    (h : x ∈ cpusOf (lsPool pods res sys procs)) :
    x ∈ cpusOf procs ∧ x ∉ res ∧ x ∉ sys ∧ poolOf pods x ≠ qLSR ∧ poolOf pods x ≠ qLSE := by
  obtain ⟨p, hp, rfl⟩ := List.mem_map.mp h
  obtain ⟨hp1, hp2⟩ := List.mem_filter.mp hp
  simp only [eligible, Bool.and_eq_true, Bool.not_eq_true', Bool.or_eq_false_iff, beq_eq_false_iff_ne,
    bne_iff_ne] at hp2
  refine ⟨List.mem_map.mpr ⟨p, hp1, rfl⟩, ?_, ?_, hp2.1.2, hp2.2⟩
  · simpa using hp2.1.1.1
  · simpa using hp2.1.1.2

theorem pool_nodup {procs : List Proc} (hnd : (cpusOf procs).Nodup) (q : Proc → Bool) :
    (cpusOf (procs.filter q)).Nodup :=
  List.Nodup.sublist (List.Sublist.map _ List.filter_sublist) hnd

/-- a CPU claimed by a valid LSE pod and by no valid pod of another class is in the LSE pool. -/
theorem exclusively_lse (pods : List PodC) (c : Int)
    (hown : ∃ p ∈ pods, p.valid = true ∧ p.qos = qLSE ∧ c ∈ p.cpus)
    (hexcl : ∀ q ∈ pods, q.valid = true → c ∈ q.cpus → q.qos = qLSE) : poolOf pods c = qLSE := by
  unfold poolOf
  have key : ∀ (l : List PodC) (acc : Int), (∀ q ∈ l, q.valid = true → c ∈ q.cpus → q.qos = qLSE) →
      (acc = qLSE ∨ ∃ p ∈ l, p.valid = true ∧ p.qos = qLSE ∧ c ∈ p.cpus) →
      l.foldl (fun acc p => if p.valid && p.cpus.contains c then p.qos else acc) acc = qLSE := by
    intro l
    induction l with
    | nil =>
      intro acc _ h
      rcases h with h | ⟨p, hp, _⟩
      · simpa using h
      · cases hp
    | cons p ps ih =>
      intro acc hq h
      simp only [List.foldl_cons]
      apply ih _ (fun q hq' => hq q (List.mem_cons_of_mem _ hq'))
      by_cases hm : (p.valid && p.cpus.contains c) = true
      · left
        simp only [hm, if_true]
        simp only [Bool.and_eq_true, List.contains_iff_mem] at hm
        exact hq p (by simp) hm.1 hm.2
      · simp only [hm]
        rcases h with h | ⟨p', hp', hv, hl, hc⟩
        · left; simpa using h
        · rcases List.mem_cons.mp hp' with rfl | hp''
          · exfalso; apply hm; simp [hv, hc]
          · right; exact ⟨p', hp'', hv, hl, hc⟩
  exact key pods qNone hexcl (Or.inr hown)

theorem applyResult_ne_panic (out : List Int) : applyResult out ≠ .panic := by
  unfold applyResult; split <;> simp

theorem applyResult_write {out cs : List Int} (h : applyResult out = .write cs) : cs = out ∧ out ≠ [] := by
  unfold applyResult at h
  split at h
  · cases h
  · rename_i he
    simp only [Outcome.write.injEq] at h
    exact ⟨h.symm, fun e => he (by simp [e])⟩

theorem applyResult_of_ne_nil {out : List Int} (h : out ≠ []) : applyResult out = .write out := by
  unfold applyResult
  split
  · rename_i he; exact absurd (List.isEmpty_iff.mp he) h
  · rfl

/-- the computation never panics — in particular not when no CPU is eligible. -/
theorem total_no_panic (f : FloatOps) (b : Int) (oldN : Nat) (procs : List Proc) (pods : List PodC)
    (res sys : List Int) : adjustCPUSet f b oldN procs pods res sys ≠ .panic := by
  unfold adjustCPUSet
  simp only []
  split
  · simp
  · rename_i h
    have : ((lsrPool pods res sys procs).length : Int) + (lsPool pods res sys procs).length ≠ 0 := by omega
    simp only [goDiv, this, if_false]
    exact applyResult_ne_panic _

/-- no eligible CPU: the BE cpuset is left as it is. -/
theorem none_eligible_untouched (f : FloatOps) (b : Int) (oldN : Nat) (procs : List Proc) (pods : List PodC)
    (res sys : List Int) (h : (lsrPool pods res sys procs).length + (lsPool pods res sys procs).length = 0) :
    adjustCPUSet f b oldN procs pods res sys = .untouched := by
  unfold adjustCPUSet
  simp [h]

/-- the wanted number of CPUs: at least two, at most max(⌈budget/1000⌉, 2), and at most
    `|old| + ⌈n/10⌉` (step limit). -/
theorem target_bounds (f : FloatOps) (hf : FloatOK f) (b : Int) (oldN n : Nat) :
    targetCpus f b oldN n ≤ max (-((-b) / 1000)) 2 ∧
    targetCpus f b oldN n ≤ (oldN : Int) + ((n : Int) + 9) / 10 ∧
    (targetCpus f b oldN n = max (-((-b) / 1000)) 2 ∨ targetCpus f b oldN n = (oldN : Int) + ((n : Int) + 9) / 10) ∧
    0 ≤ targetCpus f b oldN n ∧ (0 < n → 1 ≤ targetCpus f b oldN n) := by
  unfold targetCpus
  rw [hf.ceilMilli_eq, hf.stepCpus_eq n (Int.natCast_nonneg n)]
  simp only [beMinCPUSetCores]
  by_cases h1 : -((-b) / 1000) < 2
  · simp only [h1, if_true]
    by_cases h2 : 2 - (oldN : Int) > ((n : Int) + 9) / 10 <;> simp only [h2, if_true, if_false] <;>
      refine ⟨?_, ?_, ?_, ?_, fun hn => ?_⟩ <;> first | omega | simp
  · simp only [h1, if_false]
    by_cases h2 : -((-b) / 1000) - (oldN : Int) > ((n : Int) + 9) / 10 <;> simp only [h2, if_true, if_false] <;>
      refine ⟨?_, ?_, ?_, ?_, fun hn => ?_⟩ <;> first | omega | simp

/-- whatever is written: pairwise distinct existing CPUs, none reserved / system-exclusive / in the
    LSE pool, and no more than the wanted number. -/
theorem written_sound (f : FloatOps) (hf : FloatOK f) (b : Int) (oldN : Nat) (procs : List Proc) (pods : List PodC)
    (res sys cs : List Int) (hnd : (cpusOf procs).Nodup)
    (hw : adjustCPUSet f b oldN procs pods res sys = .write cs) :
    cs.Nodup ∧ (∀ c ∈ cs, c ∈ cpusOf procs ∧ c ∉ res ∧ c ∉ sys ∧ poolOf pods c ≠ qLSE) ∧
    (cs.length : Int) ≤ targetCpus f b oldN procs.length := by
  unfold adjustCPUSet at hw
  simp only [] at hw
  split at hw
  · cases hw
  · rename_i hne
    have hpos : (0 : Int) < ((lsrPool pods res sys procs).length : Int) + (lsPool pods res sys procs).length := by omega
    have hne' : ((lsrPool pods res sys procs).length : Int) + (lsPool pods res sys procs).length ≠ 0 := by omega
    simp only [goDiv, hne', if_false] at hw
    obtain ⟨_, _, _, hc0, _⟩ := target_bounds f hf b oldN procs.length
    generalize targetCpus f b oldN procs.length = c at hw hc0 ⊢
    have hL : (0 : Int) ≤ (lsrPool pods res sys procs).length := Int.natCast_nonneg _
    have hS : (0 : Int) ≤ (lsPool pods res sys procs).length := Int.natCast_nonneg _
    have hcl : 0 ≤ c * ((lsrPool pods res sys procs).length : Int) := Int.mul_nonneg hc0 hL
    have hq0 : 0 ≤ Int.tdiv (c * (lsrPool pods res sys procs).length)
        (((lsrPool pods res sys procs).length : Int) + (lsPool pods res sys procs).length) :=
      Int.tdiv_nonneg hcl (by omega)
    have hqc : Int.tdiv (c * (lsrPool pods res sys procs).length)
        (((lsrPool pods res sys procs).length : Int) + (lsPool pods res sys procs).length) ≤ c := by
      rw [Int.tdiv_eq_ediv_of_nonneg hcl]
      apply Int.ediv_le_of_le_mul hpos
      exact Int.mul_le_mul_of_nonneg_left (by omega) hc0
    generalize Int.tdiv (c * (lsrPool pods res sys procs).length)
        (((lsrPool pods res sys procs).length : Int) + (lsPool pods res sys procs).length) = q at hw hq0 hqc
    obtain ⟨a1, a2, a3⟩ := policy_sound q (lsrPool pods res sys procs) (pool_nodup hnd _)
    obtain ⟨b1, b2, b3⟩ := policy_sound (c - q) (lsPool pods res sys procs) (pool_nodup hnd _)
    have hA : ∀ x ∈ (if q > 0 then policy q (lsrPool pods res sys procs) else []),
        x ∈ cpusOf (lsrPool pods res sys procs) := by
      intro x hx; split at hx
      · exact a2 x hx
      · cases hx
    have hB : ∀ x ∈ (if c - q > 0 then policy (c - q) (lsPool pods res sys procs) else []),
        x ∈ cpusOf (lsPool pods res sys procs) := by
      intro x hx; split at hx
      · exact b2 x hx
      · cases hx
    have hAn : (if q > 0 then policy q (lsrPool pods res sys procs) else []).Nodup := by
      split
      · exact a1
      · exact List.nodup_nil
    have hBn : (if c - q > 0 then policy (c - q) (lsPool pods res sys procs) else []).Nodup := by
      split
      · exact b1
      · exact List.nodup_nil
    have hAl : ((if q > 0 then policy q (lsrPool pods res sys procs) else []).length : Int) ≤ q := by
      split
      · omega
      · simp; omega
    have hBl : ((if c - q > 0 then policy (c - q) (lsPool pods res sys procs) else []).length : Int) ≤ c - q := by
      split
      · omega
      · simp; omega
    obtain ⟨hw', _⟩ := applyResult_write hw
    subst hw'
    refine ⟨?_, ?_, ?_⟩
    · refine List.nodup_append.mpr ⟨hAn, hBn, ?_⟩
      intro x hx y hy e
      subst e
      have := (mem_lsrPool (hA x hx)).2.2.2
      have := (mem_lsPool (hB x hy)).2.2.2.1
      contradiction
    · intro x hx
      rcases List.mem_append.mp hx with h | h
      · obtain ⟨m1, m2, m3, m4⟩ := mem_lsrPool (hA x h)
        exact ⟨m1, m2, m3, (by rw [m4]; decide)⟩
      · obtain ⟨m1, m2, m3, _, m5⟩ := mem_lsPool (hB x h)
        exact ⟨m1, m2, m3, m5⟩
    · simp only [List.length_append, Int.natCast_add]
      omega

/-- in the words of the statement: a CPU exclusively owned by an LSE pod is never written. -/
theorem written_excludes_lse_owned (f : FloatOps) (hf : FloatOK f) (b : Int) (oldN : Nat) (procs : List Proc)
    (pods : List PodC) (res sys cs : List Int) (hnd : (cpusOf procs).Nodup)
    (hw : adjustCPUSet f b oldN procs pods res sys = .write cs) (c : Int)
    (hown : ∃ p ∈ pods, p.valid = true ∧ p.qos = qLSE ∧ c ∈ p.cpus)
    (hexcl : ∀ q ∈ pods, q.valid = true → c ∈ q.cpus → q.qos = qLSE) : c ∉ cs := fun hc =>
  ((written_sound f hf b oldN procs pods res sys cs hnd hw).2.1 c hc).2.2.2 (exclusively_lse pods c hown hexcl)

/-- enough eligible CPUs ⇒ exactly the wanted number of distinct CPUs is written. -/
theorem exact_when_enough (f : FloatOps) (hf : FloatOK f) (b : Int) (oldN : Nat) (procs : List Proc) (pods : List PodC)
    (res sys : List Int) (hnd : (cpusOf procs).Nodup)
    (hpos : 0 < (lsrPool pods res sys procs).length + (lsPool pods res sys procs).length)
    (hen : targetCpus f b oldN procs.length ≤
      ((lsrPool pods res sys procs).length : Int) + (lsPool pods res sys procs).length) :
    ∃ cs, adjustCPUSet f b oldN procs pods res sys = .write cs ∧
      (cs.length : Int) = targetCpus f b oldN procs.length := by
  have hprocs : 0 < procs.length := by
    have h1 := List.length_filter_le (fun p => eligible res sys p && poolOf pods p.cpu == qLSR) procs
    have h2 := List.length_filter_le
      (fun p => eligible res sys p && !(poolOf pods p.cpu == qLSR) && poolOf pods p.cpu != qLSE) procs
    unfold lsrPool lsPool at hpos
    omega
  obtain ⟨_, _, _, hc0, hc1⟩ := target_bounds f hf b oldN procs.length
  have hc1 := hc1 hprocs
  unfold adjustCPUSet
  simp only []
  have hne : ¬ ((lsrPool pods res sys procs).length + (lsPool pods res sys procs).length = 0) := by omega
  have hne' : ((lsrPool pods res sys procs).length : Int) + (lsPool pods res sys procs).length ≠ 0 := by omega
  simp only [hne, if_false, goDiv, hne']
  generalize targetCpus f b oldN procs.length = c at hen hc0 hc1 ⊢
  obtain ⟨s1, s2, s3, s4⟩ := split_fits c _ _ hc0 hen (by omega)
  generalize Int.tdiv (c * (lsrPool pods res sys procs).length)
      (((lsrPool pods res sys procs).length : Int) + (lsPool pods res sys procs).length) = q at s1 s2 s3 s4 ⊢
  have hAl : ((if q > 0 then policy q (lsrPool pods res sys procs) else []).length : Int) = q := by
    split
    · exact (policy_exact q _ (pool_nodup hnd _) s1 s2).2.2
    · simp; omega
  have hBl : ((if c - q > 0 then policy (c - q) (lsPool pods res sys procs) else []).length : Int) = c - q := by
    split
    · exact (policy_exact (c - q) _ (pool_nodup hnd _) (by omega) s3).2.2
    · simp; omega
  have hlen : (((if q > 0 then policy q (lsrPool pods res sys procs) else []) ++
      (if c - q > 0 then policy (c - q) (lsPool pods res sys procs) else [])).length : Int) = c := by
    simp only [List.length_append, Int.natCast_add]; omega
  refine ⟨_, applyResult_of_ne_nil ?_, hlen⟩
  intro he
  rw [he] at hlen
  simp at hlen
  omega

/-! ### 8. quota mode -/

theorem targetQuota_eq (b : Int) : targetQuota b = max (b * 100) 2000 := by
  unfold targetQuota cfsPeriod beMinQuota
  have : Int.tdiv (b * 100000) 1000 = b * 100 := by
    have : b * 100000 = (b * 100) * 1000 := by omega
    rw [this, Int.mul_tdiv_cancel _ (by decide)]
  rw [this]
  simp only []
  split <;> omega

/-- quota = budget × period floored by the minimum, except for the two documented rules:
    bypass (|Δ| below 1 % of capacity × period, target above the minimum, and a quota is currently set)
    and the 10 % step (only when a quota is currently set). -/
theorem quota_eq (f : FloatOps) (hf : FloatOK f) (b cur cap : Int) (hc : 0 ≤ coresOf cap) :
    adjustQuota f b cur cap =
      if (targetQuota b - cur < coresOf cap * 1000 ∧ cur - targetQuota b < coresOf cap * 1000) ∧ targetQuota b ≠ 2000 ∧ cur ≠ -1
      then .bypass
      else if targetQuota b - cur > coresOf cap * 10000 ∧ cur ≠ -1 then .write (cur + coresOf cap * 10000)
      else .write (targetQuota b) := by
  have key : ∀ (T X : Int) (bl sg : Bool) (P Q : Prop) [Decidable P] [Decidable Q], (bl = true ↔ P) → (sg = true ↔ Q) →
      (if (bl && T != 2000 && cur != -1) = true then QOutcome.bypass
        else if (sg && cur != -1) = true then QOutcome.write X else QOutcome.write T) =
      (if P ∧ T ≠ 2000 ∧ cur ≠ -1 then QOutcome.bypass else if Q ∧ cur ≠ -1 then QOutcome.write X else QOutcome.write T) := by
    intro T X bl sg P Q _ _ hb hs
    cases bl <;> cases sg <;> simp at hb hs <;> simp [hb, hs]
  unfold adjustQuota
  simp only [hf.stepInc_eq _ hc]
  exact key _ _ _ _ _ _ (hf.bypass_iff (targetQuota b) cur (coresOf cap) hc) (hf.step_iff (targetQuota b) cur (coresOf cap) hc)

/-- neither rule applies ⇒ exactly the statement's value is written. -/
theorem quota_plain (f : FloatOps) (hf : FloatOK f) (b cur cap : Int) (hc : 0 ≤ coresOf cap)
    (hfar : coresOf cap * 1000 ≤ targetQuota b - cur ∨ coresOf cap * 1000 ≤ cur - targetQuota b ∨ targetQuota b = 2000 ∨ cur = -1)
    (hstep : targetQuota b - cur ≤ coresOf cap * 10000 ∨ cur = -1) :
    adjustQuota f b cur cap = .write (max (b * 100) 2000) := by
  rw [quota_eq f hf b cur cap hc, ← targetQuota_eq]
  have h1 : ¬ ((targetQuota b - cur < coresOf cap * 1000 ∧ cur - targetQuota b < coresOf cap * 1000) ∧ targetQuota b ≠ 2000 ∧ cur ≠ -1) := by
    omega
  have h2 : ¬ (targetQuota b - cur > coresOf cap * 10000 ∧ cur ≠ -1) := by omega
  simp [h1, h2]

/-! ### 9. pod lifecycle: every pod still in the list counts -/

/-- overwrite the lifecycle state of a pod (deletionTimestamp / phase), nothing else. -/
def setLife (g : PodC → Int) (p : PodC) : PodC := { p with life := g p }

theorem poolOf_life (g : PodC → Int) (pods : List PodC) (c : Int) : poolOf (pods.map (setLife g)) c = poolOf pods c := by
  unfold poolOf
  rw [List.foldl_map]
  rfl

theorem lseClaimed_life (g : PodC → Int) (pods : List PodC) (c : Int) :
    lseClaimed (pods.map (setLife g)) c = lseClaimed pods c := by
  unfold lseClaimed
  rw [List.any_map]
  rfl

theorem calcBESet_life (g : PodC → Int) (procs : List Proc) (pods : List PodC) (res sys : List Int) :
    calcBESet procs (pods.map (setLife g)) res sys = calcBESet procs pods res sys := by
  unfold calcBESet
  simp only [lseClaimed_life]

theorem pools_life (g : PodC → Int) (procs : List Proc) (pods : List PodC) (res sys : List Int) :
    lsrPool (pods.map (setLife g)) res sys procs = lsrPool pods res sys procs ∧
    lsPool (pods.map (setLife g)) res sys procs = lsPool pods res sys procs := by
  simp [lsrPool, lsPool, poolOf_life]

/-- the BE cpuset of both paths does not depend on any pod's lifecycle state: a pod in graceful
    termination, Pending, Succeeded or Failed that is still in the pod list protects its CPUs
    exactly like a running one. -/
theorem life_irrelevant (f : FloatOps) (kp : Int) (topoNil : Bool) (b : Int) (oldN : Nat) (procs : List Proc)
    (pods : List PodC) (res sys : List Int) (g : PodC → Int) :
    adjustFull f kp topoNil b oldN procs (pods.map (setLife g)) res sys = adjustFull f kp topoNil b oldN procs pods res sys ∧
    adjustCPUSet f b oldN procs (pods.map (setLife g)) res sys = adjustCPUSet f b oldN procs pods res sys ∧
    calcBESet procs (pods.map (setLife g)) res sys = calcBESet procs pods res sys := by
  obtain ⟨h1, h2⟩ := pools_life g procs pods res sys
  have h3 := calcBESet_life g procs pods res sys
  have h4 : adjustCPUSet f b oldN procs (pods.map (setLife g)) res sys = adjustCPUSet f b oldN procs pods res sys := by
    unfold adjustCPUSet
    simp only [h1, h2]
  refine ⟨?_, h4, h3⟩
  unfold adjustFull
  simp only [h1, h2, h3, h4]

/-! ### 10. the recover path (calcBECPUSet) and its agreement with the suppress path -/

/-- a CPU's pool class is the class of some valid pod naming it (or none). -/
theorem poolOf_claimed (pods : List PodC) (c : Int) (h : poolOf pods c ≠ qNone) :
    ∃ p ∈ pods, p.valid = true ∧ p.qos = poolOf pods c ∧ c ∈ p.cpus := by
  unfold poolOf at h ⊢
  have key : ∀ (l : List PodC) (acc : Int),
      l.foldl (fun acc p => if p.valid && p.cpus.contains c then p.qos else acc) acc = acc ∨
      ∃ p ∈ l, p.valid = true ∧
        p.qos = l.foldl (fun acc p => if p.valid && p.cpus.contains c then p.qos else acc) acc ∧ c ∈ p.cpus := by
    intro l
    induction l with
    | nil => intro acc; left; rfl
    | cons p ps ih =>
      intro acc
      simp only [List.foldl_cons]
      by_cases hm : (p.valid && p.cpus.contains c) = true
      · simp only [hm, if_true]
        rcases ih p.qos with h' | ⟨p', hp', hv, hq, hc⟩
        · right
          simp only [Bool.and_eq_true, List.contains_iff_mem] at hm
          exact ⟨p, by simp, hm.1, h'.symm, hm.2⟩
        · right; exact ⟨p', List.mem_cons_of_mem _ hp', hv, hq, hc⟩
      · simp only [hm]
        rcases ih acc with h' | ⟨p', hp', hv, hq, hc⟩
        · left; simpa using h'
        · right; exact ⟨p', List.mem_cons_of_mem _ hp', hv, by simpa using hq, hc⟩
  rcases key pods qNone with h' | h'
  · exact absurd h' h
  · exact h'

theorem lseClaimed_iff (pods : List PodC) (c : Int) :
    lseClaimed pods c = true ↔ ∃ p ∈ pods, p.valid = true ∧ p.qos = qLSE ∧ c ∈ p.cpus := by
  unfold lseClaimed
  simp only [List.any_eq_true, Bool.and_eq_true, beq_iff_eq, List.contains_iff_mem]
  constructor
  · rintro ⟨p, hp, ⟨hv, hq⟩, hc⟩; exact ⟨p, hp, hv, hq, hc⟩
  · rintro ⟨p, hp, hv, hq, hc⟩; exact ⟨p, hp, ⟨hv, hq⟩, hc⟩

/-- the suppress path's LSE pool is contained in what the recover path protects. -/
theorem poolOf_lse_claimed (pods : List PodC) (c : Int) (h : poolOf pods c = qLSE) : lseClaimed pods c = true := by
  have hne : poolOf pods c ≠ qNone := by rw [h]; decide
  obtain ⟨p, hp, hv, hq, hc⟩ := poolOf_claimed pods c hne
  exact (lseClaimed_iff pods c).mpr ⟨p, hp, hv, hq.trans h, hc⟩

/-- no CPU is named both by a valid LSE pod and by a valid pod of another class. -/
def Unamb (pods : List PodC) : Prop :=
  ∀ c, lseClaimed pods c = true → ∀ q ∈ pods, q.valid = true → c ∈ q.cpus → q.qos = qLSE

theorem mem_calcBESet {procs : List Proc} {pods : List PodC} {res sys : List Int} {c : Int} :
    c ∈ calcBESet procs pods res sys ↔ c ∈ cpusOf procs ∧ c ∉ res ∧ c ∉ sys ∧ lseClaimed pods c = false := by
  unfold calcBESet
  simp only [List.mem_filter, Bool.not_eq_true', Bool.or_eq_false_iff, List.contains_eq_mem, decide_eq_false_iff_not]
  constructor
  · rintro ⟨h1, ⟨h2, h3⟩, h4⟩; exact ⟨h1, h3, h2, h4⟩
  · rintro ⟨h1, h2, h3, h4⟩; exact ⟨h1, ⟨h3, h2⟩, h4⟩

/-- the recover path's BE cpuset: existing CPUs, none reserved / system-exclusive, none named by ANY
    valid LSE pod of the list (whatever its lifecycle state), and nothing else is left out. -/
theorem recover_sound (procs : List Proc) (pods : List PodC) (res sys : List Int) (hnd : (cpusOf procs).Nodup) :
    (calcBESet procs pods res sys).Nodup ∧
    ∀ c, c ∈ calcBESet procs pods res sys ↔
      (c ∈ cpusOf procs ∧ c ∉ res ∧ c ∉ sys ∧ ∀ p ∈ pods, p.valid = true → p.qos = qLSE → c ∉ p.cpus) := by
  refine ⟨List.Nodup.sublist List.filter_sublist hnd, fun c => ?_⟩
  rw [mem_calcBESet]
  have : lseClaimed pods c = false ↔ ∀ p ∈ pods, p.valid = true → p.qos = qLSE → c ∉ p.cpus := by
    rw [← Bool.not_eq_true, lseClaimed_iff]
    constructor
    · intro h p hp hv hq hc; exact h ⟨p, hp, hv, hq, hc⟩
    · rintro h ⟨p, hp, hv, hq, hc⟩; exact h p hp hv hq hc
  rw [this]

theorem mem_pools_iff {pods : List PodC} {res sys : List Int} {procs : List Proc} {c : Int} :
    (c ∈ cpusOf (lsrPool pods res sys procs) ∨ c ∈ cpusOf (lsPool pods res sys procs)) ↔
      (c ∈ cpusOf procs ∧ c ∉ res ∧ c ∉ sys ∧ poolOf pods c ≠ qLSE) := by
  constructor
  · rintro (h | h)
    · obtain ⟨m1, m2, m3, m4⟩ := mem_lsrPool h
      exact ⟨m1, m2, m3, by rw [m4]; decide⟩
    · obtain ⟨m1, m2, m3, _, m5⟩ := mem_lsPool h
      exact ⟨m1, m2, m3, m5⟩
  · rintro ⟨h1, h2, h3, h4⟩
    obtain ⟨p, hp, rfl⟩ := List.mem_map.mp h1
    by_cases hq : poolOf pods p.cpu = qLSR
    · left
      refine List.mem_map.mpr ⟨p, List.mem_filter.mpr ⟨hp, ?_⟩, rfl⟩
      simp [eligible, h2, h3, hq]
    · right
      refine List.mem_map.mpr ⟨p, List.mem_filter.mpr ⟨hp, ?_⟩, rfl⟩
      simp [eligible, h2, h3, hq, h4]

/-- the recover path never offers a CPU the suppress path considers ineligible … -/
theorem recover_subset_eligible (procs : List Proc) (pods : List PodC) (res sys : List Int) (c : Int)
    (h : c ∈ calcBESet procs pods res sys) :
    c ∈ cpusOf (lsrPool pods res sys procs) ∨ c ∈ cpusOf (lsPool pods res sys procs) := by
  obtain ⟨h1, h2, h3, h4⟩ := mem_calcBESet.mp h
  refine mem_pools_iff.mpr ⟨h1, h2, h3, fun hq => ?_⟩
  rw [poolOf_lse_claimed pods c hq] at h4
  cases h4

/-- … and when no CPU is named by an LSE pod and a pod of another class, the two paths agree exactly
    on which CPUs best-effort pods may get. -/
theorem paths_agree (procs : List Proc) (pods : List PodC) (res sys : List Int) (hun : Unamb pods) (c : Int) :
    c ∈ calcBESet procs pods res sys ↔
      (c ∈ cpusOf (lsrPool pods res sys procs) ∨ c ∈ cpusOf (lsPool pods res sys procs)) := by
  refine ⟨recover_subset_eligible procs pods res sys c, fun h => ?_⟩
  obtain ⟨h1, h2, h3, h4⟩ := mem_pools_iff.mp h
  refine mem_calcBESet.mpr ⟨h1, h2, h3, ?_⟩
  cases hcl : lseClaimed pods c
  · rfl
  · exfalso
    apply h4
    exact exclusively_lse pods c ((lseClaimed_iff pods c).mp hcl) (hun c hcl)

/-- whatever adjustByCPUSet writes lies inside calcBECPUSet's set (unambiguous ownership). -/
theorem written_subset_recover (f : FloatOps) (hf : FloatOK f) (b : Int) (oldN : Nat) (procs : List Proc) (pods : List PodC)
    (res sys cs : List Int) (hnd : (cpusOf procs).Nodup) (hun : Unamb pods)
    (hw : adjustCPUSet f b oldN procs pods res sys = .write cs) : ∀ c ∈ cs, c ∈ calcBESet procs pods res sys := by
  intro c hc
  obtain ⟨m1, m2, m3, m4⟩ := (written_sound f hf b oldN procs pods res sys cs hnd hw).2.1 c hc
  exact (paths_agree procs pods res sys hun c).mpr (mem_pools_iff.mpr ⟨m1, m2, m3, m4⟩)

/-! ### 11. topology object missing, kubelet CPU-manager policy -/

theorem adjustFull_no_panic (f : FloatOps) (kp : Int) (topoNil : Bool) (b : Int) (oldN : Nat) (procs : List Proc)
    (pods : List PodC) (res sys : List Int) : adjustFull f kp topoNil b oldN procs pods res sys ≠ none := by
  have hp := total_no_panic f b oldN procs pods res sys
  unfold adjustFull
  split
  · simp
  · split
    · simp
    · split
      · contradiction
      · split <;> simp
      · (repeat' split) <;> simp

/-- policy none (or no policy annotation): every level receives exactly what `adjustCPUSet` selects,
    so all theorems of 5.–7. speak about the files. -/
theorem adjustFull_none (f : FloatOps) (b : Int) (oldN : Nat) (procs : List Proc) (pods : List PodC) (res sys : List Int) :
    adjustFull f kpNone false b oldN procs pods res sys =
      match adjustCPUSet f b oldN procs pods res sys with
      | .panic => none
      | .untouched => some .nothing
      | .write cs => some ⟨some cs, some cs, some cs⟩ := by
  unfold adjustFull
  simp only [Bool.false_eq_true, if_false]
  split
  · rename_i h0
    rw [none_eligible_untouched f b oldN procs pods res sys h0]
  · generalize adjustCPUSet f b oldN procs pods res sys = o
    cases o <;> first | rfl | simp [kpNone, kpStatic, kpBad]

/-- no topology object, or an unreadable kubelet-policy annotation: nothing is written. -/
theorem cannot_act_untouched (f : FloatOps) (kp : Int) (topoNil : Bool) (b : Int) (oldN : Nat) (procs : List Proc)
    (pods : List PodC) (res sys : List Int) (h : topoNil = true ∨ kp = kpBad) :
    adjustFull f kp topoNil b oldN procs pods res sys = some .nothing := by
  have hp := total_no_panic f b oldN procs pods res sys
  unfold adjustFull
  split
  · rfl
  · rename_i ht
    have hk : kp = kpBad := by
      rcases h with h | h
      · exact absurd h ht
      · exact h
    subst hk
    split
    · rfl
    · split
      · contradiction
      · simp [kpBad, kpStatic]
      · simp

/-- static policy: the container level receives the selection of `adjustCPUSet` (so it is distinct,
    existing, unprotected and within the budget by `written_sound`), the BE root and pod level
    receive the recover set, and — with unambiguous ownership — the container set lies inside it. -/
theorem static_levels (f : FloatOps) (hf : FloatOK f) (b : Int) (oldN : Nat) (procs : List Proc) (pods : List PodC)
    (res sys : List Int) (w : Written) (hnd : (cpusOf procs).Nodup)
    (hw : adjustFull f kpStatic false b oldN procs pods res sys = some w) :
    (∀ cs, w.cont = some cs → adjustCPUSet f b oldN procs pods res sys = .write cs ∧
        w.root = some (calcBESet procs pods res sys) ∧ w.pod = some (calcBESet procs pods res sys) ∧
        (Unamb pods → ∀ c ∈ cs, c ∈ calcBESet procs pods res sys)) ∧
    (∀ r, w.root = some r → r = calcBESet procs pods res sys) := by
  unfold adjustFull at hw
  simp only [Bool.false_eq_true, if_false] at hw
  split at hw
  · cases hw
    exact ⟨fun cs h => (by cases h), fun r h => (by cases h)⟩
  · split at hw
    · cases hw
    · simp only [if_true] at hw
      cases hw
      exact ⟨fun cs h => (by cases h), fun r h => (by cases h; rfl)⟩
    · rename_i cs' hcs
      have : ¬ (kpStatic = kpBad) := by decide
      simp only [this, if_false, if_true] at hw
      cases hw
      refine ⟨fun cs h => ?_, fun r h => (by cases h; rfl)⟩
      cases h
      exact ⟨hcs, rfl, rfl, fun hun => written_subset_recover f hf b oldN procs pods res sys cs' hnd hun hcs⟩

/-! ### 12. host applications -/

/-- helpers.NonBEHostAppFilter: a host application is left out of the non-BE sum only if its QoS is BE
    AND it has a cgroup path whose base is the kubepods best-effort dir (base code 1); a nil path
    (code 0) or any other base counts as non-BE. -/
theorem app_counted_iff (a : AppU) : a.counted = false ↔ (a.qos = qBE ∧ a.base = 1) := by
  unfold AppU.counted
  simp only [Bool.or_eq_false_iff, bne_eq_false_iff_eq, beq_eq_false_iff_ne]
  constructor
  · rintro ⟨⟨h1, _⟩, h3⟩; exact ⟨h1, h3⟩
  · rintro ⟨h1, h3⟩; exact ⟨⟨h1, by rw [h3]; decide⟩, h3⟩

/-- list form: raising the usage of one host application that counts as non-BE never raises the budget. -/
theorem budget_antitone_app (f : FloatOps) (hf : FloatOK f) (cap alloc anno thr : Int) (minPct : Option Int)
    (node : Int) (pods : List PodU) (as₁ as₂ : List AppU) (a : AppU) (d : Int) (hd : 0 ≤ d)
    (ha : a.counted = true) :
    budget f cap alloc anno thr minPct node pods (as₁ ++ { a with used := a.used + d } :: as₂) ≤
      budget f cap alloc anno thr minPct node pods (as₁ ++ a :: as₂) := by
  have hR : 0 ≤ nodeReserved cap alloc anno := by
    unfold nodeReserved; simp only []; split <;> split <;> omega
  have hc : ({ a with used := a.used + d } : AppU).counted = true := by
    simpa [AppU.counted] using ha
  have e1 : appsAll (as₁ ++ { a with used := a.used + d } :: as₂) = appsAll (as₁ ++ a :: as₂) + d := by
    simp only [appsAll, List.map_append, List.map_cons]; exact sum_bump _ _ _ _
  have e2 : appsCounted (as₁ ++ { a with used := a.used + d } :: as₂) = appsCounted (as₁ ++ a :: as₂) + d := by
    simp only [appsCounted, List.filter_append, List.filter_cons, hc, ha, if_true, List.map_append, List.map_cons]
    exact sum_bump _ _ _ _
  unfold budget
  rw [e1, e2]
  have := budget_antitone f hf cap thr minPct (nodeReserved cap alloc anno) node (podsAll pods)
    (podsCounted pods) (appsAll (as₁ ++ a :: as₂)) (appsCounted (as₁ ++ a :: as₂)) 0 d 0 hR (Int.le_refl 0) hd (Int.le_refl 0)
  simpa using this

/-- a BE host application inside the kubepods best-effort dir is BE consumption: its growth (seen by
    the node metric too) leaves the budget where it is or lowers it only through the system term. -/
theorem budget_be_app_not_subtracted (a : AppU) (h : a.qos = qBE ∧ a.base = 1) (as₁ as₂ : List AppU) :
    appsCounted (as₁ ++ a :: as₂) = appsCounted (as₁ ++ as₂) := by
  have hc : a.counted = false := (app_counted_iff a).mpr h
  simp [appsCounted, List.filter_append, hc]

/-! ### 13. quota mode when BE is currently unlimited -/

theorem targetQuota_ge (b : Int) : 2000 ≤ targetQuota b := by
  rw [targetQuota_eq]; omega

/-- the shape of the bypass test BEFORE repair 4d853b2 (`fix: property=C10`): the sentinel −1 of an
    unlimited BE group was compared as if it were a quota.  Kept as a regression witness. -/
def adjustQuotaPreFix (f : FloatOps) (budgetMilli cur capMilli : Int) : QOutcome :=
  let q := targetQuota budgetMilli
  let cores := coresOf capMilli
  if f.bypassLt q cur cores && q != beMinQuota then .bypass else
  if f.stepGt q cur cores && cur != beUnsetQuota then .write (cur + f.stepInc cores) else .write q

/-- "in quota mode the quota equals the budget times the CFS period, floored by the minimum" did NOT
    hold before the repair: 3 CPUs, BE unlimited, budget 22 m (target 2200) — nothing was written and
    BE stayed unlimited (window 2000 < target < capacity × 1000 − 1). -/
theorem quota_unlimited_bypass_counterexample :
    ¬ (∀ b cap : Int, adjustQuotaPreFix exactOps b (-1) cap = .write (max (b * 100) 2000)) := by
  intro h
  have := h 22 3000
  revert this
  decide

/-- a currently unlimited BE group (quota −1) always gets exactly the statement's quota, at once:
    neither the 1 % bypass nor the 10 % step applies. -/
theorem quota_from_unset_written (f : FloatOps) (hf : FloatOK f) (b cap : Int) (hc : 0 ≤ coresOf cap) :
    adjustQuota f b (-1) cap = .write (max (b * 100) 2000) :=
  quota_plain f hf b (-1) cap hc (Or.inr (Or.inr (Or.inr rfl))) (Or.inr rfl)

/-- after any round the BE group is limited: the result is never "leave −1 in place". -/
theorem quota_never_stays_unlimited (f : FloatOps) (hf : FloatOK f) (b cur cap : Int) (hc : 0 ≤ coresOf cap)
    (h : adjustQuota f b cur cap = .bypass) : cur ≠ -1 := by
  intro he
  subst he
  rw [quota_from_unset_written f hf b cap hc] at h
  cases h

/-! ### 14. the oracle's vocabulary: "eligible CPUs", "at least two", minimum quota -/

/-- the two pools partition the CPUs that are neither reserved, system-exclusive nor in the LSE pool. -/
theorem pools_length (pods : List PodC) (res sys : List Int) (procs : List Proc) :
    (lsrPool pods res sys procs).length + (lsPool pods res sys procs).length =
      (procs.filter (fun p => eligible res sys p && poolOf pods p.cpu != qLSE)).length := by
  unfold lsrPool lsPool
  induction procs with
  | nil => rfl
  | cons p ps ih =>
    simp only [List.filter_cons]
    have n1 : qLSR ≠ qLSE := by decide
    have n2 : qLSE ≠ qLSR := by decide
    by_cases he : eligible res sys p = true
    · by_cases h1 : poolOf pods p.cpu = qLSR
      · simp [he, h1, n1] at ih ⊢; omega
      · by_cases h2 : poolOf pods p.cpu = qLSE
        · simp [he, h2, n2] at ih ⊢; omega
        · simp [he, h1, h2] at ih ⊢; omega
    · simp [he] at ih ⊢; omega

/-- with unambiguous ownership the number of eligible CPUs of the suppress path is the size of the
    recover path's set = the CPUs that exist and are not reserved, not system-exclusive and not
    named by an LSE pod (what the oracle counts as `eligible`). -/
theorem eligible_count (pods : List PodC) (res sys : List Int) (procs : List Proc) (hun : Unamb pods) :
    (lsrPool pods res sys procs).length + (lsPool pods res sys procs).length = (calcBESet procs pods res sys).length := by
  rw [pools_length]
  unfold calcBESet cpusOf
  rw [List.filter_map, List.length_map]
  congr 1
  apply List.filter_congr
  intro p _
  have : (poolOf pods p.cpu != qLSE) = !lseClaimed pods p.cpu := by
    cases hcl : lseClaimed pods p.cpu
    · have : poolOf pods p.cpu ≠ qLSE := fun h => by rw [poolOf_lse_claimed pods _ h] at hcl; cases hcl
      simp [this]
    · have := exclusively_lse pods p.cpu ((lseClaimed_iff pods _).mp hcl) (hun _ hcl)
      simp [this]
  simp only [Function.comp, eligible, this]
  cases sys.contains p.cpu <;> cases res.contains p.cpu <;> cases lseClaimed pods p.cpu <;> rfl

/-- the statement's "exactly that many whenever enough eligible CPUs exist", in the oracle's terms. -/
theorem exact_when_enough_eligible (f : FloatOps) (hf : FloatOK f) (b : Int) (oldN : Nat) (procs : List Proc) (pods : List PodC)
    (res sys : List Int) (hnd : (cpusOf procs).Nodup) (hun : Unamb pods)
    (hpos : 0 < (calcBESet procs pods res sys).length)
    (hen : targetCpus f b oldN procs.length ≤ ((calcBESet procs pods res sys).length : Int)) :
    ∃ cs, adjustCPUSet f b oldN procs pods res sys = .write cs ∧
      (cs.length : Int) = targetCpus f b oldN procs.length ∧ cs.Nodup ∧ ∀ c ∈ cs, c ∈ calcBESet procs pods res sys := by
  have hc := eligible_count pods res sys procs hun
  obtain ⟨cs, h1, h2⟩ := exact_when_enough f hf b oldN procs pods res sys hnd (by omega) (by omega)
  exact ⟨cs, h1, h2, (written_sound f hf b oldN procs pods res sys cs hnd h1).1,
    written_subset_recover f hf b oldN procs pods res sys cs hnd hun h1⟩

/-- "at least two": the wanted number is at least 2 unless the step limit `|old| + ⌈n/10⌉` itself is below 2. -/
theorem target_ge_two (f : FloatOps) (hf : FloatOK f) (b : Int) (oldN n : Nat)
    (h : 2 ≤ (oldN : Int) + ((n : Int) + 9) / 10) : 2 ≤ targetCpus f b oldN n := by
  obtain ⟨_, _, h3, _, _⟩ := target_bounds f hf b oldN n
  rcases h3 with h3 | h3 <;> omega

/-- the quota written is never below the minimum quota (for a current quota that is −1 or ≥ 0, ≥ 1 CPU). -/
theorem quota_ge_min (f : FloatOps) (hf : FloatOK f) (b cur cap q : Int) (hc : 1 ≤ coresOf cap) (hcur : 0 ≤ cur ∨ cur = -1)
    (h : adjustQuota f b cur cap = .write q) : 2000 ≤ q := by
  rw [quota_eq f hf b cur cap (by omega)] at h
  have := targetQuota_ge b
  split at h
  · cases h
  · split at h
    · simp only [QOutcome.write.injEq] at h; omega
    · simp only [QOutcome.write.injEq] at h; omega

/-- what the 1 % bypass leaves in place is a finite quota within 1 % of capacity of the statement's value. -/
theorem quota_bypass_close (f : FloatOps) (hf : FloatOK f) (b cur cap : Int) (hc : 0 ≤ coresOf cap)
    (h : adjustQuota f b cur cap = .bypass) :
    cur ≠ -1 ∧ cur - max (b * 100) 2000 < coresOf cap * 1000 ∧ max (b * 100) 2000 - cur < coresOf cap * 1000 := by
  rw [quota_eq f hf b cur cap hc, targetQuota_eq] at h
  split at h
  · rename_i hh; omega
  · split at h <;> cases h

/-- annotation shapes: a shared system-QoS cpuset (`cpusetExclusive: false`), a malformed system-QoS or
    reservation annotation and an unparsable `reservedCPUs` string protect nothing. -/
theorem anno_shapes (cpus : List Int) :
    effSysExcl 3 cpus = [] ∧ effSysExcl 4 cpus = [] ∧ effSysExcl 0 cpus = [] ∧ effSysExcl 1 cpus = cpus ∧ effSysExcl 2 cpus = cpus ∧
    effReserved 0 cpus = [] ∧ effReserved 1 cpus = cpus ∧ effReserved 2 cpus = [] ∧ effReserved 3 cpus = [] := by
  simp [effSysExcl, effReserved]

/-! ### 15. whole rounds of suppressBECPU (`roundStep`) -/

/-- the round acts: feature enabled, node object, at least one pod, node metric and NodeCPUInfo present. -/
def RoundIn.acts (i : RoundIn) : Prop :=
  i.sloKind = 3 ∧ i.nodeNil = false ∧ i.nPodMetas ≠ 0 ∧ i.nodeMetric = true ∧ i.infoMissing = false

theorem round_no_panic (f : FloatOps) (st : RState) (i : RoundIn) : roundStep f st i ≠ none := by
  have hp := adjustFull_no_panic f i.kp i.topoNil i.budget st.root.length i.procs i.pods i.reserved i.sysExcl
  unfold roundStep
  split
  · simp
  · split
    · simp
    · split
      · simp
      · split
        · simp
        · split
          · contradiction
          · simp

/-- unusable NodeSLO, missing node / pods / node metric / NodeCPUInfo: the round changes nothing. -/
theorem round_inactive (f : FloatOps) (st : RState) (i : RoundIn)
    (h : i.sloKind ≤ 1 ∨ (i.sloKind = 3 ∧ (i.nodeNil = true ∨ i.nPodMetas = 0 ∨ i.nodeMetric = false ∨ i.infoMissing = true))) :
    roundStep f st i = some st := by
  unfold roundStep
  rcases h with h | ⟨h3, h⟩
  · simp [h]
  · have h1 : ¬ i.sloKind ≤ 1 := by omega
    have h2 : ¬ i.sloKind = 2 := by omega
    have h4 : (i.nodeNil || i.nPodMetas == 0 || !i.nodeMetric || i.infoMissing) = true := by
      rcases h with h | h | h | h <;> simp [h]
    simp [h1, h2, h4]

/-- feature disabled: the quota is unset (unless the agent already did so) and every level gets the recover set. -/
theorem round_disabled (f : FloatOps) (st : RState) (i : RoundIn) (h : i.sloKind = 2) (hi : i.infoMissing = false) (ht : i.topoNil = false) :
    ∃ st', roundStep f st i = some st' ∧ st'.root = calcBESet i.procs i.pods i.reserved i.sysExcl ∧ st'.cont = st'.root ∧ st'.pod = st'.root ∧
      st'.quotaRecovered = true ∧ (st.quotaRecovered = false → st'.quota = -1) := by
  unfold roundStep
  simp only [h, if_true]
  refine ⟨_, rfl, ?_⟩
  unfold recoverCpusetAll recoverQuota
  simp only [hi, ht, Bool.or_self, Bool.false_eq_true, if_false]
  cases hq : st.quotaRecovered <;> simp [beUnsetQuota, hq]

/-- quota mode: the BE group ends the round with a finite quota (never −1) that is the statement's value
    `max(budget × 100, 2000)`, or — only when a quota was already set — within the 1 % bypass band / one 10 % step above
    the old one; the cpuset is handed back to the recover set. -/
theorem round_quota_mode (f : FloatOps) (hf : FloatOK f) (st : RState) (i : RoundIn) (ha : i.acts) (hq : i.quotaMode = true)
    (hc : 1 ≤ coresOf i.capMilli) (hcur : 0 ≤ st.quota ∨ st.quota = -1) :
    ∃ st', roundStep f st i = some st' ∧ st'.quota ≠ -1 ∧
      (st.quota = -1 → st'.quota = max (i.budget * 100) 2000) ∧
      (st'.quota = max (i.budget * 100) 2000 ∨
        (st'.quota = st.quota ∧ st.quota - max (i.budget * 100) 2000 < coresOf i.capMilli * 1000 ∧
          max (i.budget * 100) 2000 - st.quota < coresOf i.capMilli * 1000) ∨
        (st'.quota = st.quota + coresOf i.capMilli * 10000 ∧ st'.quota < max (i.budget * 100) 2000)) ∧
      (i.topoNil = false → st'.root = calcBESet i.procs i.pods i.reserved i.sysExcl) := by
  obtain ⟨h3, hn, hp, hm, hi⟩ := ha
  unfold roundStep
  have h1 : ¬ i.sloKind ≤ 1 := by omega
  have h2 : ¬ i.sloKind = 2 := by omega
  have h4 : (i.nodeNil || i.nPodMetas == 0 || !i.nodeMetric || i.infoMissing) = false := by simp [hn, hp, hm, hi]
  simp only [h1, h2, h4, hq, if_false, if_true, Bool.false_eq_true]
  refine ⟨_, rfl, ?_⟩
  have hroot : ∀ s : RState, i.topoNil = false → (recoverCpusetAll s i).root = calcBESet i.procs i.pods i.reserved i.sysExcl := by
    intro s ht; unfold recoverCpusetAll; simp [hi, ht]
  have hquota : ∀ s : RState, (recoverCpusetAll s i).quota = s.quota := by
    intro s; unfold recoverCpusetAll; split <;> rfl
  have hc0 : 0 ≤ coresOf i.capMilli := by omega
  have hqe := quota_eq f hf i.budget st.quota i.capMilli hc0
  rw [targetQuota_eq] at hqe
  cases hres : adjustQuota f i.budget st.quota i.capMilli with
  | bypass =>
    obtain ⟨b1, b2, b3⟩ := quota_bypass_close f hf i.budget st.quota i.capMilli hc0 hres
    simp only [hquota]
    exact ⟨b1, fun h => absurd h b1, Or.inr (Or.inl ⟨trivial, b2, b3⟩), hroot _⟩
  | write q =>
    have hge := quota_ge_min f hf i.budget st.quota i.capMilli q hc hcur hres
    simp only [hquota]
    refine ⟨by omega, fun h => ?_, ?_, hroot _⟩
    · rw [h, quota_from_unset_written f hf i.budget i.capMilli hc0] at hres
      simp only [QOutcome.write.injEq] at hres
      exact hres.symm
    · rw [hres] at hqe
      split at hqe
      · cases hqe
      · split at hqe
        · rename_i hs
          simp only [QOutcome.write.injEq] at hqe
          right; right; omega
        · simp only [QOutcome.write.injEq] at hqe
          left; exact hqe

/-- cpuset mode, policy none, topology present: the files get exactly the selection of `adjustCPUSet` on the round's budget and
    the current size of the BE root cpuset (so `written_sound`, `exact_when_enough_eligible`, … apply to the round), and the
    quota is unset. -/
theorem round_cpuset_mode (f : FloatOps) (st : RState) (i : RoundIn) (ha : i.acts) (hq : i.quotaMode = false)
    (hk : i.kp = kpNone) (ht : i.topoNil = false) :
    roundStep f st i =
      match adjustCPUSet f i.budget st.root.length i.procs i.pods i.reserved i.sysExcl with
      | .panic => none
      | .untouched => some (recoverQuota st)
      | .write cs => some (recoverQuota { st with root := cs, pod := cs, cont := cs }) := by
  obtain ⟨h3, hn, hp, hm, hi⟩ := ha
  unfold roundStep
  have h1 : ¬ i.sloKind ≤ 1 := by omega
  have h2 : ¬ i.sloKind = 2 := by omega
  have h4 : (i.nodeNil || i.nPodMetas == 0 || !i.nodeMetric || i.infoMissing) = false := by simp [hn, hp, hm, hi]
  simp only [h1, h2, h4, hq, if_false, Bool.false_eq_true]
  rw [hk, ht, adjustFull_none]
  cases adjustCPUSet f i.budget st.root.length i.procs i.pods i.reserved i.sysExcl <;> simp [Written.nothing]

/-- after a cpuset-mode round the BE quota is unset (or was already recovered by this agent). -/
theorem round_cpuset_mode_quota (f : FloatOps) (st st' : RState) (i : RoundIn) (ha : i.acts) (hq : i.quotaMode = false)
    (h : roundStep f st i = some st') : st'.quotaRecovered = true ∧ (st.quotaRecovered = false → st'.quota = -1) := by
  obtain ⟨h3, hn, hp, hm, hi⟩ := ha
  unfold roundStep at h
  have h1 : ¬ i.sloKind ≤ 1 := by omega
  have h2 : ¬ i.sloKind = 2 := by omega
  have h4 : (i.nodeNil || i.nPodMetas == 0 || !i.nodeMetric || i.infoMissing) = false := by simp [hn, hp, hm, hi]
  simp only [h1, h2, h4, hq, if_false, Bool.false_eq_true] at h
  split at h
  · cases h
  · simp only [Option.some.injEq] at h
    subst h
    unfold recoverQuota
    cases hr : st.quotaRecovered <;> simp [beUnsetQuota]

/-! ### non-vacuity -/

/-- 8 CPUs, 2 sockets × 2 cores × 2 threads (the layout of the package's unit test). -/
def demoProcs : List Proc :=
  [⟨0, 0, 0, 0⟩, ⟨1, 0, 0, 0⟩, ⟨2, 1, 0, 0⟩, ⟨3, 1, 0, 0⟩, ⟨4, 2, 1, 1⟩, ⟨5, 2, 1, 1⟩, ⟨6, 3, 1, 1⟩, ⟨7, 3, 1, 1⟩]

example : (cpusOf demoProcs).Nodup := by decide
example : policy 3 demoProcs = [0, 1, 4] := by decide
example : policy 9 demoProcs = [] := by decide
/-- LSR pod on 0,6; LSE pod on 7; budget 3 CPUs: BE gets 2,3,4 (never 7). -/
example : adjustCPUSet exactOps 3000 4 demoProcs [{ valid := true, qos := qLSR, cpus := [0, 6] }, { valid := true, qos := qLSE, cpus := [7], life := 2 }] [] [] = .write [2, 3, 4] := by
  decide
/-- every CPU protected: untouched, no panic. -/
example : adjustCPUSet exactOps 3000 2 [⟨0, 0, 0, 0⟩, ⟨1, 0, 0, 0⟩] [] [0, 1] [] = .untouched := by decide
example : adjustQuota exactOps 20000 1000000 80000 = .write 1800000 := by decide
example : budgetAgg exactOps 8000 65 (some 10) 500 3000 1000 1000 0 0 = 2200 := by decide

/-- the LSE pod on cpu 7 is in graceful termination (life 2): still protected, on both paths, under both kubelet policies. -/
def demoPods : List PodC := [{ valid := true, qos := qLSR, cpus := [0, 6] }, { valid := true, qos := qLSE, cpus := [7], life := 2 }]
example : calcBESet demoProcs demoPods [] [] = [0, 1, 2, 3, 4, 5, 6] := by decide
example : adjustFull exactOps kpStatic false 3000 4 demoProcs demoPods [] [] =
    some ⟨some [0, 1, 2, 3, 4, 5, 6], some [0, 1, 2, 3, 4, 5, 6], some [2, 3, 4]⟩ := by decide
example : adjustFull exactOps kpNone false 3000 4 demoProcs demoPods [] [] = some ⟨some [2, 3, 4], some [2, 3, 4], some [2, 3, 4]⟩ := by
  decide
example : adjustFull exactOps kpBad false 3000 4 demoProcs demoPods [] [] = some .nothing := by decide
example : Unamb demoPods := by
  intro c h q hq hv hc
  simp [demoPods, lseClaimed, qLSE, qLSR] at h hq
  rcases hq with rfl | rfl
  · simp at hc; omega
  · rfl
/-- ownership that is NOT unambiguous (cpu 7 named by an LSE and, later in the list, an LSR pod): the suppress path may hand out
    cpu 7 although the recover path protects it — the reason for hypothesis `Unamb`. -/
example : 7 ∈ cpusOf (lsrPool [{ valid := true, qos := qLSE, cpus := [7] }, { valid := true, qos := qLSR, cpus := [7] }] [] [] demoProcs) ∧
    7 ∉ calcBESet demoProcs [{ valid := true, qos := qLSE, cpus := [7] }, { valid := true, qos := qLSR, cpus := [7] }] [] [] := by decide
example : adjustQuotaPreFix exactOps 22 (-1) 3000 = .bypass ∧ adjustQuota exactOps 22 (-1) 3000 = .write 2200 := by decide
example : (⟨qBE, 0, 100⟩ : AppU).counted = true ∧ (⟨qBE, 1, 100⟩ : AppU).counted = false ∧ (⟨qLS, 1, 100⟩ : AppU).counted = true := by decide
example : (calcBESet demoProcs demoPods [] []).length = 7 ∧ targetCpus exactOps 3000 4 demoProcs.length = 3 := by decide
example : effSysExcl 3 [0, 1] = [] ∧ effSysExcl 1 [0, 1] = [0, 1] := by decide

/-- a two-round history on the demo node: cpuset mode (budget 3 CPUs, quota unset), then quota mode (budget 2.5 CPUs:
    quota 250000, cpuset handed back to every unprotected CPU). -/
def demoRound (quotaMode : Bool) (budget : Int) : RoundIn :=
  { sloKind := 3, quotaMode := quotaMode, nodeNil := false, nPodMetas := 2, nodeMetric := true, infoMissing := false, budget := budget,
    capMilli := 8000, procs := demoProcs, pods := demoPods, reserved := [], sysExcl := [], topoNil := false, kp := kpNone }
example : (demoRound false 3000).acts := by unfold RoundIn.acts; decide
example : roundStep exactOps ⟨[0, 1, 2, 3], [0, 1, 2, 3], [0, 1, 2, 3], 400000, false⟩ (demoRound false 3000) =
    some ⟨[2, 3, 4], [2, 3, 4], [2, 3, 4], -1, true⟩ := by decide
example : roundStep exactOps ⟨[2, 3, 4], [2, 3, 4], [2, 3, 4], -1, true⟩ (demoRound true 2500) =
    some ⟨[0, 1, 2, 3, 4, 5, 6], [0, 1, 2, 3, 4, 5, 6], [0, 1, 2, 3, 4, 5, 6], 250000, false⟩ := by decide


/-! ### 16. the executor between the rounds and the files: cache, outside writers, late files (`roundStepX`) -/

/-- the cache-free state a file-level state projects to: every level holds the BE root's set. -/
def XState.proj (st : XState) (cur : Int) : RState :=
  ⟨(rootOf st).getD [], (rootOf st).getD [], (rootOf st).getD [], cur, st.quotaRecovered⟩

theorem recoverQuotaX_refines (sh : ExecShape) (hr : sh.recoverQuotaCacheable = false) (st : XState) (r : RState) (cur : Int)
    (hcur : st.quota.content = some cur) (hq : r.quota = cur) (hf : r.quotaRecovered = st.quotaRecovered) :
    (recoverQuotaX sh st).quota.content = some (recoverQuota r).quota ∧
    (recoverQuotaX sh st).quotaRecovered = (recoverQuota r).quotaRecovered ∧
    (recoverQuotaX sh st).quota.cache = st.quota.cache := by
  unfold recoverQuotaX recoverQuota
  cases hb : st.quotaRecovered with
  | true =>
    rw [hb] at hf
    simp [hcur, hq, hf, hb]
  | false =>
    rw [hb] at hf
    simp only [hf, Bool.false_eq_true, if_false, hr]
    exact ⟨execWrite_direct_content _ _ _ cur hcur, trivial, execWrite_direct_cache _ _ _⟩

/-- **the quota file does not depend on the executor cache**: with direct quota writes on both paths (the source), the
    content of cpu.cfs_quota_us and the agent's recovered flag after a round are those of the cache-free model `roundStep`,
    for EVERY cache state and every content an outside writer may have left in the file; the quota entry of the cache is
    never created.  So every quota theorem about `roundStep` (round_quota_mode, round_cpuset_mode_quota, round_disabled)
    speaks about the file. -/
theorem quota_file_independent_of_cache (f : FloatOps) (sh : ExecShape) (ha : sh.adjustQuotaCacheable = false)
    (hr : sh.recoverQuotaCacheable = false) (st : XState) (cur : Int) (hcur : st.quota.content = some cur) (i : RoundIn) :
    ∃ st' r', roundStepX f sh st i = some st' ∧ roundStep f (st.proj cur) i = some r' ∧
      st'.quota.content = some r'.quota ∧ st'.quotaRecovered = r'.quotaRecovered ∧ st'.quota.cache = st.quota.cache := by
  unfold roundStepX roundStep
  split
  · exact ⟨_, _, rfl, rfl, hcur, rfl, rfl⟩
  · split
    · refine ⟨_, _, rfl, rfl, ?_⟩
      obtain ⟨h1, h2⟩ := recoverCpusetX_quota sh 2 (recoverQuotaX sh st) i
      obtain ⟨g1, g2, g3⟩ := recoverQuotaX_refines sh hr st (st.proj cur) cur hcur rfl rfl
      rw [h1, h2]
      have e1 : (recoverCpusetAll (recoverQuota (st.proj cur)) i).quota = (recoverQuota (st.proj cur)).quota := by
        unfold recoverCpusetAll; split <;> rfl
      have e2 : (recoverCpusetAll (recoverQuota (st.proj cur)) i).quotaRecovered = (recoverQuota (st.proj cur)).quotaRecovered := by
        unfold recoverCpusetAll; split <;> rfl
      rw [e1, e2]
      exact ⟨g1, g2, g3⟩
    · split
      · exact ⟨_, _, rfl, rfl, hcur, rfl, rfl⟩
      · split
        · refine ⟨_, _, rfl, rfl, ?_⟩
          obtain ⟨h1, h2⟩ := recoverCpusetX_quota sh 2 { (adjustQuotaX f sh st i) with quotaRecovered := false } i
          rw [h1, h2]
          have e1 : ∀ s : RState, (recoverCpusetAll s i).quota = s.quota := by
            intro s; unfold recoverCpusetAll; split <;> rfl
          have e2 : ∀ s : RState, (recoverCpusetAll s i).quotaRecovered = s.quotaRecovered := by
            intro s; unfold recoverCpusetAll; split <;> rfl
          rw [e1, e2]
          unfold adjustQuotaX
          simp only [hcur, XState.proj]
          cases adjustQuota f i.budget cur i.capMilli with
          | bypass => exact ⟨hcur, trivial, rfl⟩
          | write q =>
            simp only [ha]
            exact ⟨execWrite_direct_content _ _ _ cur hcur, trivial, execWrite_direct_cache _ _ _⟩
        · -- cpuset mode
          have hp := adjustFull_no_panic f i.kp i.topoNil i.budget ((rootOf st).getD []).length i.procs i.pods i.reserved i.sysExcl
          cases hro : rootOf st with
          | none =>
            simp only [adjustCpusetX, hro, XState.proj, Option.getD_none] at hp ⊢
            cases hw : adjustFull f i.kp i.topoNil i.budget ([] : List Int).length i.procs i.pods i.reserved i.sysExcl with
            | none => exact absurd hw hp
            | some w =>
              refine ⟨_, _, rfl, rfl, ?_⟩
              exact recoverQuotaX_refines sh hr st _ cur hcur rfl rfl
          | some old =>
            simp only [hro, Option.getD_some] at hp
            cases hw : adjustFull f i.kp i.topoNil i.budget old.length i.procs i.pods i.reserved i.sysExcl with
            | none => exact absurd hw hp
            | some w =>
              have hx : ∃ st1, adjustCpusetX f sh st i = some st1 := by
                unfold adjustCpusetX
                simp only [hro, hw]
                split
                · exact ⟨_, rfl⟩
                · split <;> exact ⟨_, rfl⟩
              obtain ⟨st1, hst1⟩ := hx
              obtain ⟨q1, q2⟩ := adjustCpusetX_quota f sh st st1 i hst1
              simp only [hst1, XState.proj, hro, Option.getD_some, hw]
              refine ⟨_, _, rfl, rfl, ?_⟩
              have := recoverQuotaX_refines sh hr st1
                { root := w.root.getD old, pod := w.pod.getD old, cont := w.cont.getD old, quota := cur, quotaRecovered := st.quotaRecovered }
                cur (by rw [q1]; exact hcur) rfl (by rw [q2])
              rw [q1] at this
              exact this

/-- **quota_round_writes_target_regardless_of_cache**: with the direct quota writes of the source, an acting quota-mode round
    leaves in cpu.cfs_quota_us — whatever the executor cache holds and whatever an outside writer left in the file — a finite
    quota that is the statement's `max(budget × 100, 2000)`; from an unset file always exactly that; otherwise possibly the
    old value inside the 1 % band or one 10 % step above it. -/
theorem quota_round_writes_target_regardless_of_cache (f : FloatOps) (hf : FloatOK f) (sh : ExecShape)
    (ha : sh.adjustQuotaCacheable = false) (hr : sh.recoverQuotaCacheable = false)
    (st : XState) (cur : Int) (hcur : st.quota.content = some cur) (hcur' : 0 ≤ cur ∨ cur = -1)
    (i : RoundIn) (hact : i.acts) (hq : i.quotaMode = true) (hc : 1 ≤ coresOf i.capMilli) :
    ∃ st' q, roundStepX f sh st i = some st' ∧ st'.quota.content = some q ∧ q ≠ -1 ∧
      (cur = -1 → q = max (i.budget * 100) 2000) ∧
      (q = max (i.budget * 100) 2000 ∨
        (q = cur ∧ cur - max (i.budget * 100) 2000 < coresOf i.capMilli * 1000 ∧ max (i.budget * 100) 2000 - cur < coresOf i.capMilli * 1000) ∨
        (q = cur + coresOf i.capMilli * 10000 ∧ q < max (i.budget * 100) 2000)) := by
  obtain ⟨st', r', h1, h2, h3, _, _⟩ := quota_file_independent_of_cache f sh ha hr st cur hcur i
  obtain ⟨r'', g1, g2, g3, g4, _⟩ := round_quota_mode f hf (st.proj cur) i hact hq hc hcur'
  rw [h2] at g1
  cases g1
  exact ⟨st', r'.quota, h1, h3, g2, g3, g4⟩

/-- the shape of seeded change C10-e: adjustByCfsQuota through the cacheable update, the recover path still direct. -/
def cacheableQuotaShape : ExecShape := ⟨true, false, true, false⟩

def runRounds (sh : ExecShape) (st : XState) : List RoundIn → Option XState
  | [] => some st
  | i :: is => (roundStepX exactOps sh st i).bind (fun s => runRounds sh s is)

def demoX : XState := ⟨[⟨0, true, ⟨some [0, 1, 2, 3], none⟩⟩, ⟨1, true, ⟨some [0, 1, 2, 3], none⟩⟩], ⟨some (-1), none⟩, false⟩

/-- the cacheable shape breaks the quota clause: cfsQuota (writes 250000, remembered) -> cpuset (the recover path writes −1
    directly, the cache still says 250000) -> cfsQuota with the SAME budget: the write is suppressed, BE stays unlimited.
    The source's shape ends the same history on 250000. -/
theorem quota_cacheable_shape_counterexample :
    (runRounds cacheableQuotaShape demoX [demoRound true 2500, demoRound false 2500, demoRound true 2500]).map (·.quota.content)
      = some (some (-1)) ∧
    (runRounds codeShape demoX [demoRound true 2500, demoRound false 2500, demoRound true 2500]).map (·.quota.content)
      = some (some 250000) := by decide

/-- same with an outside writer instead of the policy flip: two equal-target quota rounds, the file reset to −1 in between. -/
theorem quota_cacheable_outside_reset_counterexample :
    ((roundStepX exactOps cacheableQuotaShape demoX (demoRound true 2500)).bind
        (fun s => roundStepX exactOps cacheableQuotaShape (extQuota s (-1)) (demoRound true 2500))).map (·.quota.content) = some (some (-1)) ∧
    ((roundStepX exactOps codeShape demoX (demoRound true 2500)).bind
        (fun s => roundStepX exactOps codeShape (extQuota s (-1)) (demoRound true 2500))).map (·.quota.content) = some (some 250000) := by decide

/-- **cpuset_round_files_get_target**: cpuset mode, kubelet policy none, the selection is `cs`: every BE cgroup directory
    that exists, has its cpuset.cpus file and whose cache entry (if any) is truthful ends the round holding exactly the
    selection — in particular a file the executor has never written (no entry: a cgroup that appeared since the last round,
    or whose earlier write attempts failed with the ignored "not exist" error). -/
theorem cpuset_round_files_get_target (f : FloatOps) (sh : ExecShape) (hcb : sh.cpusetCacheable = true) (hci : sh.cacheOnIgnored = false)
    (st : XState) (i : RoundIn) (hact : i.acts) (hq : i.quotaMode = false) (hk : i.kp = kpNone) (ht : i.topoNil = false)
    (old cs : List Int) (hro : rootOf st = some old)
    (hsel : adjustCPUSet f i.budget old.length i.procs i.pods i.reserved i.sysExcl = .write cs) :
    ∃ st', roundStepX f sh st i = some st' ∧
      ∀ (k : Nat) (x : XF), st.files[k]? = some x → x.listed = true → x.f.content.isSome → CacheOK x.f →
        ∃ x' : XF, st'.files[k]? = some x' ∧ x'.f.content = some (canon cs) ∧ x'.level = x.level ∧ CacheOK x'.f := by
  obtain ⟨h3, hn, hp, hm, hi⟩ := hact
  have h1 : ¬ i.sloKind ≤ 1 := by omega
  have h2 : ¬ i.sloKind = 2 := by omega
  have h4 : (i.nodeNil || i.nPodMetas == 0 || !i.nodeMetric || i.infoMissing) = false := by simp [hn, hp, hm, hi]
  have hns : ¬ (kpNone = kpStatic) := by decide
  unfold roundStepX
  simp only [h1, h2, h4, hq, if_false, Bool.false_eq_true, adjustCpusetX, hro, hk, ht, adjustFull_none, hsel, hns]
  refine ⟨_, rfl, ?_⟩
  intro k x hx hl hcont hc
  have hfiles : (recoverQuotaX sh { st with files := writeCpusets sh (fun _ => some cs) (writeCpusets sh (fun _ => some (old ++ cs)) st.files) }).files
      = writeCpusets sh (fun _ => some cs) (writeCpusets sh (fun _ => some (old ++ cs)) st.files) := by
    unfold recoverQuotaX; split <;> rfl
  rw [hfiles, writeCpusets_getElem?, writeCpusets_getElem?, hx]
  refine ⟨_, rfl, ?_, ?_, ?_⟩
  · apply writeOne_target sh _ _ cs
    · rw [writeOne_listed]; exact hl
    · rfl
    · exact writeOne_content_some sh _ x hcont
    · exact writeOne_cacheOK sh hcb hci _ x hc
  · rw [writeOne_level, writeOne_level]
  · exact writeOne_cacheOK sh hcb hci _ _ (writeOne_cacheOK sh hcb hci _ x hc)

/-- **recover_round_files_get_recover_set**: a quota-mode round hands every existing BE cgroup file (all three levels) whose
    cache entry is truthful — or absent — the recover set `calcBESet` (no reserved / system-exclusive / LSE-claimed CPU:
    `recover_sound`). -/
theorem recover_round_files_get_recover_set (f : FloatOps) (sh : ExecShape) (hcb : sh.cpusetCacheable = true) (hci : sh.cacheOnIgnored = false)
    (st : XState) (i : RoundIn) (hact : i.acts) (hq : i.quotaMode = true) (ht : i.topoNil = false) :
    ∃ st', roundStepX f sh st i = some st' ∧
      ∀ (k : Nat) (x : XF), st.files[k]? = some x → x.listed = true → x.level ≤ 2 → x.f.content.isSome → CacheOK x.f →
        ∃ x' : XF, st'.files[k]? = some x' ∧ x'.f.content = some (canon (calcBESet i.procs i.pods i.reserved i.sysExcl)) ∧ CacheOK x'.f := by
  obtain ⟨h3, hn, hp, hm, hi⟩ := hact
  have h1 : ¬ i.sloKind ≤ 1 := by omega
  have h2 : ¬ i.sloKind = 2 := by omega
  have h4 : (i.nodeNil || i.nPodMetas == 0 || !i.nodeMetric || i.infoMissing) = false := by simp [hn, hp, hm, hi]
  unfold roundStepX
  simp only [h1, h2, h4, hq, if_false, if_true, Bool.false_eq_true]
  simp only [recoverCpusetX, hi, ht, Bool.or_self, if_false, Bool.false_eq_true]
  refine ⟨_, rfl, ?_⟩
  intro k x hx hl hlev hcont hc
  have hfiles : (adjustQuotaX f sh st i).files = st.files := by
    unfold adjustQuotaX; split
    · rfl
    · split <;> rfl
  simp only [hfiles]
  rw [writeCpusets_getElem?, hx]
  refine ⟨_, rfl, ?_, ?_⟩
  · apply writeOne_target sh _ _ _ hl
    · simp [hlev]
    · exact hcont
    · exact hc
  · exact writeOne_cacheOK sh hcb hci _ x hc

/-- the shape of seeded change C10-f breaks the cpuset clause on a late file: the write attempt on the missing file is
    remembered as done, the file appears holding 0-3 and the next round with the same target [0, 1] leaves it alone;
    with the Set after the successful write only (the source) the same history ends on [0, 1] (`late_file_gets_target`). -/
theorem cache_on_ignored_counterexample :
    (execWrite true true { execWrite true true (⟨none, none⟩ : XFile (List Int)) [0, 1] with content := some [0, 1, 2, 3] } [0, 1]).content
      = some [0, 1, 2, 3] ∧
    (execWrite true false { execWrite true false (⟨none, none⟩ : XFile (List Int)) [0, 1] with content := some [0, 1, 2, 3] } [0, 1]).content
      = some [0, 1] := by decide

/-- what the cacheable cpuset batch of the SOURCE does not give: a file the agent has set and an outside writer widens
    afterwards keeps the wide content in the next equal-target round (the cache suppresses the write) and gets it back only
    when the force-update interval has passed.  Full file-level statement, false for the source:
      ∀ histories with outside writers, after a cpuset-mode round every existing BE cgroup file holds the selection.
    Proved part: `cpuset_round_files_get_target` under `CacheOK` (no outside writer since the agent's last write of that
    value) and `execWrite_stale_rewritten` (after 60 s). -/
theorem cacheable_outside_widen_counterexample :
    let x1 := execWrite codeShape.cpusetCacheable codeShape.cacheOnIgnored (⟨some [0, 1, 2, 3], none⟩ : XFile (List Int)) [0, 1]
    let x2 : XFile (List Int) := { x1 with content := some [0, 1, 2, 3] }
    x1.content = some [0, 1] ∧
    (execWrite codeShape.cpusetCacheable codeShape.cacheOnIgnored x2 [0, 1]).content = some [0, 1, 2, 3] ∧
    (execWrite codeShape.cpusetCacheable codeShape.cacheOnIgnored x2.age [0, 1]).content = some [0, 1] := by decide

/-- an IGNORED write error (cgroup directory / file missing) leaves the executor state — the cache in particular — exactly as
    it was (the source's updateByCache returns before the Set; tie `tie_cache_set_after_write`). -/
theorem ignored_error_leaves_cache (c : Bool) (x : XFile (List Int)) (v : List Int) (h : x.content = none) :
    execWrite c codeShape.cacheOnIgnored x v = x := execWrite_missing_untouched c x v h

/-- a BE cgroup file that is missing in one round and appears before the next with ANY content gets the (same) target then,
    unless the executor was already suppressing that very value for the path. -/
theorem late_cgroup_file_gets_target (x : XFile (List Int)) (v w : List Int) (hmiss : x.content = none) (hn : needUpdate x v = true) :
    (execWrite true codeShape.cacheOnIgnored { execWrite true codeShape.cacheOnIgnored x v with content := some w } v).content = some v :=
  late_file_gets_target x v w hmiss hn

/-- once ResourceForceUpdateSeconds have passed the cache suppresses nothing: the file gets the target whatever it holds. -/
theorem stale_entry_rewritten (coi : Bool) (x : XFile (List Int)) (v w c : List Int) (b : Bool) (h : x.content = some w)
    (hs : x.cache = some (c, b)) : (execWrite true coi x.age v).content = some v :=
  execWrite_stale_rewritten coi x.age v w c (by rw [age_content]; exact h) (age_stale x c b hs)

/-- every round of the source's shape keeps every cpuset file's cache entry equal to the file (so, without outside writers,
    the hypotheses `CacheOK` of the two file-level theorems above hold along the whole history). -/
theorem rounds_keep_cache_truthful (f : FloatOps) (st st' : XState) (i : RoundIn) (hst : roundStepX f codeShape st i = some st')
    (h : FilesOK st) : FilesOK st' := roundStepX_filesOK f codeShape rfl rfl st st' i hst h

example : FilesOK demoX := by
  intro x hx c b hc
  simp only [demoX, List.mem_cons, List.mem_nil_iff, or_false] at hx
  rcases hx with rfl | rfl <;> cases hc


theorem adjustFull_static_write (f : FloatOps) (b : Int) (oldN : Nat) (procs : List Proc) (pods : List PodC) (res sys cs : List Int)
    (hsel : adjustCPUSet f b oldN procs pods res sys = .write cs) :
    adjustFull f kpStatic false b oldN procs pods res sys =
      some ⟨some (calcBESet procs pods res sys), some (calcBESet procs pods res sys), some cs⟩ := by
  unfold adjustFull
  simp only [Bool.false_eq_true, if_false]
  split
  · rename_i h0
    rw [none_eligible_untouched f b oldN procs pods res sys h0] at hsel
    cases hsel
  · rw [hsel]
    have : ¬ (kpStatic = kpBad) := by decide
    simp [this]

/-- **static_round_files**: cpuset mode under the static kubelet policy with selection `cs`: every existing BE cgroup file with
    a truthful (or no) cache entry ends the round on the recover set (BE root and pod level) resp. on the selection
    (container level) — late container / pod cgroups included. -/
theorem static_round_files (f : FloatOps) (sh : ExecShape) (hcb : sh.cpusetCacheable = true) (hci : sh.cacheOnIgnored = false)
    (st : XState) (i : RoundIn) (hact : i.acts) (hq : i.quotaMode = false) (hk : i.kp = kpStatic) (ht : i.topoNil = false)
    (old cs : List Int) (hro : rootOf st = some old)
    (hsel : adjustCPUSet f i.budget old.length i.procs i.pods i.reserved i.sysExcl = .write cs) :
    ∃ st', roundStepX f sh st i = some st' ∧
      ∀ (k : Nat) (x : XF), st.files[k]? = some x → x.listed = true → x.f.content.isSome → CacheOK x.f →
        ∃ x' : XF, st'.files[k]? = some x' ∧ CacheOK x'.f ∧
          (x.level ≤ 1 → x'.f.content = some (canon (calcBESet i.procs i.pods i.reserved i.sysExcl))) ∧
          (x.level = 2 → x'.f.content = some (canon cs)) := by
  obtain ⟨h3, hn, hp, hm, hi⟩ := hact
  have h1 : ¬ i.sloKind ≤ 1 := by omega
  have h2 : ¬ i.sloKind = 2 := by omega
  have h4 : (i.nodeNil || i.nPodMetas == 0 || !i.nodeMetric || i.infoMissing) = false := by simp [hn, hp, hm, hi]
  unfold roundStepX
  simp only [h1, h2, h4, hq, if_false, Bool.false_eq_true, adjustCpusetX, hro, hk, ht, adjustFull_static_write f _ _ _ _ _ _ cs hsel, if_true]
  refine ⟨_, rfl, ?_⟩
  intro k x hx hl hcont hc
  rw [recoverQuotaX_files]
  simp only []
  rw [writeCpusets_getElem?, writeCpusets_getElem?, hx]
  refine ⟨_, rfl, ?_, ?_, ?_⟩
  · exact writeOne_cacheOK sh hcb hci _ _ (writeOne_cacheOK sh hcb hci _ x hc)
  · intro hlev
    have hne : ¬ (x.level = 2) := by omega
    rw [writeOne_none sh (fun l => if l = 2 then some cs else none)]
    · apply writeOne_target sh _ _ _ hl
      · simp [hlev]
      · exact hcont
      · exact hc
    · rw [writeOne_level]; simp [hne]
  · intro hlev
    have hne : ¬ (x.level ≤ 1) := by omega
    rw [writeOne_none sh (fun l => if l ≤ 1 then some (calcBESet i.procs i.pods i.reserved i.sysExcl) else none) x (by simp [hne])]
    apply writeOne_target sh _ _ _ hl
    · simp [hlev]
    · exact hcont
    · exact hc

/-! ### 17. the two node-annotation sources are read independently (extension round 4) -/

/-- every shape of the system-QoS annotation other than a well-formed exclusive cpuset (1 exclusive by default,
    2 `cpusetExclusive: true`) protects nothing: 0 absent, 3 `cpusetExclusive: false`, 4 malformed JSON, 5 exclusive cpuset
    string rejected by cpuset.Parse ("6, 7", "a", "0-"), 6 exclusive reversed range ("3-1": parses to the empty set),
    7 `cpusetExclusive: false` with a rejected string; likewise every reservation shape other than 1. -/
theorem anno_shapes_unreadable (sk rk : Int) (cpus : List Int) :
    ((sk ≠ 1 ∧ sk ≠ 2) → effSysExcl sk cpus = []) ∧ (rk ≠ 1 → effReserved rk cpus = []) := by
  refine ⟨fun h => ?_, fun h => ?_⟩
  · simp [effSysExcl, h.1, h.2]
  · simp [effReserved, h]

/-- **an unreadable source says nothing about the other one**: with an unreadable (or shared, or absent) system-QoS
    annotation both cpuset paths behave exactly as without that annotation — in particular a well-formed node reservation
    still protects its CPUs — and symmetrically for an unreadable reservation. -/
theorem unreadable_source_as_absent (f : FloatOps) (kp : Int) (topoNil : Bool) (b : Int) (oldN : Nat) (procs : List Proc)
    (pods : List PodC) (rk sk : Int) (rc sc : List Int) :
    ((sk ≠ 1 ∧ sk ≠ 2) →
      adjustFull f kp topoNil b oldN procs pods (effReserved rk rc) (effSysExcl sk sc) =
        adjustFull f kp topoNil b oldN procs pods (effReserved rk rc) (effSysExcl 0 []) ∧
      calcBESet procs pods (effReserved rk rc) (effSysExcl sk sc) = calcBESet procs pods (effReserved rk rc) (effSysExcl 0 [])) ∧
    (rk ≠ 1 →
      adjustFull f kp topoNil b oldN procs pods (effReserved rk rc) (effSysExcl sk sc) =
        adjustFull f kp topoNil b oldN procs pods (effReserved 0 []) (effSysExcl sk sc) ∧
      calcBESet procs pods (effReserved rk rc) (effSysExcl sk sc) = calcBESet procs pods (effReserved 0 []) (effSysExcl sk sc)) := by
  refine ⟨fun h => ?_, fun h => ?_⟩
  · rw [(anno_shapes_unreadable sk rk sc).1 h]; exact ⟨rfl, rfl⟩
  · rw [(anno_shapes_unreadable sk rk rc).2 h]; exact ⟨rfl, rfl⟩

/-- **the protected set is the union of every well-formed source**, on both paths and at every cgroup level: whatever
    the other annotation looks like, no CPU of a well-formed `reservedCPUs` and no CPU of a well-formed exclusive
    system-QoS cpuset is written by adjustByCPUSet (any kubelet policy, any level) or offered by calcBECPUSet. -/
theorem wellformed_sources_protect (f : FloatOps) (hf : FloatOK f) (kp : Int) (topoNil : Bool) (b : Int) (oldN : Nat)
    (procs : List Proc) (pods : List PodC) (rk sk : Int) (rc sc : List Int) (hnd : (cpusOf procs).Nodup) :
    (∀ c ∈ calcBESet procs pods (effReserved rk rc) (effSysExcl sk sc),
        (rk = 1 → c ∉ rc) ∧ ((sk = 1 ∨ sk = 2) → c ∉ sc)) ∧
    (∀ w, adjustFull f kp topoNil b oldN procs pods (effReserved rk rc) (effSysExcl sk sc) = some w →
      ∀ cs, (w.root = some cs ∨ w.pod = some cs ∨ w.cont = some cs) → ∀ c ∈ cs,
        (rk = 1 → c ∉ rc) ∧ ((sk = 1 ∨ sk = 2) → c ∉ sc)) := by
  have hres : ∀ c, c ∉ effReserved rk rc → (rk = 1 → c ∉ rc) := by
    intro c h hk; simpa [effReserved, hk] using h
  have hsys : ∀ c, c ∉ effSysExcl sk sc → ((sk = 1 ∨ sk = 2) → c ∉ sc) := by
    intro c h hk
    rcases hk with hk | hk <;> simpa [effSysExcl, hk] using h
  have hrec : ∀ c ∈ calcBESet procs pods (effReserved rk rc) (effSysExcl sk sc),
      (rk = 1 → c ∉ rc) ∧ ((sk = 1 ∨ sk = 2) → c ∉ sc) := by
    intro c hc
    have := ((recover_sound procs pods _ _ hnd).2 c).1 hc
    exact ⟨hres c this.2.1, hsys c this.2.2.1⟩
  have hsel : ∀ cs, adjustCPUSet f b oldN procs pods (effReserved rk rc) (effSysExcl sk sc) = .write cs → ∀ c ∈ cs,
      (rk = 1 → c ∉ rc) ∧ ((sk = 1 ∨ sk = 2) → c ∉ sc) := by
    intro cs hw c hc
    have := (written_sound f hf b oldN procs pods _ _ cs hnd hw).2.1 c hc
    exact ⟨hres c this.2.1, hsys c this.2.2.1⟩
  refine ⟨hrec, ?_⟩
  intro w hw cs hlev c hc
  unfold adjustFull at hw
  split at hw
  · cases hw; simp [Written.nothing] at hlev
  · split at hw
    · cases hw; simp [Written.nothing] at hlev
    · split at hw
      · cases hw
      · split at hw
        · cases hw
          simp only [Option.some.injEq, reduceCtorEq, or_false, or_self] at hlev
          subst hlev; exact hrec c hc
        · cases hw; simp [Written.nothing] at hlev
      · rename_i cs' hcs
        split at hw
        · cases hw; simp [Written.nothing] at hlev
        · split at hw
          · cases hw
            simp only [Option.some.injEq] at hlev
            rcases hlev with h | h | h
            · subst h; exact hrec c hc
            · subst h; exact hrec c hc
            · subst h; exact hsel _ hcs c hc
          · cases hw
            simp only [Option.some.injEq, or_self] at hlev
            subst hlev; exact hsel _ hcs c hc

/-- the seeded shape "one helper collects both sources and RETURNS on the first unreadable one" (system QoS first):
    an unreadable system-QoS cpuset then also drops the reservation. -/
def foldedEarlyReturn (rk : Int) (rc : List Int) (sk : Int) (sc : List Int) : List Int × List Int :=
  if sk == 5 then ([], []) else (if rk == 1 then rc else [], effSysExcl sk sc)

/-- 8 CPUs, one socket, 4 cores × 2 threads (adjacent siblings). -/
def demo8 : List Proc := [⟨0, 0, 0, 0⟩, ⟨1, 0, 0, 0⟩, ⟨2, 1, 0, 0⟩, ⟨3, 1, 0, 0⟩, ⟨4, 2, 0, 0⟩, ⟨5, 2, 0, 0⟩, ⟨6, 3, 0, 0⟩, ⟨7, 3, 0, 0⟩]

/-- … and is NOT what the statement asks for: 8 CPUs, reservation `0-1` (well-formed), exclusive system-QoS cpuset
    `"6, 7"` (rejected): the code (model) hands BE 2-7 on the recover path and 2-5 for a 4-CPU budget, the folded helper
    0-7 and a selection made of the reserved CPUs 0 and 1 (and 2, 3). -/
theorem folded_early_return_counterexample :
    calcBESet demo8 [] (effReserved 1 [0, 1]) (effSysExcl 5 [6, 7]) = [2, 3, 4, 5, 6, 7] ∧
    adjustCPUSet exactOps 4000 8 demo8 [] (effReserved 1 [0, 1]) (effSysExcl 5 [6, 7]) = .write [2, 3, 4, 5] ∧
    calcBESet demo8 [] (foldedEarlyReturn 1 [0, 1] 5 [6, 7]).1 (foldedEarlyReturn 1 [0, 1] 5 [6, 7]).2 = [0, 1, 2, 3, 4, 5, 6, 7] ∧
    adjustCPUSet exactOps 4000 8 demo8 [] (foldedEarlyReturn 1 [0, 1] 5 [6, 7]).1 (foldedEarlyReturn 1 [0, 1] 5 [6, 7]).2 =
      .write [0, 1, 2, 3] := by
  decide

/-- the directed example of the harness's annotation cells: reservation well-formed, system-QoS cpuset rejected / reversed /
    shared-and-rejected: the reservation still protects 0 and 1, the system-QoS CPUs 6 and 7 are NOT protected. -/
example : calcBESet demo8 [] (effReserved 1 [0, 1]) (effSysExcl 6 [6, 7]) = [2, 3, 4, 5, 6, 7] ∧
    calcBESet demo8 [] (effReserved 1 [0, 1]) (effSysExcl 7 [6, 7]) = [2, 3, 4, 5, 6, 7] ∧
    calcBESet demo8 [] (effReserved 2 [0, 1]) (effSysExcl 2 [6, 7]) = [0, 1, 2, 3, 4, 5] ∧
    calcBESet demo8 [] (effReserved 1 [0, 1]) (effSysExcl 1 [6, 7]) = [2, 3, 4, 5] := by decide

/-! ### 17. the applyPolicy of the node-reservation annotation (ext6)

`helpers.GetNodeResourceReserved` is the statement's "system — at least the node reservation" term.  The annotation can
carry `applyPolicy: ReservedCPUsOnly`, which tells the SCHEDULER not to trim the node allocatable; the cores are reserved
all the same, so the koordlet budget must subtract them under every policy. -/

/-- the reserved amount does not depend on the policy spelling. -/
theorem anno_policy_irrelevant (p₁ p₂ kind resMilli nCpus : Int) :
    annoReservedP p₁ kind resMilli nCpus = annoReservedP p₂ kind resMilli nCpus := rfl

/-- the node reservation is at least the annotation's amount (and never negative). -/
theorem nodeReserved_ge_anno (cap alloc anno : Int) :
    anno ≤ nodeReserved cap alloc anno ∧ 0 ≤ nodeReserved cap alloc anno := by
  unfold nodeReserved; simp only []; split <;> split <;> omega

/-- under EVERY applyPolicy the (unfloored) budget leaves out at least the annotation's amount, up to the one milli-CPU of
    the float round trip: budget <= capacity x threshold - non-BE pods - non-BE host apps - (annotation amount - 1). -/
theorem budget_reserves_annotation (f : FloatOps) (hf : FloatOK f) (p cap alloc kind resMilli nCpus thr node : Int)
    (pods : List PodU) (apps : List AppU) (hc : 0 ≤ cap) (ht : 0 ≤ thr) :
    budget f cap alloc (annoReservedP p kind resMilli nCpus) thr none node pods apps
      ≤ cap * thr / 100 - podsCounted pods - appsCounted apps - (annoReserved kind resMilli nCpus - 1) := by
  unfold budget
  rw [budget_eq f cap thr none _ _ _ _ _ _ hc ht]
  simp only []
  have hR := nodeReserved_ge_anno cap alloc (annoReservedP p kind resMilli nCpus)
  have hs := (system_term f hf node (podsAll pods) (appsAll apps) _ hR.2).1
  have : annoReservedP p kind resMilli nCpus = annoReserved kind resMilli nCpus := rfl
  omega

/-- the seeded shape "the annotation helper returns nothing under ReservedCPUsOnly" … -/
def annoReservedPolicyAware (policy kind resMilli nCpus : Int) : Int :=
  if policy == 3 then 0 else annoReserved kind resMilli nCpus

/-- … is NOT what the statement asks for: 11 CPUs, kubelet reservation 500m, annotation `reservedCPUs: 0-3` with
    `applyPolicy: ReservedCPUsOnly`, system usage 1 CPU, threshold 65 %: budget 6150m instead of 3150m. -/
theorem policy_aware_reservation_counterexample :
    ¬ (∀ p cap alloc kind resMilli nCpus thr node : Int, 0 ≤ cap → 0 ≤ thr →
        budget exactOps cap alloc (annoReservedPolicyAware p kind resMilli nCpus) thr none node [] []
          ≤ cap * thr / 100 - (annoReserved kind resMilli nCpus - 1)) := by
  intro h
  exact absurd (h 3 11000 10500 2 100 4 65 1000 (by decide) (by decide)) (by decide)

/-- the model on that input, for each of the five policy spellings: 3150m. -/
example : ∀ p ∈ [0, 1, 2, 3, 4], budget exactOps 11000 10500 (annoReservedP p 2 100 4) 65 none 1000 [] [] = 3150 := by decide

end KoordVerif.C10
