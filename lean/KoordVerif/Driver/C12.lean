import KoordVerif.Common.Proto
import KoordVerif.Model.C12
import KoordVerif.Model.C12Static
import KoordVerif.Model.C12Adjust
import KoordVerif.Model.C12Env
import KoordVerif.Model.C12Parse
import KoordVerif.Model.C12Kind
import KoordVerif.Model.C12Rule
/-
Driver for C12.  One case = one history on one cgroup tree:
  tree <res> <v2> <n> <parent_0..parent_{n-1}> <old_0..old_{n-1}>
      res: 0 cpuset.cpus 1 cpu.cfs_quota_us 2 memory.min 3 memory.low 4 memory.high 5 memory.limit_in_bytes
      values: cpuset = bitmask; limits = integer, -1 unlimited.  (parents are not used by the executor.)
  batch <expired> <L> <len_0..len_{L-1}> (<node> <tgt>)*      tgt -2 = a string IsValid rejects
  batchk <expired> <L> <len_0..len_{L-1}> (<node> <tgt> <kind>)*   the same with the kind of every updater OBJECT:
      kind 1 = mergeable (mergeUpdateFunc set), 0 = not mergeable (exact write in the top-down sweep); harnesses
      `rulecb`, `normcb`, `cgreconcile` (the batches the real callers build) and `kinds`
  rm <node>            the cgroup directory of <node> does not exist from now on (no output)
  mk <node> <value>    the runtime creates the directory of <node> with this content (no output)
Output per batch: `w <node> <value>` for every file write in order, then `st <v_0..v_{n-1}>`
(a missing directory keeps its last value in `st`).
The ResourceCache persists across the batches of a case.

Second kind of case (harness `nonepolicy`, applyCPUSetWithNonePolicy on the BE cpuset dirs):
  be <n> <parent_0..parent_{n-1}> <old_0..old_{n-1}>              (bitmasks)
  none <expired> <cpus> <oldCPUSet> <m> <path_0..path_{m-1}>      paths = dirs in walk order
Output per `none` line: `w <node> <value>` …, then `st …`.
  sup <kind> <expired> <cpus> <oldCPUSet> <rec> <m> <path_0..path_{m-1}>
      applyBESuppressCPUSet; kind: 0 NodeTopo nil, 1 policy annotation unparsable, 2 static, 3 none/other;
      rec = calcBECPUSet result (bitmask), -1 = it failed; dir depths are derived from the `be` parents.
Output per `sup` line: as for `none`, with a line `err` before `st` for kinds 0 and 1.
  adj <kind> <expired> <cpus> <rec> <m> <path_0..path_{m-1}>
      adjustByCPUSet (harness `adjust`): as `sup`, but the OLD set is not an input - it is the content of dir 0 (the
      besteffort root file, read by the code itself); no `err` line (adjustByCPUSet returns nothing).
  ext <node> <value>   an outside writer sets the cpuset file of <node>; the ResourceCache is not touched (no output)

Fourth kind of case (harnesses `quota` / `normquota`): every line is one pod handed to the real CFS-quota setters
(Model/C12Rule.lean; ratio100 = ratio * 100, negative = no ratio; limits in milli-cpu, -1 = no limit entry):
  pq <ratio100> <enabled> <lims…>   batchresource SetPodCFSQuota / SetContainerCFSQuota → `q <pod> <ctr…>`
  nq <ratio100> <lims…>             cpunormalization AdjustPodCFSQuota / AdjustContainerCFSQuota → `q <pod> <ctr…>`,
                                    -2 = Response.Resources.CFSQuota left nil

Third kind of case (harness `parse`): every line is one call of a string-level function; strings are
sequences of character codes:
  pcs <codes…>                          cpuset.Parse            → `cs <elements…>` | `cs-err`
  fcs <mask>                            CPUSet.String           → `str <codes…>`
  eqcs <n> <a codes> <b codes>          IsEqualStrCpus          → `eq <0|1>`
  mcs <n> <old codes> <new codes>       MergeConditionIfCPUSetIsLooser → `m <0|1> <merged codes…>` | `m-err`
  mlim <kind> <n> <old codes> <new codes>   kind 0 MergeConditionIfValueIsLarger, 1 …IfCFSQuotaIsLarger cgroup-v1,
                                        2 …IfCFSQuotaIsLarger cgroup-v2 → `m <0|1> <merged codes…>` | `m-err`
(<n> = length of the first string).
-/
namespace KoordVerif.C12
open KoordVerif.Proto

def codesToChars (xs : List Nat) : List Char := xs.map Char.ofNat
def charsToCodes (cs : List Char) : List Nat := cs.map Char.toNat

def withNats (pre : String) (xs : List Nat) : String := xs.foldl (fun acc x => acc ++ " " ++ toString x) pre

def showMerge : Option (List Char × Bool) → String
  | none => "m-err"
  | some (str, b) => withNats "m" ((if b then 1 else 0) :: charsToCodes str)

def runParseLine (line : String) : String :=
  match toks line with
  | "pcs" :: ts =>
    match nats? ts with
    | some codes => match parseCpuset (codesToChars codes) with
      | some m => withNats "cs" (maskElems m)
      | none => "cs-err"
    | none => "bad-op"
  | "fcs" :: ts =>
    match nats? ts with
    | some [m] => withNats "str" (charsToCodes (fmtCpuset m))
    | _ => "bad-op"
  | "eqcs" :: ts =>
    match nats? ts with
    | some (n :: codes) =>
      if codes.length < n then "bad-op" else
      "eq " ++ (if eqStrCpus (codesToChars (codes.take n)) (codesToChars (codes.drop n)) then "1" else "0")
    | _ => "bad-op"
  | "mcs" :: ts =>
    match nats? ts with
    | some (n :: codes) =>
      if codes.length < n then "bad-op" else
      showMerge (mcCpuset (codesToChars (codes.take n)) (codesToChars (codes.drop n)))
    | _ => "bad-op"
  | "mlim" :: ts =>
    match nats? ts with
    | some (kind :: n :: codes) =>
      if codes.length < n then "bad-op" else
      let old := codesToChars (codes.take n)
      let new := codesToChars (codes.drop n)
      match kind with
      | 0 => showMerge (mcValueLarger old new)
      | 1 => showMerge (mcCfsQuota false old new)
      | 2 => showMerge (mcCfsQuota true old new)
      | _ => "bad-op"
    | _ => "bad-op"
  | _ => "bad-op"

/-- `int64(math.Ceil(float64(q) / ratio))` for ratio > 1.0, else unchanged; ratio = ratio100 / 100 as float64. -/
def scaleOf (ratio100 : Int) : Int → Int := fun q =>
  let r : Float := Float.ofInt ratio100 / 100.0
  if r > 1.0 then (Float.ceil (Float.ofInt q / r)).toInt64.toInt else q

def runQuotaLine (line : String) : String :=
  match toks line with
  | "pq" :: ts =>
    match ints? ts with
    | some (ratio100 :: enabled :: lims) =>
      if enabled = 0 then "q " ++ showInts ((-1 : Int) :: lims.map fun _ => (-1 : Int))
      else "q " ++ showInts (podQuota (scaleOf ratio100) lims :: lims.map (ctrQuota (scaleOf ratio100)))
    | _ => "bad-op"
  | "nq" :: ts =>
    match ints? ts with
    | some (ratio100 :: lims) =>
      -- rule off (no ratio): nothing is set; a quota that is not positive (no limit) is left alone
      let pod := if lims.isEmpty then (-1 : Int) else baseQuota lims.sum
      let one := fun (b : Int) => if ratio100 < 0 || b ≤ 0 then (-2 : Int) else scaledQuota (scaleOf ratio100) b
      "q " ++ showInts (one pod :: lims.map fun l => one (baseQuota l))
    | _ => "bad-op"
  | _ => "bad-op"

structure Run (α : Type) where
  D : Dom α
  ofInt : Int → Option α
  toInt : α → Int
  dflt : α

def cpusetRun : Run Nat :=
  { D := cpusetDom, ofInt := fun v => if v ≥ 0 then some v.toNat else none, toInt := fun v => (v : Int), dflt := 0 }

def intRun (D : Dom Int) : Run Int :=
  { D := D, ofInt := fun v => if v ≥ -1 then some v else none, toInt := id, dflt := 0 }

def listFn {α} (d : α) (l : List α) : Nat → α := fun i => l.getD i d

/-- split `xs` into consecutive groups of the given lengths. -/
def splitBy {β} : List Nat → List β → Option (List (List β))
  | [], [] => some []
  | [], _ :: _ => none
  | k :: ks, xs =>
    if xs.length < k then none else
    match splitBy ks (xs.drop k) with
    | some r => some (xs.take k :: r)
    | none => none

def pairUp : List Int → Option (List (Int × Int))
  | [] => some []
  | [_] => none
  | a :: b :: r => (pairUp r).map ((a, b) :: ·)

def runBatchLine {α} (R : Run α) (n : Nat) (ex : Nat → Bool) (s : St α) (args : List Int) : Option (St α × List String) := do
  match args with
  | expired :: l :: rest =>
    if l < 0 then none
    let L := l.toNat
    if rest.length < L then none
    let lens := (rest.take L)
    if lens.any (· < 0) then none
    let pairs ← pairUp (rest.drop L)
    if pairs.any (fun p => p.1 < 0 || p.1 ≥ n) then none
    let upds : List (Upd α) := pairs.map fun p => { node := p.1.toNat, tgt := R.ofInt p.2 }
    let levels ← splitBy (lens.map Int.toNat) upds
    let r := runBatchE R.D (expired ≠ 0) ex levels s
    let vals := (List.range n).map r.1.files
    let s' : St α := { files := listFn R.dflt vals, cache := listFn none ((List.range n).map r.1.cache), skip := [] }
    let out := r.2.map (fun w => s!"w {w.1} {R.toInt w.2}") ++ ["st " ++ showInts (vals.map R.toInt)]
    pure (s', out)
  | _ => none

def tripleUp : List Int → Option (List (Int × Int × Int))
  | [] => some []
  | a :: b :: c :: r => (tripleUp r).map ((a, b, c) :: ·)
  | _ => none

def runBatchKLine {α} (R : Run α) (n : Nat) (ex : Nat → Bool) (s : St α) (args : List Int) : Option (St α × List String) := do
  match args with
  | expired :: l :: rest =>
    if l < 0 then none
    let L := l.toNat
    if rest.length < L then none
    let lens := (rest.take L)
    if lens.any (· < 0) then none
    let ts ← tripleUp (rest.drop L)
    if ts.any (fun p => p.1 < 0 || p.1 ≥ n || p.2.2 < (0 : Int) || p.2.2 > (1 : Int)) then none
    let upds : List (UpdK α) := ts.map fun p => { node := p.1.toNat, tgt := R.ofInt p.2.1, mergeable := p.2.2 == (1 : Int) }
    let levels ← splitBy (lens.map Int.toNat) upds
    let r := runBatchK R.D (expired ≠ 0) ex levels s
    let vals := (List.range n).map r.1.files
    let s' : St α := { files := listFn R.dflt vals, cache := listFn none ((List.range n).map r.1.cache), skip := [] }
    let out := r.2.map (fun w => s!"w {w.1} {R.toInt w.2}") ++ ["st " ++ showInts (vals.map R.toInt)]
    pure (s', out)
  | _ => none

def runLines {α} (R : Run α) (n : Nat) : List Bool → St α → List String → List String
  | _, _, [] => []
  | ex, s, line :: rest =>
    match toks line with
    | "batch" :: ts =>
      match ints? ts with
      | some args =>
        match runBatchLine R n (listFn true ex) s args with
        | some (s', out) => out ++ runLines R n ex s' rest
        | none => ["bad-op"]
      | none => ["bad-op"]
    | "batchk" :: ts =>
      match ints? ts with
      | some args =>
        match runBatchKLine R n (listFn true ex) s args with
        | some (s', out) => out ++ runLines R n ex s' rest
        | none => ["bad-op"]
      | none => ["bad-op"]
    | "rm" :: ts =>
      match ints? ts with
      | some [i] => if i < 0 || i ≥ n then ["bad-op"] else runLines R n (ex.set i.toNat false) s rest
      | _ => ["bad-op"]
    | "mk" :: ts =>
      match ints? ts with
      | some [i, v] =>
        if i < 0 || i ≥ n then ["bad-op"] else
        match R.ofInt v with
        | some x => runLines R n (ex.set i.toNat true) { s with files := setAt s.files i.toNat x } rest
        | none => ["bad-op"]
      | _ => ["bad-op"]
    | _ => ["bad-op"]

def parentFn (ps : List Int) : Nat → Option Nat := fun i =>
  match ps[i]? with
  | some p => if p < 0 then none else some p.toNat
  | none => none

def runNoneLines (n : Nat) (depth : Nat → Nat) : St Nat → List String → List String
  | _, [] => []
  | s, line :: rest =>
    match toks line with
    | "sup" :: ts =>
      match ints? ts with
      | some (kind :: expired :: cpus :: old :: rec :: m :: ps) =>
        if kind < 0 || cpus < 0 || old < 0 || rec < -1 || m < 0 || ps.length ≠ m.toNat || ps.any (fun p => p < 0 || p ≥ n) then ["bad-op"] else
        let r := applyBESuppress kind.toNat (expired ≠ 0) (ps.map Int.toNat) depth
                   (if rec < 0 then none else some rec.toNat) cpus.toNat old.toNat s
        let vals := (List.range n).map r.1.files
        let s' : St Nat := { files := listFn 0 vals, cache := listFn none ((List.range n).map r.1.cache), skip := [] }
        -- kinds 0/1: applyBESuppressCPUSet returns an error before anything is written
        r.2.map (fun w => s!"w {w.1} {w.2}") ++ (if kind ≤ 1 then ["err"] else []) ++ ["st " ++ showNats vals] ++
          runNoneLines n depth s' rest
      | _ => ["bad-op"]
    | "adj" :: ts =>
      match ints? ts with
      | some (kind :: expired :: cpus :: rec :: m :: ps) =>
        if kind < 0 || cpus < 0 || rec < -1 || m < 0 || ps.length ≠ m.toNat || ps.any (fun p => p < 0 || p ≥ n) then ["bad-op"] else
        let r := adjustByCPUSet kind.toNat (expired ≠ 0) (ps.map Int.toNat) depth
                   (if rec < 0 then none else some rec.toNat) cpus.toNat 0 s
        let vals := (List.range n).map r.1.files
        let s' : St Nat := { files := listFn 0 vals, cache := listFn none ((List.range n).map r.1.cache), skip := [] }
        r.2.map (fun w => s!"w {w.1} {w.2}") ++ ["st " ++ showNats vals] ++ runNoneLines n depth s' rest
      | _ => ["bad-op"]
    | "ext" :: ts =>
      match ints? ts with
      | some [i, v] =>
        if i < 0 || i ≥ n || v < 0 then ["bad-op"] else runNoneLines n depth (extWrite i.toNat v.toNat s) rest
      | _ => ["bad-op"]
    | "none" :: ts =>
      match ints? ts with
      | some (expired :: cpus :: old :: m :: ps) =>
        if cpus < 0 || old < 0 || m < 0 || ps.length ≠ m.toNat || ps.any (fun p => p < 0 || p ≥ n) then ["bad-op"] else
        let r := nonePolicy (expired ≠ 0) (ps.map Int.toNat) cpus.toNat old.toNat s
        let vals := (List.range n).map r.1.files
        let s' : St Nat := { files := listFn 0 vals, cache := listFn none ((List.range n).map r.1.cache), skip := [] }
        r.2.map (fun w => s!"w {w.1} {w.2}") ++ ["st " ++ showNats vals] ++ runNoneLines n depth s' rest
      | _ => ["bad-op"]
    | _ => ["bad-op"]

def startWith {α} (R : Run α) (n : Nat) (olds : List Int) (rest : List String) : List String :=
  match olds.mapM R.ofInt with
  | some vs => runLines R n (List.replicate n true) { files := listFn R.dflt vs, cache := fun _ => none, skip := [] } rest
  | none => ["bad-op"]

def runCase (lines : List String) : List String :=
  match lines with
  | [] => []
  | first :: rest =>
    match toks first with
    | "pcs" :: _ | "fcs" :: _ | "eqcs" :: _ | "mcs" :: _ | "mlim" :: _ => lines.map runParseLine
    | "pq" :: _ | "nq" :: _ => lines.map runQuotaLine
    | "be" :: ts =>
      match nats? ts with
      | some (n :: vals) =>
        if vals.length ≠ 2 * n then ["bad-op"] else
        runNoneLines n (depthOf (parentFn ((vals.take n).map Int.ofNat)) n)
          { files := listFn 0 (vals.drop n), cache := fun _ => none, skip := [] } rest
      | _ => match ints? ts with
        | some (n :: vals) =>
          -- parents use -1 for the root
          if n < 0 || vals.length ≠ 2 * n.toNat || (vals.drop n.toNat).any (· < 0) then ["bad-op"] else
          runNoneLines n.toNat (depthOf (parentFn (vals.take n.toNat)) n.toNat)
            { files := listFn 0 ((vals.drop n.toNat).map Int.toNat), cache := fun _ => none, skip := [] } rest
        | _ => ["bad-op"]
    | "tree" :: ts =>
      match ints? ts with
      | some (res :: v2 :: n :: vals) =>
        if n < 0 || vals.length ≠ 2 * n.toNat then ["bad-op"] else
        let olds := vals.drop n.toNat
        if res = 0 then startWith cpusetRun n.toNat olds rest
        else match intDomOf res.toNat (v2 ≠ 0) with
          | some D => if res < 0 then ["bad-op"] else startWith (intRun D) n.toNat olds rest
          | none => ["bad-op"]
      | _ => ["bad-op"]
    | _ => ["bad-op"]

end KoordVerif.C12

def main : IO Unit := KoordVerif.Proto.mainWith KoordVerif.C12.runCase
