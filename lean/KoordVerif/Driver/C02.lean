import KoordVerif.Common.Proto
import KoordVerif.Model.C02
import KoordVerif.Model.C02Scale
import KoordVerif.Model.C02Glue
import KoordVerif.Model.C02Nodes
/-
Driver for C02.  Case =
  total <T>
  node <name> <weight> <request> <min> <guarantee> <lend>     (one per sibling)
  run
Output: `rt <name> <runtime>` sorted by name, then `end`.
Scale-min ops (one parent per case): `sm upd <child> <min> <enable>`, `sm rem <child>`,
`sm get <total> <child>` → `scaled <no|value> sums <enableSum> <disableSum>`.
Declared-object blocks (spec harness; one parent, one dimension):
  step <kind>                                       → `step <kind>` (history marker)
  gtot <total> <dim> <gate> <scale>
  gq <name> <lendLabel> <childReq> <alloc> <nmax> (<dim> <v>)* <nmin> (<dim> <v>)* <annClass> <nann> (<dim> <v>)*
  grun → `in <name> <weight> <request> <min> <guarantee> <lend>` per child (the derived quotaNode), then
         `rt <name> <runtime>` per child, both sorted by name, then `end`.
Node events (nodes harness; `<rl>` = `<n> (<dim> <v>)*n`):
  nadd <node> <rl> | nupd <node> <oldrl> <newrl> | ndel <node> <rl>
         → `ntot <total cpu mem gpu> <root calculator's total cpu mem gpu> n <k> <known node ids, sorted>* x 0`
-/
namespace KoordVerif.C02
open KoordVerif.Proto

def floatShare (avail min enableSum : Int) : Int :=
  (Float.ofInt avail * Float.ofInt min / Float.ofInt enableSum).toInt64.toInt

structure DState where
  sm : SM := SM.init
  total : Int := 0
  nodes : List Node := []
  out   : List String := []
  bad   : Bool := false
  gdim  : Nat := 0
  ggate : Bool := false
  gscale : Bool := false
  gqs   : List QDecl := []
  nst   : NS := {}
  nstore : Store := []

def insertByName (p : Nat × Int) : List (Nat × Int) → List (Nat × Int)
  | [] => [p]
  | q :: qs => if p.1 ≤ q.1 then p :: q :: qs else q :: insertByName p qs

def sortByName (ps : List (Nat × Int)) : List (Nat × Int) := ps.foldr insertByName []

/-- `<n> (<dim> <v>)*n` from the front of a token list. -/
def takeRL : List Int → Option (RL × List Int)
  | [] => none
  | n :: rest =>
    if n < 0 then none else
    let k := n.toNat
    if rest.length < 2 * k then none else
    let body := rest.take (2 * k)
    let rec pairs : List Int → Option RL
      | [] => some []
      | d :: v :: more => if d < 0 then none else (pairs more).map (fun l => (d.toNat, v) :: l)
      | [_] => none
    (pairs body).map (fun l => (l, rest.drop (2 * k)))

def parseGq (ts : List Int) : Option QDecl :=
  match ts with
  | name :: label :: creq :: alloc :: rest =>
    if name < 0 ∨ label < 0 ∨ label > 2 then none else
    match takeRL rest with
    | some (mx, rest1) =>
      match takeRL rest1 with
      | some (mn, cls :: rest2) =>
        match takeRL rest2 with
        | some (an, []) =>
          let ann? : Option Ann :=
            if cls = 0 then (if an = [] then some Ann.absent else none)
            else if cls = 1 then (if an = [] then some Ann.invalid else none)
            else if cls = 2 then some (Ann.parsed an) else none
          ann?.map (fun a => { name := name.toNat, label := label.toNat, childReq := creq, alloc := alloc, max := mx, min := mn, ann := a })
        | _ => none
      | _ => none
    | none => none
  | _ => none

def insertNode (p : Node) : List Node → List Node
  | [] => [p]
  | q :: qs => if p.name ≤ q.name then p :: q :: qs else q :: insertNode p qs

def insertNat (p : Nat) : List Nat → List Nat
  | [] => [p]
  | q :: qs => if p ≤ q then p :: q :: qs else q :: insertNat p qs

def parseNEv (kind : String) (ts : List Int) : Option NEv :=
  match ts with
  | n :: rest =>
    if n < 0 then none else
    match takeRL rest with
    | some (a, rest1) =>
      if kind = "nadd" then (if rest1 = [] then some (.add n.toNat a) else none)
      else if kind = "ndel" then (if rest1 = [] then some (.delete n.toNat a) else none)
      else match takeRL rest1 with
        | some (b, []) => some (.update n.toNat a b)
        | _ => none
    | none => none
  | [] => none

def showNS (s : NS) : String :=
  let known := s.known.foldr insertNat []
  s!"ntot {rlGet s.total 0} {rlGet s.total 1} {rlGet s.total 2} {rlGet s.pushed 0} {rlGet s.pushed 1} {rlGet s.pushed 2} n {known.length}" ++
    String.join (known.map (fun k => s!" {k}")) ++ " x 0"

def stepNode (s : DState) (kind : String) (rest : List String) : DState :=
  match (ints? rest).bind (parseNEv kind) with
  | some e =>
    -- the hypothesis of `total_eq_sum_of_current_nodes` is checked on every generated event
    if !coherent s.nstore e then { s with bad := true, out := s.out ++ ["incoherent-node-event"] } else
    let n := s.nst.step rlSub e
    { s with nst := n, nstore := stStep s.nstore e, out := s.out ++ [showNS n] }
  | none => { s with bad := true, out := s.out ++ ["bad-op"] }

def stepLine (s : DState) (line : String) : DState :=
  match toks line with
  | "nadd" :: rest => stepNode s "nadd" rest
  | "nupd" :: rest => stepNode s "nupd" rest
  | "ndel" :: rest => stepNode s "ndel" rest
  | ["step", k] => match nat? k with
    | some k => { s with out := s.out ++ [s!"step {k}"] }
    | none => { s with bad := true, out := s.out ++ ["bad-op"] }
  | ["gtot", t, d, g, sc] =>
    match int? t, nat? d, nat? g, nat? sc with
    | some t, some d, some g, some sc =>
      if g > 1 ∨ sc > 1 then { s with bad := true, out := s.out ++ ["bad-op"] }
      else { s with total := t, gdim := d, ggate := g = 1, gscale := sc = 1, gqs := [] }
    | _, _, _, _ => { s with bad := true, out := s.out ++ ["bad-op"] }
  | "gq" :: rest =>
    match (ints? rest).bind parseGq with
    | some q => { s with gqs := s.gqs ++ [q] }
    | none => { s with bad := true, out := s.out ++ ["bad-op"] }
  | ["grun"] =>
    let ns := (glueNodes floatShare s.ggate s.gscale s.total s.gdim s.gqs).foldr insertNode []
    let rs := sortByName (glueRun floatShare s.ggate s.gscale s.total s.gdim s.gqs)
    { s with out := s.out ++ ns.map (fun n => s!"in {n.name} {n.weight} {n.request} {n.min} {n.guarantee} {b2i n.lend}")
                ++ rs.map (fun p => s!"rt {p.1} {p.2}") ++ ["end"], gqs := [], total := 0 }
  | ["total", t] => match int? t with
    | some t => { s with total := t }
    | none => { s with bad := true }
  | ["node", a, b, c, d, e, f] =>
    match nat? a, int? b, int? c, int? d, int? e, int? f with
    | some a, some b, some c, some d, some e, some f =>
      { s with nodes := s.nodes ++ [{ name := a, weight := b, request := c, min := d, guarantee := e, lend := f ≠ 0 }] }
    | _, _, _, _, _, _ => { s with bad := true }
  | ["run"] =>
    let rs := sortByName (redistribute s.total s.nodes)
    { s with out := s.out ++ rs.map (fun p => s!"rt {p.1} {p.2}") ++ ["end"], nodes := [], total := 0 }
  | ["sm", "upd", a, b, c] =>
    match nat? a, int? b, int? c with
    | some a, some b, some c => { s with sm := s.sm.update a b (c ≠ 0) }
    | _, _, _ => { s with bad := true, out := s.out ++ ["bad-op"] }
  | ["sm", "rem", a] =>
    match nat? a with
    | some a => { s with sm := s.sm.remove a }
    | none => { s with bad := true, out := s.out ++ ["bad-op"] }
  | ["sm", "get", t, a] =>
    match int? t, nat? a with
    | some t, some a =>
      let o := match s.sm.scaled floatShare t a with
        | none => "scaled no"
        | some m => s!"scaled {m}"
      { s with out := s.out ++ [o ++ s!" sums {s.sm.enableSum} {s.sm.disableSum}"] }
    | _, _ => { s with bad := true, out := s.out ++ ["bad-op"] }
  | _ => { s with bad := true, out := s.out ++ ["bad-op"] }

def runCase (lines : List String) : List String :=
  let s := lines.foldl stepLine {}
  if s.bad && s.out.isEmpty then ["bad-op"] else s.out

end KoordVerif.C02

def main : IO Unit := KoordVerif.Proto.mainWith KoordVerif.C02.runCase
