import KoordVerif.Common.Proto
import KoordVerif.Model.C02
import KoordVerif.Model.C02Scale
/-
Driver for C02.  Case =
  total <T>
  node <name> <weight> <request> <min> <guarantee> <lend>     (one per sibling)
  run
Output: `rt <name> <runtime>` sorted by name, then `end`.
Scale-min ops (one parent per case): `sm upd <child> <min> <enable>`, `sm rem <child>`,
`sm get <total> <child>` → `scaled <no|value> sums <enableSum> <disableSum>`.
-/
namespace KoordVerif.C02
open KoordVerif.Proto

def floatShare (avail min enableSum : Int) : Int :=
  (Float.ofInt avail * Float.ofInt min / Float.ofInt enableSum).toInt64.toInt

structure DState where
  sm : SM := SM.init
  total : Int := 0
  nodes : List Node := []
  out   : List String := []
  bad   : Bool := false

def insertByName (p : Nat × Int) : List (Nat × Int) → List (Nat × Int)
  | [] => [p]
  | q :: qs => if p.1 ≤ q.1 then p :: q :: qs else q :: insertByName p qs

def sortByName (ps : List (Nat × Int)) : List (Nat × Int) := ps.foldr insertByName []

def stepLine (s : DState) (line : String) : DState :=
  match toks line with
  | ["total", t] => match int? t with
    | some t => { s with total := t }
    | none => { s with bad := true }
  | ["node", a, b, c, d, e, f] =>
    match nat? a, int? b, int? c, int? d, int? e, int? f with
    | some a, some b, some c, some d, some e, some f =>
      { s with nodes := s.nodes ++ [{ name := a, weight := b, request := c, min := d, guarantee := e, lend := f ≠ 0 }] }
    | _, _, _, _, _, _ => { s with bad := true }
  | ["run"] =>
    let rs := sortByName (redistribute s.total s.nodes)
    { s with out := s.out ++ rs.map (fun p => s!"rt {p.1} {p.2}") ++ ["end"], nodes := [], total := 0 }
  | ["sm", "upd", a, b, c] =>
    match nat? a, int? b, int? c with
    | some a, some b, some c => { s with sm := s.sm.update a b (c ≠ 0) }
    | _, _, _ => { s with bad := true, out := s.out ++ ["bad-op"] }
  | ["sm", "rem", a] =>
    match nat? a with
    | some a => { s with sm := s.sm.remove a }
    | none => { s with bad := true, out := s.out ++ ["bad-op"] }
  | ["sm", "get", t, a] =>
    match int? t, nat? a with
    | some t, some a =>
      let o := match s.sm.scaled floatShare t a with
        | none => "scaled no"
        | some m => s!"scaled {m}"
      { s with out := s.out ++ [o ++ s!" sums {s.sm.enableSum} {s.sm.disableSum}"] }
    | _, _ => { s with bad := true, out := s.out ++ ["bad-op"] }
  | _ => { s with bad := true, out := s.out ++ ["bad-op"] }

def runCase (lines : List String) : List String :=
  let s := lines.foldl stepLine {}
  if s.bad && s.out.isEmpty then ["bad-op"] else s.out

end KoordVerif.C02

def main : IO Unit := KoordVerif.Proto.mainWith KoordVerif.C02.runCase
