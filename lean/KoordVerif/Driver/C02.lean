import KoordVerif.Common.Proto
import KoordVerif.Model.C02
import KoordVerif.Model.C02Scale
import KoordVerif.Model.C02Glue
/-
Driver for C02.  Case =
  total <T>
  node <name> <weight> <request> <min> <guarantee> <lend>     (one per sibling)
  run
Output: `rt <name> <runtime>` sorted by name, then `end`.
Scale-min ops (one parent per case): `sm upd <child> <min> <enable>`, `sm rem <child>`,
`sm get <total> <child>` → `scaled <no|value> sums <enableSum> <disableSum>`.
Declared-object blocks (spec harness; one parent, one dimension):
  step <kind>                                       → `step <kind>` (history marker)
  gtot <total> <dim> <gate> <scale>
  gq <name> <lendLabel> <childReq> <alloc> <nmax> (<dim> <v>)* <nmin> (<dim> <v>)* <annClass> <nann> (<dim> <v>)*
  grun → `in <name> <weight> <request> <min> <guarantee> <lend>` per child (the derived quotaNode), then
         `rt <name> <runtime>` per child, both sorted by name, then `end`.
-/
namespace KoordVerif.C02
open KoordVerif.Proto

def floatShare (avail min enableSum : Int) : Int :=
  (Float.ofInt avail * Float.ofInt min / Float.ofInt enableSum).toInt64.toInt

structure DState where
  sm : SM := SM.init
  total : Int := 0
  nodes : List Node := []
  out   : List String := []
  bad   : Bool := false
  gdim  : Nat := 0
  ggate : Bool := false
  gscale : Bool := false
  gqs   : List QDecl := []

def insertByName (p : Nat × Int) : List (Nat × Int) → List (Nat × Int)
  | [] => [p]
  | q :: qs => if p.1 ≤ q.1 then p :: q :: qs else q :: insertByName p qs

def sortByName (ps : List (Nat × Int)) : List (Nat × Int) := ps.foldr insertByName []

/-- `<n> (<dim> <v>)*n` from the front of a token list. -/
def takeRL : List Int → Option (RL × List Int)
  | [] => none
  | n :: rest =>
    if n < 0 then none else
    let k := n.toNat
    if rest.length < 2 * k then none else
    let body := rest.take (2 * k)
    let rec pairs : List Int → Option RL
      | [] => some []
      | d :: v :: more => if d < 0 then none else (pairs more).map (fun l => (d.toNat, v) :: l)
      | [_] => none
    (pairs body).map (fun l => (l, rest.drop (2 * k)))

def parseGq (ts : List Int) : Option QDecl :=
  match ts with
  | name :: label :: creq :: alloc :: rest =>
    if name < 0 ∨ label < 0 ∨ label > 2 then none else
    match takeRL rest with
    | some (mx, rest1) =>
      match takeRL rest1 with
      | some (mn, cls :: rest2) =>
        match takeRL rest2 with
        | some (an, []) =>
          let ann? : Option Ann :=
            if cls = 0 then (if an = [] then some Ann.absent else none)
            else if cls = 1 then (if an = [] then some Ann.invalid else none)
            else if cls = 2 then some (Ann.parsed an) else none
          ann?.map (fun a => { name := name.toNat, label := label.toNat, childReq := creq, alloc := alloc, max := mx, min := mn, ann := a })
        | _ => none
      | _ => none
    | none => none
  | _ => none

def insertNode (p : Node) : List Node → List Node
  | [] => [p]
  | q :: qs => if p.name ≤ q.name then p :: q :: qs else q :: insertNode p qs

def stepLine (s : DState) (line : String) : DState :=
  match toks line with
  | ["step", k] => match nat? k with
    | some k => { s with out := s.out ++ [s!"step {k}"] }
    | none => { s with bad := true, out := s.out ++ ["bad-op"] }
  | ["gtot", t, d, g, sc] =>
    match int? t, nat? d, nat? g, nat? sc with
    | some t, some d, some g, some sc =>
      if g > 1 ∨ sc > 1 then { s with bad := true, out := s.out ++ ["bad-op"] }
      else { s with total := t, gdim := d, ggate := g = 1, gscale := sc = 1, gqs := [] }
    | _, _, _, _ => { s with bad := true, out := s.out ++ ["bad-op"] }
  | "gq" :: rest =>
    match (ints? rest).bind parseGq with
    | some q => { s with gqs := s.gqs ++ [q] }
    | none => { s with bad := true, out := s.out ++ ["bad-op"] }
  | ["grun"] =>
    let ns := (glueNodes floatShare s.ggate s.gscale s.total s.gdim s.gqs).foldr insertNode []
    let rs := sortByName (glueRun floatShare s.ggate s.gscale s.total s.gdim s.gqs)
    { s with out := s.out ++ ns.map (fun n => s!"in {n.name} {n.weight} {n.request} {n.min} {n.guarantee} {b2i n.lend}")
                ++ rs.map (fun p => s!"rt {p.1} {p.2}") ++ ["end"], gqs := [], total := 0 }
  | ["total", t] => match int? t with
    | some t => { s with total := t }
    | none => { s with bad := true }
  | ["node", a, b, c, d, e, f] =>
    match nat? a, int? b, int? c, int? d, int? e, int? f with
    | some a, some b, some c, some d, some e, some f =>
      { s with nodes := s.nodes ++ [{ name := a, weight := b, request := c, min := d, guarantee := e, lend := f ≠ 0 }] }
    | _, _, _, _, _, _ => { s with bad := true }
  | ["run"] =>
    let rs := sortByName (redistribute s.total s.nodes)
    { s with out := s.out ++ rs.map (fun p => s!"rt {p.1} {p.2}") ++ ["end"], nodes := [], total := 0 }
  | ["sm", "upd", a, b, c] =>
    match nat? a, int? b, int? c with
    | some a, some b, some c => { s with sm := s.sm.update a b (c ≠ 0) }
    | _, _, _ => { s with bad := true, out := s.out ++ ["bad-op"] }
  | ["sm", "rem", a] =>
    match nat? a with
    | some a => { s with sm := s.sm.remove a }
    | none => { s with bad := true, out := s.out ++ ["bad-op"] }
  | ["sm", "get", t, a] =>
    match int? t, nat? a with
    | some t, some a =>
      let o := match s.sm.scaled floatShare t a with
        | none => "scaled no"
        | some m => s!"scaled {m}"
      { s with out := s.out ++ [o ++ s!" sums {s.sm.enableSum} {s.sm.disableSum}"] }
    | _, _ => { s with bad := true, out := s.out ++ ["bad-op"] }
  | _ => { s with bad := true, out := s.out ++ ["bad-op"] }

def runCase (lines : List String) : List String :=
  let s := lines.foldl stepLine {}
  if s.bad && s.out.isEmpty then ["bad-op"] else s.out

end KoordVerif.C02

def main : IO Unit := KoordVerif.Proto.mainWith KoordVerif.C02.runCase
