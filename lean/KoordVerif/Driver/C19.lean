import KoordVerif.Common.Proto
import KoordVerif.Model.C19
import KoordVerif.Model.C19Dev
import KoordVerif.Model.C19Rsv
import KoordVerif.Model.C19QuotaSpec
import KoordVerif.Model.C19Boot
import KoordVerif.Model.C19PreBind
/-
Driver for C19.  A case belongs to one harness; the first token of its first op line selects the
sub-model (`dev` -> Model/C19Dev, `rsv` -> Model/C19Rsv, `quota` -> Model/C19Quota + C19QuotaSpec,
`rpod` -> Model/C19Boot (reserve-pod annotation / label merge), everything else -> this file).

cpuset harness (pkg/util/cpuset):
  fmt <e>*            NewCPUSet(e…).String() then Parse of that text
                      -> `str <byte>*`, `back <e>*` | `back err`
  parse <byte>*       Parse(text)  -> `ok <e>*` | `err`

numa harness (pkg/scheduler/plugins/nodenumaresource), one case = one history on one node:
  numa topo <maxRef> <nodeOfCpu>*
  numa bind <uid> <kind> <excl> <k> <cpu>^k <m> (<node> <cpuMilli> <memBytes>)^m
        (kind 0 = pod, 1 = Reservation with the resource spec on itself, 2 = … on spec.template)
        Reserve (resourceManager.Update on the live cache) + PreBind (persist on the object)
        -> `annot <byte>*` (the CPU-set text written)
        The object may already carry an annotation (stored by an earlier `numa try` of the same uid):
        Model/C19PreBind.lean `preBind carried a`.
  numa try <uid> <kind> <excl> <k> <cpu>^k <m> (<node> <cpuMilli> <memBytes>)^m
        a scheduling attempt that gets as far as PreBind and then fails to bind: Reserve + PreBind; the object is
        stored annotated but UNBOUND -> `annot <byte>*`
  numa unres <uid>            Unreserve of that attempt (resourceManager.Release); the stored object is unchanged
  numa raw <uid> <assigned> <term> <excl> <hasAnnot> <t> <byte>^t <m> (<node> <cpu> <mem>)^m
        store a hand-made object (no event)
  numa setterm <uid>          the stored object becomes terminated (no event)
  numa drop <uid>             the stored object disappears (no event)
  numa ev <cache> <kind> <uid>   deliver an informer event for the stored object to cache 0 = live /
        1 = fresh; kind 0 = add, 1 = update (old = new = stored object), 2 = delete
  numa evx <cache> <k> <uid>  deliver an event that carries the UNBOUND version of the stored object (same
        annotations, spec.nodeName = ""): k 0 = add(unbound version), 1 = update(old = unbound version, new =
        the stored object) — the first effective delivery seen by a scheduler that did not run Reserve itself
  numa fresh                  start a fresh cache (its topology options are present)
  numa ftopo <0|1>            the fresh cache's topologyOptionsManager has no / has the node's CPU topology
        (0: the NodeResourceTopology has not arrived yet, resourceManager.Update returns early)
  numa dump <cache>           -> ledger block
  numa boot <gated> <k0> <uid>^k0 <k1> <uid>^k1   start-up of a fresh cache behind the handlers-sync barrier
        (Model/C19Boot.lean bootSeen) -> `held <0|1>` `opened <0|1>` + the ledger block the first cycle reads
-/
namespace KoordVerif.C19
open KoordVerif.Proto

structure DState where
  topo   : List Nat := []
  maxRef : Nat := 1
  live   : St := St.init
  fresh  : St := St.init
  freshTopo : Bool := true
  objs   : List Obj := []

def findObj (uid : Nat) : List Obj → Option Obj
  | [] => none
  | o :: os => if o.uid = uid then some o else findObj uid os

def putObj (o : Obj) (os : List Obj) : List Obj := o :: os.filter (fun x => x.uid ≠ o.uid)

def parseNuma : List Int → Option (List NumaRes)
  | [] => some []
  | n :: c :: m :: rest =>
    if n < 0 then none else
    (parseNuma rest).map (fun l => { node := n.toNat, cpu := c, mem := m } :: l)
  | _ => none

def showNuma (l : List NumaRes) : String :=
  " ".intercalate (l.map (fun r => s!"{r.node} {r.cpu} {r.mem}"))

def pairKey (p : Nat × Nat) : Nat := p.1 * 1000000 + p.2

def showPairs (l : List (Nat × Nat)) : String :=
  showNats ((sortNat (l.map pairKey)).flatMap (fun k => [k / 1000000, k % 1000000]))

def withSp (tag rest : String) : String := if rest = "" then tag ++ " " else tag ++ " " ++ rest

def dumpSt (topo : List Nat) (maxRef : Nat) (s : St) : List String :=
  -- an empty allocation takes nothing: not part of the allocation state
  let uids := sortNat ((s.pods.filter (fun p => !(p.cpus.isEmpty && p.numa.isEmpty))).map (·.uid))
  let podLines := uids.filterMap (fun u => (findPod u s.pods).map (fun p =>
    withSp s!"pod {u} {p.cpus.length}" (" ".intercalate ([showNats (sortNat p.cpus), s!"{p.numa.length}", showNuma p.numa].filter (· ≠ "")))))
  let cpuIds := toSet s.bag
  let cpuLine := " ".intercalate (cpuIds.map (fun c => s!"{c} {refCount s c} {markOf s.mark c}"))
  let nodes := toSet (s.res.map (·.1))
  let resLine := " ".intercalate (nodes.filterMap (fun n =>
    let v := getRes s.res n
    if v.1 = 0 ∧ v.2 = 0 then none else some s!"{n} {v.1} {v.2}"))
  [withSp "pods" (showNats uids)] ++ podLines ++
  [withSp "cpus" cpuLine, withSp "res" resLine, withSp "shared" (showPairs s.shared),
   withSp "single" (showPairs s.single), withSp "avail" (showNats (availCPUs topo maxRef s))]

def splitAtLen (k : Nat) (xs : List Int) : Option (List Int × List Int) :=
  if xs.length < k then none else some (xs.take k, xs.drop k)

def toNats? (xs : List Int) : Option (List Nat) :=
  xs.mapM (fun x => if x < 0 then none else some x.toNat)

/-- `numa bind` (bound = true) / `numa try` (bound = false): Reserve + PreBind of one scheduling attempt. -/
def numaAttempt (d : DState) (bound : Bool) (rest : List String) : DState × List String :=
  let bad := (d, ["bad-op"])
  match ints? rest with
  | some (uid :: kind :: excl :: k :: r1) =>
    if uid < 0 ∨ excl < 0 ∨ k < 0 ∨ kind < 0 ∨ kind > 2 then bad else
    match splitAtLen k.toNat r1 with
    | some (cpusI, m :: r2) =>
      match toNats? cpusI, parseNuma r2 with
      | some cpus, some numa =>
        if numa.length ≠ m.toNat then bad else
        let a : PodAlloc := { uid := uid.toNat, cpus := toSet cpus, excl := excl.toNat, numa := numa }
        -- what the object carries when it reaches PreBind (an earlier attempt's annotation, or nothing)
        let carried := (findObj a.uid d.objs).bind (·.annot)
        let an? := preBind carried a
        let o : Obj := { uid := a.uid, assigned := bound, term := false, excl := persistedExcl kind.toNat a, annot := an? }
        ({ d with live := update d.topo d.live a, objs := putObj o d.objs },
         [withSp "annot" (showNats ((an?.map (·.text)).getD []))])
      | _, _ => bad
    | _ => bad
  | _ => bad

def stepNuma (d : DState) (args : List String) : DState × List String :=
  let bad := (d, ["bad-op"])
  match args with
  | "topo" :: rest =>
    match nats? rest with
    | some (mr :: topo) => ({ d with topo := topo, maxRef := mr }, [])
    | _ => bad
  | "bind" :: rest => numaAttempt d true rest
  | "try" :: rest => numaAttempt d false rest
  | ["unres", u] =>
    match nat? u with
    | some uid => ({ d with live := release d.topo d.live uid }, [])
    | none => bad
  | "raw" :: rest =>
    match ints? rest with
    | some (uid :: asg :: term :: excl :: hasA :: t :: r1) =>
      if uid < 0 ∨ excl < 0 ∨ t < 0 then bad else
      match splitAtLen t.toNat r1 with
      | some (txtI, m :: r2) =>
        match toNats? txtI, parseNuma r2 with
        | some txt, some numa =>
          if numa.length ≠ m.toNat then bad else
          let o : Obj := { uid := uid.toNat, assigned := asg ≠ 0, term := term ≠ 0, excl := excl.toNat,
                           annot := if hasA ≠ 0 then some { text := txt, numa := numa } else none }
          ({ d with objs := putObj o d.objs }, [])
        | _, _ => bad
      | _ => bad
    | _ => bad
  | ["setterm", u] =>
    match nat? u with
    | some uid =>
      match findObj uid d.objs with
      | some o => ({ d with objs := putObj { o with term := true } d.objs }, [])
      | none => bad
    | none => bad
  | ["drop", u] =>
    match nat? u with
    | some uid => ({ d with objs := d.objs.filter (fun x => x.uid ≠ uid) }, [])
    | none => bad
  | ["ev", c, k, u] =>
    match nat? c, nat? k, nat? u with
    | some c, some k, some uid =>
      match findObj uid d.objs with
      | none => bad
      | some o =>
        let s := if c = 0 then d.live else d.fresh
        if k > 2 ∨ c > 1 then bad else
        let valid := c = 0 || d.freshTopo
        let s' := if k = 0 then onUpdateT valid d.topo s none o
                  else if k = 1 then onUpdateT valid d.topo s (some o) o
                  else onDelete d.topo s o
        (if c = 0 then { d with live := s' } else { d with fresh := s' }, [])
    | _, _, _ => bad
  | ["evx", c, k, u] =>
    match nat? c, nat? k, nat? u with
    | some c, some k, some uid =>
      match findObj uid d.objs with
      | none => bad
      | some o =>
        let s := if c = 0 then d.live else d.fresh
        if k > 1 ∨ c > 1 then bad else
        let valid := c = 0 || d.freshTopo
        let s' := if k = 0 then onUpdateT valid d.topo s none o.unbound
                  else onUpdateT valid d.topo s (some o.unbound) o
        (if c = 0 then { d with live := s' } else { d with fresh := s' }, [])
    | _, _, _ => bad
  | ["fresh"] => ({ d with fresh := St.init, freshTopo := true }, [])
  | ["ftopo", v] =>
    match nat? v with
    | some v => if v > 1 then bad else ({ d with freshTopo := v = 1 }, [])
    | none => bad
  | "boot" :: rest =>
    -- start-up stream (ext2, harness `numaboot`): `numa boot <gated> <k0> <uid>^k0 <k1> <uid>^k1`: a fresh
    -- resourceManager behind the REAL registerPodEventHandler; registration 0 = pod informer, 1 = Reservation informer
    -- (both through ForceSyncFromInformer: tie_boot_registrations); <gated> = the pinned listener (2 = none)
    match nats? rest with
    | some (g :: k0 :: more) =>
      if g > 2 ∨ more.length < k0 + 1 then bad else
      let l0 := more.take k0
      match more.drop k0 with
      | k1 :: l1 =>
        if l1.length ≠ k1 then bad else
        let regs : List Boot.RegInfo := [{ inBarrier := true, gated := g = 0 }, { inBarrier := true, gated := g = 1 }]
        let (held, opened, seen) := Boot.bootSeen regs [l0, l1]
        match seen.mapM (fun u => findObj u d.objs) with
        | none => bad
        | some os =>
          let s := os.foldl (fun s o => onUpdateT true d.topo s none o) St.init
          ({ d with fresh := s }, [s!"held {b2i held}", s!"opened {b2i opened}"] ++ dumpSt d.topo d.maxRef s)
      | [] => bad
    | _ => bad
  | ["dump", c] =>
    match nat? c with
    | some 0 => (d, dumpSt d.topo d.maxRef d.live)
    | some 1 => (d, dumpSt d.topo d.maxRef d.fresh)
    | _ => bad
  | _ => bad

def stepLine (st : DState × List String) (line : String) : DState × List String :=
  let (d, out) := st
  match toks line with
  | "fmt" :: rest =>
    match nats? rest with
    | some es =>
      let s := toSet es
      let t := formatText s
      let back := match parseText t with
        | some r => withSp "back" (showNats r)
        | none => "back err"
      (d, out ++ [withSp "str" (showNats t), back])
    | none => (d, out ++ ["bad-op"])
  | "parse" :: rest =>
    match nats? rest with
    | some t =>
      match parseText t with
      | some r => (d, out ++ [withSp "ok" (showNats r)])
      | none => (d, out ++ ["err"])
    | none => (d, out ++ ["bad-op"])
  | "numa" :: args =>
    let (d', o) := stepNuma d args
    (d', out ++ o)
  | _ => (d, out ++ ["bad-op"])

def runOwn (lines : List String) : List String := (lines.foldl stepLine ({}, [])).2

def runCase (lines : List String) : List String :=
  match lines with
  | [] => []
  | l :: _ =>
    match toks l with
    | "dev" :: _ => KoordVerif.C19.Dev.runCase lines
    | "rsv" :: _ => KoordVerif.C19.Rsv.runCase lines
    | "quota" :: _ => KoordVerif.C19.Quota.runCase lines
    | "rpod" :: _ => KoordVerif.C19.Boot.runCase lines
    | _ => runOwn lines

end KoordVerif.C19

def main : IO Unit := KoordVerif.Proto.mainWith KoordVerif.C19.runCase
