import KoordVerif.Model.C19Dev
/- private test driver of the deviceshare part of C19 (the real exe drv_c19 dispatches to runCase) -/
def main : IO Unit := KoordVerif.Proto.mainWith KoordVerif.C19.Dev.runCase
