import KoordVerif.Common.Proto
import KoordVerif.Model.C20
import KoordVerif.Model.C20Hist
import KoordVerif.Model.C20HistQ
import KoordVerif.Model.C20Race
/-
Driver for C20.  A case is a history of ConfigMap events on one SLOCfg cache, with probes:
  def <s> <v> <k>*                  one flattened entry of the built-in default of section s (0..3); before any event
  ev <present>                      begin a ConfigMap event; present = 0: the ConfigMap is deleted (applied at once)
  sec <s> <state> <hasCluster>      section s (0..4) of the event: state 0 absent, 1 unparsable, 2 parsed
  c <s> <v> <k>*                    one flattened entry of the section's clusterStrategy (host apps: `applications`)
  n <s> <selkind> <hasStrat> <nreq> (<key> <op> <nvals> <val>*)*
                                    append a node entry; selkind 0 nil selector, 1 invalid, 2 requirements
  ne <s> <v> <k>*                   one flattened entry of the strategy of the last node entry of section s
  end                               apply the event (syncConfig)
  node <bw> <nl> (<k> <v>)*         probe: getNodeSLOSpec for a node with these labels; bw = bandwidth annotation
                                    (-1 none, -2 unparsable, else its value)
Output per probe: `o <s> <v> <k>*` for every entry of the five delivered sections, sorted by path.

History harness (`hist`, Model/C20Hist.lean): one World (cache + API objects) per case, ops
  hev <kind> <ident>*               begin a ConfigMap event, kind 1 Create / 2 Update; ident = what DeepEqual sees of
                                    .Data (nil flag, then one text id per key); followed by sec/c/n/ne lines and `end`
  hdel | hforeign                   ConfigMap deleted (+ Delete event) | event for a ConfigMap of another name
  hnode <op> <name> <nl> (<k> <v>)* op 0 node added, 1 node updated (new labels), 2 node deleted
  hrestart <cmFirst>                controller restart
  hmode <0|1>                       1: from now on events only ENQUEUE (Model/C20HistQ.lean); 0: back to drain-after-every-step
                                    (requests the model still has queued are reconciled first)
  hrecfail <name>                   (mode 1) request <name> is reconciled but its API write fails: nothing stored, queued again
  hrec <name>                       (mode 1) request <name> is reconciled (queued or not: spurious reconciles are allowed)
  hrestartlate                      (mode 1) controller restart whose initial ConfigMap Create event is NOT handled yet (Model/C20Race.lean)
  hcmlate                           (mode 1) … that initial Create event, for the ConfigMap object the model's API holds now
  hobs                              print every NodeSLO (`s <name> <sec> <v> <k>*`, by name) and, per node, what the cache
                                    would deliver (`g <name> same` when equal to the stored NodeSLO, else `g <name> <sec> ...`)
-/
namespace KoordVerif.C20
open KoordVerif.Proto

structure NodeB where
  sel : Sel
  hasStrat : Bool
  strat : Array (Path × Int)

structure SecB where
  state : Nat := 0
  hasCl : Bool := false
  cl : Array (Path × Int) := #[]
  nodes : Array NodeB := #[]

def SecB.toIn (b : SecB) : SecIn :=
  match b.state with
  | 0 => .absent
  | 1 => .bad
  | _ => .ok (if b.hasCl then some b.cl.toList else none)
             (b.nodes.toList.map fun n => { sel := n.sel, strat := if n.hasStrat then some n.strat.toList else none })

structure DState where
  dThr : Array (Path × Int) := #[]
  dQos : Array (Path × Int) := #[]
  dBurst : Array (Path × Int) := #[]
  dSys : Array (Path × Int) := #[]
  cfg : Option Cfg := none
  pend : Option (Array SecB) := none
  out : Array String := #[]
  hw : Option World := none                  -- history harness: the world
  table : List (Ident × CM) := []            -- history harness: parse (text identities ↦ sections)
  pendH : Option (Nat × Ident) := none       -- history harness: kind and ident of the event being read
  qmode : Bool := false                      -- history harness: events only enqueue
  hq : List Nat := []                        -- history harness: the work queue (mode 1)

def DState.defaults (s : DState) : Defaults :=
  { thr := s.dThr.toList, qos := s.dQos.toList, burst := s.dBurst.toList, sys := s.dSys.toList }

def DState.cur (s : DState) : Cfg := s.cfg.getD (Cfg.default s.defaults)

def DState.bad (s : DState) : DState := { s with out := s.out.push "bad-op" }

def pathLe : Path → Path → Bool
  | [], _ => true
  | _ :: _, [] => false
  | a :: p, b :: q => if a < b then true else if b < a then false else pathLe p q

def showFlat (sec : Nat) (t : Flat) : List String :=
  (t.mergeSort (fun a b => pathLe a.1 b.1)).map fun e =>
    s!"o {sec} {e.2}" ++ String.join (e.1.map fun k => s!" {k}")

/-- parse `<v> <k>*` -/
def entry? (ts : List String) : Option (Path × Int) :=
  match ts with
  | v :: ks => do
    let v ← int? v
    let ks ← nats? ks
    pure (ks, v)
  | [] => none

partial def reqs? (n : Nat) (ts : List Nat) (acc : List Req) : Option (List Req) :=
  if n = 0 then (if ts.isEmpty then some acc.reverse else none) else
  match ts with
  | key :: op :: nv :: rest =>
    if rest.length < nv then none else
    reqs? (n - 1) (rest.drop nv) ({ key := key, op := op, vals := rest.take nv } :: acc)
  | _ => none

def modifySec (s : DState) (sec : Nat) (f : SecB → Option SecB) : DState :=
  match s.pend with
  | none => s.bad
  | some p =>
    if h : sec < p.size then
      match f p[sec] with
      | some b => { s with pend := some (p.set sec b) }
      | none => s.bad
    else s.bad

def applyEvent (s : DState) (cm : Option CM) : DState :=
  { s with cfg := some (sync s.defaults s.cur cm), pend := none }

def emptyCM : CM := { thr := .absent, qos := .absent, burst := .absent, sys := .absent, host := .absent }

def DState.parse (s : DState) : Ident → CM :=
  fun i => ((s.table.find? (fun e => e.1 == i)).map (·.2)).getD emptyCM

def DState.world (s : DState) : World := s.hw.getD (World.init s.defaults)

def DState.hstep (s : DState) (st : HStep) : DState :=
  if s.qmode then
    let x := qevent s.defaults s.parse { w := s.world, q := s.hq } st
    { s with hw := some x.w, hq := x.q, pend := none, pendH := none }
  else
    { s with hw := some (KoordVerif.C20.hstep s.defaults s.parse s.world st), pend := none, pendH := none }

def natLe (a b : Nat) : Bool := a ≤ b

def showSpec (tag : String) (name : Nat) (spec : List Flat) : List String :=
  (spec.zipIdx.map fun (t, i) =>
    (t.mergeSort (fun a b => pathLe a.1 b.1)).map fun e =>
      s!"{tag} {name} {i} {e.2}" ++ String.join (e.1.map fun k => s!" {k}")).flatten

def showWorld (w : World) : List String :=
  let slos := w.slos.mergeSort (fun a b => natLe a.1 b.1)
  let nodes := w.nodes.mergeSort (fun a b => natLe a.1 b.1)
  (slos.map fun (n, sp) => showSpec "s" n sp).flatten ++
  (nodes.map fun (n, ls) =>
    let want := showSpec "x" n (nodeSpec w.cfg ls)
    match lookupA w.slos n with
    | some sp => if showSpec "x" n sp == want then [s!"g {n} same"] else showSpec "g" n (nodeSpec w.cfg ls)
    | none => showSpec "g" n (nodeSpec w.cfg ls)).flatten

def stepLine (s : DState) (line : String) : DState :=
  match toks line with
  | "def" :: sec :: rest =>
    if s.hw.isSome then s.bad else
    match nat? sec, entry? rest, s.cfg with
    | some 0, some e, none => { s with dThr := s.dThr.push e }
    | some 1, some e, none => { s with dQos := s.dQos.push e }
    | some 2, some e, none => { s with dBurst := s.dBurst.push e }
    | some 3, some e, none => { s with dSys := s.dSys.push e }
    | _, _, _ => s.bad
  | "hev" :: kind :: rest =>
    match nat? kind, ints? rest, s.pend, s.cfg with
    | some kind, some ident, none, none =>
      if kind = 1 || kind = 2 then
        { s with hw := some s.world, pend := some (Array.replicate 5 {}), pendH := some (kind, ident) }
      else s.bad
    | _, _, _, _ => s.bad
  | ["hdel"] => if s.pend.isSome || s.cfg.isSome then s.bad else s.hstep .cmDelete
  | ["hforeign"] => if s.pend.isSome || s.cfg.isSome then s.bad else s.hstep .cmForeign
  | ["hrestart", f] =>
    match nat? f with
    | some f => if s.pend.isSome || s.cfg.isSome || f > 1 then s.bad else s.hstep (.restart (f = 1))
    | none => s.bad
  | "hnode" :: op :: name :: nl :: rest =>
    match nat? op, nat? name, nat? nl, nats? rest with
    | some op, some name, some nl, some kv =>
      if s.pend.isSome || s.cfg.isSome || kv.length ≠ 2 * nl then s.bad else
      let ls : Labels := (chunks 2 kv).filterMap fun | [k, v] => some (k, v) | _ => none
      match op with
      | 0 => s.hstep (.nodeAdd name ls)
      | 1 => s.hstep (.nodeUpdate name ls)
      | 2 => if nl = 0 then s.hstep (.nodeDelete name) else s.bad
      | _ => s.bad
    | _, _, _, _ => s.bad
  | ["hmode", m] =>
    match nat? m with
    | some 1 => if s.pend.isSome || s.cfg.isSome || s.qmode then s.bad else { s with hw := some s.world, qmode := true, hq := [] }
    | some 0 =>
      if s.pend.isSome || !s.qmode then s.bad else
      -- whatever the model still has queued is reconciled now (the implementation may legitimately have enqueued less:
      -- its changed flag compares Go structs, the model's compares flattened configs)
      let x := qrun s.defaults s.parse { w := s.world, q := s.hq } (s.hq.map QStep.reco)
      { s with hw := some x.w, hq := [], qmode := false }
    | _ => s.bad
  | ["hrec", n] =>
    match nat? n with
    | some n =>
      if s.pend.isSome || !s.qmode then s.bad else
      let x := qstep s.defaults s.parse { w := s.world, q := s.hq } (.reco n)
      { s with hw := some x.w, hq := x.q }
    | none => s.bad
  | ["hrecfail", n] =>
    match nat? n with
    | some n =>
      if s.pend.isSome || !s.qmode then s.bad else
      let x := qstep s.defaults s.parse { w := s.world, q := s.hq } (.recoFail n)
      { s with hw := some x.w, hq := x.q }
    | none => s.bad
  | ["hrestartlate"] =>
    if s.pend.isSome || !s.qmode then s.bad else
    let x := rstep s.defaults s.parse { w := s.world, q := s.hq } .restartLate
    { s with hw := some x.w, hq := x.q }
  | ["hcmlate"] =>
    if s.pend.isSome || !s.qmode then s.bad else
    let x := rstep s.defaults s.parse { w := s.world, q := s.hq } .cmLate
    { s with hw := some x.w, hq := x.q }
  | ["hobs"] =>
    if s.pend.isSome || s.cfg.isSome then s.bad else
    { s with hw := some s.world, out := s.out ++ (showWorld s.world).toArray }
  | ["ev", p] =>
    if s.hw.isSome then s.bad else
    match nat? p, s.pend with
    | some 0, none => applyEvent s none
    | some 1, none => { s with pend := some (Array.replicate 5 {}) }
    | _, _ => s.bad
  | ["sec", sec, st, hc] =>
    match nat? sec, nat? st, nat? hc with
    | some sec, some st, some hc =>
      if st > 2 then s.bad else
      modifySec s sec fun b => some { b with state := st, hasCl := hc ≠ 0 }
    | _, _, _ => s.bad
  | "c" :: sec :: rest =>
    match nat? sec, entry? rest with
    | some sec, some e => modifySec s sec fun b => if b.state = 2 && b.hasCl then some { b with cl := b.cl.push e } else none
    | _, _ => s.bad
  | "n" :: sec :: kind :: hs :: nreq :: rest =>
    match nat? sec, nat? kind, nat? hs, nat? nreq, nats? rest with
    | some sec, some kind, some hs, some nreq, some rest =>
      match reqs? nreq rest [] with
      | some rs =>
        let sel? : Option Sel := match kind with
          | 0 => some .nothing | 1 => some .invalid | 2 => some (.reqs rs) | _ => none
        match sel? with
        | some sel => modifySec s sec fun b =>
            if b.state = 2 then some { b with nodes := b.nodes.push { sel := sel, hasStrat := hs ≠ 0, strat := #[] } } else none
        | none => s.bad
      | none => s.bad
    | _, _, _, _, _ => s.bad
  | "ne" :: sec :: rest =>
    match nat? sec, entry? rest with
    | some sec, some e => modifySec s sec fun b =>
        if h : 0 < b.nodes.size then
          let nb := b.nodes[b.nodes.size - 1]
          if nb.hasStrat then some { b with nodes := b.nodes.set (b.nodes.size - 1) { nb with strat := nb.strat.push e } } else none
        else none
    | _, _ => s.bad
  | ["end"] =>
    match s.pend with
    | some p =>
      if p.size = 5 then
        let g := fun (i : Nat) => (p.getD i {}).toIn
        let cm : CM := { thr := g 0, qos := g 1, burst := g 2, sys := g 3, host := g 4 }
        match s.pendH with
        | none => applyEvent s (some cm)
        | some (kind, ident) =>
          let s := { s with table := (ident, cm) :: s.table.filter (fun e => !(e.1 == ident)) }
          s.hstep (if kind = 1 then .cmCreate ident else .cmUpdate ident)
      else s.bad
    | none => s.bad
  | "node" :: bw :: nl :: rest =>
    match int? bw, nat? nl, nats? rest, s.pend, s.hw with
    | some bw, some nl, some kv, none, none =>
      if kv.length ≠ 2 * nl || bw < -2 then s.bad else
      let ls : Labels := (chunks 2 kv).filterMap fun | [k, v] => some (k, v) | _ => none
      let bw' : Option (Option Int) := if bw = -1 then none else if bw = -2 then some none else some (some bw)
      let secs := nodeSpecBw s.cur ls bw'
      let lines := (secs.zipIdx.map fun (t, i) => match t with
        | some t => showFlat i t
        | none => [s!"o {i} nil"]).flatten
      { s with cfg := some s.cur, out := s.out ++ lines.toArray }
    | _, _, _, _, _ => s.bad
  | _ => s.bad

def runCase (lines : List String) : List String := (lines.foldl stepLine {}).out.toList

end KoordVerif.C20

def main : IO Unit := KoordVerif.Proto.mainWith KoordVerif.C20.runCase
