import KoordVerif.Common.Proto
import KoordVerif.Model.C01
import KoordVerif.Model.C01Check
/-
Driver for C01.  One case = one history; two model instances (dimension 0 = cpu milli, 1 = memory bytes).
Op lines (integers; a pod object is 7 tokens `id req0 req1 np hasNode term ign`):
  quota <name> <parent> <isParent> <lend> <max0> <max1> <min0> <min1>     UpdateQuota
  delquota <name>                                                        DeleteQuota
  reset                                                                  ResetQuota
  total <d0> <d1> | refresh <name>                                       (no effect on the accounting)
  scale <on>                                                             min-quota scaling switched on for this manager (before any
     quota exists); no observation, no effect: the request floor of a non-lending group is its DECLARED min (`Quota.min`,
     Model/C01.lean `lendRule`), never CalculateInfo.AutoScaleMin, whatever total / refresh did to the latter
     (Props/C01.lean `request_floor_ignores_scaled_min`).
  mode <strict>                                                          first line of a case; no observation.
     strict = informer-consistent history: every block then carries `inv <b>` = the model state satisfies the
     local equations (KoordVerif.C01.checkInv, sound by checkInv_sound) in both dimensions; the harness expects 1.
  padd <q> <pod> | pupd <newQ> <oldQ> <newpod> <oldpod> | pdel <q> <pod>
  reserve <q> <pod> | unreserve <q> <pod> | migrate <out> <in> <pod>
  conc 1                                                                 start of a concurrent batch: the following op lines were issued from
     concurrent goroutines (one per pod, distinct pods, pod-level ops only) and are listed in the canonical order "script of
     pod 1, script of pod 2, ...".  They are applied to both dimension states as usual but NO observation block is printed
     (nothing is observed in the middle of a batch); `conc 1` itself prints nothing.
  conc 0                                                                 end of the batch (all goroutines joined, quiescent): observation
     blocks are switched on again and ONE state block is printed (same format as after an op) - the figures the property
     demands at quiescence = those of the canonical sequential order.
After every op: `root d used npUsed request npRequest` per dimension, then per non-root quota (sorted by name)
  `q name parent isParent lend npods (id assigned)*` and per dimension
  `d k name max min used npUsed request npRequest childRequest selfUsed selfNpUsed selfRequest selfNpRequest`, then `end`.
-/
namespace KoordVerif.C01
open KoordVerif.Proto

def insSorted {α} (key : α → Nat) (x : α) : List α → List α
  | [] => [x]
  | y :: t => if key x ≤ key y then x :: y :: t else y :: insSorted key x t

def sortBy {α} (key : α → Nat) (xs : List α) : List α := xs.foldr (insSorted key) []

def mkPod (k : Nat) : List Int → Option PodObj
  | [id, r0, r1, np, hn, tm, ig] =>
    some { id := id.toNat, req := if k = 0 then r0 else r1, np := np ≠ 0, hasNode := hn ≠ 0, term := tm ≠ 0, ign := ig ≠ 0 }
  | _ => none

def showMax : Option Int → String
  | none => "-1"
  | some m => toString m

def showDim (k : Nat) (q : Quota) : String :=
  s!"d {k} {q.name} {showMax q.max} {q.min} {q.used} {q.npUsed} {q.request} {q.npRequest} {q.childRequest} {q.selfUsed} {q.selfNpUsed} {q.selfRequest} {q.selfNpRequest}"

def showRoot (k : Nat) (s : State) : String :=
  match get? s rootName with
  | none => s!"root {k} missing"
  | some q => s!"root {k} {q.used} {q.npUsed} {q.request} {q.npRequest}"

def showState (strict : Bool) (s0 s1 : State) : List String :=
  let qs := sortBy (fun q : Quota => q.name) (s0.filter (fun q => q.name ≠ rootName))
  [showRoot 0 s0, showRoot 1 s1] ++
  qs.flatMap (fun q =>
    let ps := sortBy (fun p : Pod => p.id) q.pods
    let head := s!"q {q.name} {q.parent} {b2i q.isParent} {b2i q.lend} {ps.length}" ++
      String.join (ps.map (fun p => s!" {p.id} {b2i p.assigned}"))
    let d1 := match get? s1 q.name with
      | some q1 => showDim 1 q1
      | none => "d 1 missing"
    [head, showDim 0 q, d1]) ++
  (if strict then [s!"inv {b2i (checkInv s0 && checkInv s1)}"] else []) ++ ["end"]

/-- parse one op line for dimension `k` -/
def parseOp (k : Nat) (line : String) : Option (Option Op) :=
  match toks line with
  | "reset" :: [] => some (some .reset)
  | "total" :: _ => some none
  | "refresh" :: _ => some none
  | kind :: rest =>
    match ints? rest with
    | none => none
    | some xs =>
      match kind, xs with
      | "quota", [n, p, ip, l, mx0, mx1, mn0, mn1] =>
        some (some (.quota { name := n.toNat, parent := p.toNat, isParent := ip ≠ 0, lend := l ≠ 0,
                             max := if k = 0 then mx0 else mx1, min := if k = 0 then mn0 else mn1 }))
      | "delquota", [n] => some (some (.delQuota n.toNat))
      | "padd", q :: pod => (mkPod k pod).map (fun p => some (.podAdd q.toNat p))
      | "pdel", q :: pod => (mkPod k pod).map (fun p => some (.podDelete q.toNat p))
      | "reserve", q :: pod => (mkPod k pod).map (fun p => some (.reserve q.toNat p))
      | "unreserve", q :: pod => (mkPod k pod).map (fun p => some (.unreserve q.toNat p))
      | "migrate", o :: i :: pod => (mkPod k pod).map (fun p => some (.migrate p o.toNat i.toNat))
      | "pupd", nq :: oq :: pods =>
        match mkPod k (pods.take 7), mkPod k (pods.drop 7) with
        | some np, some op => some (some (.podUpdate nq.toNat oq.toNat np op))
        | _, _ => none
      | _, _ => none
  | [] => none

def applyOp (s : State) : Option Op → State
  | none => s
  | some op => step s op

def runCase (lines : List String) : List String :=
  let rec go (ls : List String) (strict conc : Bool) (s0 s1 : State) (acc : List (List String)) : List (List String) :=
    match ls with
    | [] => acc
    | l :: t =>
      match toks l with
      | ["mode", m] => go t (m == "1") conc s0 s1 acc
      | ["scale", _] => go t strict conc s0 s1 acc
      | ["conc", "1"] => go t strict true s0 s1 acc
      | ["conc", "0"] => go t strict false s0 s1 (showState strict s0 s1 :: acc)
      | _ =>
        match parseOp 0 l, parseOp 1 l with
        | some o0, some o1 =>
          let s0' := applyOp s0 o0
          let s1' := applyOp s1 o1
          go t strict conc s0' s1' (if conc then acc else showState strict s0' s1' :: acc)
        | _, _ => ["bad-op"] :: acc
  (go lines false false init init []).reverse.flatten

end KoordVerif.C01

def main : IO Unit := KoordVerif.Proto.mainWith KoordVerif.C01.runCase
