import KoordVerif.Common.Proto
import KoordVerif.Model.C17
import KoordVerif.Model.C17Read
/-
Driver for C17.  A case is one history of one PodMigrationJob:
  init <paused direct ttl podRefValid podUID resvRef evictAnno createdBy> <phase status reason node podRef> <n> (<ty st reason msg>)*n
  restart <uid> | tick <d> | pause <0|1> | limit <0|1> | preempt <k> | bpod <k>
  pod 0 | pod 1 <uid node sched msg pending>
  resv 0 | resv 1 <phase node sched msg expired owner pendingMode orderLabel needPreempt>
  rec <faultmask>
  recx <write-faultmask> <read-faultmask> <n> (<k> <event>)*n      extended reconcile (Model/C17Read.lean); event =
        1 (pod deleted) | 2 <uid node sched msg pending> | 3 (reservation deleted) | 4 <the 9 resv fields> | 5 <bpod>
  arb                                                              arbitration hand-off: no modelled field changes
`init`'s `direct` token: 0 / 1 = the effective mode itself, 10 + mode + 3*default = (Spec.Mode, args.DefaultJobMode)
codes 0 "" / 1 ReservationFirst / 2 EvictDirectly, dispatched by `effDirect`.
Output, after every `rec` / `recx` only:
  job <phase status reason node podRef podUID resvRef>
  conds (<ty st reason msg>)*
  acts (<kind ok arg>)*
  resv <exists pendingMode orderLabel>
-/
namespace KoordVerif.C17
open KoordVerif.Proto

def nb (n : Nat) : Bool := n != 0
def bn (b : Bool) : Nat := if b then 1 else 0

def parseConds : List Nat → Option (List Cond)
  | [] => some []
  | ty :: st :: rs :: msg :: rest => (parseConds rest).map fun cs => ⟨ty, nb st, rs, msg⟩ :: cs
  | _ => none

def parseEvs : Nat → List Nat → Option (List (Nat × Op))
  | 0, [] => some []
  | 0, _ => none
  | n + 1, k :: 1 :: rest => (parseEvs n rest).map fun es => (k, Op.pod none) :: es
  | n + 1, k :: 2 :: uid :: node :: sched :: msg :: pend :: rest =>
    (parseEvs n rest).map fun es => (k, Op.pod (some ⟨uid, node, sched, msg, nb pend⟩)) :: es
  | n + 1, k :: 3 :: rest => (parseEvs n rest).map fun es => (k, Op.resv none) :: es
  | n + 1, k :: 4 :: ph :: node :: sched :: msg :: ex :: owner :: pm :: ol :: np :: rest =>
    (parseEvs n rest).map fun es => (k, Op.resv (some ⟨ph, node, sched, msg, nb ex, owner, nb pm, nb ol, nb np⟩)) :: es
  | n + 1, k :: 5 :: b :: rest => (parseEvs n rest).map fun es => (k, Op.bpod b) :: es
  | _, _ => none

def emptyEnv : Env := { now := 0, pod := none, resv := none, bpod := 0, limited := false, preempt := 0, ctrl := 0 }

def showWorld (w : World) (o : Out) : List String :=
  let j := w.job
  let conds := j.status.conds.foldl (fun acc c => acc ++ [c.ty, bn c.st, c.reason, c.msg]) ([] : List Nat)
  let acts := o.acts.foldl (fun acc a => acc ++ [a.k.code, bn a.ok, a.arg]) ([] : List Nat)
  [ "job " ++ showNats [j.status.phase, j.status.status, j.status.reason, j.status.node, bn j.status.podRef, j.spec.podUID, bn j.spec.resvRef],
    (if conds.isEmpty then "conds" else "conds " ++ showNats conds),
    (if acts.isEmpty then "acts" else "acts " ++ showNats acts),
    match w.env.resv with
    | none => "resv 0 0 0"
    | some r => "resv " ++ showNats [1, bn r.pendingMode, bn r.orderLabel] ]

def showWorldX (w : World) (o : OutX) : List String := showWorld w ⟨o.acts, []⟩

def stepLine (st : Option World × List String) (line : String) : Option World × List String :=
  let (ow, out) := st
  let bad := (ow, out ++ ["bad-op"])
  match toks line with
  | "init" :: rest =>
    match nats? rest with
    | some (p :: d :: ttl :: prv :: puid :: rref :: ea :: cb :: ph :: ss :: rs :: node :: pr :: n :: cs) =>
      match parseConds cs with
      | some conds =>
        if conds.length ≠ n then bad else
        let d := if d < 10 then d else if effDirect ((d - 10) % 3) ((d - 10) / 3) then 1 else 0
        let job : Job := { spec := ⟨nb p, nb d, ttl, nb prv, puid, nb rref, nb ea, cb⟩,
                           status := ⟨ph, ss, rs, node, nb pr, conds⟩ }
        (some { job := job, env := emptyEnv }, out)
      | none => bad
    | _ => bad
  | ["arb"] => (ow, out)
  | "recx" :: rest =>
    match ow, nats? rest with
    | some w, some (f :: rf :: n :: evs) =>
      match parseEvs n evs with
      | some es =>
        let (w', o) := reconcileX w ⟨f, rf, es⟩
        (some w', out ++ showWorldX w' o)
      | none => bad
    | _, _ => bad
  | cmd :: rest =>
    match ow, nats? rest with
    | some w, some args =>
      let opOf : Option Op := match cmd, args with
        | "tick", [d] => some (.tick d)
        | "pause", [b] => some (.pause (nb b))
        | "limit", [b] => some (.limit (nb b))
        | "preempt", [k] => some (.preempt k)
        | "bpod", [k] => some (.bpod k)
        | "restart", [u] => some (.restart u)
        | "pod", [0] => some (.pod none)
        | "pod", [1, uid, node, sched, msg, pend] => some (.pod (some ⟨uid, node, sched, msg, nb pend⟩))
        | "resv", [0] => some (.resv none)
        | "resv", [1, ph, node, sched, msg, ex, owner, pm, ol, np] =>
          some (.resv (some ⟨ph, node, sched, msg, nb ex, owner, nb pm, nb ol, nb np⟩))
        | "rec", [f] => some (.recon f)
        | _, _ => none
      match opOf with
      | none => bad
      | some (.recon f) =>
        let (w', o) := step w (.recon f)
        -- cross-check of the two models on every generated write-fault-only reconcile: the extended model without read
        -- faults and events must give the same world, the same writes and as many evictor calls
        let (wx, ox) := reconcileX w ⟨f, 0, []⟩
        let same := decide (wx = w') && decide ((ox.acts.filter fun a => a.k.code < 8) = o.acts) && ox.evicts.length == o.evicts.length
        (some w', out ++ showWorld w' o ++ (if same then [] else ["models-disagree"]))
      | some op => (some (step w op).1, out)
    | _, _ => bad
  | [] => bad

def runCase (lines : List String) : List String := (lines.foldl stepLine (none, [])).2

end KoordVerif.C17

def main : IO Unit := KoordVerif.Proto.mainWith KoordVerif.C17.runCase
