import KoordVerif.Common.Proto
import KoordVerif.Model.C17
import KoordVerif.Model.C17Read
import KoordVerif.Model.C17Opts
import KoordVerif.Model.C17Cache
import KoordVerif.Model.C17Arb
import KoordVerif.Model.C17Scav
/-
Driver for C17.  A case is one history of one PodMigrationJob:
  init <paused direct ttl podRefValid podUID resvRef evictAnno createdBy> <phase status reason node podRef> <n> (<ty st reason msg>)*n
  restart <uid> | tick <d> | pause <0|1> | limit <0|1> | preempt <k> | bpod <k>
  pod 0 | pod 1 <uid node sched msg pending>
  resv 0 | resv 1 <phase node sched msg expired owner pendingMode orderLabel needPreempt>
  rec <faultmask>
  recx <write-faultmask> <read-faultmask> <n> (<k> <event>)*n      extended reconcile (Model/C17Read.lean); event =
        1 (pod deleted) | 2 <uid node sched msg pending> | 3 (reservation deleted) | 4 <the 9 resv fields> | 5 <bpod>
  arb                                                              arbitration hand-off: no modelled field changes
`init`'s `direct` token: 0 / 1 = the effective mode itself, 10 + mode + 3*default = (Spec.Mode, args.DefaultJobMode)
codes 0 "" / 1 ReservationFirst / 2 EvictDirectly, dispatched by `effDirect`.
  tmpl <ao name ttl expires userLabel createdBy podTmpl>            the job's own reservation template (after `init`)
  consume <uid> <allocateOnce>                                     scheduler syncStatus: a sibling pod consumed the reservation
  lagrec <k> <faultmask>                                           reconcile through a lagging informer cache (Model/C17Cache.lean)
  arbinit <phase pod nonRetry retry> | arbadd | arbset <phase> | arbpod <0|1> | arbround      (Model/C17Arb.lean)
after `rec` / `lagrec` that CREATED the reservation additionally:  wresv <ao ttl expires owners createdBy order userLabel nodeCleared podTmplUser skipAffinity>
after `lagrec` additionally:  lag <versions back actually served>;  after `arbround`:  arb <phase passed waiting>
  evictjob <ctrl dfltMode ttl> <uid node sched msg pending>        (instead of `init`) the job Reconciler.Evict of instance <ctrl> creates for that pod
                                                                   (Model/C17Scav.lean createdJob); output: created 1 <createdBy direct ttl podUID phase resvRef>
  scav <faultmask>                                                 one round of doScavenge; output: scav <jobExists resvExists> / sacts (<kind ok>)*
  recg                                                             reconcile request after the job was deleted; output: recg <API writes>
Output, after every `rec` / `recx` only:
  job <phase status reason node podRef podUID resvRef>
  conds (<ty st reason msg>)*
  acts (<kind ok arg>)*
  resv <exists pendingMode orderLabel>
-/
namespace KoordVerif.C17
open KoordVerif.Proto

def nb (n : Nat) : Bool := n != 0
def bn (b : Bool) : Nat := if b then 1 else 0

def parseConds : List Nat → Option (List Cond)
  | [] => some []
  | ty :: st :: rs :: msg :: rest => (parseConds rest).map fun cs => ⟨ty, nb st, rs, msg⟩ :: cs
  | _ => none

def parseEvs : Nat → List Nat → Option (List (Nat × Op))
  | 0, [] => some []
  | 0, _ => none
  | n + 1, k :: 1 :: rest => (parseEvs n rest).map fun es => (k, Op.pod none) :: es
  | n + 1, k :: 2 :: uid :: node :: sched :: msg :: pend :: rest =>
    (parseEvs n rest).map fun es => (k, Op.pod (some ⟨uid, node, sched, msg, nb pend⟩)) :: es
  | n + 1, k :: 3 :: rest => (parseEvs n rest).map fun es => (k, Op.resv none) :: es
  | n + 1, k :: 4 :: ph :: node :: sched :: msg :: ex :: owner :: pm :: ol :: np :: rest =>
    (parseEvs n rest).map fun es => (k, Op.resv (some ⟨ph, node, sched, msg, nb ex, owner, nb pm, nb ol, nb np⟩)) :: es
  | n + 1, k :: 5 :: b :: rest => (parseEvs n rest).map fun es => (k, Op.bpod b) :: es
  | _, _ => none

def emptyEnv : Env := { now := 0, pod := none, resv := none, bpod := 0, limited := false, preempt := 0, ctrl := 0 }

def showWorld (w : World) (o : Out) : List String :=
  let j := w.job
  let conds := j.status.conds.foldl (fun acc c => acc ++ [c.ty, bn c.st, c.reason, c.msg]) ([] : List Nat)
  let acts := o.acts.foldl (fun acc a => acc ++ [a.k.code, bn a.ok, a.arg]) ([] : List Nat)
  [ "job " ++ showNats [j.status.phase, j.status.status, j.status.reason, j.status.node, bn j.status.podRef, j.spec.podUID, bn j.spec.resvRef],
    (if conds.isEmpty then "conds" else "conds " ++ showNats conds),
    (if acts.isEmpty then "acts" else "acts " ++ showNats acts),
    match w.env.resv with
    | none => "resv 0 0 0"
    | some r => "resv " ++ showNats [1, bn r.pendingMode, bn r.orderLabel] ]

def showWorldX (w : World) (o : OutX) : List String := showWorld w ⟨o.acts, []⟩

def stepLine (st : Option World × List String) (line : String) : Option World × List String :=
  let (ow, out) := st
  let bad := (ow, out ++ ["bad-op"])
  match toks line with
  | "init" :: rest =>
    match nats? rest with
    | some (p :: d :: ttl :: prv :: puid :: rref :: ea :: cb :: ph :: ss :: rs :: node :: pr :: n :: cs) =>
      match parseConds cs with
      | some conds =>
        if conds.length ≠ n then bad else
        let d := if d < 10 then d else if effDirect ((d - 10) % 3) ((d - 10) / 3) then 1 else 0
        let job : Job := { spec := ⟨nb p, nb d, ttl, nb prv, puid, nb rref, nb ea, cb⟩,
                           status := ⟨ph, ss, rs, node, nb pr, conds⟩ }
        (some { job := job, env := emptyEnv }, out)
      | none => bad
    | _ => bad
  | ["arb"] => (ow, out)
  | "recx" :: rest =>
    match ow, nats? rest with
    | some w, some (f :: rf :: n :: evs) =>
      match parseEvs n evs with
      | some es =>
        let (w', o) := reconcileX w ⟨f, rf, es⟩
        (some w', out ++ showWorldX w' o)
      | none => bad
    | _, _ => bad
  | cmd :: rest =>
    match ow, nats? rest with
    | some w, some args =>
      let opOf : Option Op := match cmd, args with
        | "tick", [d] => some (.tick d)
        | "pause", [b] => some (.pause (nb b))
        | "limit", [b] => some (.limit (nb b))
        | "preempt", [k] => some (.preempt k)
        | "bpod", [k] => some (.bpod k)
        | "restart", [u] => some (.restart u)
        | "pod", [0] => some (.pod none)
        | "pod", [1, uid, node, sched, msg, pend] => some (.pod (some ⟨uid, node, sched, msg, nb pend⟩))
        | "resv", [0] => some (.resv none)
        | "resv", [1, ph, node, sched, msg, ex, owner, pm, ol, np] =>
          some (.resv (some ⟨ph, node, sched, msg, nb ex, owner, nb pm, nb ol, nb np⟩))
        | "rec", [f] => some (.recon f)
        | _, _ => none
      match opOf with
      | none => bad
      | some (.recon f) =>
        let (w', o) := step w (.recon f)
        -- cross-check of the two models on every generated write-fault-only reconcile: the extended model without read
        -- faults and events must give the same world, the same writes and as many evictor calls
        let (wx, ox) := reconcileX w ⟨f, 0, []⟩
        let same := decide (wx = w') && decide ((ox.acts.filter fun a => a.k.code < 8) = o.acts) && ox.evicts.length == o.evicts.length
        (some w', out ++ showWorld w' o ++ (if same then [] else ["models-disagree"]))
      | some op => (some (step w op).1, out)
    | _, _ => bad
  | [] => bad

/-- driver state around the base interpreter: the job's template, the versioned store of the lagging stream, the
    arbitrator state -/
structure DS where
  w : Option World := none
  out : List String := []
  tm : Option Tmpl := none
  ver : Nat := 0
  olds : List Job := []
  assumed : Option Nat := none
  arb : Option ArbS := none
  gone : Bool := false

def aoCode : Option Bool → Nat
  | none => 0
  | some true => 1
  | some false => 2

/-- the `wresv` line when this reconcile created the reservation -/
def wresvLine (tm : Option Tmpl) (w w' : World) (acts : List Act) : List String :=
  match w.env.resv, w'.env.resv, w.env.pod with
  | none, some _, some p =>
    if acts.any (fun a => a.k == .resvCreate && a.ok) then
      let x := writtenResv tm w.job.spec.ttl p
      ["wresv " ++ showNats [aoCode x.ao, x.ttl, bn x.expires, x.owners, bn x.createdByDefault, bn x.orderLabel,
        bn x.userLabel, bn x.nodeCleared, bn x.podTmplUser, bn x.skipAffinity]]
    else []
  | _, _, _ => []

def stepLineD (ds : DS) (line : String) : DS :=
  let bad := { ds with out := ds.out ++ ["bad-op"] }
  let base := fun (ds : DS) =>
    let (ow, out) := stepLine (ds.w, ds.out) line
    { ds with w := ow, out := out }
  match toks line with
  | "init" :: _ => { base ds with tm := none, ver := 0, olds := [], assumed := none, gone := false }
  | "evictjob" :: rest =>
    match nats? rest with
    | some [ctrl, dflt, ttl, uid, node, sched, msg, pend] =>
      let p : Pod := ⟨uid, node, sched, msg, nb pend⟩
      let job := createdJob ctrl (effDirect dflt dflt) ttl p
      { ds with w := some { job := job, env := { emptyEnv with pod := some p, ctrl := ctrl } }, tm := none, ver := 0, olds := [],
                assumed := none, gone := false,
                out := ds.out ++ ["created " ++ showNats [1, job.spec.createdBy, bn job.spec.direct, job.spec.ttl, job.spec.podUID,
                                                         job.status.phase, bn job.spec.resvRef]] }
    | _ => bad
  | ["scav", f] =>
    match ds.w, f.toNat? with
    | some w, some f =>
      let (s', acts) := scavenge false ⟨w, ds.gone⟩ f
      let flat := acts.foldl (fun acc a => acc ++ [a.1, bn a.2]) ([] : List Nat)
      { ds with w := some s'.w, gone := s'.gone,
                out := ds.out ++ ["scav " ++ showNats [bn (!s'.gone), bn s'.w.env.resv.isSome],
                                  (if flat.isEmpty then "sacts" else "sacts " ++ showNats flat)] }
    | _, _ => bad
  | ["recg"] =>
    match ds.w with
    | some w => if ds.gone then { ds with out := ds.out ++ ["recg " ++ toString (reconcileS ⟨w, true⟩ 0).2.acts.length] } else bad
    | none => bad
  | "restart" :: _ => { base ds with olds := [], assumed := none }
  | "tmpl" :: rest =>
    match nats? rest with
    | some [ao, name, ttl, ex, ul, cb, pt] =>
      if ao > 2 then bad else
      { ds with tm := some ⟨if ao = 0 then none else some (ao == 1), nb name, ttl, nb ex, nb ul, nb cb, nb pt⟩ }
    | _ => bad
  | ["consume", uid, ao] =>
    match ds.w, uid.toNat?, ao.toNat? with
    | some w, some uid, some ao =>
      match w.env.resv with
      | some r => { ds with w := some { w with env := { w.env with resv := some (consume r uid (nb ao)) } } }
      | none => bad
    | _, _, _ => bad
  | ["rec", f] =>
    if ds.gone then bad else
    match ds.w, f.toNat? with
    | some w, some f =>
      let (w', o) := step w (.recon f)
      let ds' := base ds
      { ds' with out := ds'.out ++ wresvLine ds.tm w w' o.acts }
    | _, _ => bad
  | ["lagrec", k, f] =>
    match ds.w, k.toNat?, f.toNat? with
    | some w, some k, some f =>
      let cs : CS := { w := w, ver := ds.ver, olds := ds.olds, assumed := ds.assumed }
      let (cs', o) := recLag .afterWrite cs k f
      { ds with w := some cs'.w, ver := cs'.ver, olds := cs'.olds, assumed := cs'.assumed,
                out := ds.out ++ showWorld cs'.w o ++ wresvLine ds.tm w cs'.w o.acts ++ ["lag " ++ toString (served cs k).1] }
    | _, _, _ => bad
  | "arbinit" :: rest =>
    match nats? rest with
    | some [ph, pod, nr, rt] => { ds with arb := some ⟨ph, 0, nb pod, nb nr, nb rt, none, false⟩ }
    | _ => bad
  -- the Create handler skips Succeeded / Failed / Aborted jobs (fix 2a5d178; tied by tie_create_handler_guard): guarded add
  | ["arbadd"] => match ds.arb with | some s => { ds with arb := some (arbStep true s .add) } | none => bad
  | ["arbset", p] => match ds.arb, p.toNat? with | some s, some p => { ds with arb := some (arbSet s p) } | _, _ => bad
  | ["arbpod", b] => match ds.arb, b.toNat? with | some s, some b => { ds with arb := some { s with pod := nb b } } | _, _ => bad
  | ["arbround"] =>
    match ds.arb with
    | some s =>
      let s' := arbRound s
      { ds with arb := some s', out := ds.out ++ ["arb " ++ showNats [s'.phase, bn s'.passed, bn s'.waiting.isSome]] }
    | none => bad
  | _ => base ds

def runCase (lines : List String) : List String := (lines.foldl stepLineD {}).out

end KoordVerif.C17

def main : IO Unit := KoordVerif.Proto.mainWith KoordVerif.C17.runCase
