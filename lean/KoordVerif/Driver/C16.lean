import KoordVerif.Common.Proto
import KoordVerif.Model.C16
import KoordVerif.Model.C16Arb
import KoordVerif.Model.C16Glue
import KoordVerif.Proofs.C16ExtArb
/-
Driver for C16.  Ops (one history per case; every token an integer, -1 = nil pointer):

 harness evict (pkg/descheduler/evictions)
  pe <dry> <capNode> <capNs>            new PodEvictor                     -> (no output)
  ev <node> <ns> <apiOk>                PodEvictor.Evict                   -> ev <ok> <called> t <total> n (<k> <v>)* s (<k> <v>)*
  el <capNode> <capNs> <capTotal>       new EvictionLimiter
  allow <node> <ns>                     AllowEvict                         -> allow <b>
  done <node> <ns>                      Done                               -> ctr t … n … s …
  reset                                 Reset                              -> ctr …
  conc <n> (<node> <ns>)*               n goroutines call PodEvictor.Evict -> conc <successes> <calls> t … n … s …
 harness proxy (pkg/descheduler/framework/runtime)
  px <dry> <hasLim> <capNode> <capNs> <capTotal>   new framework + limiter
  pev <node> <ns> <plugOk> <fresh>      evictorProxy.Evict                 -> ev …
  pconc <fresh> <n> (<node> <ns>)*      n goroutines                       -> conc …
  pxm <nfw>                             nfw frameworks (profiles) built over the ONE limiter of the preceding px
  pev <node> <ns> <plugOk> <fresh> <fw> evictorProxy.Evict through framework fw -> ev …
  pconcm <fresh> <n> (<fw> <node> <ns>)*  n goroutines through proxies of >= 2 different frameworks -> conc …
 harness cycle (pkg/descheduler)
  cy <dry> <capNode> <capNs> <capTotal>  new Descheduler + EvictionLimiter shared by its profiles
  cyc <n1> <n2> (<node> <ns> <apiOk>)*   one deschedulerOnce: n1 attempts in the Deschedule phase, n2 in the Balance phase
                                        -> a <ok> <called> per attempt, then ctr t … n … s … (limiter after the cycle)
 harness arb (pkg/descheduler/controllers/migration/arbitrator)
  cfg <maxGlobal> <maxNode> <maxNs> <maxMigr> <maxUnav>
  cfgx <mmKind> <muKind> <skipCheckExpectedReplicas> <n> <gate code>*      per-workload limit forms (0 nil/int, 1 percent, 2 malformed), SkipEvictionGates
  wl <id> <replicas> | pod <id> <node> <ns> <wl> <ready> <ann> [<terminating> <podphase>] | delpod <id> | ready <id> <b>
  term <id>                             pod gets a deletionTimestamp      | pphase <id> <podphase 0 Running 1 Pending 2 Succeeded 3 Failed>
  restart                               new arbitrator + filter, Create event for every job in the API (a finished job is not taken in) -> state block
  job <id> <pod> <ns> <phase> <passedAnn> <arbitrated> <waiting> [<uid>]  direct creation; PodRef = namespace/name of pod <pod>
                                        (0 = nil PodRef, an id no pod has = resolves to nothing) and UID of pod <uid>
                                        (default <pod>; 0 = empty UID, an id no pod has = stale UID)
  create <id> <pod>                     arbitrator.Filter then create+Add  -> filter <b>
  phase <id> <phase>                    status change + handler.Update     -> state block
  round <nf> <failIds>* <no> <order>*   doOnceArbitrate                    -> wf <hypothesis WF of round_inv on the state before> + state block
  state block: one line per job by id:  j <id> <phase> <passedAnn> <arbitrated> <waiting>
  -- events through the real arbitrationHandler (Model/C16Glue.lean `handle`)
  upd <n> <jid>*                        informer Update events, ObjectNew = the object in the API -> state block
  roundx <nf> <failIds>* <no> <order>*  doOnceArbitrate with every own write echoed as an Update event before the next
                                        job is filtered                    -> wf … + state block
  deljob <id>                           API object deleted + handler.Delete -> state block
  cfgvia                                the MigrationControllerArgs of cfg / cfgx were written into a v1alpha2 file and came back through
                                        decoding, defaulting, conversion, validation -> arbcfg <mg> <mn> <ms> <mmKind> <mm> <muKind> <mu> <skipCER> <n> <gate>*
 harness config (pkg/descheduler; cmd/koord-descheduler/app/options.ApplyTo on a generated v1alpha2 file)
  cfgfile <dry> <node> <ns> <total>     the three caps as written: -1 key absent, -2 null, -3 malformed (-> cfgerr), n >= 0 the integer
                                        -> caps <node> <ns> <total> (decoded internal config, -1 = nil); then as `cy`
-/
namespace KoordVerif.C16
open KoordVerif.Proto

def optCap (i : Int) : Option Nat := if i < 0 then none else some i.toNat

def insSorted (e : Nat × Nat) : List (Nat × Nat) → List (Nat × Nat)
  | [] => [e]
  | x :: r => if e.1 ≤ x.1 then e :: x :: r else x :: insSorted e r

def sortCnt (m : Cnt) : Cnt := m.foldl (fun acc e => insSorted e acc) []

def showCnt (m : Cnt) : String :=
  String.join ((sortCnt m).map fun e => s!" {e.1} {e.2}")

def showCtr (s : Ctr) : String := s!"t {s.total} n{showCnt s.node} s{showCnt s.ns}"

structure DSt where
  caps : Caps := ⟨none, none, none⟩
  lim : Option Caps := none
  dry : Bool := false
  ctr : Ctr := {}
  cfg : ArbCfg := { maxGlobal := -1, maxNode := -1, maxNs := -1, maxMigr := -1, maxUnav := -1, replicas := [] }
  arb : ArbSt := {}

def podsOf : List Int → List Pod
  | a :: b :: r => ⟨a.toNat, b.toNat⟩ :: podsOf r
  | _ => []

/-- (framework, node, namespace) triples: the limiter is shared, so the framework does not matter to the outcome -/
def podsOfFw : List Int → List Pod
  | _ :: a :: b :: r => ⟨a.toNat, b.toNat⟩ :: podsOfFw r
  | _ => []

def triplesOf : List Int → List (Pod × Bool)
  | a :: b :: c :: r => (⟨a.toNat, b.toNat⟩, c ≠ 0) :: triplesOf r
  | _ => []

/-- sequential execution in index order (the concurrent harness only generates request sets
    whose outcome does not depend on the order). -/
def seqAll (f : Ctr → Pod → Ctr × EvOut) (s : Ctr) (ps : List Pod) : Ctr × Nat × Nat :=
  ps.foldl (fun acc p =>
    let r := f acc.1 p
    (r.1, acc.2.1 + (if r.2.ok then 1 else 0), acc.2.2 + (if r.2.called then 1 else 0))) (s, 0, 0)

def showEv (r : Ctr × EvOut) : String := s!"ev {b2i r.2.ok} {b2i r.2.called} {showCtr r.1}"

def insJob (j : JobA) : List JobA → List JobA
  | [] => [j]
  | x :: r => if j.id ≤ x.id then j :: x :: r else x :: insJob j r

def stateBlock (st : ArbSt) : List String :=
  (st.jobs.foldl (fun acc j => insJob j acc) []).map fun j =>
    s!"j {j.id} {j.phase} {b2i j.passedAnn} {b2i (st.arbitrated.contains j.id)} {b2i (st.waiting.contains j.id)}"

def capDeclOf (i : Int) : CapDecl := if i = -3 then .malformed else if i = -2 then .null else if i < 0 then .absent else .val i.toNat

def showCap : Option Nat → String
  | none => "-1"
  | some n => toString n

def runLine (d : DSt) (line : String) : DSt × List String :=
  match toks line with
  | [] => (d, [])
  | op :: rest =>
    match ints? rest with
    | none => (d, ["bad-op"])
    | some xs =>
      match op, xs with
      | "pe", [dry, cn, cs] =>
        ({ d with caps := ⟨optCap cn, optCap cs, none⟩, dry := dry ≠ 0, ctr := {} }, [])
      | "ev", [n, s, ok] =>
        let r := peEvict d.caps d.dry d.ctr ⟨n.toNat, s.toNat⟩ (ok ≠ 0)
        ({ d with ctr := r.1 }, [showEv r])
      | "el", [cn, cs, ct] =>
        ({ d with caps := ⟨optCap cn, optCap cs, optCap ct⟩, ctr := {} }, [])
      | "allow", [n, s] =>
        (d, [s!"allow {b2i (!elRefuse d.caps d.ctr ⟨n.toNat, s.toNat⟩)}"])
      | "done", [n, s] =>
        let c := count d.ctr ⟨n.toNat, s.toNat⟩
        ({ d with ctr := c }, ["ctr " ++ showCtr c])
      | "reset", [] => ({ d with ctr := {} }, ["ctr " ++ showCtr {}])
      | "conc", n :: ps =>
        if ps.length ≠ 2 * n.toNat then (d, ["bad-op"]) else
        let r := seqAll (fun c p => peEvict d.caps d.dry c p true) d.ctr (podsOf ps)
        ({ d with ctr := r.1 }, [s!"conc {r.2.1} {r.2.2} {showCtr r.1}"])
      | "px", [dry, hasLim, cn, cs, ct] =>
        ({ d with lim := if hasLim ≠ 0 then some ⟨optCap cn, optCap cs, optCap ct⟩ else none,
                  dry := dry ≠ 0, ctr := {} }, [])
      | "pev", [n, s, ok, _fresh] =>
        let r := pxEvict d.lim d.dry d.ctr ⟨n.toNat, s.toNat⟩ (ok ≠ 0)
        ({ d with ctr := r.1 }, [showEv r])
      | "pxm", [_nfw] => (d, [])
      | "pev", [n, s, ok, _fresh, _fw] =>
        let r := pxEvict d.lim d.dry d.ctr ⟨n.toNat, s.toNat⟩ (ok ≠ 0)
        ({ d with ctr := r.1 }, [showEv r])
      | "pconcm", _fresh :: n :: ps =>
        if ps.length ≠ 3 * n.toNat then (d, ["bad-op"]) else
        let r := seqAll (fun c p => pxEvict d.lim d.dry c p true) d.ctr (podsOfFw ps)
        ({ d with ctr := r.1 }, [s!"conc {r.2.1} {r.2.2} {showCtr r.1}"])
      | "pconc", _fresh :: n :: ps =>
        if ps.length ≠ 2 * n.toNat then (d, ["bad-op"]) else
        let r := seqAll (fun c p => pxEvict d.lim d.dry c p true) d.ctr (podsOf ps)
        ({ d with ctr := r.1 }, [s!"conc {r.2.1} {r.2.2} {showCtr r.1}"])
      -- descheduling cycle
      | "cy", [dry, cn, cs, ct] =>
        ({ d with lim := some ⟨optCap cn, optCap cs, optCap ct⟩, dry := dry ≠ 0, ctr := {} }, [])
      | "cyc", n1 :: n2 :: ts =>
        if ts.length ≠ 3 * (n1.toNat + n2.toNat) then (d, ["bad-op"]) else
        let ops := triplesOf ts
        let r := cycle d.lim d.dry d.ctr (ops.take n1.toNat) (ops.drop n1.toNat)
        ({ d with ctr := r.1 }, (r.2.map fun o => s!"a {b2i o.ok} {b2i o.called}") ++ ["ctr " ++ showCtr r.1])
      -- arbitrator
      | "cfg", [mg, mn, ms, mm, mu] =>
        ({ d with cfg := { d.cfg with maxGlobal := mg, maxNode := mn, maxNs := ms, maxMigr := mm, maxUnav := mu } }, [])
      | "cfgx", mk :: uk :: cer :: ns :: codes =>
        if codes.length ≠ ns.toNat then (d, ["bad-op"]) else
        ({ d with cfg := { d.cfg with mmKind := mk.toNat, muKind := uk.toNat, skipCER := cer ≠ 0,
                                      skip := codes.map Int.toNat } }, [])
      | "wl", [id, r] =>
        ({ d with cfg := { d.cfg with replicas := (id.toNat, r.toNat) :: d.cfg.replicas } }, [])
      | "pod", [id, n, s, w, rd, an] =>
        ({ d with arb := { d.arb with pods := d.arb.pods ++ [⟨id.toNat, n.toNat, s.toNat, w.toNat, rd ≠ 0, an ≠ 0, false, 0⟩] } }, [])
      | "pod", [id, n, s, w, rd, an, tm, ph] =>
        ({ d with arb := { d.arb with pods := d.arb.pods ++ [⟨id.toNat, n.toNat, s.toNat, w.toNat, rd ≠ 0, an ≠ 0, tm ≠ 0, ph.toNat⟩] } }, [])
      | "term", [id] =>
        ({ d with arb := { d.arb with pods := d.arb.pods.map fun p =>
            if p.id == id.toNat then { p with term := true } else p } }, [])
      | "pphase", [id, ph] =>
        ({ d with arb := { d.arb with pods := d.arb.pods.map fun p =>
            if p.id == id.toNat then { p with phase := ph.toNat } else p } }, [])
      | "restart", [] =>
        let a' := restart d.arb
        ({ d with arb := a' }, stateBlock a')
      | "delpod", [id] =>
        ({ d with arb := { d.arb with pods := d.arb.pods.filter fun p => p.id != id.toNat } }, [])
      | "ready", [id, b] =>
        ({ d with arb := { d.arb with pods := d.arb.pods.map fun p =>
            if p.id == id.toNat then { p with ready := b ≠ 0 } else p } }, [])
      | "job", [id, p, s, ph, pa, ar, w] =>
        let a := d.arb
        ({ d with arb := { a with jobs := a.jobs ++ [⟨id.toNat, p.toNat, s.toNat, ph.toNat, pa ≠ 0, p.toNat⟩],
                                  arbitrated := if ar ≠ 0 then id.toNat :: a.arbitrated else a.arbitrated,
                                  waiting := if w ≠ 0 then id.toNat :: a.waiting else a.waiting } }, [])
      | "job", [id, p, s, ph, pa, ar, w, u] =>
        let a := d.arb
        ({ d with arb := { a with jobs := a.jobs ++ [⟨id.toNat, p.toNat, s.toNat, ph.toNat, pa ≠ 0, u.toNat⟩],
                                  arbitrated := if ar ≠ 0 then id.toNat :: a.arbitrated else a.arbitrated,
                                  waiting := if w ≠ 0 then id.toNat :: a.waiting else a.waiting } }, [])
      | "create", [id, p] =>
        match findPod d.arb p.toNat with
        | none => (d, ["bad-op"])
        | some pod =>
          let ok := arbFilter d.cfg d.arb pod
          let a := d.arb
          let a' := if ok then handle { a with jobs := a.jobs ++ [⟨id.toNat, pod.id, pod.ns, 0, false, pod.id⟩] } (.create id.toNat 0)
                    else a
          ({ d with arb := a' }, [s!"filter {b2i ok}"])
      | "phase", [id, ph] =>
        let a := d.arb
        let a' := handle { a with jobs := setJob a.jobs id.toNat (fun j => { j with phase := ph.toNat }) } (.update id.toNat ph.toNat)
        ({ d with arb := a' }, stateBlock a')
      | "upd", n :: ids =>
        if ids.length ≠ n.toNat then (d, ["bad-op"]) else
        let a' := echoAll d.arb (ids.map Int.toNat)
        ({ d with arb := a' }, stateBlock a')
      -- spec.paused of job id becomes v (ev = 0: set at creation, no event; ev = 1: a spec Update, whose Update event reaches the
      -- handler with the job's phase unchanged).  The arbitrator never reads spec.paused, so the model has no such field: a
      -- paused job keeps its phase, its annotation, its mark and its place in every count
      | "pause", [id, _v, ev] =>
        if ev = 0 then (d, []) else
        let a' := echoAll d.arb [id.toNat]
        ({ d with arb := a' }, stateBlock a')
      | "deljob", [id] =>
        let a' := deleteJob d.arb id.toNat
        ({ d with arb := a' }, stateBlock a')
      | "roundx", nf :: r =>
        let fails := (r.take nf.toNat).map Int.toNat
        match r.drop nf.toNat with
        | no :: order =>
          if order.length ≠ no.toNat then (d, ["bad-op"]) else
          let a' := roundEager d.cfg fails d.arb (order.map Int.toNat)
          ({ d with arb := a' }, s!"wf {b2i (wfB d.arb)}" :: stateBlock a')
        | [] => (d, ["bad-op"])
      | "cfgvia", [] =>
        let c := defaultArbCfg d.cfg
        let gates := String.join (c.skip.map fun g => s!" {g}")
        ({ d with cfg := c }, [s!"arbcfg {c.maxGlobal} {c.maxNode} {c.maxNs} {c.mmKind} {c.maxMigr} {c.muKind} {c.maxUnav} {b2i c.skipCER} {c.skip.length}{gates}"])
      | "cfgfile", [dry, cn, cs, ct] =>
        if !configLoads (capDeclOf cn) (capDeclOf cs) (capDeclOf ct) then (d, ["cfgerr"]) else
        let c := configCaps (capDeclOf cn) (capDeclOf cs) (capDeclOf ct)
        ({ d with lim := some c, dry := dry ≠ 0, ctr := {} }, [s!"caps {showCap c.node} {showCap c.ns} {showCap c.total}"])
      | "round", nf :: r =>
        let fails := (r.take nf.toNat).map Int.toNat
        match r.drop nf.toNat with
        | no :: order =>
          if order.length ≠ no.toNat then (d, ["bad-op"]) else
          let a' := round d.cfg fails d.arb (order.map Int.toNat)
          ({ d with arb := a' }, s!"wf {b2i (wfB d.arb)}" :: stateBlock a')
        | [] => (d, ["bad-op"])
      | _, _ => (d, ["bad-op"])

def runCase (lines : List String) : List String :=
  (lines.foldl (fun (acc : DSt × List (List String)) l =>
      let r := runLine acc.1 l
      (r.1, r.2 :: acc.2)) ({}, [])).2.reverse.flatten

end KoordVerif.C16

def main : IO Unit := KoordVerif.Proto.mainWith KoordVerif.C16.runCase
