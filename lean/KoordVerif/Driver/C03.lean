import KoordVerif.Common.Proto
import KoordVerif.Model.C03
import KoordVerif.Model.C03Late
/-
Driver for C03.  One case = one history.  `D` = number of dimensions; a resource list is `D`
pairs `<present 0|1> <value>`.
  dims <D>
  quota <name> <parent> <isParent> <allowLent> <max: D pairs> <min: D pairs>
                                                           OnQuotaAdd / OnQuotaUpdate: add; dropped when nothing differs
                                                           (IsQuotaChange, key presence counts); max/min update, re-parenting
                                                           (parent differs) or tree reset (is-parent / allow-lent differs)
  rt <name> <runtime: D pairs>                             runtime list held after RefreshRuntime
  poddef <id> <quota> <nonPreemptible> <request: D pairs>  a pod object
  podadd <id> | res <id> | unres <id> | del <id>           OnPodAdd / Reserve / Unreserve / OnPodDelete
  race <id>                                                Unreserve ∥ OnPodDelete of one pod, observed once both returned
  att <id> <runtimeSwitch> <checkParentSwitch>             PreFilter
  cap <D ints>                                             cluster capacity changed (no model state)
  dflt <name>                                              <name> is koordinator-default-quota (fall-back association)
  migrate                                                  one tick of migrateDefaultQuotaGroupsPod
  podredef <id> <nonPreemptible> <request: D pairs>        a new pod object (new UID) under the cache key of a deleted pod
  unresobj <id> <uid>                                      Unreserve with the pod object of incarnation <uid> (0 = first)
  podbind <id>                                             OnPodUpdate: the bind update (spec.nodeName set) of a cached pod
  podaddb <id>                                             a BOUND pod object reaches a manager in which no group holds the pod:
                                                           OnPodAdd of an object with a node name (fail-over add) or an
                                                           ordinary OnPodUpdate (old and new object bound): filed + assigned
  quotadel <name>                                          OnQuotaDelete of a group without child groups
  podflip <id>                                             OnPodUpdate of a held pod: only the preemptible label flips
  podrelabel <id> <quota> <bound 0|1>                      OnPodUpdate whose new object names another group (different-quota
                                                           branch); <bound> = the new object carries a node name
  gate <0|1>                                               feature gate ElasticQuotaGuaranteeUsage (default 0): quota objects
                                                           read from now on yield allow-lent = false (declaredLent)
Output: `v <status code>` after `att`; after every other op one line per group sorted by name:
  `q <name> <D used> <D nonPreemptibleUsed> <D selfUsed> <D selfNonPreemptibleUsed>`.
Anything the model does not cover (unregistered parent, a new parent inside the moved subtree, …) ⇒ `bad-op`.
-/
namespace KoordVerif.C03
open KoordVerif.Proto

def mkRL (xs : List Int) : RL :=
  let ps := chunks 2 xs
  fun d => match ps[d]? with
    | some [1, v] => some v
    | _ => none

def insertQ (q : Quota) : List Quota → List Quota
  | [] => [q]
  | x :: xs => if q.name ≤ x.name then q :: x :: xs else x :: insertQ q xs

def dump (s : State) : List String :=
  let qs := s.quotas.foldr insertQ []
  let ds := List.range s.dims
  qs.map fun q => s!"q {q.name} {showInts (ds.map q.used)} {showInts (ds.map q.npUsed)} {showInts (ds.map q.selfUsed)} {showInts (ds.map q.selfNp)}"

structure DState where
  st  : State := init 0
  out : List String := []
  gu  : Bool := false

def bad (s : DState) : DState := { s with out := s.out ++ ["bad-op"] }

def after (s : DState) (st : State) : DState := { s with st := st, out := s.out ++ dump st }

def stepLine (s : DState) (line : String) : DState :=
  match toks line with
  | "dims" :: [d] =>
    match nat? d with
    | some d => { s with st := init d, gu := false }
    | none => bad s
  | "quota" :: n :: p :: ip :: l :: rest =>
    match nat? n, nat? p, nat? ip, nat? l, ints? rest with
    | some n, some p, some ip, some l, some xs =>
      let D := s.st.dims
      if xs.length ≠ 4 * D || n = rootName || ip > 1 || l > 1 then bad s else
      let mx := mkRL (xs.take (2 * D))
      let mn := mkRL (xs.drop (2 * D))
      let go := after s (quotaUpdateGated s.gu s.st n p (ip = 1) (l = 1) mx mn)
      if (findQ s.st.quotas p).isNone then bad s else
      match findQ s.st.quotas n with
      | some q =>
        -- a new parent below the moved group would close a cycle (the webhook refuses it)
        if q.parent ≠ p && (pathNames s.st p).contains n then bad s else go
      | none => go
    | _, _, _, _, _ => bad s
  | "rt" :: n :: rest =>
    match nat? n, ints? rest with
    | some n, some xs =>
      if xs.length ≠ 2 * s.st.dims || (findQ s.st.quotas n).isNone then bad s
      else after s (setRuntime s.st n (mkRL xs))
    | _, _ => bad s
  | "poddef" :: i :: q :: np :: rest =>
    match nat? i, nat? q, nat? np, ints? rest with
    | some i, some q, some np, some xs =>
      if xs.length ≠ 2 * s.st.dims || (findP s.st.pods i).isSome then bad s
      else after s (podDef s.st i q (np ≠ 0) (mkRL xs))
    | _, _, _, _ => bad s
  | ["podadd", i] =>
    match nat? i with
    | some i =>
      match findP s.st.pods i with
      | some p => if (findQ s.st.quotas (homeOf s.st p)).isNone then bad s else after s (podAdd s.st i)
      | none => bad s
    | none => bad s
  | ["att", i, rt, cp] =>
    match nat? i, nat? rt, nat? cp with
    | some i, some rt, some cp =>
      match findP s.st.pods i with
      | some p =>
        -- a pod whose association moved since its PodInfo was filed (registered label, migration tick pending) is
        -- outside the model
        if (findQ s.st.quotas p.quota).isNone || homeOf s.st p ≠ p.quota then bad s else
        match (step s.st (.attempt i { rt := rt ≠ 0, cp := cp ≠ 0 })).2 with
        | some v => { s with out := s.out ++ [s!"v {v.code}"] }
        | none => bad s
      | none => bad s
    | _, _, _ => bad s
  | ["res", i] =>
    match nat? i with
    | some i =>
      match findP s.st.pods i with
      | none => bad s
      | some p => if homeOf s.st p ≠ p.quota then bad s else after s (step s.st (.reserve i)).1
    | none => bad s
  | ["unres", i] =>
    match nat? i with
    | some i =>
      match findP s.st.pods i with
      | none => bad s
      | some p => if homeOf s.st p ≠ p.quota then bad s else after s (step s.st (.unreserve i)).1
    | none => bad s
  | ["race", i] =>
    -- Unreserve(i) and OnPodDelete(i) issued concurrently; observed at the quiescent point.  Both serial orders give
    -- the same state (after the delete the unreserve finds no PodInfo), so the model takes unreserve-then-delete.
    match nat? i with
    | some i =>
      match findP s.st.pods i with
      | none => bad s
      | some p => if homeOf s.st p ≠ p.quota then bad s else after s (podDelete (unreserve s.st i) i)
    | none => bad s
  | ["del", i] =>
    match nat? i with
    | some i =>
      match findP s.st.pods i with
      | none => bad s
      | some p =>
        -- handlePodDelete also clears the default quota (fix 931f7a3): a pod waiting there for the tick is deleted
        -- from it; a pod with a second PodInfo there is outside the model
        if (homeOf s.st p ≠ p.quota && s.st.dflt != some p.quota) || p.ghost then bad s
        else after s (step s.st (.podDelete i)).1
    | none => bad s
  | "cap" :: _ => after s s.st
  | ["gate", g] =>
    match nat? g with
    | some g => if g > 1 then bad s else { s with gu := g = 1 }
    | none => bad s
  | ["dflt", n] =>
    match nat? n with
    | some n => if (findQ s.st.quotas n).isNone then bad s else after s (step s.st (.setDefault n)).1
    | none => bad s
  | ["migrate"] => after s (step s.st .migrate).1
  | "podredef" :: i :: np :: rest =>
    match nat? i, nat? np, ints? rest with
    | some i, some np, some xs =>
      match findP s.st.pods i with
      | some p =>
        if xs.length ≠ 2 * s.st.dims || p.inCache then bad s
        else after s (step s.st (.podRedef i (np ≠ 0) (mkRL xs))).1
      | none => bad s
    | _, _, _ => bad s
  | ["unresobj", i, u] =>
    match nat? i, nat? u with
    | some i, some u =>
      match findP s.st.pods i with
      | some p => if homeOf s.st p ≠ p.quota || !p.inCache then bad s else after s (step s.st (.unreserveObj i u)).1
      | none => bad s
    | _, _ => bad s
  | ["podbind", i] =>
    match nat? i with
    | some i =>
      match findP s.st.pods i with
      | some p =>
        if !p.inCache || p.ghost || (!limbo s.st p && homeOf s.st p ≠ p.quota) then bad s
        else after s (step s.st (.podBind i)).1
      | none => bad s
    | none => bad s
  | ["podaddb", i] =>
    match nat? i with
    | some i =>
      match findP s.st.pods i with
      | some p =>
        if p.ghost || (findQ s.st.quotas (homeOf s.st p)).isNone then bad s else after s (podAddBound s.st i)
      | none => bad s
    | none => bad s
  | ["podflip", i] =>
    match nat? i with
    | some i =>
      match findP s.st.pods i with
      | some p =>
        if !p.inCache || p.ghost || homeOf s.st p ≠ p.quota || (findQ s.st.quotas p.quota).isNone then bad s
        else after s (podFlip s.st i)
      | none => bad s
    | none => bad s
  | ["podrelabel", i, l, b] =>
    match nat? i, nat? l, nat? b with
    | some i, some l, some b =>
      match findP s.st.pods i with
      | some p =>
        -- outside the model: a pod with a second PodInfo, a pod waiting for the tick, a new label whose association is
        -- the old one (same-quota branch) or is not registered
        let p' : Pod := { p with label := l }
        if b > 1 || p.ghost || (p.inCache && homeOf s.st p ≠ p.quota) || homeOf s.st p = homeOf s.st p'
           || (findQ s.st.quotas (homeOf s.st p')).isNone then bad s
        else after s (podRelabel s.st i l (b = 1))
      | none => bad s
    | _, _, _ => bad s
  | ["quotadel", n] =>
    match nat? n with
    | some n =>
      -- outside the model: the root, the default quota, a group with child groups, a group that holds a pod whose
      -- second PodInfo still sits in the default quota
      if n = rootName || s.st.dflt == some n || (findQ s.st.quotas n).isNone
         || s.st.quotas.any (fun g => g.parent == n && g.name != n)
         || s.st.pods.any (fun p => p.ghost && (p.quota == n || p.label == n)) then bad s
      else after s (quotaDrop s.st n)
    | none => bad s
  | _ => bad s

def runCase (lines : List String) : List String := (lines.foldl stepLine {}).out

end KoordVerif.C03

def main : IO Unit := KoordVerif.Proto.mainWith KoordVerif.C03.runCase
