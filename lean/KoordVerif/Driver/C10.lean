import KoordVerif.Common.Proto
import KoordVerif.Model.C10
/-
Driver for C10.  One op line per case (integer tokens):
  budget <cap> <alloc> <anno> <thr> <hasMin> <min> <nodeUsed> <np> (<hasMeta> <qos> <kubeBE> <used>)* <na> (<qos> <base> <used>)*
      -> budget <milli>
  policy <k> <n> (<cpu> <core> <socket> <node>)*
      -> cpus <c>*                      (order of the returned slice)
  cpuset <budgetMilli> <nOld> <old>* <n> (<cpu> <core> <socket> <node>)* <np> (<annoKind> <qos> <life> <m> <cpu>*)* <nr> <reserved>* <ns> <sysExclusive>* <topoNil> <kubeletPolicy>
      -> set <c>* / pod <c>* / cont <c>*  (BE root, pod-level and container-level cpuset afterwards, ascending)
         beset <c>* | beset err       (calcBECPUSet on the same inputs)            |  panic
  quota <budgetMilli> <cur> <capMilli>
      -> quota <q>                      (content of cpu.cfs_quota_us afterwards)
The float parameters are Lean runtime `Float` (IEEE binary64 as Go's float64).
-/
namespace KoordVerif.C10
open KoordVerif.Proto

def f2i (x : Float) : Int := x.toInt64.toInt

def floatOps : FloatOps where
  rt m := f2i (Float.ofInt m / 1000.0 * 1000.0)
  ceilMilli m := f2i (Float.ceil (Float.ofInt m / 1000.0))
  stepCpus n := f2i (Float.ceil (Float.ofInt n * 0.1))
  bypassLt q cur c := Float.abs (Float.ofInt q - Float.ofInt cur) < Float.ofInt c * 100000.0 * 0.01
  stepGt q cur c := Float.ofInt q - Float.ofInt cur > Float.ofInt c * 100000.0 * 0.1
  stepInc c := f2i (Float.ofInt c * 100000.0 * 0.1)

/-- split off the first `n` tokens. -/
def takeN (n : Nat) (xs : List Int) : Option (List Int × List Int) :=
  if xs.length < n then none else some (xs.take n, xs.drop n)

/-- `<n> (<w tokens>)*` -/
def takeRecs (w : Nat) (xs : List Int) : Option (List (List Int) × List Int) :=
  match xs with
  | [] => none
  | n :: rest =>
    if n < 0 then none else
    match takeN (w * n.toNat) rest with
    | none => none
    | some (a, b) => some (chunks w a, b)

def toProc : List Int → Option Proc
  | [a, b, c, d] => some { cpu := a, core := b, socket := c, node := d }
  | _ => none

/-- `<np> (<kind> <qos> <life> <m> <cpu>*)*` -/
def takePods : Nat → List Int → Option (List PodC × List Int)
  | 0, xs => some ([], xs)
  | k + 1, v :: q :: l :: m :: rest =>
    if m < 0 then none else
    match takeN m.toNat rest with
    | none => none
    | some (cs, rest') =>
      match takePods k rest' with
      | none => none
      | some (ps, r) => some ({ valid := annoValid v cs, qos := q, cpus := cs, life := l } :: ps, r)
  | _, _ => none

def sortDedup (xs : List Int) : List Int := (isortBy (fun a b => decide (a < b)) xs).eraseDups

def runBudget (xs : List Int) : List String :=
  match xs with
  | cap :: alloc :: anno :: thr :: hasMin :: mn :: nodeUsed :: rest =>
    match takeRecs 4 rest with
    | none => ["bad-op"]
    | some (prs, rest2) =>
      match takeRecs 3 rest2 with
      | some (ars, []) =>
        let pods := prs.filterMap fun
          | [a, b, c, d] => some ({ hasMeta := a ≠ 0, qos := b, kubeBE := c ≠ 0, used := d } : PodU)
          | _ => none
        let apps := ars.filterMap fun
          | [a, b, c] => some ({ qos := a, base := b, used := c } : AppU)
          | _ => none
        let r := budget floatOps cap alloc anno thr (if hasMin ≠ 0 then some mn else none) nodeUsed pods apps
        [s!"budget {r}"]
      | _ => ["bad-op"]
  | _ => ["bad-op"]

def showList (tag : String) (xs : List Int) : String :=
  if xs.isEmpty then tag else tag ++ " " ++ showInts xs

def runPolicy (xs : List Int) : List String :=
  match xs with
  | k :: rest =>
    match takeRecs 4 rest with
    | some (prs, []) => [showList "cpus" (policy k (prs.filterMap toProc))]
    | _ => ["bad-op"]
  | _ => ["bad-op"]

def runCpuset (xs : List Int) : List String :=
  match xs with
  | b :: nOld :: rest =>
    if nOld < 0 then ["bad-op"] else
    match takeN nOld.toNat rest with
    | none => ["bad-op"]
    | some (old, rest1) =>
      match takeRecs 4 rest1 with
      | none => ["bad-op"]
      | some (prs, rest2) =>
        match rest2 with
        | np :: rest3 =>
          if np < 0 then ["bad-op"] else
          match takePods np.toNat rest3 with
          | none => ["bad-op"]
          | some (pods, rest4) =>
            match takeRecs 1 rest4 with
            | none => ["bad-op"]
            | some (res, rest5) =>
              match takeRecs 1 rest5 with
              | some (sys, [topoNil, kp]) =>
                let oldSet := sortDedup old
                let procs := prs.filterMap toProc
                let lvl (w : Option (List Int)) : List Int := match w with | none => oldSet | some cs => sortDedup cs
                let be := if topoNil ≠ 0 then "beset err"
                  else showList "beset" (sortDedup (calcBESet procs pods res.flatten sys.flatten))
                match adjustFull floatOps kp (topoNil ≠ 0) b oldSet.length procs pods res.flatten sys.flatten with
                | none => ["panic"]
                | some w => [showList "set" (lvl w.root), showList "pod" (lvl w.pod), showList "cont" (lvl w.cont), be]
              | _ => ["bad-op"]
        | _ => ["bad-op"]
  | _ => ["bad-op"]

def runQuota (xs : List Int) : List String :=
  match xs with
  | [b, cur, cap] =>
    match adjustQuota floatOps b cur cap with
    | .bypass => [s!"quota {cur}"]
    | .write q => [s!"quota {q}"]
  | _ => ["bad-op"]

def runLine (line : String) : List String :=
  match toks line with
  | kind :: rest =>
    match ints? rest with
    | none => ["bad-op"]
    | some xs =>
      if kind == "budget" then runBudget xs
      else if kind == "policy" then runPolicy xs
      else if kind == "cpuset" then runCpuset xs
      else if kind == "quota" then runQuota xs
      else ["bad-op"]
  | _ => ["bad-op"]

def runCase (lines : List String) : List String := lines.flatMap runLine

end KoordVerif.C10

def main : IO Unit := KoordVerif.Proto.mainWith KoordVerif.C10.runCase
