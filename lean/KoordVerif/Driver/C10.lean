import KoordVerif.Common.Proto
import KoordVerif.Model.C10
import KoordVerif.Model.C10Exec
/-
Driver for C10.  One op line per case (integer tokens):
  budget <cap> <alloc> <annoKind> <annoResourcesCpu> <annoReservedCPUsCount> <annoApplyPolicy> <thr> <hasMin> <min> <nodeUsed> <np> (<hasMeta> <qos> <kubeBE> <used>)* <na> (<qos> <base> <used>)*
      -> budget <milli>
  policy <k> <n> (<cpu> <core> <socket> <node>)*
      -> cpus <c>*                      (order of the returned slice)
  cpuset <budgetMilli> <nOld> <old>* <n> (<cpu> <core> <socket> <node>)* <np> (<annoKind> <qos> <life> <m> <cpu>*)* <resKind> <nr> <reserved>* <sysKind> <ns> <systemQoSCpuset>* <topoNil> <kubeletPolicy>
      -> set <c>* / pod <c>* / cont <c>*  (BE root, pod-level and container-level cpuset afterwards, ascending)
         beset <c>* | beset err       (calcBECPUSet on the same inputs)            |  panic
  quota <budgetMilli> <cur> <capMilli>
      -> quota <q>                      (content of cpu.cfs_quota_us afterwards)
  rinit / rbudget / round: one history of suppressBECPU rounds, see `stepLine`
  xinit / xext / xextq / xage / xround: one history of rounds over individual cgroup files with the executor cache,
      outside writers, late files and the force-update interval (Model/C10Exec.lean), see `stepLine`
The float parameters are Lean runtime `Float` (IEEE binary64 as Go's float64).
-/
namespace KoordVerif.C10
open KoordVerif.Proto

def f2i (x : Float) : Int := x.toInt64.toInt

def floatOps : FloatOps where
  rt m := f2i (Float.ofInt m / 1000.0 * 1000.0)
  ceilMilli m := f2i (Float.ceil (Float.ofInt m / 1000.0))
  stepCpus n := f2i (Float.ceil (Float.ofInt n * 0.1))
  bypassLt q cur c := Float.abs (Float.ofInt q - Float.ofInt cur) < Float.ofInt c * 100000.0 * 0.01
  stepGt q cur c := Float.ofInt q - Float.ofInt cur > Float.ofInt c * 100000.0 * 0.1
  stepInc c := f2i (Float.ofInt c * 100000.0 * 0.1)

/-- split off the first `n` tokens. -/
def takeN (n : Nat) (xs : List Int) : Option (List Int × List Int) :=
  if xs.length < n then none else some (xs.take n, xs.drop n)

/-- `<n> (<w tokens>)*` -/
def takeRecs (w : Nat) (xs : List Int) : Option (List (List Int) × List Int) :=
  match xs with
  | [] => none
  | n :: rest =>
    if n < 0 then none else
    match takeN (w * n.toNat) rest with
    | none => none
    | some (a, b) => some (chunks w a, b)

def toProc : List Int → Option Proc
  | [a, b, c, d] => some { cpu := a, core := b, socket := c, node := d }
  | _ => none

/-- `<np> (<kind> <qos> <life> <m> <cpu>*)*` -/
def takePods : Nat → List Int → Option (List PodC × List Int)
  | 0, xs => some ([], xs)
  | k + 1, v :: q :: l :: m :: rest =>
    if m < 0 then none else
    match takeN m.toNat rest with
    | none => none
    | some (cs, rest') =>
      match takePods k rest' with
      | none => none
      | some (ps, r) => some ({ valid := annoValid v cs, qos := q, cpus := cs, life := l } :: ps, r)
  | _, _ => none

def sortDedup (xs : List Int) : List Int := (isortBy (fun a b => decide (a < b)) xs).eraseDups

/-- the budget op's tokens -> calculateBESuppressCPU's value and capacity. -/
def evalBudget (xs : List Int) : Option (Int × Int) :=
  match xs with
  | cap :: alloc :: annoKind :: annoRes :: annoCpus :: annoPolicy :: thr :: hasMin :: mn :: nodeUsed :: rest =>
    let anno := annoReservedP annoPolicy annoKind annoRes annoCpus
    match takeRecs 4 rest with
    | none => none
    | some (prs, rest2) =>
      match takeRecs 3 rest2 with
      | some (ars, []) =>
        let pods := prs.filterMap fun
          | [a, b, c, d] => some ({ hasMeta := a ≠ 0, qos := b, kubeBE := c ≠ 0, used := d } : PodU)
          | _ => none
        let apps := ars.filterMap fun
          | [a, b, c] => some ({ qos := a, base := b, used := c } : AppU)
          | _ => none
        some (budget floatOps cap alloc anno thr (if hasMin ≠ 0 then some mn else none) nodeUsed pods apps, cap)
      | _ => none
  | _ => none

def runBudget (xs : List Int) : List String :=
  match evalBudget xs with
  | some (r, _) => [s!"budget {r}"]
  | none => ["bad-op"]

def showList (tag : String) (xs : List Int) : String :=
  if xs.isEmpty then tag else tag ++ " " ++ showInts xs

def runPolicy (xs : List Int) : List String :=
  match xs with
  | k :: rest =>
    match takeRecs 4 rest with
    | some (prs, []) => [showList "cpus" (policy k (prs.filterMap toProc))]
    | _ => ["bad-op"]
  | _ => ["bad-op"]

/-- `<kind> <n> <c>*` -/
def takeKindList (xs : List Int) : Option (Int × List Int × List Int) :=
  match xs with
  | kind :: rest =>
    match takeRecs 1 rest with
    | none => none
    | some (l, rest') => some (kind, l.flatten, rest')
  | [] => none

structure Env where
  procs : List Proc
  pods : List PodC
  res : List Int
  sys : List Int
  topoNil : Bool
  kp : Int

/-- `<n> procs* <np> pods* <resKind> <nr> res* <sysKind> <ns> sys* <topoNil> <kubeletPolicy>` -/
def takeEnv (rest1 : List Int) : Option Env :=
  match takeRecs 4 rest1 with
  | none => none
  | some (prs, rest2) =>
    match rest2 with
    | np :: rest3 =>
      if np < 0 then none else
      match takePods np.toNat rest3 with
      | none => none
      | some (pods, rest4) =>
        match takeKindList rest4 with
        | none => none
        | some (resKind, res, rest5) =>
          match takeKindList rest5 with
          | some (sysKind, sys, [topoNil, kp]) =>
            some { procs := prs.filterMap toProc, pods := pods, res := effReserved resKind res, sys := effSysExcl sysKind sys,
                   topoNil := topoNil ≠ 0, kp := kp }
          | _ => none
    | _ => none

def runCpuset (xs : List Int) : List String :=
  match xs with
  | b :: nOld :: rest =>
    if nOld < 0 then ["bad-op"] else
    match takeN nOld.toNat rest with
    | none => ["bad-op"]
    | some (old, rest1) =>
      match takeEnv rest1 with
      | none => ["bad-op"]
      | some e =>
        let oldSet := sortDedup old
        let lvl (w : Option (List Int)) : List Int := match w with | none => oldSet | some cs => sortDedup cs
        let be := if e.topoNil then "beset err"
          else showList "beset" (sortDedup (calcBESet e.procs e.pods e.res e.sys))
        match adjustFull floatOps e.kp e.topoNil b oldSet.length e.procs e.pods e.res e.sys with
        | none => ["panic"]
        | some w => [showList "set" (lvl w.root), showList "pod" (lvl w.pod), showList "cont" (lvl w.cont), be]
  | _ => ["bad-op"]

def runQuota (xs : List Int) : List String :=
  match xs with
  | [b, cur, cap] =>
    match adjustQuota floatOps b cur cap with
    | .bypass => [s!"quota {cur}"]
    | .write q => [s!"quota {q}"]
  | _ => ["bad-op"]

def runLine (line : String) : List String :=
  match toks line with
  | kind :: rest =>
    match ints? rest with
    | none => ["bad-op"]
    | some xs =>
      if kind == "budget" then runBudget xs
      else if kind == "policy" then runPolicy xs
      else if kind == "cpuset" then runCpuset xs
      else if kind == "quota" then runQuota xs
      else ["bad-op"]
  | _ => ["bad-op"]

/-! stateful part: `rinit <quota> <nOld> <old>*`, then per round `rbudget <budget tokens>` (no output) and
    `round <sloKind> <quotaMode> <nodeNil> <nPodMetas> <nodeMetric> <infoMissing> <env tokens>`
      -> set / pod / cont / quota lines  |  panic -/
structure DSt where
  st : RState := ⟨[], [], [], -1, false⟩
  xst : XState := ⟨[], ⟨some (-1), none⟩, false⟩
  xf : XFile (List Int) := ⟨none, none⟩
  budget : Int := 0
  cap : Int := 0
  dead : Bool := false

def showRState (st : RState) : List String :=
  [showList "set" (sortDedup st.root), showList "pod" (sortDedup st.pod), showList "cont" (sortDedup st.cont), s!"quota {st.quota}"]

/-- `(<level> <state> <n> <cpu>*)*`; state 0 = directory missing, 1 = directory without the file, 2 = file present. -/
def takeXFiles : Nat → List Int → Option (List XF × List Int)
  | 0, xs => some ([], xs)
  | k + 1, lvl :: stt :: m :: rest =>
    if m < 0 then none else
    match takeN m.toNat rest with
    | none => none
    | some (cs, rest') =>
      match takeXFiles k rest' with
      | none => none
      | some (fs, r) =>
        some ({ level := lvl.toNat, listed := stt ≠ 0, f := { content := if stt = 2 then some (canon cs) else none } } :: fs, r)
  | _, _ => none

def showXState (st : XState) : List String :=
  let rec go (k : Nat) : List XF → List String
    | [] => []
    | x :: xs =>
      (match x.f.content with
       | none => s!"f{k} none"
       | some cs => showList s!"f{k}" cs) :: go (k + 1) xs
  go 0 st.files ++ [match st.quota.content with | none => "quota none" | some q => s!"quota {q}"]

def stepLine (d : DSt) (line : String) : DSt × List String :=
  match toks line with
  | kind :: rest =>
    match ints? rest with
    | none => (d, ["bad-op"])
    | some xs =>
      if kind == "rinit" then
        match xs with
        | q :: nOld :: old =>
          if nOld.toNat ≠ old.length then (d, ["bad-op"]) else
          let o := sortDedup old
          ({ d with st := ⟨o, o, o, q, false⟩, dead := false }, [])
        | _ => (d, ["bad-op"])
      else if kind == "rbudget" then
        match evalBudget xs with
        | some (b, cap) => ({ d with budget := b, cap := cap }, [])
        | none => (d, ["bad-op"])
      else if kind == "round" then
        if d.dead then (d, ["panic"]) else
        match xs with
        | slo :: qm :: nn :: npm :: nm :: im :: rest1 =>
          match takeEnv rest1 with
          | none => (d, ["bad-op"])
          | some e =>
            let i : RoundIn :=
              { sloKind := slo, quotaMode := (qm ≠ 0), nodeNil := (nn ≠ 0), nPodMetas := npm.toNat,
                nodeMetric := (nm ≠ 0), infoMissing := (im ≠ 0), budget := d.budget, capMilli := d.cap,
                procs := e.procs, pods := e.pods, reserved := e.res, sysExcl := e.sys, topoNil := e.topoNil, kp := e.kp }
            match roundStep floatOps d.st i with
            | none => ({ d with dead := true }, ["panic"])
            | some st' => ({ d with st := st' }, showRState st')
        | _ => (d, ["bad-op"])
      else if kind == "xinit" then
        -- xinit <quota> <nfiles> (<level> <state> <n> <cpu>*)*
        match xs with
        | q :: nf :: rest =>
          if nf < 0 then (d, ["bad-op"]) else
          match takeXFiles nf.toNat rest with
          | some (fs, []) => ({ d with xst := ⟨fs, ⟨some q, none⟩, false⟩, dead := false }, [])
          | _ => (d, ["bad-op"])
        | _ => (d, ["bad-op"])
      else if kind == "xext" then
        -- xext <idx> <state> <n> <cpu>*   (an outside writer; no output)
        match xs with
        | k :: stt :: m :: cs =>
          if k < 0 ∨ m.toNat ≠ cs.length ∨ k.toNat ≥ d.xst.files.length then (d, ["bad-op"]) else
          ({ d with xst := extCpuset d.xst k.toNat (stt ≠ 0) (if stt = 2 then some cs else none) }, [])
        | _ => (d, ["bad-op"])
      else if kind == "xextq" then
        match xs with
        | [q] => ({ d with xst := extQuota d.xst q }, [])
        | _ => (d, ["bad-op"])
      else if kind == "xage" then
        match xs with
        | [] => ({ d with xst := ageAll d.xst }, [])
        | _ => (d, ["bad-op"])
      else if kind == "xfinit" then
        -- single-file executor histories: xfinit <state> <n> <cpu>* ; xfw <cacheable> <n> <cpu>* -> xf <cpu>* | xf none ;
        -- xfext <state> <n> <cpu>* (outside writer / file removed) ; xfage
        match xs with
        | stt :: m :: cs =>
          if m.toNat ≠ cs.length then (d, ["bad-op"]) else
          ({ d with xf := ⟨if stt = 2 then some (canon cs) else none, none⟩ }, [])
        | _ => (d, ["bad-op"])
      else if kind == "xfw" then
        match xs with
        | c :: m :: cs =>
          if m.toNat ≠ cs.length then (d, ["bad-op"]) else
          let x := execWrite (c ≠ 0) codeShape.cacheOnIgnored d.xf (canon cs)
          ({ d with xf := x }, [match x.content with | none => "xf none" | some v => showList "xf" v])
        | _ => (d, ["bad-op"])
      else if kind == "xfext" then
        match xs with
        | stt :: m :: cs =>
          if m.toNat ≠ cs.length then (d, ["bad-op"]) else
          ({ d with xf := { d.xf with content := if stt = 2 then some (canon cs) else none } }, [])
        | _ => (d, ["bad-op"])
      else if kind == "xfage" then
        ({ d with xf := d.xf.age }, [])
      else if kind == "xround" then
        if d.dead then (d, ["panic"]) else
        match xs with
        | slo :: qm :: nn :: npm :: nm :: im :: rest1 =>
          match takeEnv rest1 with
          | none => (d, ["bad-op"])
          | some e =>
            let i : RoundIn :=
              { sloKind := slo, quotaMode := (qm ≠ 0), nodeNil := (nn ≠ 0), nPodMetas := npm.toNat,
                nodeMetric := (nm ≠ 0), infoMissing := (im ≠ 0), budget := d.budget, capMilli := d.cap,
                procs := e.procs, pods := e.pods, reserved := e.res, sysExcl := e.sys, topoNil := e.topoNil, kp := e.kp }
            match roundStepX floatOps codeShape d.xst i with
            | none => ({ d with dead := true }, ["panic"])
            | some st' => ({ d with xst := st' }, showXState st')
        | _ => (d, ["bad-op"])
      else (d, runLine line)
  | _ => (d, ["bad-op"])

def runCase (lines : List String) : List String :=
  (lines.foldl (fun (acc : DSt × List String) l => let (d', o) := stepLine acc.1 l; (d', acc.2 ++ o)) ({}, [])).2

end KoordVerif.C10

def main : IO Unit := KoordVerif.Proto.mainWith KoordVerif.C10.runCase
