import KoordVerif.Common.Proto
import KoordVerif.Model.C11
import KoordVerif.Model.C11Rounds
import KoordVerif.Model.C11Decode
/-
Driver for C11.  A case is a list of declaration lines followed by one command line.

 harness `kill` (KillAndEvictPods):
   task <target> <nTo> <nFn> <nPods> (<res> <amt>)*nTo (<res> <field>)*nFn (<podkey> <f0> <f1> <f2> <f3>)*nPods
   isev <n> <podkey>*n            pods for which IsPodEvicted is true
   script <n> <0|1>*n             results of the successive Evict calls
   kill
 output: `evict <task> <pod> <ok>` per Evict call, `rel <target> <res> <amt>` (sorted, non-zero), `newly <0|1>`

 harnesses `selmem` / `selcpu` (victim selection and order):
   pod <id> <name> <qosBE> <active> <policy 0..3> <hasSpec> <spec> <hasEff> <eff> <evictLbl> <evictPrio>
       <hasLbl> <lbl> <hasMetric> <used = metric*1000> <request> <batchReq>
   rawpod <id> <name> <qosLabel> <kubeQoS> <phase> <hasSpec> <spec> <clsLabel> <evictLabel> <epKind> <epVal>
       <lpKind> <lpVal> <policyTop> <hasMetric> <used> <reqNative> <reqMid> <reqBatch> <batchReq> <nElems> <elem>*
       the same pod by label / annotation SHAPES (Model/C11Decode.lean decodes them); kinds: 0 absent 1 literal 2 malformed
   selprio <threshold> <byReq> | selbemem | selbecpu
 output: one `info <id> <evictPrio> <prio> <labelPrio> <used> <request>` per selected pod in eviction order
         (pods with equal sort keys are listed by id), then `end`
   tgt <capacity> <used> <threshold> <hasLower> <lower> <buffer>   ->  `tgt none` | `tgt <amount>`

 harness `rounds` (several KillAndEvictPods rounds against the real Evictor + DefaultEvictionExecutor):
   xcfg <onlyAPI> <started> <ttl>   fresh executor (empty evicted-cache)
   task … / script <n> <0|1>*n      this round's tasks and the outcomes of the successive eviction API calls
   round <now>
 output: `evict <task> <pod> <ok>` per Evict call, `rel …`, `newly <0|1>`, `api <number of API calls>`,
         `done <task> <0|1>` per task (EvictTaskCheck)
   iscached <now> <pod>*            ->  `cached <pod>*`  (IsPodEvicted, in the given order)
-/
namespace KoordVerif.C11
open KoordVerif.Proto

/-- order-embedding of the non-negative float64 `used/request` (IEEE bit pattern). -/
def floatUsage (used request : Int) : Int :=
  Int.ofNat (Float.ofInt used / Float.ofInt request).toBits.toNat

def pairs : List Int → List (Int × Int)
  | a :: b :: rest => (a, b) :: pairs rest
  | _ => []

structure Acc where
  tasks  : List Task := []
  isev   : List Nat := []
  script : List Bool := []
  pods   : List Pod := []
  exec   : Option Exec := none

def parseTask (xs : List Int) : Option Task :=
  match xs with
  | tgt :: nTo :: nFn :: nPods :: rest =>
    let nTo := nTo.toNat; let nFn := nFn.toNat; let nPods := nPods.toNat
    if rest.length ≠ 2 * nTo + 2 * nFn + 5 * nPods then none else
    let to := pairs (rest.take (2 * nTo))
    let fn := pairs ((rest.drop (2 * nTo)).take (2 * nFn))
    let ps := chunks 5 (rest.drop (2 * nTo + 2 * nFn))
    some { target := tgt.toNat,
           toRelease := to.map (fun p => (p.1.toNat, p.2)),
           fn := fn.map (fun p => (p.1.toNat, p.2.toNat)),
           pods := ps.filterMap fun
             | k :: fs => some { pod := k.toNat, fields := fs }
             | _ => none }
  | _ => none

def optI (flag v : Int) : Option Int := if flag ≠ 0 then some v else none

def parsePod (xs : List Int) : Option Pod :=
  match xs with
  | [id, name, be, act, pol, hs, sp, he, ef, el, ep, hl, lb, hm, used, req, breq] =>
    let pol? : Option PolicyAnno :=
      if pol = 0 then some .absent else if pol = 1 then some .lists
      else if pol = 2 then some .others else if pol = 3 then some .malformed else none
    pol?.map fun pol =>
      { id := id.toNat, name := name.toNat, qosBE := be ≠ 0, active := act ≠ 0, policy := pol,
        specPrio := optI hs sp, effPrio := optI he ef, evictLbl := el ≠ 0, evictPrio := ep,
        labelPrio := optI hl lb, hasMetric := hm ≠ 0, used := used, request := req, batchReq := breq }
  | _ => none

def numText (kind v : Int) : Option NumText :=
  if kind = 0 then some .absent else if kind = 1 then some (.literal v) else if kind = 2 then some .malformed else none

def parseRawPod (xs : List Int) : Option Pod :=
  match xs with
  | id :: name :: ql :: kq :: ph :: hs :: sp :: cl :: el :: epk :: epv :: lpk :: lpv :: pt :: hm :: used ::
      rn :: rm :: rb :: breq :: n :: elems =>
    if elems.length ≠ n.toNat ∨ ql < 0 ∨ kq < 0 ∨ ph < 0 ∨ cl < 0 ∨ el < 0 ∨ pt < 0 ∨ elems.any (· < 0) then none else
    match numText epk epv, numText lpk lpv with
    | some ep, some lp =>
      some (decodePod { id := id.toNat, name := name.toNat, qosLabel := ql.toNat, kubeQoS := kq.toNat, phase := ph.toNat,
                        specPrio := optI hs sp, clsLabel := cl.toNat, evictLabel := el.toNat, evictPrio := ep,
                        prioLabel := lp, policyTop := pt.toNat, policyElems := elems.map Int.toNat,
                        hasMetric := hm ≠ 0, used := used, reqNative := rn, reqMid := rm, reqBatch := rb,
                        batchReq := breq })
    | _, _ => none
  | _ => none

def cmpRel (a b : Key × Int) : Bool := a.1.1 < b.1.1 || (a.1.1 = b.1.1 && a.1.2 < b.1.2)

def insSorted {α} (lt : α → α → Bool) (x : α) : List α → List α
  | [] => [x]
  | y :: ys => if lt x y then x :: y :: ys else y :: insSorted lt x ys

def sortBy {α} (lt : α → α → Bool) (xs : List α) : List α := xs.foldl (fun acc x => insSorted lt x acc) []

def runKill (a : Acc) : List String :=
  let tasks := a.tasks.reverse
  let st := killAndEvict (fun p => a.isev.contains p) a.script tasks
  let calls := st.logRev.reverse.filterMap fun ev =>
    match ev.kind with
    | .ok => some s!"evict {ev.task} {ev.e.pod} 1"
    | .fail => some s!"evict {ev.task} {ev.e.pod} 0"
    | .pending => none
  -- canonical release list: per key the stored amount, non-zero only, sorted
  let keys := (st.released.map (·.1)).eraseDups
  let rel := sortBy cmpRel (keys.map fun k => (k, get st.released k))
  calls ++ (rel.filter (·.2 ≠ 0)).map (fun kv => s!"rel {kv.1.1} {kv.1.2} {kv.2}")
    ++ [s!"newly {b2i st.newly}"]

def showCalls (st : St) : List String :=
  st.logRev.reverse.filterMap fun ev =>
    match ev.kind with
    | .ok => some s!"evict {ev.task} {ev.e.pod} 1"
    | .fail => some s!"evict {ev.task} {ev.e.pod} 0"
    | .pending => none

def showRel (st : St) : List String :=
  let keys := (st.released.map (·.1)).eraseDups
  let rel := sortBy cmpRel (keys.map fun k => (k, get st.released k))
  (rel.filter (·.2 ≠ 0)).map (fun kv => s!"rel {kv.1.1} {kv.1.2} {kv.2}")

def runRoundOp (a : Acc) (x : Exec) (now : Int) : List String × Exec :=
  let tasks := a.tasks.reverse
  let s := runRound x { now := now, script := a.script, tasks := tasks }
  let dones := (List.range tasks.length).filterMap fun i =>
    tasks[i]?.map fun t => s!"done {i} {b2i (taskDone t s.st.released)}"
  (showCalls s.st ++ showRel s.st ++ [s!"newly {b2i s.st.newly}", s!"api {s.api}"] ++ dones, s.x)

/-- list pods of equal sort key (adjacent, since the list is sorted) by id. -/
def canonRuns (same : Info → Info → Bool) : List Info → List Info → List Info
  | run, [] => sortBy (fun a b => a.pod.id < b.pod.id) run
  | [], x :: xs => canonRuns same [x] xs
  | r :: run, x :: xs =>
    if same r x then canonRuns same (x :: r :: run) xs
    else sortBy (fun a b => a.pod.id < b.pod.id) (r :: run) ++ canonRuns same [x] xs

def showInfo (i : Info) : String :=
  s!"info {i.pod.id} {i.evictPrio} {i.prio} {i.labelPrio} {i.used} {i.request}"

def runSel (a : Acc) (cmd : List Int) (kind : String) : List String :=
  let pods := a.pods.reverse
  match kind, cmd with
  | "selprio", [thr, byReq] =>
    let out := selectPrio thr (byReq ≠ 0) pods
    let same := fun (x y : Info) => !prioLess (byReq ≠ 0) x y && !prioLess (byReq ≠ 0) y x
    (canonRuns same [] out).map showInfo ++ ["end"]
  | "selbemem", [] =>
    let out := selectBEMem pods
    let same := fun (x y : Info) => !beMemLess x y && !beMemLess y x
    (canonRuns same [] out).map showInfo ++ ["end"]
  | "selbecpu", [] =>
    let out := selectBECpu floatUsage pods
    let same := fun (x y : Info) => !beCpuLess x y && !beCpuLess y x
    (canonRuns same [] out).map showInfo ++ ["end"]
  | _, _ => ["bad-op"]

def runTgt (xs : List Int) : List String :=
  match xs with
  | [cap, used, thr, hl, lo, buf] =>
    if cap = 0 then ["bad-op"] else
    match usedThresholdTarget cap used thr (optI hl lo) buf with
    | none => ["tgt none"]
    | some v => [s!"tgt {v}"]
  | _ => ["bad-op"]

def runCase (lines : List String) : List String :=
  let rec go (a : Acc) (out : List String) : List String → List String
    | [] => out
    | line :: rest =>
      match toks line with
      | kind :: args =>
        match ints? args with
        | none => out ++ ["bad-op"]
        | some xs =>
          match kind with
          | "task" =>
            match parseTask xs with
            | some t => go { a with tasks := t :: a.tasks } out rest
            | none => out ++ ["bad-op"]
          | "isev" =>
            match xs with
            | n :: ks => if ks.length = n.toNat then go { a with isev := ks.map Int.toNat } out rest else out ++ ["bad-op"]
            | _ => out ++ ["bad-op"]
          | "script" =>
            match xs with
            | n :: bs => if bs.length = n.toNat then go { a with script := bs.map (· ≠ 0) } out rest else out ++ ["bad-op"]
            | _ => out ++ ["bad-op"]
          | "pod" =>
            match parsePod xs with
            | some p => go { a with pods := p :: a.pods } out rest
            | none => out ++ ["bad-op"]
          | "rawpod" =>
            match parseRawPod xs with
            | some p => go { a with pods := p :: a.pods } out rest
            | none => out ++ ["bad-op"]
          | "kill" => if xs.isEmpty then go {} (out ++ runKill a) rest else out ++ ["bad-op"]
          | "xcfg" =>
            match xs with
            | [api, started, ttl] =>
              go { a with exec := some { onlyAPI := api ≠ 0, started := started ≠ 0, ttl := ttl, cache := [] } } out rest
            | _ => out ++ ["bad-op"]
          | "round" =>
            match xs, a.exec with
            | [now], some x =>
              let (o, x') := runRoundOp a x now
              go { exec := some x' } (out ++ o) rest
            | _, _ => out ++ ["bad-op"]
          | "iscached" =>
            match xs, a.exec with
            | now :: ps, some x =>
              go a (out ++ [" ".intercalate ("cached" :: (ps.filter (fun p => x.isEvicted now p.toNat)).map toString)]) rest
            | _, _ => out ++ ["bad-op"]
          | "selprio" | "selbemem" | "selbecpu" => go a (out ++ runSel a xs kind) rest
          | "tgt" => go a (out ++ runTgt xs) rest
          | _ => out ++ ["bad-op"]
      | [] => out ++ ["bad-op"]
  go {} [] lines

end KoordVerif.C11

def main : IO Unit := KoordVerif.Proto.mainWith KoordVerif.C11.runCase
