import KoordVerif.Common.Proto
import KoordVerif.Model.C11
import KoordVerif.Model.C11Rounds
import KoordVerif.Model.C11Decode
import KoordVerif.Model.C11E2E
import KoordVerif.Model.C11Metric
import KoordVerif.Model.C11Containers
import KoordVerif.Model.C11Passes
/-
Driver for C11.  A case is a list of declaration lines followed by one command line.

 harness `kill` (KillAndEvictPods):
   task <target> <nTo> <nFn> <nPods> (<res> <amt>)*nTo (<res> <field>)*nFn (<podkey> <f0> <f1> <f2> <f3>)*nPods
   isev <n> <podkey>*n            pods for which IsPodEvicted is true
   script <n> <0|1>*n             results of the successive Evict calls
   kill
 output: `evict <task> <pod> <ok>` per Evict call, `rel <target> <res> <amt>` (sorted, non-zero), `newly <0|1>`

 harnesses `selmem` / `selcpu` (victim selection and order):
   pod <id> <name> <qosBE> <active> <policy 0..3> <hasSpec> <spec> <hasEff> <eff> <evictLbl> <evictPrio>
       <hasLbl> <lbl> <hasMetric> <used = metric*1000> <request> <batchReq>
   rawpod <id> <name> <qosLabel> <kubeQoS> <phase> <hasSpec> <spec> <clsLabel> <evictLabel> <epKind> <epVal>
       <lpKind> <lpVal> <policyTop> <hasMetric> <used> <reqNative> <reqMid> <reqBatch> <batchReq> <nElems> <elem>*
       the same pod by label / annotation SHAPES (Model/C11Decode.lean decodes them); kinds: 0 absent 1 literal 2 malformed
   selprio <threshold> <byReq> [<isMemory>] | selbemem | selbecpu
 output: one `info <id> <evictPrio> <prio> <labelPrio> <used> <request>` per selected pod in eviction order
         (pods with equal sort keys are listed by id), then `end`
   tgt <capacity> <used> <threshold> <hasLower> <lower> <buffer>   ->  `tgt none` | `tgt <amount>`

 harness `rounds` (several KillAndEvictPods rounds against the real Evictor + DefaultEvictionExecutor):
   xcfg <onlyAPI> <started> <ttl>   fresh executor (empty evicted-cache)
   task … / script <n> <0|1>*n      this round's tasks and the outcomes of the successive eviction API calls
   round <now>
 output: `evict <task> <pod> <ok>` per Evict call, `rel …`, `newly <0|1>`, `api <number of API calls>`,
         `done <task> <0|1>` per task (EvictTaskCheck)
   iscached <now> <pod>*            ->  `cached <pod>*`  (IsPodEvicted, in the given order)

 end-to-end harnesses, after the pod's `rawpod` line (Model/C11Metric.lean):
   metric <podId> <queryErr> <window ms> <n> (<age ms> <milli>)*n     the pod's usage series in storage order
 output: `last <podId> none` | `last <podId> <milli>` (CollectPodMetricLast); the pod's hasMetric / used are
         REPLACED by this result for the rest of the case
   ctrs <podId> <isCpuEvictor> <n> (<kind 0 regular|1 init|2 sidecar init> <mid or -1> <batch or -1>)*n
       the pod's containers (Model/C11Containers.lean); no output; the pod's reqMid / reqBatch (and, for the cpu
       evictor, batchReq) are REPLACED by the sums the container loops compute

 harnesses `passmem` / `passcpu` (several memoryEvict() / cpuEvict() passes against the real executor, Model/C11Passes.lean):
   xcfg <onlyAPI> <started> <ttl>   fresh executor, once per case
   per pass: rawpod / ctrs / metric lines of the pods PRESENT in this pass, then
   term <n> <podId>*n               the present pods that carry a deletionTimestamp (no list builder reads it)
   script <n> <0|1>*n               outcomes of this pass's eviction API calls
   passmem <now> <the 24 tokens of e2emem>   |   passcpu <now> <the 44 tokens of e2ecpu>
 output: `term-listed <podId>*` (terminating pods standing in some built task's list), the `task …` lines of e2emem /
         e2ecpu, then `skip` | `evict <f> <pod> <ok>`* `newly <0|1>` `api <number of API calls>`
-/
namespace KoordVerif.C11
open KoordVerif.Proto

/-- order-embedding of the non-negative float64 `used/request` (IEEE bit pattern). -/
def floatUsage (used request : Int) : Int :=
  Int.ofNat (Float.ofInt used / Float.ofInt request).toBits.toNat

def pairs : List Int → List (Int × Int)
  | a :: b :: rest => (a, b) :: pairs rest
  | _ => []

structure Acc where
  tasks  : List Task := []
  isev   : List Nat := []
  script : List Bool := []
  pods   : List Pod := []
  exec   : Option Exec := none
  raws   : List RawPod := []
  term   : List Nat := []

def parseTask (xs : List Int) : Option Task :=
  match xs with
  | tgt :: nTo :: nFn :: nPods :: rest =>
    let nTo := nTo.toNat; let nFn := nFn.toNat; let nPods := nPods.toNat
    if rest.length ≠ 2 * nTo + 2 * nFn + 5 * nPods then none else
    let to := pairs (rest.take (2 * nTo))
    let fn := pairs ((rest.drop (2 * nTo)).take (2 * nFn))
    let ps := chunks 5 (rest.drop (2 * nTo + 2 * nFn))
    some { target := tgt.toNat,
           toRelease := to.map (fun p => (p.1.toNat, p.2)),
           fn := fn.map (fun p => (p.1.toNat, p.2.toNat)),
           pods := ps.filterMap fun
             | k :: fs => some { pod := k.toNat, fields := fs }
             | _ => none }
  | _ => none

def optI (flag v : Int) : Option Int := if flag ≠ 0 then some v else none

def parsePod (xs : List Int) : Option Pod :=
  match xs with
  | [id, name, be, act, pol, hs, sp, he, ef, el, ep, hl, lb, hm, used, req, breq] =>
    let pol? : Option PolicyAnno :=
      if pol = 0 then some .absent else if pol = 1 then some .lists
      else if pol = 2 then some .others else if pol = 3 then some .malformed else none
    pol?.map fun pol =>
      { id := id.toNat, name := name.toNat, qosBE := be ≠ 0, active := act ≠ 0, policy := pol,
        specPrio := optI hs sp, effPrio := optI he ef, evictLbl := el ≠ 0, evictPrio := ep,
        labelPrio := optI hl lb, hasMetric := hm ≠ 0, used := used, request := req, batchReq := breq }
  | _ => none

def numText (kind v : Int) : Option NumText :=
  if kind = 0 then some .absent else if kind = 1 then some (.literal v) else if kind = 2 then some .malformed else none

def parseRawPod (xs : List Int) : Option RawPod :=
  match xs with
  | id :: name :: ql :: kq :: ph :: hs :: sp :: cl :: el :: epk :: epv :: lpk :: lpv :: pt :: hm :: used ::
      rn :: rm :: rb :: breq :: n :: elems =>
    if elems.length ≠ n.toNat ∨ ql < 0 ∨ kq < 0 ∨ ph < 0 ∨ cl < 0 ∨ el < 0 ∨ pt < 0 ∨ elems.any (· < 0) then none else
    match numText epk epv, numText lpk lpv with
    | some ep, some lp =>
      some ({ id := id.toNat, name := name.toNat, qosLabel := ql.toNat, kubeQoS := kq.toNat, phase := ph.toNat,
                        specPrio := optI hs sp, clsLabel := cl.toNat, evictLabel := el.toNat, evictPrio := ep,
                        prioLabel := lp, policyTop := pt.toNat, policyElems := elems.map Int.toNat,
                        hasMetric := hm ≠ 0, used := used, reqNative := rn, reqMid := rm, reqBatch := rb,
                        batchReq := breq } : RawPod)
    | _, _ => none
  | _ => none

def cmpRel (a b : Key × Int) : Bool := a.1.1 < b.1.1 || (a.1.1 = b.1.1 && a.1.2 < b.1.2)

def insSorted {α} (lt : α → α → Bool) (x : α) : List α → List α
  | [] => [x]
  | y :: ys => if lt x y then x :: y :: ys else y :: insSorted lt x ys

def sortBy {α} (lt : α → α → Bool) (xs : List α) : List α := xs.foldl (fun acc x => insSorted lt x acc) []

def runKill (a : Acc) : List String :=
  let tasks := a.tasks.reverse
  let st := killAndEvict (fun p => a.isev.contains p) a.script tasks
  let calls := st.logRev.reverse.filterMap fun ev =>
    match ev.kind with
    | .ok => some s!"evict {ev.task} {ev.e.pod} 1"
    | .fail => some s!"evict {ev.task} {ev.e.pod} 0"
    | .pending => none
  -- canonical release list: per key the stored amount, non-zero only, sorted
  let keys := (st.released.map (·.1)).eraseDups
  let rel := sortBy cmpRel (keys.map fun k => (k, get st.released k))
  calls ++ (rel.filter (·.2 ≠ 0)).map (fun kv => s!"rel {kv.1.1} {kv.1.2} {kv.2}")
    ++ [s!"newly {b2i st.newly}"]

def showCalls (st : St) : List String :=
  st.logRev.reverse.filterMap fun ev =>
    match ev.kind with
    | .ok => some s!"evict {ev.task} {ev.e.pod} 1"
    | .fail => some s!"evict {ev.task} {ev.e.pod} 0"
    | .pending => none

def showRel (st : St) : List String :=
  let keys := (st.released.map (·.1)).eraseDups
  let rel := sortBy cmpRel (keys.map fun k => (k, get st.released k))
  (rel.filter (·.2 ≠ 0)).map (fun kv => s!"rel {kv.1.1} {kv.1.2} {kv.2}")

def runRoundOp (a : Acc) (x : Exec) (now : Int) : List String × Exec :=
  let tasks := a.tasks.reverse
  let s := runRound x { now := now, script := a.script, tasks := tasks }
  let dones := (List.range tasks.length).filterMap fun i =>
    tasks[i]?.map fun t => s!"done {i} {b2i (taskDone t s.st.released)}"
  (showCalls s.st ++ showRel s.st ++ [s!"newly {b2i s.st.newly}", s!"api {s.api}"] ++ dones, s.x)

/-- list pods of equal sort key (adjacent, since the list is sorted) by id. -/
def canonRuns (same : Info → Info → Bool) : List Info → List Info → List Info
  | run, [] => sortBy (fun a b => a.pod.id < b.pod.id) run
  | [], x :: xs => canonRuns same [x] xs
  | r :: run, x :: xs =>
    if same r x then canonRuns same (x :: r :: run) xs
    else sortBy (fun a b => a.pod.id < b.pod.id) (r :: run) ++ canonRuns same [x] xs

def showInfo (i : Info) : String :=
  s!"info {i.pod.id} {i.evictPrio} {i.prio} {i.labelPrio} {i.used} {i.request}"

def runSel (a : Acc) (cmd : List Int) (kind : String) : List String :=
  let pods := a.pods.reverse
  match kind, cmd with
  | "selprio", [thr, byReq, isMem] =>
    let out := if isMem ≠ 0 then selectPrioMem thr (byReq ≠ 0) pods else selectPrio thr (byReq ≠ 0) pods
    let same := fun (x y : Info) => !prioLess (byReq ≠ 0) x y && !prioLess (byReq ≠ 0) y x
    (canonRuns same [] out).map showInfo ++ ["end"]
  | "selprio", [thr, byReq] =>
    let out := selectPrio thr (byReq ≠ 0) pods
    let same := fun (x y : Info) => !prioLess (byReq ≠ 0) x y && !prioLess (byReq ≠ 0) y x
    (canonRuns same [] out).map showInfo ++ ["end"]
  | "selbemem", [] =>
    let out := selectBEMem pods
    let same := fun (x y : Info) => !beMemLess x y && !beMemLess y x
    (canonRuns same [] out).map showInfo ++ ["end"]
  | "selbecpu", [] =>
    let out := selectBECpu floatUsage pods
    let same := fun (x y : Info) => !beCpuLess x y && !beCpuLess y x
    (canonRuns same [] out).map showInfo ++ ["end"]
  | _, _ => ["bad-op"]

/-- float64 part of calculateReleaseByAllocatableThresholdPercent:
    `rq/sum > thr/100` ⇒ `int64((rq/sum - lower/100)*sum)`. -/
def allocFloat (rq sum thr lower : Int) : Option Int :=
  let r := Float.ofInt rq / Float.ofInt sum
  if r > Float.ofInt thr / 100 then some ((r - Float.ofInt lower / 100) * Float.ofInt sum).toInt64.toInt else none

def showTask (f : Nat) : Option Task → String
  | none => s!"task {f} none"
  | some t =>
    let to := t.toRelease.foldl (fun s ra => s ++ s!" {ra.1} {ra.2}") ""
    let ps := t.pods.foldl (fun s e => s ++ s!" {e.pod}") ""
    s!"task {f} {t.toRelease.length}{to} {t.pods.length}{ps}"

def featIdx : MemFeature → Nat
  | .be => 0 | .alloc => 1 | .mem => 2

/-- `e2emem <beOn> <allocOn> <memOn> (<has> <v>)×6 [thr lower prioThr aThr aLower aPrioThr] <capacity>
     (<has> <v>)×4 [nodeUsed allocMem allocBatch allocMid]`, after `rawpod`, `isev`, `script` lines.
    Output: `task <f> …` for the three features as buildEvictTask returns them, then the run of memoryEvict():
    `skip` | `evict <f> <pod> <ok>`* `newly <0|1>`. -/
def runE2EMem (a : Acc) (xs : List Int) : Option (List String) :=
  match xs with
  | [beOn, allocOn, memOn, h1, thr, h2, lower, h3, prioThr, h4, aThr, h5, aLower, h6, aPrio, cap,
     h7, used, h8, am, h9, ab, h10, amid] =>
    let c : MemCfg := { beOn := beOn ≠ 0, allocOn := allocOn ≠ 0, memOn := memOn ≠ 0, thr := optI h1 thr,
                        lower := optI h2 lower, prioThr := optI h3 prioThr, aThr := optI h4 aThr,
                        aLower := optI h5 aLower, aPrioThr := optI h6 aPrio, capacity := cap,
                        nodeUsed := optI h7 used, allocMem := optI h8 am, allocBatch := optI h9 ab,
                        allocMid := optI h10 amid }
    let pods := a.raws.reverse
    -- buildEvictTask divides by the capacity; the harness only calls it directly when capacity > 0
    let built := if cap ≤ 0 then [] else
      [MemFeature.be, .alloc, .mem].map fun f => showTask (featIdx f) (memTask allocFloat c pods f)
    let ts := memTasks allocFloat c pods
    let run := match memoryEvict allocFloat c pods (fun p => a.isev.contains p) a.script with
      | none => ["skip"]
      | some st =>
        (st.logRev.reverse.filterMap fun ev =>
          let f := (ts[ev.task]?.map (fun ft => featIdx ft.1)).getD 9
          match ev.kind with
          | .ok => some s!"evict {f} {ev.e.pod} 1"
          | .fail => some s!"evict {f} {ev.e.pod} 0"
          | .pending => none) ++ [s!"newly {b2i st.newly}"]
    some (built ++ run)
  | _ => none

/-- float64 part of cpuevict.calculateMilliReleaseByAllocatableThresholdPercent:
    `rq/sum > thr/100` ⇒ `int64(rq - lower/100*sum)`. -/
def cpuAllocFloat (rq sum thr lower : Int) : Option Int :=
  let rqF := Float.ofInt rq
  let sumF := Float.ofInt sum
  if rqF / sumF > Float.ofInt thr / 100 then some (rqF - Float.ofInt lower / 100 * sumF).toInt64.toInt else none

/-- isBECPUUsageHighEnough -/
def beUsageHigh (usage limit : Float) (thr : Option Int) : Bool :=
  if limit ≤ 0 then false else
  if limit < 1000 then true else
  !(usage / limit < Float.ofInt (thr.getD 90) / 100)

/-- calculateResourceMilliToReleaseBySatisfaction -/
def beSatRelease (request limit : Float) (low up : Int) : Int :=
  if request ≤ 0 then 0 else
  let sat := limit / request
  if sat > Float.ofInt low / 100 then 0 else
  let gap := Float.ofInt up / 100 - sat
  if gap ≤ 0 then 0 else (request * gap).toInt64.toInt

/-- calculateMilliReleaseByBESatisfaction (collect interval 1 s); metrics as (error, avg, current, count). -/
def beSatTarget (window : Int) (byAlloc : Bool) (usageThr : Option Int) (low up : Int) (beAlloc : Float)
    (mU mR mL : Int × Int × Int × Int) : Option Int :=
  let val := fun (m : Int × Int × Int × Int) (cur : Bool) => if m.1 ≠ 0 then (0.0 : Float) else Float.ofInt (if cur then m.2.2.1 else m.2.1)
  let cnt := fun (m : Int × Int × Int × Int) => if m.1 ≠ 0 then (0 : Int) else m.2.2.2
  let count := min (cnt mU) (min (cnt mR) (cnt mL))
  let avgL := if byAlloc then beAlloc else val mL false
  if count * 1 < Int.tdiv window 3 then none else
  if !beUsageHigh (val mU false) avgL usageThr then none else
  let rel := beSatRelease (val mR false) avgL low up
  if rel ≤ 0 then none else
  let curL := if byAlloc then beAlloc else val mL true
  if !beUsageHigh (val mU true) curL usageThr then none else
  if val mR true == val mR false && curL == avgL then some rel else
  let relC := beSatRelease (val mR true) curL low up
  if relC ≤ 0 then none else
  some (if relC < rel then relC else rel)

def cpuFeatIdx : CpuFeature → Nat
  | .be => 0 | .alloc => 1 | .cpu => 2

/-- `e2ecpu <beOn> <allocOn> <cpuOn> (<has> <v>)×8 [lowP upP thr lower prioThr aThr aLower aPrioThr] <capacity>
     (<has> <v>)×4 [nodeUsed allocCpu allocBatch allocMid] <window> <byAllocatable> <hasUsageThr> <usageThr>
     (<err> <avg> <cur> <count>)×3 [BE usage, BE request, BE real limit]`.  Output as for `e2emem`. -/
def runE2ECpu (a : Acc) (xs : List Int) : Option (List String) :=
  match xs with
  | beOn :: allocOn :: cpuOn :: h1 :: lowP :: h2 :: upP :: h3 :: thr :: h4 :: lower :: h5 :: prioThr :: h6 :: aThr ::
      h7 :: aLower :: h8 :: aPrio :: cap :: h9 :: used :: h10 :: ac :: h11 :: ab :: h12 :: amid :: window :: byAlloc ::
      h13 :: usageThr :: e1 :: a1 :: c1 :: n1 :: e2 :: a2 :: c2 :: n2 :: e3 :: a3 :: c3 :: n3 :: [] =>
    let beAlloc : Float := match optI h11 ab with
      | none => -1
      | some v => if v < 0 then -1 else if v = 0 then 1 else Float.ofInt v
    let bt := beSatTarget window (byAlloc ≠ 0) (optI h13 usageThr) ((optI h1 lowP).getD 0) ((optI h2 upP).getD 0) beAlloc
      (e1, a1, c1, n1) (e2, a2, c2, n2) (e3, a3, c3, n3)
    let c : CpuCfg := { beOn := beOn ≠ 0, allocOn := allocOn ≠ 0, cpuOn := cpuOn ≠ 0, lowP := optI h1 lowP, upP := optI h2 upP,
                        beTarget := bt, thr := optI h3 thr, lower := optI h4 lower, prioThr := optI h5 prioThr,
                        aThr := optI h6 aThr, aLower := optI h7 aLower, aPrioThr := optI h8 aPrio, capacity := cap,
                        nodeUsed := optI h9 used, allocCpu := optI h10 ac, allocBatch := optI h11 ab, allocMid := optI h12 amid }
    let pods := a.raws.reverse
    let built := if cap ≤ 0 then [] else
      [CpuFeature.be, .alloc, .cpu].map fun f => showTask (cpuFeatIdx f) (cpuTask floatUsage cpuAllocFloat c pods f)
    let ts := cpuTasks floatUsage cpuAllocFloat c pods
    let run := match cpuEvict floatUsage cpuAllocFloat c pods (fun p => a.isev.contains p) a.script with
      | none => ["skip"]
      | some st =>
        (st.logRev.reverse.filterMap fun ev =>
          let f := (ts[ev.task]?.map (fun ft => cpuFeatIdx ft.1)).getD 9
          match ev.kind with
          | .ok => some s!"evict {f} {ev.e.pod} 1"
          | .fail => some s!"evict {f} {ev.e.pod} 0"
          | .pending => none) ++ [s!"newly {b2i st.newly}"]
    some (built ++ run)
  | _ => none

def parseMemCfg (xs : List Int) : Option MemCfg :=
  match xs with
  | [beOn, allocOn, memOn, h1, thr, h2, lower, h3, prioThr, h4, aThr, h5, aLower, h6, aPrio, cap,
     h7, used, h8, am, h9, ab, h10, amid] =>
    some { beOn := beOn ≠ 0, allocOn := allocOn ≠ 0, memOn := memOn ≠ 0, thr := optI h1 thr,
           lower := optI h2 lower, prioThr := optI h3 prioThr, aThr := optI h4 aThr,
           aLower := optI h5 aLower, aPrioThr := optI h6 aPrio, capacity := cap,
           nodeUsed := optI h7 used, allocMem := optI h8 am, allocBatch := optI h9 ab,
           allocMid := optI h10 amid }
  | _ => none

def parseCpuCfg (xs : List Int) : Option CpuCfg :=
  match xs with
  | beOn :: allocOn :: cpuOn :: h1 :: lowP :: h2 :: upP :: h3 :: thr :: h4 :: lower :: h5 :: prioThr :: h6 :: aThr ::
      h7 :: aLower :: h8 :: aPrio :: cap :: h9 :: used :: h10 :: ac :: h11 :: ab :: h12 :: amid :: window :: byAlloc ::
      h13 :: usageThr :: e1 :: a1 :: c1 :: n1 :: e2 :: a2 :: c2 :: n2 :: e3 :: a3 :: c3 :: n3 :: [] =>
    let beAlloc : Float := match optI h11 ab with
      | none => -1
      | some v => if v < 0 then -1 else if v = 0 then 1 else Float.ofInt v
    let bt := beSatTarget window (byAlloc ≠ 0) (optI h13 usageThr) ((optI h1 lowP).getD 0) ((optI h2 upP).getD 0) beAlloc
      (e1, a1, c1, n1) (e2, a2, c2, n2) (e3, a3, c3, n3)
    some { beOn := beOn ≠ 0, allocOn := allocOn ≠ 0, cpuOn := cpuOn ≠ 0, lowP := optI h1 lowP, upP := optI h2 upP,
           beTarget := bt, thr := optI h3 thr, lower := optI h4 lower, prioThr := optI h5 prioThr,
           aThr := optI h6 aThr, aLower := optI h7 aLower, aPrioThr := optI h8 aPrio, capacity := cap,
           nodeUsed := optI h9 used, allocCpu := optI h10 ac, allocBatch := optI h11 ab, allocMid := optI h12 amid }
  | _ => none

def passPodsOf (a : Acc) : List PassPod :=
  a.raws.reverse.map fun rp => { raw := rp, terminating := a.term.contains rp.id }

def showPassRun {F} (idx : F → Nat) (ts : List (F × Task)) : Option XSt → List String
  | none => ["skip"]
  | some s =>
    (s.st.logRev.reverse.filterMap fun ev =>
      let f := (ts[ev.task]?.map (fun ft => idx ft.1)).getD 9
      match ev.kind with
      | .ok => some s!"evict {f} {ev.e.pod} 1"
      | .fail => some s!"evict {f} {ev.e.pod} 0"
      | .pending => none) ++ [s!"newly {b2i s.st.newly}", s!"api {s.api}"]

/-- terminating pods that stand in the list of some task of the pass, in pod order. -/
def termListed (pps : List PassPod) (tasks : List Task) : String :=
  " ".intercalate ("term-listed" :: ((pps.filter fun pp =>
    pp.terminating && tasks.any fun t => t.pods.any fun e => e.pod = pp.raw.id).map fun pp => toString pp.raw.id))

/-- `passmem <now> <e2emem tokens>`: one memoryEvict() pass with the case's executor. -/
def runPassMem (a : Acc) (x : Exec) (now : Int) (xs : List Int) : Option (List String × Exec) :=
  (parseMemCfg xs).map fun c =>
    let pps := passPodsOf a
    let built := if c.capacity ≤ 0 then [] else
      [MemFeature.be, .alloc, .mem].map fun f => memTask allocFloat c (passRaws pps) f
    let builtS := if c.capacity ≤ 0 then [] else
      [MemFeature.be, .alloc, .mem].map fun f => showTask (featIdx f) (memTask allocFloat c (passRaws pps) f)
    let ts := memPassTasks allocFloat c pps
    let run := memoryEvictPass allocFloat c pps x now a.script
    ([termListed pps (built.filterMap id)] ++ builtS ++ showPassRun featIdx ts run, (run.map (·.x)).getD x)

/-- `passcpu <now> <e2ecpu tokens>`: one cpuEvict() pass with the case's executor. -/
def runPassCpu (a : Acc) (x : Exec) (now : Int) (xs : List Int) : Option (List String × Exec) :=
  (parseCpuCfg xs).map fun c =>
    let pps := passPodsOf a
    let built := if c.capacity ≤ 0 then [] else
      [CpuFeature.be, .alloc, .cpu].map fun f => cpuTask floatUsage cpuAllocFloat c (passRaws pps) f
    let builtS := if c.capacity ≤ 0 then [] else
      [CpuFeature.be, .alloc, .cpu].map fun f => showTask (cpuFeatIdx f) (cpuTask floatUsage cpuAllocFloat c (passRaws pps) f)
    let ts := cpuPassTasks floatUsage cpuAllocFloat c pps
    let run := cpuEvictPass floatUsage cpuAllocFloat c pps x now a.script
    ([termListed pps (built.filterMap id)] ++ builtS ++ showPassRun cpuFeatIdx ts run, (run.map (·.x)).getD x)

def runTgt (xs : List Int) : List String :=
  match xs with
  | [cap, used, thr, hl, lo, buf] =>
    if cap = 0 then ["bad-op"] else
    match usedThresholdTarget cap used thr (optI hl lo) buf with
    | none => ["tgt none"]
    | some v => [s!"tgt {v}"]
  | _ => ["bad-op"]

def runCase (lines : List String) : List String :=
  let rec go (a : Acc) (out : List String) : List String → List String
    | [] => out
    | line :: rest =>
      match toks line with
      | kind :: args =>
        match ints? args with
        | none => out ++ ["bad-op"]
        | some xs =>
          match kind with
          | "task" =>
            match parseTask xs with
            | some t => go { a with tasks := t :: a.tasks } out rest
            | none => out ++ ["bad-op"]
          | "isev" =>
            match xs with
            | n :: ks => if ks.length = n.toNat then go { a with isev := ks.map Int.toNat } out rest else out ++ ["bad-op"]
            | _ => out ++ ["bad-op"]
          | "script" =>
            match xs with
            | n :: bs => if bs.length = n.toNat then go { a with script := bs.map (· ≠ 0) } out rest else out ++ ["bad-op"]
            | _ => out ++ ["bad-op"]
          | "pod" =>
            match parsePod xs with
            | some p => go { a with pods := p :: a.pods } out rest
            | none => out ++ ["bad-op"]
          | "rawpod" =>
            match parseRawPod xs with
            | some rp => go { a with pods := decodePod rp :: a.pods, raws := rp :: a.raws } out rest
            | none => out ++ ["bad-op"]
          | "metric" =>
            match xs with
            | id :: qerr :: window :: n :: pts =>
              if pts.length ≠ 2 * n.toNat ∨ id < 0 then out ++ ["bad-op"] else
              let m := podMetricLast (qerr ≠ 0) window ((pairs pts).map fun p => { age := p.1, milli := p.2 })
              let raws := a.raws.map fun rp => if rp.id = id.toNat then rp.withMetric m else rp
              let pods := a.pods.map fun p => if p.id = id.toNat then { p with hasMetric := m.isSome, used := m.getD 0 } else p
              let o := match m with
                | none => s!"last {id} none"
                | some v => s!"last {id} {v}"
              go { a with raws := raws, pods := pods } (out ++ [o]) rest
            | _ => out ++ ["bad-op"]
          | "ctrs" =>
            match xs with
            | id :: cpu :: n :: cts =>
              if cts.length ≠ 3 * n.toNat ∨ id < 0 ∨ cts.any (· < -1) then out ++ ["bad-op"] else
              let cs : List Ctr := (chunks 3 cts).filterMap fun
                | [k, m, b] => some { kind := k.toNat, mid := m, batch := b }
                | _ => none
              let raws := a.raws.map fun rp => if rp.id = id.toNat then rp.withCtrs (cpu ≠ 0) cs else rp
              let pods := a.pods.map fun p =>
                if p.id = id.toNat then ((raws.find? fun rp => rp.id = id.toNat).map decodePod).getD p else p
              go { a with raws := raws, pods := pods } out rest
            | _ => out ++ ["bad-op"]
          | "e2emem" =>
            match runE2EMem a xs with
            | some o => go {} (out ++ o) rest
            | none => out ++ ["bad-op"]
          | "e2ecpu" =>
            match runE2ECpu a xs with
            | some o => go {} (out ++ o) rest
            | none => out ++ ["bad-op"]
          | "term" =>
            match xs with
            | n :: ks => if ks.length = n.toNat ∧ ks.all (· ≥ 0) then go { a with term := ks.map Int.toNat } out rest else out ++ ["bad-op"]
            | _ => out ++ ["bad-op"]
          | "passmem" | "passcpu" =>
            match xs, a.exec with
            | now :: cfg, some x =>
              match (if kind = "passmem" then runPassMem a x now cfg else runPassCpu a x now cfg) with
              | some (o, x') => go { exec := some x' } (out ++ o) rest
              | none => out ++ ["bad-op"]
            | _, _ => out ++ ["bad-op"]
          | "kill" => if xs.isEmpty then go {} (out ++ runKill a) rest else out ++ ["bad-op"]
          | "xcfg" =>
            match xs with
            | [api, started, ttl] =>
              go { a with exec := some { onlyAPI := api ≠ 0, started := started ≠ 0, ttl := ttl, cache := [] } } out rest
            | _ => out ++ ["bad-op"]
          | "round" =>
            match xs, a.exec with
            | [now], some x =>
              let (o, x') := runRoundOp a x now
              go { exec := some x' } (out ++ o) rest
            | _, _ => out ++ ["bad-op"]
          | "iscached" =>
            match xs, a.exec with
            | now :: ps, some x =>
              go a (out ++ [" ".intercalate ("cached" :: (ps.filter (fun p => x.isEvicted now p.toNat)).map toString)]) rest
            | _, _ => out ++ ["bad-op"]
          | "selprio" | "selbemem" | "selbecpu" => go a (out ++ runSel a xs kind) rest
          | "tgt" => go a (out ++ runTgt xs) rest
          | _ => out ++ ["bad-op"]
      | [] => out ++ ["bad-op"]
  go {} [] lines

end KoordVerif.C11

def main : IO Unit := KoordVerif.Proto.mainWith KoordVerif.C11.runCase
