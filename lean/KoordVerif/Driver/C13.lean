import KoordVerif.Common.Proto
import KoordVerif.Model.C13
/-
Driver for C13.  All tokens after the op kind are integers.

  pod <slot> <POD>             slot 0 = the pod under admission, 1 = the old pod of an UPDATE
  profile <name> <matched> <skipRes> <hasProb> <prob> <qos> <pclabel> <hasPrio> <prio> <hasSub> <sub>
  validate <gateSkipPriority> <op>        -> `verdict <0|1>`
  mutate <create> <gateSkipRes> <rand>    -> observation block of slot 0 after
                                             clusterColocationProfileMutatingPod + mutateByExtendedResources;
                                             slot 0 := result (a second `mutate` re-admits it)
  POD  = <qos> <pclabel> <hasPrio> <prio> <hasSub> <sub> <statusQoS> <ANNOT> <nInit> <nCtr> <hasOv> CTR* [RL]
  qos: -1 absent 0 unknown 1 LSE 2 LSR 3 LS 4 BE 5 SYSTEM;  pclabel: -1 absent 0 unknown 1 prod 2 mid 3 batch 4 free
  CTR  = <name> RL(requests) RL(limits);   RL = <n> (<res> <nano>)*   res: 0 cpu 1 memory 2 batch-cpu 3 batch-memory 4 mid-cpu 5 mid-memory 6 other
  ANNOT = 0 | 1 | 2 <n> (<name> EXT(requests) EXT(limits))*;   EXT = <hasCpu> <cpu> <hasMem> <mem>
-/
namespace KoordVerif.C13
open KoordVerif.Proto

abbrev Parser (α : Type) := List Int → Option (α × List Int)

def pInt : Parser Int
  | x :: xs => some (x, xs)
  | [] => none

def pOpt : Parser (Option Int) := fun ts =>
  match ts with
  | h :: v :: xs => some (if h ≠ 0 then some v else none, xs)
  | _ => none

def pRep {α} (p : Parser α) : Nat → Parser (List α)
  | 0 => fun ts => some ([], ts)
  | n+1 => fun ts =>
    match p ts with
    | none => none
    | some (a, ts1) =>
      match pRep p n ts1 with
      | none => none
      | some (as, ts2) => some (a :: as, ts2)

def resOfCode (c : Int) : Option Res :=
  if c = 0 then some .cpu else if c = 1 then some .memory else if c = 2 then some .batchCPU
  else if c = 3 then some .batchMemory else if c = 4 then some .midCPU else if c = 5 then some .midMemory
  else if c = 6 then some .other else none

def Res.code : Res → Int
  | .cpu => 0 | .memory => 1 | .batchCPU => 2 | .batchMemory => 3 | .midCPU => 4 | .midMemory => 5 | .other => 6

def qosOfCode (c : Int) : Option (Option QoS) :=
  if c = -1 then some none else if c = 0 then some (some .none) else if c = 1 then some (some .lse)
  else if c = 2 then some (some .lsr) else if c = 3 then some (some .ls) else if c = 4 then some (some .be)
  else if c = 5 then some (some .system) else none

def qosCode : Option QoS → Int
  | none => -1 | some .none => 0 | some .lse => 1 | some .lsr => 2 | some .ls => 3 | some .be => 4 | some .system => 5

def pcOfCode (c : Int) : Option (Option PC) :=
  if c = -1 then some none else if c = 0 then some (some .none) else if c = 1 then some (some .prod)
  else if c = 2 then some (some .mid) else if c = 3 then some (some .batch) else if c = 4 then some (some .free) else none

def pcCode : Option PC → Int
  | none => -1 | some .none => 0 | some .prod => 1 | some .mid => 2 | some .batch => 3 | some .free => 4

def pPair : Parser (Res × Int) := fun ts =>
  match ts with
  | r :: q :: xs => match resOfCode r with
    | some res => some ((res, q), xs)
    | none => none
  | _ => none

def pRL : Parser RL := fun ts =>
  match ts with
  | n :: xs =>
    if n < 0 then none else
    match pRep pPair n.toNat xs with
    | some (ps, rest) => some (ps.foldl (fun l (rq : Res × Int) => l.set rq.1 rq.2) RL.empty, rest)
    | none => none
  | [] => none

def pCtr : Parser Ctr := fun ts =>
  match ts with
  | n :: xs =>
    if n < 0 then none else
    match pRL xs with
    | some (rq, r1) => match pRL r1 with
      | some (lm, r2) => some ({ name := n.toNat, req := rq, lim := lm }, r2)
      | none => none
    | none => none
  | [] => none

def pExt : Parser ExtRL := fun ts =>
  match pOpt ts with
  | some (c, r1) => match pOpt r1 with
    | some (m, r2) => some ({ cpu := c, mem := m }, r2)
    | none => none
  | none => none

def pExtCtr : Parser ExtCtr := fun ts =>
  match ts with
  | n :: xs =>
    if n < 0 then none else
    match pExt xs with
    | some (rq, r1) => match pExt r1 with
      | some (lm, r2) => some ({ name := n.toNat, req := rq, lim := lm }, r2)
      | none => none
    | none => none
  | [] => none

def pAnnot : Parser Annot := fun ts =>
  match ts with
  | 0 :: xs => some (.absent, xs)
  | 1 :: xs => some (.malformed, xs)
  | 2 :: n :: xs =>
    if n < 0 then none else
    match pRep pExtCtr n.toNat xs with
    | some (es, rest) => some (.spec es, rest)
    | none => none
  | _ => none

def pPod : Parser Pod := fun ts =>
  match ts with
  | q :: pl :: hp :: pv :: hs :: sv :: st :: xs =>
    match qosOfCode q, pcOfCode pl, pAnnot xs with
    | some ql, some pll, some (an, ni :: nc :: ho :: r1) =>
      if ni < 0 ∨ nc < 0 ∨ st < 0 then none else
      match pRep pCtr ni.toNat r1 with
      | some (is, r2) => match pRep pCtr nc.toNat r2 with
        | some (cs, r3) =>
          let mk (ov : Option RL) : Pod :=
            { qosLabel := ql, prioLabel := pll, priority := if hp ≠ 0 then some pv else none,
              subPrio := if hs ≠ 0 then some sv else none, statusQoS := st.toNat,
              inits := is, ctrs := cs, overhead := ov, annot := an }
          if ho ≠ 0 then
            match pRL r3 with
            | some (ov, r4) => some (mk (some ov), r4)
            | none => none
          else some (mk none, r3)
        | none => none
      | none => none
    | _, _, _ => none
  | _ => none

def showRL (l : RL) : String :=
  let ps := Res.all.filterMap (fun r => (l r).map (fun q => s!"{r.code} {q}"))
  " ".intercalate (toString ps.length :: ps)

def showOpt : Option Int → String
  | some v => s!"1 {v}"
  | none => "0 0"

def showExt (e : ExtRL) : String := s!"{showOpt e.cpu} {showOpt e.mem}"

def showAnnot : Annot → String
  | .absent => "ann 0"
  | .malformed => "ann 1"
  | .spec es => " ".intercalate ("ann 2" :: toString es.length :: es.map (fun e => s!"{e.name} {showExt e.req} {showExt e.lim}"))

def showPod (p : Pod) : List String :=
  let pv := showOpt (Pod.priority p)
  let sv := showOpt (Pod.subPrio p)
  [s!"meta {qosCode p.qosLabel} {pcCode p.prioLabel} {pv} {sv}"] ++
  p.inits.map (fun c => s!"c 0 {c.name} {showRL c.req} {showRL c.lim}") ++
  p.ctrs.map (fun c => s!"c 1 {c.name} {showRL c.req} {showRL c.lim}") ++
  [match p.overhead with | some o => s!"ov 1 {showRL o}" | none => "ov 0", showAnnot p.annot]

structure St where
  cur : Option Pod := none
  old : Option Pod := none
  profiles : List Profile := []

def stepLine (st : St) (line : String) : St × List String :=
  match toks line with
  | "pod" :: rest =>
    match ints? rest with
    | some (slot :: ts) =>
      match pPod ts with
      | some (p, []) =>
        if slot = 0 then ({ st with cur := some p }, [])
        else if slot = 1 then ({ st with old := some p }, []) else (st, ["bad-op"])
      | _ => (st, ["bad-op"])
    | _ => (st, ["bad-op"])
  | "profile" :: rest =>
    match ints? rest with
    | some [name, m, sr, hpb, pb, q, pl, hp, pv, hs, sv] =>
      match qosOfCode q, pcOfCode pl with
      | some ql, some pll =>
        if name < 0 then (st, ["bad-op"]) else
        let pr : Profile := Profile.mk name.toNat (m ≠ 0) (sr ≠ 0)
          (if hpb ≠ 0 then some pb else none) ql pll
          (if hp ≠ 0 then some pv else none) (if hs ≠ 0 then some sv else none)
        ({ st with profiles := st.profiles ++ [pr] }, [])
      | _, _ => (st, ["bad-op"])
    | _ => (st, ["bad-op"])
  | "validate" :: rest =>
    match ints? rest, st.cur with
    | some [gate, op], some new =>
      if op < 0 then (st, ["bad-op"]) else
      let old := st.old.getD new
      if op = 1 ∧ st.old.isNone then (st, ["bad-op"]) else
      (st, [s!"verdict {b2i (validateAllowed stdRanges (gate ≠ 0) op.toNat old new)}"])
    | _, _ => (st, ["bad-op"])
  | "mutate" :: rest =>
    match ints? rest, st.cur with
    | some [create, gate, rand], some p =>
      let (p1, flag) := colocationMutate stdRanges (create ≠ 0) (gate ≠ 0) rand st.profiles p
      if create = 0 then ({ st with cur := some p1 }, s!"mut {b2i flag}" :: showPod p1) else
      match mutateByExt p1 with
      | none => ({ st with cur := some p1 }, [s!"mut {b2i flag}", "err"])
      | some p2 => ({ st with cur := some p2 }, s!"mut {b2i flag}" :: showPod p2)
    | _, _ => (st, ["bad-op"])
  | _ => (st, ["bad-op"])

def runCase (lines : List String) : List String :=
  (lines.foldl (fun (acc : St × List String) l =>
    let (st', out) := stepLine acc.1 l
    (st', acc.2 ++ out)) ({}, [])).2

end KoordVerif.C13

def main : IO Unit := KoordVerif.Proto.mainWith KoordVerif.C13.runCase
