import KoordVerif.Common.Proto
import KoordVerif.Model.C13
import KoordVerif.Model.C13Handle
import KoordVerif.Model.C13Status
/-
Driver for C13.  All tokens after the op kind are integers.

  pod <slot> <POD>             slot 0 = the pod under admission, 1 = the old pod of an UPDATE
  profile <name> <matched> <skipRes> <hasProb> <prob> LSTR(qosClass) <hasPrio> <prio> <hasSub> <sub> <probInvalid> <pcMissing>
          <nLabels> (<key> LSTR)* <nKeyMap> (<old> <new>)* <nSuffix> (<key> LSTR)*
          <hasPatch> <nPatchLabels> (<key> LSTR)* <hasPatchPrio> <patchPrio> <nPatchRes> (<ctr> <isLimit> <res> <nano>)*
  validate <gateSkipPriority> <op>        -> `verdict <0|1>`
  mutate <create> <gateSkipRes> <rand>    -> observation block of slot 0 after
                                             clusterColocationProfileMutatingPod + mutateByExtendedResources;
                                             slot 0 := result (a second `mutate` re-admits it)
  probstr <name> LSTR                     spec.probability of profile <name> is the STRING LSTR (parsed by the model)
  sel <name> <nsSel> <objSel>             the selectors of profile <name> evaluate to: 0 nil 1 empty 2 match 3 no match 4 error
                                          (the model decides `matched` from them)
  handle <op> <sub> <isPods> <hasObj> <gateSkipRes> <gateNoExt> <rand>
                                          -> `hresp 0` (rejected) | `hresp 1` + observation block of the pod the API server
                                             STORES for slot 0 (PodMutatingHandler.Handle + JSON patch); slot 0 is kept.
                                             op: 0 CREATE 1 UPDATE 2 DELETE 3 CONNECT; sub: 0 = no sub-resource
  hvalidate <op> <sub> <isPods> <hasObj> <hasOld> <oldDeleting> <newDeleting> <finalizers> <oldFinalizers> <statusOnly> <gateSkipPriority>
                                          -> `hverdict <0|1>` (PodValidatingHandler.Handle admits; slot 0 = object, 1 = old object)
  cstatus <slot> <cond> <n> (<name> <hasResources> RL(resources.requests) RL(allocatedResources))* <hasPodResources> RL RL
                                          the in-place-resize status of slot 0 / 1 (after its `pod` line; a `pod` line
                                          resets it): cond = pending + 4*inProgress, pending 0 none 1 Deferred 2 Infeasible
                                          3 other; container statuses then init-container statuses; pod-level
                                          status.resources.requests / status.allocatedResources.  No observation.
  usestatus <0|1>                         (diagnostic, not emitted by any harness) judge the following requests as if
                                          util.GetPodRequest passed UseStatusResources = <b> (default: what it passes, false)
  POD  = LSTR(qos label) LSTR(priority-class label) LSTR(c13/src label) <hasPrio> <prio> <hasSub> <sub> <statusQoS>
         <ANNOT> <nInit> <nCtr> <hasOv> <hasPodRes> CTR* [RL(overhead)] [RL(pod requests) RL(pod limits)]
  LSTR = -1 (absent) | <n> <byte>*        key: 0 qos 1 priority-class 2 c13/src
  CTR  = <name> <sidecar> RL(requests) RL(limits);   RL = <n> (<res> <nano>)*   res: 0 cpu 1 memory 2 batch-cpu 3 batch-memory 4 mid-cpu 5 mid-memory 6 other
  ANNOT = 0 | 1 | 2 <n> (<name> EXT(requests) EXT(limits))*;   EXT = <hasCpu> <cpu> <hasMem> <mem>
-/
namespace KoordVerif.C13
open KoordVerif.Proto

abbrev Parser (α : Type) := List Int → Option (α × List Int)

def pInt : Parser Int
  | x :: xs => some (x, xs)
  | [] => none

def pOpt : Parser (Option Int) := fun ts =>
  match ts with
  | h :: v :: xs => some (if h ≠ 0 then some v else none, xs)
  | _ => none

def pRep {α} (p : Parser α) : Nat → Parser (List α)
  | 0 => fun ts => some ([], ts)
  | n+1 => fun ts =>
    match p ts with
    | none => none
    | some (a, ts1) =>
      match pRep p n ts1 with
      | none => none
      | some (as, ts2) => some (a :: as, ts2)

def resOfCode (c : Int) : Option Res :=
  if c = 0 then some .cpu else if c = 1 then some .memory else if c = 2 then some .batchCPU
  else if c = 3 then some .batchMemory else if c = 4 then some .midCPU else if c = 5 then some .midMemory
  else if c = 6 then some .other else none

def Res.code : Res → Int
  | .cpu => 0 | .memory => 1 | .batchCPU => 2 | .batchMemory => 3 | .midCPU => 4 | .midMemory => 5 | .other => 6

def pLStr : Parser (Option LStr) := fun ts =>
  match ts with
  | n :: xs =>
    if n = -1 then some (none, xs) else if n < 0 then none else
    match pRep pInt n.toNat xs with
    | some (bs, rest) => if bs.all (· ≥ 0) then some (some (bs.map Int.toNat), rest) else none
    | none => none
  | [] => none

def keyOfCode (c : Int) : Option LKey :=
  if c = 0 then some .qos else if c = 1 then some .pc else if c = 2 then some .src else none

def pKey : Parser LKey := fun ts =>
  match ts with
  | c :: xs => (keyOfCode c).map (fun k => (k, xs))
  | [] => none

def pKeyStr : Parser (LKey × LStr) := fun ts =>
  match pKey ts with
  | some (k, r1) => match pLStr r1 with
    | some (some v, r2) => some ((k, v), r2)
    | _ => none
  | none => none

def pKeyKey : Parser (LKey × LKey) := fun ts =>
  match pKey ts with
  | some (a, r1) => match pKey r1 with
    | some (b, r2) => some ((a, b), r2)
    | none => none
  | none => none

/-- `<n> item*` -/
def pList {α} (p : Parser α) : Parser (List α) := fun ts =>
  match ts with
  | n :: xs => if n < 0 then none else pRep p n.toNat xs
  | [] => none

def pPair : Parser (Res × Int) := fun ts =>
  match ts with
  | r :: q :: xs => match resOfCode r with
    | some res => some ((res, q), xs)
    | none => none
  | _ => none

def pRL : Parser RL := fun ts =>
  match ts with
  | n :: xs =>
    if n < 0 then none else
    match pRep pPair n.toNat xs with
    | some (ps, rest) => some (ps.foldl (fun l (rq : Res × Int) => l.set rq.1 rq.2) RL.empty, rest)
    | none => none
  | [] => none

def pCtr : Parser Ctr := fun ts =>
  match ts with
  | n :: sc :: xs =>
    if n < 0 then none else
    match pRL xs with
    | some (rq, r1) => match pRL r1 with
      | some (lm, r2) => some ({ name := n.toNat, req := rq, lim := lm, sidecar := sc ≠ 0 }, r2)
      | none => none
    | none => none
  | _ => none

def pResPatch : Parser ResPatch := fun ts =>
  match ts with
  | c :: il :: r :: q :: xs =>
    if c < 0 then none else
    match resOfCode r with
    | some res => some ({ ctr := c.toNat, isLimit := il ≠ 0, res := res, q := q }, xs)
    | none => none
  | _ => none

def pExt : Parser ExtRL := fun ts =>
  match pOpt ts with
  | some (c, r1) => match pOpt r1 with
    | some (m, r2) => some ({ cpu := c, mem := m }, r2)
    | none => none
  | none => none

def pExtCtr : Parser ExtCtr := fun ts =>
  match ts with
  | n :: xs =>
    if n < 0 then none else
    match pExt xs with
    | some (rq, r1) => match pExt r1 with
      | some (lm, r2) => some ({ name := n.toNat, req := rq, lim := lm }, r2)
      | none => none
    | none => none
  | [] => none

def pAnnot : Parser Annot := fun ts =>
  match ts with
  | 0 :: xs => some (.absent, xs)
  | 1 :: xs => some (.malformed, xs)
  | 2 :: n :: xs =>
    if n < 0 then none else
    match pRep pExtCtr n.toNat xs with
    | some (es, rest) => some (.spec es, rest)
    | none => none
  | _ => none

def pPod : Parser Pod := fun ts =>
  match pLStr ts with
  | none => none
  | some (ql, t1) =>
  match pLStr t1 with
  | none => none
  | some (pl, t2) =>
  match pLStr t2 with
  | none => none
  | some (sl, t3) =>
  match t3 with
  | hp :: pv :: hs :: sv :: st :: xs =>
    match pAnnot xs with
    | some (an, ni :: nc :: ho :: hpl :: r1) =>
      if ni < 0 ∨ nc < 0 ∨ st < 0 then none else
      match pRep pCtr ni.toNat r1 with
      | some (is, r2) => match pRep pCtr nc.toNat r2 with
        | some (cs, r3) =>
          let lbl : Labels := fun k => match k with | .qos => ql | .pc => pl | .src => sl
          let mk (ov : Option RL) (pr : Option (RL × RL)) : Pod :=
            { labels := lbl, priority := if hp ≠ 0 then some pv else none,
              subPrio := if hs ≠ 0 then some sv else none, statusQoS := st.toNat,
              inits := is, ctrs := cs, overhead := ov, annot := an, podRes := pr }
          let pOv : Parser (Option RL) := fun ts =>
            if ho ≠ 0 then (match pRL ts with | some (ov, r) => some (some ov, r) | none => none) else some (none, ts)
          match pOv r3 with
          | none => none
          | some (ov, r4) =>
            if hpl ≠ 0 then
              match pRL r4 with
              | some (rq, r5) => match pRL r5 with
                | some (lm, r6) => some (mk ov (some (rq, lm)), r6)
                | none => none
              | none => none
            else some (mk ov none, r4)
        | none => none
      | none => none
    | _ => none
  | _ => none

def pProfile : Parser Profile := fun ts =>
  match ts with
  | name :: m :: sr :: hpb :: pb :: t1 =>
    if name < 0 then none else
    match pLStr t1 with
    | some (q, hp :: pv :: hs :: sv :: pinv :: pcm :: t2) =>
      match pList pKeyStr t2 with
      | none => none
      | some (lbls, t3) =>
      match pList pKeyKey t3 with
      | none => none
      | some (km, t4) =>
      match pList pKeyStr t4 with
      | none => none
      | some (sfx, []) => none
      | some (sfx, hpa :: t5) =>
      match pList pKeyStr t5 with
      | none => none
      | some (pls, hpp :: pp :: t6) =>
        match pList pResPatch t6 with
        | none => none
        | some (prs, t7) =>
          some ({ name := name.toNat, matched := m ≠ 0, skipRes := sr ≠ 0, prob := if hpb ≠ 0 then some pb else none,
                  qos := q, priority := if hp ≠ 0 then some pv else none, subPrio := if hs ≠ 0 then some sv else none,
                  labels := lbls, keyMap := km, suffixes := sfx, hasPatch := hpa ≠ 0, patchLabels := pls,
                  patchPriority := if hpp ≠ 0 then some pp else none, patchRes := prs,
                  probInvalid := pinv ≠ 0, pcMissing := pcm ≠ 0 }, t7)
      | _ => none
    | _ => none
  | _ => none

def showRL (l : RL) : String :=
  let ps := Res.all.filterMap (fun r => (l r).map (fun q => s!"{r.code} {q}"))
  " ".intercalate (toString ps.length :: ps)

def showOpt : Option Int → String
  | some v => s!"1 {v}"
  | none => "0 0"

def showExt (e : ExtRL) : String := s!"{showOpt e.cpu} {showOpt e.mem}"

def showAnnot : Annot → String
  | .absent => "ann 0"
  | .malformed => "ann 1"
  | .spec es => " ".intercalate ("ann 2" :: toString es.length :: es.map (fun e => s!"{e.name} {showExt e.req} {showExt e.lim}"))

def showLStr : Option LStr → String
  | none => "-1"
  | some bs => " ".intercalate (toString bs.length :: bs.map toString)

def showPod (p : Pod) : List String :=
  let pv := showOpt (Pod.priority p)
  let sv := showOpt (Pod.subPrio p)
  [s!"meta {showLStr (p.labels .qos)} {showLStr (p.labels .pc)} {showLStr (p.labels .src)} {pv} {sv}"] ++
  p.inits.map (fun c => s!"c 0 {c.name} {showRL c.req} {showRL c.lim}") ++
  p.ctrs.map (fun c => s!"c 1 {c.name} {showRL c.req} {showRL c.lim}") ++
  [match p.overhead with | some o => s!"ov 1 {showRL o}" | none => "ov 0",
   match p.podRes with | some (rq, lm) => s!"pl 1 {showRL rq} {showRL lm}" | none => "pl 0",
   showAnnot p.annot]

def opOfCode (c : Int) : Option Op :=
  if c = 0 then some .create else if c = 1 then some .update else if c = 2 then some .delete
  else if c = 3 then some .connect else none

def selOfCode (c : Int) : Option SelShape :=
  if c = 0 then some .absent else if c = 1 then some .empty else if c = 2 then some .matches
  else if c = 3 then some .differs else if c = 4 then some .errs else none

def pCtrStatus : Parser CtrStatus := fun ts =>
  match ts with
  | n :: hr :: xs =>
    if n < 0 then none else
    match pRL xs with
    | some (rq, r1) => match pRL r1 with
      | some (al, r2) => some ({ name := n.toNat, actuated := if hr ≠ 0 then some rq else none, allocated := al }, r2)
      | none => none
    | none => none
  | _ => none

def pStatus : Parser ResizeStatus := fun ts =>
  match ts with
  | cond :: t1 =>
    if cond < 0 then none else
    match pList pCtrStatus t1 with
    | some (cs, hp :: t2) => match pRL t2 with
      | some (rq, t3) => match pRL t3 with
        | some (al, t4) => some ({ cond := cond.toNat, ctrs := cs, podLevel := if hp ≠ 0 then some (rq, al) else none }, t4)
        | none => none
      | none => none
    | _ => none
  | [] => none

structure St where
  cur : Option Pod := none
  old : Option Pod := none
  profiles : List Profile := []
  /-- the resize status of slot 0 (that of slot 1 is parsed and dropped: nothing reads the old pod's requests) -/
  stNew : ResizeStatus := {}
  /-- PodResourcesOptions.UseStatusResources as util.GetPodRequest passes it; only the op `usestatus` (never emitted by a
      harness; for checking the model of the option against a tree that sets it) changes it -/
  useStatus : Bool := getPodRequestUsesStatus

def stepLine (st : St) (line : String) : St × List String :=
  match toks line with
  | "pod" :: rest =>
    match ints? rest with
    | some (slot :: ts) =>
      match pPod ts with
      | some (p, []) =>
        if slot = 0 then ({ st with cur := some p, stNew := {} }, [])
        else if slot = 1 then ({ st with old := some p }, []) else (st, ["bad-op"])
      | _ => (st, ["bad-op"])
    | _ => (st, ["bad-op"])
  | "usestatus" :: rest =>
    match ints? rest with
    | some [b] => ({ st with useStatus := b ≠ 0 }, [])
    | _ => (st, ["bad-op"])
  | "cstatus" :: rest =>
    match ints? rest with
    | some (slot :: ts) =>
      match pStatus ts with
      | some (s, []) =>
        if slot = 0 ∧ st.cur.isSome then ({ st with stNew := s }, [])
        else if slot = 1 ∧ st.old.isSome then (st, []) else (st, ["bad-op"])
      | _ => (st, ["bad-op"])
    | _ => (st, ["bad-op"])
  | "profile" :: rest =>
    match ints? rest with
    | some ts =>
      match pProfile ts with
      | some (pr, []) => ({ st with profiles := st.profiles ++ [pr] }, [])
      | _ => (st, ["bad-op"])
    | none => (st, ["bad-op"])
  | "validate" :: rest =>
    match ints? rest, st.cur with
    | some [gate, op], some new =>
      if op < 0 then (st, ["bad-op"]) else
      let old := st.old.getD new
      if op = 1 ∧ st.old.isNone then (st, ["bad-op"]) else
      (st, [s!"verdict {b2i (validateAllowedSt stdRanges st.useStatus (gate ≠ 0) op.toNat old new st.stNew)}"])
    | _, _ => (st, ["bad-op"])
  | "probstr" :: rest =>
    match ints? rest with
    | some (name :: ts) =>
      match pLStr ts with
      | some (some v, []) =>
        if st.profiles.any (fun pr => (pr.name : Int) = name) then
          ({ st with profiles := st.profiles.map (fun pr =>
              if (pr.name : Int) = name then pr.withProbability (some (.str v)) else pr) }, [])
        else (st, ["bad-op"])
      | _ => (st, ["bad-op"])
    | _ => (st, ["bad-op"])
  | "sel" :: rest =>
    match ints? rest with
    | some [name, ns, obj] =>
      match selOfCode ns, selOfCode obj with
      | some a, some b =>
        if st.profiles.any (fun pr => (pr.name : Int) = name) then
          ({ st with profiles := st.profiles.map (fun pr => if (pr.name : Int) = name then pr.withSelectors a b else pr) }, [])
        else (st, ["bad-op"])
      | _, _ => (st, ["bad-op"])
    | _ => (st, ["bad-op"])
  | "handle" :: rest =>
    match ints? rest, st.cur with
    | some [op, sub, isPods, hasObj, gate, noExt, rand], some p =>
      match opOfCode op with
      | none => (st, ["bad-op"])
      | some o =>
        let e : Envelope := { op := o, subresource := sub ≠ 0, isPods := isPods ≠ 0, hasObject := hasObj ≠ 0, hasOld := false }
        match handleMutating stdRanges e (gate ≠ 0) (noExt ≠ 0) rand st.profiles p with
        | none => (st, ["hresp 0"])
        | some q => (st, "hresp 1" :: showPod q)
    | _, _ => (st, ["bad-op"])
  | "hvalidate" :: rest =>
    match ints? rest, st.cur with
    | some [op, sub, isPods, hasObj, hasOld, od, nd, fin, ofin, so, gate], some new =>
      match opOfCode op with
      | none => (st, ["bad-op"])
      | some o =>
        let e : Envelope := { op := o, subresource := sub ≠ 0, isPods := isPods ≠ 0, hasObject := hasObj ≠ 0, hasOld := hasOld ≠ 0 }
        let sh : ObjShape := { oldDeleting := od ≠ 0, newDeleting := nd ≠ 0, finalizers := fin ≠ 0, oldFinalizers := ofin ≠ 0, statusOnly := so ≠ 0 }
        (st, [s!"hverdict {b2i (handleValidatingSt stdRanges e sh st.useStatus (gate ≠ 0) (st.old.getD new) new st.stNew)}"])
    | _, _ => (st, ["bad-op"])
  | "mutate" :: rest =>
    match ints? rest, st.cur with
    | some [create, gate, rand], some p =>
      if colocationFails (create ≠ 0) rand st.profiles then (st, ["err1"]) else
      let (p1, flag) := colocationMutate stdRanges (create ≠ 0) (gate ≠ 0) rand st.profiles p
      if create = 0 then ({ st with cur := some p1 }, s!"mut {b2i flag}" :: showPod p1) else
      match mutateByExt p1 with
      | none => ({ st with cur := some p1 }, [s!"mut {b2i flag}", "err"])
      | some p2 => ({ st with cur := some p2 }, s!"mut {b2i flag}" :: showPod p2)
    | _, _ => (st, ["bad-op"])
  | _ => (st, ["bad-op"])

def runCase (lines : List String) : List String :=
  (lines.foldl (fun (acc : St × List String) l =>
    let (st', out) := stepLine acc.1 l
    (st', acc.2 ++ out)) ({}, [])).2

end KoordVerif.C13

def main : IO Unit := KoordVerif.Proto.mainWith KoordVerif.C13.runCase
