import KoordVerif.Common.Proto
import KoordVerif.Model.C05
import KoordVerif.Model.C05Prof
import KoordVerif.Model.C05Sel
import KoordVerif.Model.C05Ctl
/-
Driver for C05.  One case = one history against one reservation cache (harness "cache") or a list of
independent owner-matching questions (harness "match").  Integer tokens only.

  <robj> = uid node phase once term policy optKind o0 o1 o2 t0 t1 t2 s0 s1 s2 maxPods v0 v1 v2 ownBad   (21)
           (t/s: -1 = key absent)
  <pod>  = uid empty q0 q1 q2                                                                            (5)
  <hpod> = uid node terminated rAllocUid empty q0 q1 q2                                                  (8)

  rupd <robj> | rupdx <robj> | rdel uid node | eadd <robj> | eupd <robj> | edel <robj>
  padd ru n <pod>*            -> `err k`
  pdel ru n uid*
  pupd oldU newU hasOld <pod> hasNew <pod>
  hadd <hpod> | hupd <hpod> <hpod> | hdel <hpod>
  <xpod> = uid node phase annKind annUid empty q0 q1 q2                                                  (9)
  xadd <xpod> | xupd <xpod> <xpod> | xdel objKind <xpod>      (informer objects: annotation / phase shapes)
      each followed by the dump:  `i uid node phase matchable n0 n1 n2 a0 a1 a2 k pod*` per reservation (by uid),
      `on`/`mt`/`al` + sorted (node uid) pairs, `fe node uid*` for nodes 1..3
  cyc uid empty q0 q1 q2 hasAff hasName node a0 a1 a2 t0 t1 t2 chosen unreserve k (uid ownerOK nameMatch affOK)*
      one scheduling cycle of a normal pod on `node` (a: node allocatable, t: NodeInfo.Requested of the snapshot)
      -> `matched uid*`, `pre c`, `flt c`, `nf uid 0|1`*, `nom 0|uid` | `nom among uid* 1`, `rsv c` + dump,
         [`pb c annUid`], [`unr` + dump]
      unreserve = roll-back stage: 0 none, 1 Unreserve right after Reserve (also after a FAILED Reserve, as the
      framework does), 2 PreBind then Unreserve, 3 PreBind only (PreBind runs only after a successful Reserve)
  resp u hasAff stage <pod>         the tail of a cycle whose nomination is already settled (u = the nominated
                                    reservation, 0 = none): Reserve -> [PreBind] -> [Unreserve], stage as in `cyc`
                                    -> `rsv c` + dump, [`pb c annUid`], [`unr` + dump]
  rres listed n <robj>              Reserve of the RESERVE pod of <robj> (the lister's object, listed = 0: lister miss)
                                    on node n -> `rsv c` + dump
  runr listed n podUid <robj>       Unreserve of that reserve pod -> `unr` + dump
  fit ru q0 q1 q2 p0 p1 p2 prePods  -> `fit pods f0 f1 f2` | `fit none`
  nom ru                            -> `nom 0|1` | `nom none`
  own perr k (obj ctrl lbl)*        -> `own 0|1`                                   (MatchOwners)
  sel nP (key val)*nP nL (key val)*nL nE (key op nV val*nV)*nE  -> `sel parsed matched`
                                    one owner label selector (Model/C05Sel.lean): pod labels, matchLabels, matchExpressions
                                    (op 0 In, 1 NotIn, 2 Exists, 3 DoesNotExist, other = unknown operator);
                                    parsed = ParseReservationOwnerMatchers succeeded, matched = the matcher accepts the pod
  ctl specNs podNs flag uid name kind api nRefs (flag uid name kind api)*nRefs  -> `ctl matched`
                                    one owner controller reference (Model/C05Ctl.lean) on the pod's ownerReferences; strings 0 = empty,
                                    flag 0 nil / 1 true / 2 false
  harness "profiles" (Model/C05Prof.lean): P caches, one per scheduler profile
  mnew P
  madd kind valid <robj> k role*                 informer Add delivered in the order role* (0 = global handler, i = profile i)
  mupd kindOld kindNew valid <robj> <robj> k role*
  mdel kind <robj> k role*
  mto role add kind valid <robj> | mto role upd kindOld kindNew valid <robj> <robj> | mto role del kind <robj>
                                                 ONE listener (0 = global handler, i = plugin handler of profile i) processes the event
  mhadd <hpod> | mhupd <hpod> <hpod> | mhdel <hpod>      pod informer event, to every profile
  massume prof ru <pod>                          -> `err k`
      each followed by, for every profile i = 1..P:  `prof i` + the dump of its cache
  chk ignored perr hasName nameMatch exact unsched tolerate taintBad affinity k (obj ctrl lbl)*  -> `chk 0|1`
-/
namespace KoordVerif.C05
open KoordVerif.Proto

def vecOf (l : List Int) : Vec := fun d => let x := l.getD d 0; if x < 0 then 0 else x
def maskPos (l : List Int) : Mask := fun d => l.getD d (-1) ≥ 0
def maskNZ (l : List Int) : Mask := fun d => l.getD d 0 != 0

def parseRObj : List Int → Option RObj
  | [uid, node, phase, once, term, policy, optKind, o0, o1, o2, t0, t1, t2, s0, s1, s2, maxPods, v0, v1, v2, ownBad] =>
    some { uid := uid.toNat, node := node.toNat, phase := phase.toNat, once := once != 0, term := term != 0,
           policy := policy.toNat, optKind := optKind.toNat, opt := maskNZ [o0, o1, o2],
           tmpl := vecOf [t0, t1, t2], tmplHas := maskPos [t0, t1, t2],
           st := vecOf [s0, s1, s2], stHas := maskPos [s0, s1, s2],
           maxPods := maxPods, reserved := vecOf [v0, v1, v2], ownBad := ownBad != 0 }
  | _ => none

def parsePod : List Int → Option Pod
  | [uid, empty, q0, q1, q2] => some { uid := uid.toNat, empty := empty != 0, req := vecOf [q0, q1, q2] }
  | _ => none

def parseHPod : List Int → Option HPod
  | [uid, node, term, ra, empty, q0, q1, q2] =>
    some { pod := { uid := uid.toNat, empty := empty != 0, req := vecOf [q0, q1, q2] },
           node := node.toNat, term := term != 0, rAlloc := ra.toNat }
  | _ => none

def parseXPod : List Int → Option XPod
  | [uid, node, phase, ak, au, empty, q0, q1, q2] =>
    some { pod := { uid := uid.toNat, empty := empty != 0, req := vecOf [q0, q1, q2] },
           node := node.toNat, phase := phase.toNat, annKind := ak.toNat, annUid := au.toNat }
  | _ => none

def insNat (x : Nat) : List Nat → List Nat
  | [] => [x]
  | y :: ys => if x ≤ y then x :: y :: ys else y :: insNat x ys
def sortNat (l : List Nat) : List Nat := l.foldr insNat []

def pairLe (a b : Nat × Nat) : Bool := a.1 < b.1 || (a.1 == b.1 && a.2 ≤ b.2)
def insPair (x : Nat × Nat) : List (Nat × Nat) → List (Nat × Nat)
  | [] => [x]
  | y :: ys => if pairLe x y then x :: y :: ys else y :: insPair x ys
def sortPairs (l : List (Nat × Nat)) : List (Nat × Nat) := l.foldr insPair []

def insInfo (x : RInfo) : List RInfo → List RInfo
  | [] => [x]
  | y :: ys => if x.uid ≤ y.uid then x :: y :: ys else y :: insInfo x ys

def showIdx (tag : String) (ix : Idx) : String :=
  " ".intercalate (tag :: (sortPairs ix).flatMap (fun p => [toString p.1, toString p.2]))

def showInfo (r : RInfo) : String :=
  let ds := List.range dims
  " ".intercalate (["i", toString r.uid, toString r.node, toString r.phase, toString (b2i (isMatchable r))]
    ++ ds.map (fun d => toString (b2i (r.names d)))
    ++ ds.map (fun d => toString (r.allocated d))
    ++ [toString r.assigned.length] ++ (sortNat (r.assigned.map (·.uid))).map toString)

def dump (c : Cache) : List String :=
  (c.infos.foldr insInfo []).map showInfo
    ++ [showIdx "on" c.onNode, showIdx "mt" c.matchable, showIdx "al" c.allocIdx]
    ++ [1, 2, 3].map (fun n => " ".intercalate (["fe", toString n] ++ (sortNat (forEachMatchable c n)).map toString))

def showFlags (tag : String) (fs : List Bool) : String :=
  " ".intercalate (tag :: fs.map (fun b => toString (b2i b)))

def parseOwners : Nat → List Int → Option (List OwnerEval)
  | 0, [] => some []
  | k+1, a :: b :: c :: rest => (parseOwners k rest).map (fun t => { obj := a != 0, ctrl := b != 0, lbl := c != 0 } :: t)
  | _, _ => none

def parsePods (l : List Int) : Option (List Pod) := (chunks 5 l).mapM parsePod

def parsePairs : Nat → List Int → Option (Labels × List Int)
  | 0, rest => some ([], rest)
  | k+1, a :: b :: rest => (parsePairs k rest).map (fun (t, r) => ((a.toNat, b.toNat) :: t, r))
  | _, _ => none

def parseExprs : Nat → List Int → Option (List SelExpr × List Int)
  | 0, rest => some ([], rest)
  | k+1, key :: op :: nv :: rest =>
    if nv < 0 || rest.length < nv.toNat then none
    else (parseExprs k (rest.drop nv.toNat)).map (fun (t, r) =>
      ({ key := key.toNat, op := op.toNat, vals := (rest.take nv.toNat).map Int.toNat } :: t, r))
  | _, _ => none

/-- `sel`: pod labels, matchLabels, matchExpressions -/
def parseSel : List Int → Option (Labels × LabelSel)
  | np :: rest =>
    match parsePairs np.toNat rest with
    | some (pod, nl :: rest2) =>
      match parsePairs nl.toNat rest2 with
      | some (lbls, ne :: rest3) =>
        match parseExprs ne.toNat rest3 with
        | some (es, []) => some (pod, { labels := lbls, exprs := es })
        | _ => none
      | _ => none
    | _ => none
  | _ => none

def parseCtlRefs : Nat → List Int → Option (List CtlRef)
  | 0, [] => some []
  | k+1, f :: u :: n :: kd :: a :: rest =>
    (parseCtlRefs k rest).map (fun t => { flag := f, uid := u, name := n, kind := kd, api := a } :: t)
  | _, _ => none

def parseCands : Nat → List Int → Option (List CandIn)
  | 0, [] => some []
  | k+1, u :: a :: b :: c :: rest =>
    (parseCands k rest).map (fun t => { uid := u.toNat, ownerOK := a != 0, nameMatch := b != 0, affOK := c != 0 } :: t)
  | _, _ => none

def parseCyc : List Int → Option CycIn
  | uid :: empty :: q0 :: q1 :: q2 :: ha :: hn :: node :: a0 :: a1 :: a2 :: t0 :: t1 :: t2 :: ch :: un :: k :: rest =>
    (parseCands k.toNat rest).map (fun cs =>
      { pod := { uid := uid.toNat, empty := empty != 0, req := vecOf [q0, q1, q2] },
        qHas := fun d => empty == 0 && maskPos [q0, q1, q2] d,
        hasAff := ha != 0, hasName := hn != 0, node := node.toNat,
        nAlloc := fun d => [a0, a1, a2].getD d 0, nTotal := fun d => [t0, t1, t2].getD d 0,
        cands := cs, chosen := ch.toNat, unreserve := un == 1 || un == 2, preBind := un == 2 || un == 3 })
  | _ => none

def showNats (tag : String) (l : List Nat) : String := " ".intercalate (tag :: (sortNat l).map toString)

/-- Reserve -> [PreBind] -> [Unreserve] once NominateReservation has settled on `u` (0 = nothing nominated) -/
def finishCycle (c : Cache) (x : CycIn) (u : Nat) : Cache × List String :=
  let (c1, code) := reserveM c x u
  let l3 := [s!"rsv {code}"] ++ dump c1
  let assumed := if code == 0 then u else 0
  let pb := preBindM assumed x.hasAff
  let doPB := x.preBind && code == 0
  let l4 := if doPB then l3 ++ [s!"pb {pb.1} {pb.2.1}"] else l3
  if x.unreserve then
    let c2 := unreservePodM c1 assumed (doPB && pb.2.2) x.pod.uid
    (c2, l4 ++ ["unr"] ++ dump c2)
  else (c1, l4)

def runCycle (c : Cache) (x : CycIn) : Cache × List String :=
  let ms := matchedOf c x
  let l1 := [showNats "matched" (ms.map (·.uid)), s!"pre {preFilterM c x}"]
  if preFilterM c x == 2 then (c, l1) else
  let l2 := if preFilterM c x == 0 then l1 ++ [s!"flt {filterM c x}"] else l1
  if preFilterM c x == 0 && filterM c x != 0 then (c, l2) else
  let nfs := (sortNat (ms.map (·.uid))).map (fun u =>
    match ms.find? (fun r => r.uid == u) with
    | some r => s!"nf {u} {b2i (nomFilterOK c x r)}"
    | none => s!"nf {u} ?")
  let nom := nominateM c x
  let nomLine := match nom with
    | .none => "nom 0"
    | .one u => s!"nom {u}"
    | .among us => (showNats "nom among" us) ++ " 1"
  let u := nomUid x nom
  let (c', ls) := finishCycle c x u
  (c', l2 ++ nfs ++ [nomLine] ++ ls)

/-- one line: new cache + output lines -/
def stepLine (c : Cache) (line : String) : Cache × List String :=
  let bad : Cache × List String := (c, ["bad-op"])
  let mut1 (f : Cache → RObj → Cache) (rest : List String) : Cache × List String :=
    match (ints? rest).bind parseRObj with
    | some o => let c' := f c o; (c', dump c')
    | none => bad
  match toks line with
  | "rupd" :: rest => mut1 updateReservation rest
  | "rupdx" :: rest => mut1 updateReservationIfExists rest
  | "eadd" :: rest => mut1 onAdd rest
  | "eupd" :: rest => mut1 onUpdate rest
  | "edel" :: rest => mut1 onDelete rest
  | "rdel" :: rest =>
    match ints? rest with
    | some [u, n] => let c' := deleteReservation c u.toNat n.toNat; (c', dump c')
    | _ => bad
  | "padd" :: rest =>
    match ints? rest with
    | some (ru :: n :: vals) =>
      if vals.length ≠ 5 * n.toNat then bad else
      match parsePods vals with
      | some ps => let (c', e) := addPods c ru.toNat ps; (c', s!"err {e}" :: dump c')
      | none => bad
    | _ => bad
  | "pdel" :: rest =>
    match ints? rest with
    | some (ru :: n :: us) =>
      if us.length ≠ n.toNat then bad else
      let c' := deletePods c ru.toNat (us.map Int.toNat); (c', dump c')
    | _ => bad
  | "pupd" :: rest =>
    match ints? rest with
    | some (ou :: nu :: rest2) =>
      if rest2.length ≠ 12 then bad else
      match parsePod ((rest2.drop 1).take 5), parsePod (rest2.drop 7) with
      | some po, some pn =>
        let c' := updatePod c ou.toNat nu.toNat (if rest2.getD 0 0 != 0 then some po else none)
                    (if rest2.getD 6 0 != 0 then some pn else none)
        (c', dump c')
      | _, _ => bad
    | _ => bad
  | "hadd" :: rest =>
    match (ints? rest).bind parseHPod with
    | some p => let c' := podUpdate c none p; (c', dump c')
    | none => bad
  | "hupd" :: rest =>
    match ints? rest with
    | some l =>
      match parseHPod (l.take 8), parseHPod (l.drop 8) with
      | some po, some pn => let c' := podUpdate c (some po) pn; (c', dump c')
      | _, _ => bad
    | none => bad
  | "hdel" :: rest =>
    match (ints? rest).bind parseHPod with
    | some p => let c' := podDelete c p; (c', dump c')
    | none => bad
  | "xadd" :: rest =>
    match (ints? rest).bind parseXPod with
    | some p => let c' := xpodUpdate c none p; (c', dump c')
    | none => bad
  | "xupd" :: rest =>
    match ints? rest with
    | some l =>
      match parseXPod (l.take 9), parseXPod (l.drop 9) with
      | some po, some pn => let c' := xpodUpdate c (some po) pn; (c', dump c')
      | _, _ => bad
    | none => bad
  | "xdel" :: rest =>
    match ints? rest with
    | some (k :: l) =>
      match parseXPod l with
      | some p => let c' := xpodDelete c k.toNat p; (c', dump c')
      | none => bad
    | _ => bad
  | "cyc" :: rest =>
    match (ints? rest).bind parseCyc with
    | some x => runCycle c x
    | none => bad
  | "resp" :: rest =>
    match ints? rest with
    | some [u, ha, stage, uid, empty, q0, q1, q2] =>
      let x : CycIn :=
        { pod := { uid := uid.toNat, empty := empty != 0, req := vecOf [q0, q1, q2] },
          qHas := fun d => empty == 0 && maskPos [q0, q1, q2] d, hasAff := ha != 0, hasName := false, node := 0,
          nAlloc := vzero, nTotal := vzero, cands := [], chosen := 0,
          unreserve := stage == 1 || stage == 2, preBind := stage == 2 || stage == 3 }
      finishCycle c x u.toNat
    | _ => bad
  | "rres" :: rest =>
    match ints? rest with
    | some (listed :: n :: l) =>
      match parseRObj l with
      | some o =>
        let (c', code) := reserveRsvM c (if listed != 0 then some o else none) n.toNat
        (c', s!"rsv {code}" :: dump c')
      | none => bad
    | _ => bad
  | "runr" :: rest =>
    match ints? rest with
    | some (listed :: n :: pu :: l) =>
      match parseRObj l with
      | some o =>
        let c' := unreserveRsvM c (if listed != 0 then some o else none) pu.toNat n.toNat
        (c', "unr" :: dump c')
      | none => bad
    | _ => bad
  | "fit" :: rest =>
    match ints? rest with
    | some [ru, q0, q1, q2, p0, p1, p2, pp] =>
      match findInfo c ru.toNat with
      | some r => (c, [showFlags "fit" (fitsPolicy r (vecOf [q0, q1, q2]) (vecOf [p0, p1, p2]) pp)])
      | none => (c, ["fit none"])
    | _ => bad
  | "nom" :: rest =>
    match ints? rest with
    | some [ru] =>
      match findInfo c ru.toNat with
      | some r => (c, [s!"nom {b2i (nominateGate r)}"])
      | none => (c, ["nom none"])
    | _ => bad
  | "own" :: rest =>
    match ints? rest with
    | some (pe :: k :: vals) =>
      match parseOwners k.toNat vals with
      | some ms => (c, [s!"own {b2i (matchOwners (pe != 0) ms)}"])
      | none => bad
    | _ => bad
  | "sel" :: rest =>
    match (ints? rest).bind parseSel with
    | some (pod, s) =>
      match parseOwnerSelectors [some s] with
      | some [p] => (c, [s!"sel 1 {b2i (ownerLabelsMatch p pod)}"])
      | _ => (c, ["sel 0 0"])
    | none => bad
  | "ctl" :: rest =>
    match ints? rest with
    | some (sns :: pns :: f :: u :: n :: kd :: a :: k :: vals) =>
      match parseCtlRefs k.toNat vals with
      | some refs => (c, [s!"ctl {b2i (matchControllerRef sns pns { flag := f, uid := u, name := n, kind := kd, api := a } refs)}"])
      | none => bad
    | _ => bad
  | "chk" :: rest =>
    match ints? rest with
    | some (ig :: pe :: hn :: nm :: ex :: us :: tol :: tb :: af :: k :: vals) =>
      match parseOwners k.toNat vals with
      | some ms =>
        let x : MatchCtx := { ignored := ig != 0, hasName := hn != 0, nameMatch := nm != 0, exact := ex != 0,
                              unschedulable := us != 0, tolerateUnsch := tol != 0, taintBad := tb != 0, affinity := af != 0 }
        (c, [s!"chk {b2i (checkMatched x (matchOwners (pe != 0) ms))}"])
      | none => bad
    | _ => bad
  | _ => bad

def dumpProfiles (ms : List Cache) : List String :=
  (ms.zipIdx.map (fun (c, i) => s!"prof {i + 1}" :: dump c)).flatMap id

/-- `k role*` : a permutation of 0..P -/
def parseOrder (p : Nat) : List Int → Option (List Nat)
  | k :: rest =>
    let ord := rest.map Int.toNat
    if k.toNat == rest.length && rest.length == p + 1 && (List.range (p + 1)).all (fun x => ord.contains x) then some ord else none
  | [] => none

/-- the "profiles" stream: lines starting with `m` -/
def stepProfiles (ms : List Cache) (line : String) : Option (List Cache × List String) :=
  let bad : Option (List Cache × List String) := some (ms, ["bad-op"])
  let p := ms.length
  let ev (e : REv) (ordToks : List Int) : Option (List Cache × List String) :=
    match parseOrder p ordToks with
    | some ord => let ms' := deliverAll ms e (gfOfOrder ord); some (ms', dumpProfiles ms')
    | none => bad
  let all (f : Cache → Cache) : Option (List Cache × List String) :=
    let ms' := deliverAll ms (.bcast f) (fun _ => false); some (ms', dumpProfiles ms')
  match toks line with
  | ["mnew", n] =>
    match n.toNat? with
    | some k => if k ≥ 1 && k ≤ 8 then some (List.replicate k Cache.empty, []) else bad
    | none => bad
  | "madd" :: rest =>
    match ints? rest with
    | some (kind :: valid :: l) =>
      match parseRObj (l.take 21) with
      | some o => ev (.add kind.toNat (valid != 0) o) (l.drop 21)
      | none => bad
    | _ => bad
  | "mupd" :: rest =>
    match ints? rest with
    | some (ko :: kn :: valid :: l) =>
      match parseRObj (l.take 21), parseRObj ((l.drop 21).take 21) with
      | some o, some n => ev (.upd ko.toNat kn.toNat (valid != 0) o n) (l.drop 42)
      | _, _ => bad
    | _ => bad
  | "mdel" :: rest =>
    match ints? rest with
    | some (kind :: l) =>
      match parseRObj (l.take 21) with
      | some o => ev (.del kind.toNat o) (l.drop 21)
      | none => bad
    | _ => bad
  | "mto" :: role :: kindTok :: rest =>
    let one (e : REv) : Option (List Cache × List String) :=
      match role.toNat? with
      | some ro => if ro > p then bad else let ms' := deliverTo ms e ro; some (ms', dumpProfiles ms')
      | none => bad
    match kindTok, ints? rest with
    | "add", some (kind :: valid :: l) =>
      match parseRObj l with
      | some o => one (.add kind.toNat (valid != 0) o)
      | none => bad
    | "upd", some (ko :: kn :: valid :: l) =>
      if l.length ≠ 42 then bad else
      match parseRObj (l.take 21), parseRObj (l.drop 21) with
      | some o, some n => one (.upd ko.toNat kn.toNat (valid != 0) o n)
      | _, _ => bad
    | "del", some (kind :: l) =>
      match parseRObj l with
      | some o => one (.del kind.toNat o)
      | none => bad
    | _, _ => bad
  | "mhadd" :: rest =>
    match (ints? rest).bind parseHPod with
    | some hp => all (fun c => podUpdate c none hp)
    | none => bad
  | "mhupd" :: rest =>
    match ints? rest with
    | some l =>
      match parseHPod (l.take 8), parseHPod (l.drop 8) with
      | some po, some pn => all (fun c => podUpdate c (some po) pn)
      | _, _ => bad
    | none => bad
  | "mhdel" :: rest =>
    match (ints? rest).bind parseHPod with
    | some hp => all (fun c => podDelete c hp)
    | none => bad
  | "massume" :: rest =>
    match ints? rest with
    | some (prof :: ru :: l) =>
      match parsePod l with
      | some pd =>
        if prof.toNat == 0 || prof.toNat > p then bad else
        let (ms', e) := assumeAt (prof.toNat - 1) ms ru.toNat [pd]
        some (ms', s!"err {e}" :: dumpProfiles ms')
      | none => bad
    | _ => bad
  | _ => none

def runCase (lines : List String) : List String :=
  (lines.foldl (fun (acc : (Cache × List Cache) × List (List String)) l =>
      match stepProfiles acc.1.2 l with
      | some (ms', out) => ((acc.1.1, ms'), out :: acc.2)
      | none =>
        let (c', out) := stepLine acc.1.1 l
        ((c', acc.1.2), out :: acc.2)) ((Cache.empty, []), [])).2.reverse.flatMap id

end KoordVerif.C05

def main : IO Unit := KoordVerif.Proto.mainWith KoordVerif.C05.runCase
