import KoordVerif.Common.Proto
import KoordVerif.Model.C08
import KoordVerif.Model.C08Glue
import KoordVerif.Model.C08Fw
/-
Driver for C08.  One case = one history.  Lines (all tokens integers, d = 2: cpu, memory):
  cfg <f0> <f1> <allowCustom> <secSched> <secInit> <prodIncSys> <nNodes>          (first line)
  rsv <node> <now> <pod19> | unrsv <node> <uid> | add <now> <pod19> | upd <oldNode> <now> <pod19>
  del <specNode> <uid> | delmetric <node>
  metric <node> <hasUpd> <updT> <interval> <hasInfo> <n0> <n1> <s0> <s1> <nAgg> <nPods>
         (typ dur present u0 u1)*nAgg (key prod kind u0 u1)*nPods
  get <node> <prod> <aggTyp> <aggDur>
  filter <node> <hasNode> <daemon>  <u0 u1 p0 p1 hasAgg a0 a1 aTyp aDur>
         <customKind cu0 cu1 cp0 cp1 cHasAgg ca0 ca1 caTyp caDur> <fexp hasExp expSec enable>
         <alloc0 alloc1 rawKind raw0 raw1> <pod19>
pod19 = uid key cls prioVar term rsv specNode schedK schedT initK initT cf0 cf1 cSched cInit req0 lim0 req1 lim1
        (condK: 0 none, 1 False, 2 True, 3 False zero-time, 4 True zero-time; -1 = absent for cf/thresholds/raw)
After every state-changing op: one line `st <node> nf | st <node> p0 p1 n0 n1 e0 e1` per node 1..nNodes
(prod estimate, whole-node estimate, sum of full estimates).  get -> `get nf | get v0 v1`; filter -> `filter <verdict>`.
  cbegin … cend : the events in between ran concurrently (pod events on one goroutine, NodeMetric events on another);
         they are replayed in the listed order without observations, `cend` emits the `st` lines of the barrier.
  shape <prioLabel> <hasPrio> <prio> <qosLabel> <kubeQos> <specId> <fKind> <f0> <f1> <sKind> <sVal> <iKind> <iVal> <nC> <nI>
        (r0 l0 r1 l1)*nC (always r0 l0 r1 l1)*nI <ov0> <ov1> <plr0> <pll0> <plr1> <pll1>
        the raw shape of the pod of the NEXT pod-carrying line (rsv/add/upd/filter): the glue model derives class,
        custom factors / seconds and (request, limit) from it -> `shape cls cf0 cf1 cSched cInit req0 lim0 req1 lim1`,
        and these replace the corresponding pod19 tokens of that next line.
  fwfilter <the tokens of a filter line> : the verdict of the scheduler FRAMEWORK for that node in a cycle
        RunPreFilterPlugins -> RunFilterPluginsWithNominatedPods on one CycleState (Model/C08Fw.lean) -> `fw <verdict>`
        (5 = PreFilter aborted the cycle)
  pst <kind> <cls> <req0> <lim0> <req1> <lim1> : status.containerStatuses[].resources of the NEXT pod-carrying line (not read
        by the estimate; no output).   mvia <fn> <hasOld> <mode> : how the NEXT metric line is delivered (no output).
  race <k> : k barrier-released (add-type || delete-type) pairs on a separate node -> `race <lostPods> <lostReports>`
-/
namespace KoordVerif.C08
open KoordVerif.Proto

def floatOps : FloatOps :=
  { scale := fun q f => (Float.round (Float.ofInt q * Float.ofInt f / 100.0)).toInt64.toInt,
    roundPct := fun e a => (Float.round (Float.ofInt e / Float.ofInt a * 100.0)).toInt64.toInt }

def optNonneg (x : Int) : Option Int := if x < 0 then none else some x

def parseCond (k t : Int) : Option (Option Cond) :=
  if k == 0 then some none
  else if k == 1 then some (some ⟨false, some t⟩)
  else if k == 2 then some (some ⟨true, some t⟩)
  else if k == 3 then some (some ⟨false, none⟩)
  else if k == 4 then some (some ⟨true, none⟩)
  else none

def parsePod : List Int → Option PodDesc
  | [uid, key, cls, pv, term, rsv, sn, sk, stt, ik, it, cf0, cf1, cs, ci, r0, l0, r1, l1] =>
    if uid < 0 || key < 0 || cls < 1 || cls > 4 || pv < 0 || sn < 0 then none else
    match parseCond sk stt, parseCond ik it with
    | some sc, some ic =>
      some { uid := uid.toNat, key := key.toNat, cls := cls.toNat, prioVariant := pv.toNat, term := term != 0,
             rsv := rsv != 0, specNode := sn.toNat, sched := sc, init := ic,
             customFactors := [optNonneg cf0, optNonneg cf1], customSched := cs, customInit := ci,
             res := [(r0, l0), (r1, l1)] }
    | _, _ => none
  | _ => none

def parseAggs : Nat → List Int → Option (List AggEntry × List Int)
  | 0, rest => some ([], rest)
  | n+1, typ :: dur :: pr :: u0 :: u1 :: rest =>
    if typ < 0 || dur < 0 then none else
    match parseAggs n rest with
    | some (es, r) => some ({ typ := typ.toNat, dur := dur.toNat, present := pr != 0, usage := [u0, u1] } :: es, r)
    | none => none
  | _, _ => none

def parsePodMetrics : Nat → List Int → Option (List PodMetric × List Int)
  | 0, rest => some ([], rest)
  | n+1, key :: prod :: kind :: u0 :: u1 :: rest =>
    if key < 0 || kind < 0 then none else
    match parsePodMetrics n rest with
    | some (es, r) => some ({ key := key.toNat, prod := prod != 0, kind := kind.toNat, usage := [u0, u1] } :: es, r)
    | none => none
  | _, _ => none

def parseMetric : List Int → Option Metric
  | hasUpd :: updT :: interval :: hasInfo :: n0 :: n1 :: s0 :: s1 :: nAgg :: nPods :: rest =>
    if nAgg < 0 || nPods < 0 then none else
    match parseAggs nAgg.toNat rest with
    | some (aggs, rest) =>
      match parsePodMetrics nPods.toNat rest with
      | some (pods, []) =>
        some { hasUpd := hasUpd != 0, updT := updT, interval := interval, hasInfo := hasInfo != 0,
               nodeUsage := [n0, n1], sysUsage := [s0, s1], aggs := aggs, pods := pods }
      | _ => none
    | none => none
  | _ => none

def parseThr (u0 u1 p0 p1 hasAgg a0 a1 aTyp aDur : Int) : Option ThrArgs :=
  if aTyp < 0 || aDur < 0 then none else
  some { usage := [optNonneg u0, optNonneg u1], prod := [optNonneg p0, optNonneg p1],
         agg := if hasAgg != 0 then some ⟨[optNonneg a0, optNonneg a1], aTyp.toNat, aDur.toNat⟩ else none }

def parseFilter : List Int → Option FilterQ
  | node :: hasNode :: daemon ::
    u0 :: u1 :: p0 :: p1 :: hasAgg :: a0 :: a1 :: aTyp :: aDur ::
    ck :: cu0 :: cu1 :: cp0 :: cp1 :: cHasAgg :: ca0 :: ca1 :: caTyp :: caDur ::
    fexp :: hasExp :: expSec :: enable ::
    al0 :: al1 :: rawKind :: raw0 :: raw1 :: pod =>
    if node < 0 || ck < 0 || rawKind < 0 then none else
    match parseThr u0 u1 p0 p1 hasAgg a0 a1 aTyp aDur, parseThr cu0 cu1 cp0 cp1 cHasAgg ca0 ca1 caTyp caDur, parsePod pod with
    | some args, some custom, some p =>
      some { node := node.toNat, hasNode := hasNode != 0, daemon := daemon != 0, args := args,
             customKind := ck.toNat, custom := custom, filterExpired := fexp, hasExp := hasExp != 0,
             expSec := expSec, enableWhenExpired := enable, alloc := [al0, al1], rawKind := rawKind.toNat,
             raw := [optNonneg raw0, optNonneg raw1], pod := p }
    | _, _, _ => none
  | _ => none

def parseCont : Nat → List Int → Option (List (List (Int × Int)) × List Int)
  | 0, rest => some ([], rest)
  | n+1, r0 :: l0 :: r1 :: l1 :: rest =>
    match parseCont n rest with
    | some (cs, r) => some ([(r0, l0), (r1, l1)] :: cs, r)
    | none => none
  | _, _ => none

def parseInits : Nat → List Int → Option (List (Bool × List (Int × Int)) × List Int)
  | 0, rest => some ([], rest)
  | n+1, al :: r0 :: l0 :: r1 :: l1 :: rest =>
    match parseInits n rest with
    | some (cs, r) => some ((al != 0, [(r0, l0), (r1, l1)]) :: cs, r)
    | none => none
  | _, _ => none

def parseShape : List Int → Option PodShape
  | pl :: hp :: pr :: ql :: kq :: sid :: fk :: f0 :: f1 :: sk :: sv :: ik :: iv :: nC :: nI :: rest =>
    if pl < 0 || ql < 0 || kq < 0 || sid < 0 || fk < 0 || sk < 0 || ik < 0 || nC < 0 || nI < 0 then none else
    match parseCont nC.toNat rest with
    | none => none
    | some (cs, rest) =>
      match parseInits nI.toNat rest with
      | some (is, [ov0, ov1, plr0, pll0, plr1, pll1]) =>
        some { cls := { prioLabel := pl.toNat, prio := if hp != 0 then some pr else none, qosLabel := ql.toNat, kubeQos := kq.toNat },
               specId := sid.toNat, fKind := fk.toNat, fs := [optNonneg f0, optNonneg f1], sKind := sk.toNat, sVal := sv,
               iKind := ik.toNat, iVal := iv, containers := cs, inits := is, overhead := [ov0, ov1],
               podLevel := [(optNonneg plr0, optNonneg pll0), (optNonneg plr1, optNonneg pll1)] }
      | _ => none
  | _ => none

def showShape (p : PodDesc) : String :=
  let f (i : Nat) : Int := (p.customFactors.getD i none).getD (-1)
  let r (i : Nat) : Int × Int := p.res.getD i (0, 0)
  s!"shape {p.cls} {f 0} {f 1} {p.customSched} {p.customInit} {(r 0).1} {(r 0).2} {(r 1).1} {(r 1).2}"

structure St where
  cfg : Option Cfg
  nNodes : Nat
  cache : Cache
  pending : Option PodShape := none   -- raw shape announced for the next pod-carrying line
  quiet : Bool := false     -- between `cbegin` and `cend`: a concurrent segment, observed once at its barrier

def showVec (v : Vec) : String := showInts v

def obsNodes (cfg : Cfg) (nNodes : Nat) (c : Cache) : List String :=
  (List.range nNodes).map fun i =>
    let k := i + 1
    let n := c.get k
    match estimatedOfExisting cfg n true 0 0, estimatedOfExisting cfg n false 0 0 with
    | some (_, p), some (_, w) =>
      -- (type 99, duration 99999) is never reported: such a query returns the sum of full estimates
      let full := match estimatedOfExisting cfg n false 99 99999 with
        | some (_, f) => f
        | none => []
      s!"st {k} {showVec p} {showVec w} {showVec full}"
    | _, _ => s!"st {k} nf"

def stepLine (st : St) (line : String) : St × List String :=
  match toks line with
  | [] => (st, [])
  | kind :: rest =>
    match ints? rest with
    | none => (st, ["bad-op"])
    | some xs =>
      match kind, st.cfg with
      | "cfg", _ =>
        match xs with
        | [f0, f1, ac, ss, si, pis, nn] =>
          if nn < 0 then (st, ["bad-op"]) else
          let cfg : Cfg := { d := 2, factors := [optNonneg f0, optNonneg f1], allowCustom := ac != 0, secSched := ss,
                             secInit := si, prodIncludeSys := pis != 0, fl := floatOps }
          ({ cfg := some cfg, nNodes := nn.toNat, cache := [] }, [])
        | _ => (st, ["bad-op"])
      | _, none => (st, ["bad-op"])
      | "shape", some cfg =>
        match parseShape xs with
        | some sh =>
          let blank : PodDesc := { uid := 0, key := 0, cls := 0, prioVariant := 0, term := false, rsv := false, specNode := 0,
                                   sched := none, init := none, customFactors := [], customSched := -1, customInit := -1, res := [] }
          ({ st with pending := some sh }, [showShape (sh.apply cfg.d blank)])
        | none => (st, ["bad-op"])
      -- container-status resources of the next pod (kind cls req0 lim0 req1 lim1): the estimate reads the SPEC only
      -- (estimatedPodUsed: PodRequests / PodLimits with empty options), so the model has no such field; the line is a no-op
      -- that keeps a pending `shape`
      | "pst", some _ => if xs.length == 6 then (st, []) else (st, ["bad-op"])
      -- how the next `metric` line reaches the cache: <fn 0 AddFunc | 1 UpdateFunc | 2 cache method> <old object passed>
      -- <0 spec+status | 1 spec-only | 2 status-only change>.  The registered handler forwards EVERY add / update to
      -- AddOrUpdateNodeMetric whatever `old` is (the report interval is read from the spec of the new object): a no-op
      | "mvia", some _ => if xs.length == 3 then (st, []) else (st, ["bad-op"])
      | k, some cfg =>
        let parsePod (toks : List Int) : Option PodDesc :=
          (parsePod toks).map fun p => match st.pending with
            | some sh => sh.apply cfg.d p
            | none => p
        let parseFilter (toks : List Int) : Option FilterQ :=
          (parseFilter toks).map fun q => match st.pending with
            | some sh => { q with pod := sh.apply cfg.d q.pod }
            | none => q
        let st := { st with pending := none }
        let ev : Option Ev :=
          match k, xs with
          | "rsv", node :: now :: pod => if node < 0 then none else (parsePod pod).map (Ev.reserve node.toNat · now)
          | "unrsv", [node, uid] => if node < 0 || uid < 0 then none else some (Ev.unreserve node.toNat uid.toNat)
          | "add", now :: pod => (parsePod pod).map (Ev.add · now)
          | "upd", o :: now :: pod => if o < 0 then none else (parsePod pod).map (Ev.update o.toNat · now)
          | "del", [sn, uid] => if sn < 0 || uid < 0 then none else some (Ev.delete sn.toNat uid.toNat)
          | "delmetric", [node] => if node < 0 then none else some (Ev.delMetric node.toNat)
          | "metric", node :: m => if node < 0 then none else (parseMetric m).map (Ev.metric node.toNat ·)
          | _, _ => none
        match ev with
        | some e =>
          let c := step cfg st.cache e
          ({ st with cache := c }, if st.quiet then [] else obsNodes cfg st.nNodes c)
        | none =>
          match k, xs with
          | "cbegin", [] => ({ st with quiet := true }, [])
          | "cend", [] => ({ st with quiet := false }, obsNodes cfg st.nNodes st.cache)
          -- k racing pairs on a node of their own; every pair ends with the entry cleaned up again, and by
          -- Conc.no_event_lost no interleaving loses the added object: the cache is unchanged, nothing is lost
          | "race", [_] => (st, ["race 0 0"])
          | "get", [node, prod, typ, dur] =>
            if node < 0 || typ < 0 || dur < 0 then (st, ["bad-op"]) else
            match estimatedOfExisting cfg (st.cache.get node.toNat) (prod != 0) typ.toNat dur.toNat with
            | some (_, v) => (st, [s!"get {showVec v}"])
            | none => (st, ["get nf"])
          | "filter", q =>
            match parseFilter q with
            | some fq => (st, [s!"filter {filter cfg st.cache fq}"])
            | none => (st, ["bad-op"])
          -- the same query answered by the scheduler framework for this node (PreFilter, then the Filter plugins it still runs)
          | "fwfilter", q =>
            match parseFilter q with
            | some fq => (st, [s!"fw {fwFilter cfg st.cache fq}"])
            | none => (st, ["bad-op"])
          | _, _ => (st, ["bad-op"])

def runCase (lines : List String) : List String :=
  let rec go (st : St) : List String → List (List String) → List (List String)
    | [], acc => acc.reverse
    | l :: ls, acc => let (st', out) := stepLine st l; go st' ls (out :: acc)
  (go { cfg := none, nNodes := 0, cache := [] } lines []).flatten

end KoordVerif.C08

def main : IO Unit := KoordVerif.Proto.mainWith KoordVerif.C08.runCase
