import KoordVerif.Common.Proto
import KoordVerif.Model.C18
/-
Driver for C18.  One case = one history of balance rounds on one node pool.
  cfg <abn> <norm> <numberOfNodes> <dryRun> <deviation>        abn = 0 ⇒ AnomalyCondition nil
  pct <dim> <low> <high> <plow> <phigh>    dim 0=cpu 1=memory 2=pods; quarter-percent, -1 = key absent
  round <total> <nodeFit>
  node <id> <unsched> <noFit> <cap×3> <usage×3> <prodUsage×3>
  pod <node> <id> <prod> <hasMetric> <mCpu> <mMem> <filt1> <filt2> <evictOK>
  order <node> <pod>*        observed processing order (sort orders are fed through, DESIGN §2.4)
  go
Output per round: `thr`/`cls` per node, `evict` per Evict call, `det` per cached detector, `end`.
The percent→quantity step `int64(float64(pct)*0.01*float64(cap))` and the deviation-mode averages
use Lean's runtime Float (IEEE binary64, as Go).
-/
namespace KoordVerif.C18
open KoordVerif.Proto

def quarter (q : Int) : Float := Float.ofInt q / 4.0

def optPct (q : Int) : Option Float := if q < 0 then none else some (quarter q)

/-- resourceThreshold: int64(float64(threshold) * 0.01 * float64(capacity)). -/
def resourceThreshold (pct : Float) (cap : Int) : Int :=
  (pct * 0.01 * Float.ofInt cap).toInt64.toInt

def normalizePct (p : Float) : Float :=
  if p > 100.0 then 100.0 else if p < 0.0 then 0.0 else p

structure RawNode where
  id : Nat
  unsched : Bool
  noFit : Bool
  cap : List Int
  usage : List Int
  prodUsage : List Int

structure RawPod where
  node : Nat
  pod : Pod   -- metric/fitMetric still over the three raw dims

/-- calcAverageResourceUsagePercent for one raw dim. -/
def avgPct (sel : RawNode → List Int) (d : Nat) (ns : List RawNode) : Float :=
  let s := ns.foldl (fun acc n =>
    let cap := n.cap.getD d 0
    if cap = 0 then acc else acc + Float.ofInt ((sel n).getD d 0) / Float.ofInt cap * 100.0) 0.0
  s / Float.ofNat ns.length

structure DimThr where
  low : Int
  high : Int
  plow : Int
  phigh : Int

/-- getNodeThresholds for one node and one raw dim. -/
def dimThr (dev : Bool) (e : PctEff Float) (avg pavg : Float) (cap : Int) : DimThr :=
  if dev then
    let (l, h) := if e.low == 0.0 then (cap, cap)
      else (resourceThreshold (normalizePct (avg - e.low)) cap, resourceThreshold (normalizePct (avg + e.high)) cap)
    let (pl, ph) := if e.plow == 0.0 then (cap, cap)
      else (resourceThreshold (normalizePct (pavg - e.plow)) cap, resourceThreshold (normalizePct (pavg + e.phigh)) cap)
    ⟨l, h, pl, ph⟩
  else
    ⟨resourceThreshold e.low cap, resourceThreshold e.high cap,
     resourceThreshold e.plow cap, resourceThreshold e.phigh cap⟩

def proj (dims : List Nat) (v : List Int) : List Int := dims.map (fun d => v.getD d 0)

structure DrvCfg where
  cfg : Cfg
  dev : Bool
  pcts : List (PctIn Float)   -- three entries

def trackedDims (pcts : List (PctIn Float)) : List Nat :=
  (List.range 3).filter fun d =>
    match pcts[d]? with
    | some p => tracked (d == 1) p
    | none => false

def buildNode (dc : DrvCfg) (dims : List Nat) (raw : List RawNode) (pods : List RawPod) (n : RawNode) : Node :=
  let dflt : Float := Float.ofInt (dfltPct dc.dev)
  let thr : List DimThr := (List.range 3).map fun d =>
    let e := newThresholds dflt 0.0 (dc.pcts.getD d ⟨none, none, none, none⟩)
    dimThr dc.dev e (avgPct (·.usage) d raw) (avgPct (·.prodUsage) d raw) (n.cap.getD d 0)
  let pick (f : DimThr → Int) : List Int := dims.map fun d => match thr[d]? with
    | some t => f t
    | none => 0
  { id := n.id, unsched := n.unsched, noFit := n.noFit,
    usage := proj dims n.usage, prodUsage := proj dims n.prodUsage,
    low := pick (·.low), high := pick (·.high), plow := pick (·.plow), phigh := pick (·.phigh),
    pods := (pods.filter (·.node = n.id)).map fun rp =>
      { rp.pod with metric := proj dims rp.pod.metric, fitMetric := proj dims rp.pod.fitMetric } }

def showDets (tag : Nat) (ds : Dets) : List String :=
  let sorted := ds.toArray.qsort (fun a b => a.1 < b.1) |>.toList
  sorted.map fun (k, d) => s!"det {tag} {k} {b2i d.anomaly} {d.cAbn} {d.cNorm}"

structure Acc where
  dc : Option DrvCfg := none
  pcts : List (Nat × PctIn Float) := []
  st : St := ⟨[], []⟩
  total : Nat := 0
  nodeFit : Bool := false
  nodes : List RawNode := []
  pods : List RawPod := []
  orders : List (Nat × List Nat) := []
  out : Array String := #[]
  bad : Bool := false

def runRoundLines (a : Acc) (dc : DrvCfg) : Acc :=
  let dims := trackedDims dc.pcts
  let nodes := a.nodes.reverse
  let pods := a.pods.reverse
  let orders := a.orders.reverse
  let ns := nodes.map (buildNode dc dims nodes pods)
  let podOrd : Nat → List Nat := fun i => match orders.find? (·.1 = i) with
    | some (_, l) => l
    | none => []
  let rin : RoundIn := ⟨a.total, a.nodeFit, dims.length, ns, orders.map (·.1), podOrd⟩
  let ro := runRound dc.cfg a.st rin
  let st : St := ⟨observeDets dc.cfg.cond ro.st.nodeDet, observeDets dc.cfg.cond ro.st.prodDet⟩
  let lines : List String :=
    ns.map (fun n => s!"thr {n.id} {showInts (n.low ++ n.high ++ n.plow ++ n.phigh)}")
    ++ ns.map (fun n => s!"cls {n.id} {(classify n).code}")
    ++ ro.evs.map (fun e => s!"evict {e.node} {e.pod} {b2i e.ok}")
    ++ showDets 0 st.nodeDet ++ showDets 1 st.prodDet ++ ["end"]
  { a with st := st, nodes := [], pods := [], orders := [], out := a.out ++ lines.toArray }

def step (a : Acc) (line : String) : Acc :=
  if a.bad then a else
  let fail : Acc := { a with bad := true, out := a.out.push "bad-op" }
  match toks line with
  | "cfg" :: rest =>
    match ints? rest with
    | some [abn, norm, non, dry, dev] =>
      let cond := if abn ≤ 0 then none else some (⟨abn.toNat, norm.toNat⟩ : Cond)
      { a with dc := some { cfg := ⟨cond, non, dry ≠ 0⟩, dev := dev ≠ 0, pcts := [] } }
    | _ => fail
  | "pct" :: rest =>
    match ints? rest, a.dc with
    | some [d, l, h, pl, ph], some dc =>
      if d.toNat ≠ dc.pcts.length then fail else
      { a with dc := some { dc with pcts := dc.pcts ++ [⟨optPct l, optPct h, optPct pl, optPct ph⟩] } }
    | _, _ => fail
  | "round" :: rest =>
    match ints? rest with
    | some [total, nf] => { a with total := total.toNat, nodeFit := nf ≠ 0, nodes := [], pods := [], orders := [] }
    | _ => fail
  | "node" :: rest =>
    match ints? rest with
    | some [id, us, nf, c0, c1, c2, u0, u1, u2, p0, p1, p2] =>
      { a with nodes := ⟨id.toNat, us ≠ 0, nf ≠ 0, [c0, c1, c2], [u0, u1, u2], [p0, p1, p2]⟩ :: a.nodes }
    | _ => fail
  | "pod" :: rest =>
    match ints? rest with
    | some [node, id, prod, hm, m0, m1, f1, f2, ok] =>
      let p : Pod := { id := id.toNat, prod := prod ≠ 0, hasMetric := hm ≠ 0, metric := [m0, m1, 1],
                       fitMetric := [m0, m1, 0], filt1 := f1 ≠ 0, filt2 := f2 ≠ 0, evictOK := ok ≠ 0 }
      { a with pods := ⟨node.toNat, p⟩ :: a.pods }
    | _ => fail
  | "order" :: rest =>
    match nats? rest with
    | some (n :: ps) => { a with orders := (n, ps) :: a.orders }
    | _ => fail
  | ["go"] =>
    match a.dc with
    | some dc => if dc.pcts.length = 3 then runRoundLines a dc else fail
    | none => fail
  | _ => fail

def runCase (lines : List String) : List String :=
  (lines.foldl step {}).out.toList

end KoordVerif.C18

def main : IO Unit := KoordVerif.Proto.mainWith KoordVerif.C18.runCase
