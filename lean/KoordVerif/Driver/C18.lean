import KoordVerif.Common.Proto
import KoordVerif.Model.C18
import KoordVerif.Model.C18Usage
/-
Driver for C18.  One case = one history of balance rounds on one node pool.
  cfg <abn> <norm> <numberOfNodes> <dryRun> <deviation>        abn = 0 ⇒ AnomalyCondition nil
  pct <dim> <low> <high> <plow> <phigh>    dim 0=cpu 1=memory 2=pods; quarter-percent, -1 = key absent
  round <total> <nodeFit>
  node <id> <unsched> <noFit> <alloc×3> <rawKind> <raw×3> <sysCpu> <sysMem>
        alloc = status.allocatable; rawKind 0 = no raw-allocatable annotation, 1 = parsed (raw×3,
        -1 = the annotation does not name the resource), 2 = unparsable
  wts <wCpu> <wMem> <wPods>      nodePool.ResourceWeights (a missing key weighs 0), once after the pct lines
  pod <node> <id> <ns> <name> <prod> <filt1> <filt2> <evictOK> <cls> <prio> <delCost> <evCost>
        cls = koordPriorityClassOrder rank (free 1, batch 2, mid 3, prod 4, none 5), prio = spec.priority or 0,
        delCost / evCost = parsed pod-deletion-cost / eviction-cost annotation (0 when absent or invalid)
  metric <node> <ns> <name> <cpu> <mem>       one NodeMetric.Status.PodsMetric entry, in list order
  order <node> <pod>*        observed processing order; the model SORTS nodes and pods itself and uses the
                             observed order only among elements with equal sort keys (Go's sorts are unstable)
  go
  dcfg <abn> <norm>   /  dmark <k>      detector-only cases (exhaustive stream): k = 0 filterRealAbnormalNodes
        on the one node, 1 tryMarkNodesAsNormal, 2 resetNodesAsNormal; output `dst <returned> <state…>` per mark
  cls1 <unsched> <usage> <prodUsage> <low> <high> <plow> <phigh>     classification-only cases (exhaustive
        stream, one resource): output `cls <code>`
Output per round: `use` (measured usage / prod usage, -1 = resource not in the map), `thr`/`cls` per node, `evict` per Evict call, `det` per cached detector, `end`.
The percent→quantity step `int64(float64(pct)*0.01*float64(cap))` and the deviation-mode averages
use Lean's runtime Float (IEEE binary64, as Go).
-/
namespace KoordVerif.C18
open KoordVerif.Proto

def quarter (q : Int) : Float := Float.ofInt q / 4.0

def optPct (q : Int) : Option Float := if q < 0 then none else some (quarter q)

/-- resourceThreshold: int64(float64(threshold) * 0.01 * float64(capacity)). -/
def resourceThreshold (pct : Float) (cap : Int) : Int :=
  (pct * 0.01 * Float.ofInt cap).toInt64.toInt

def normalizePct (p : Float) : Float :=
  if p > 100.0 then 100.0 else if p < 0.0 then 0.0 else p

/-- a node after getNodeUsage: `cap` is what the percentage formulas divide by. -/
structure RawNode where
  id : Nat
  unsched : Bool
  noFit : Bool
  cap : List Int      -- capacity used by getNodeThresholds
  capAvg : List Int   -- capacity used by calcAverageResourceUsagePercent
  usage : List Int
  prodUsage : List Int

/-- a node as it comes over the wire. -/
structure WireNode where
  id : Nat
  unsched : Bool
  noFit : Bool
  alloc : List Int
  anno : RawAnno
  sys : List Int

structure WirePod where
  node : Nat
  id : Nat
  key : Key
  prod : Bool
  filt1 : Bool
  filt2 : Bool
  evictOK : Bool
  cls : Int
  prio : Int
  delCost : Int
  evCost : Int

structure WireMetric where
  node : Nat
  entry : MetricEntry

structure RawPod where
  node : Nat
  pod : Pod   -- metric/fitMetric still over the three raw dims

/-- getNodeUsage for one node (cpu, memory from the NodeMetric; pods = number of assigned pods). -/
def measure (pods : List WirePod) (ms : List WireMetric) (n : WireNode) : RawNode :=
  let refs : List PodRef := (pods.filter (·.node = n.id)).map fun p => ⟨p.key, p.prod⟩
  let es : List MetricEntry := (ms.filter (·.node = n.id)).map (·.entry)
  { id := n.id, unsched := n.unsched, noFit := n.noFit,
    cap := capacityFor .thresholds n.alloc n.anno,
    capAvg := capacityFor .poolAverage n.alloc n.anno,
    usage := measuredUsage n.sys es ++ [podCount false refs],
    prodUsage := measuredProdUsage [0, 0] refs es ++ [podCount true refs] }

/-- the pod with what `podMetrics[NamespacedName]` holds for it. -/
def withMetric (ms : List WireMetric) (p : WirePod) : RawPod :=
  let es : List MetricEntry := (ms.filter (·.node = p.node)).map (·.entry)
  let m := podMetric? es p.key
  let v := m.getD [0, 0]
  ⟨p.node, { id := p.id, prod := p.prod, hasMetric := m.isSome, metric := v ++ [1], fitMetric := v ++ [0],
             filt1 := p.filt1, filt2 := p.filt2, evictOK := p.evictOK }⟩

/-- calcAverageResourceUsagePercent for one raw dim. -/
def avgPct (sel : RawNode → List Int) (d : Nat) (ns : List RawNode) : Float :=
  let s := ns.foldl (fun acc n =>
    let cap := n.capAvg.getD d 0
    if cap = 0 then acc else acc + Float.ofInt ((sel n).getD d 0) / Float.ofInt cap * 100.0) 0.0
  s / Float.ofNat ns.length

structure DimThr where
  low : Int
  high : Int
  plow : Int
  phigh : Int

/-- getNodeThresholds for one node and one raw dim. -/
def dimThr (dev : Bool) (e : PctEff Float) (avg pavg : Float) (cap : Int) : DimThr :=
  if dev then
    let (l, h) := if e.low == 0.0 then (cap, cap)
      else (resourceThreshold (normalizePct (avg - e.low)) cap, resourceThreshold (normalizePct (avg + e.high)) cap)
    let (pl, ph) := if e.plow == 0.0 then (cap, cap)
      else (resourceThreshold (normalizePct (pavg - e.plow)) cap, resourceThreshold (normalizePct (pavg + e.phigh)) cap)
    ⟨l, h, pl, ph⟩
  else
    ⟨resourceThreshold e.low cap, resourceThreshold e.high cap,
     resourceThreshold e.plow cap, resourceThreshold e.phigh cap⟩

def proj (dims : List Nat) (v : List Int) : List Int := dims.map (fun d => v.getD d 0)

structure DrvCfg where
  cfg : Cfg
  dev : Bool
  pcts : List (PctIn Float)   -- three entries
  wts : Option (List Int) := none   -- three entries

def trackedDims (pcts : List (PctIn Float)) : List Nat :=
  (List.range 3).filter fun d =>
    match pcts[d]? with
    | some p => tracked (d == 1) p
    | none => false

def buildNode (dc : DrvCfg) (dims : List Nat) (raw : List RawNode) (pods : List RawPod) (n : RawNode) : Node :=
  let dflt : Float := Float.ofInt (dfltPct dc.dev)
  let thr : List DimThr := (List.range 3).map fun d =>
    let e := newThresholds dflt 0.0 (dc.pcts.getD d ⟨none, none, none, none⟩)
    dimThr dc.dev e (avgPct (·.usage) d raw) (avgPct (·.prodUsage) d raw) (n.cap.getD d 0)
  let pick (f : DimThr → Int) : List Int := dims.map fun d => match thr[d]? with
    | some t => f t
    | none => 0
  { id := n.id, unsched := n.unsched, noFit := n.noFit,
    usage := proj dims n.usage, prodUsage := proj dims n.prodUsage,
    low := pick (·.low), high := pick (·.high), plow := pick (·.plow), phigh := pick (·.phigh),
    pods := (pods.filter (·.node = n.id)).map fun rp =>
      { rp.pod with metric := proj dims rp.pod.metric, fitMetric := proj dims rp.pod.fitMetric } }

def showDets (tag : Nat) (ds : Dets) : List String :=
  let sorted := ds.toArray.qsort (fun a b => a.1 < b.1) |>.toList
  sorted.map fun (k, d) => s!"det {tag} {k} {b2i d.anomaly} {d.cAbn} {d.cNorm}"

structure Acc where
  dc : Option DrvCfg := none
  pcts : List (Nat × PctIn Float) := []
  st : St := ⟨[], []⟩
  total : Nat := 0
  nodeFit : Bool := false
  nodes : List WireNode := []
  pods : List WirePod := []
  metrics : List WireMetric := []
  orders : List (Nat × List Nat) := []
  out : Array String := #[]
  bad : Bool := false
  dcond : Option Cond := none
  dds : Dets := []

/-- sortNodesByUsage: the usage map has the tracked resources and always `pods`; capacity per
    `CapUse.nodeScore`. -/
def nodeScoreOf (wts : List Int) (dims : List Nat) (w : WireNode) (use : List Int) : Int :=
  let cap := capacityFor .nodeScore w.alloc w.anno
  usageScore (((List.range 3).filter fun d => d == 2 || dims.contains d).map fun d =>
    (use.getD d 0, cap.getD d 0, wts.getD d 0))

/-- sorter.mostRequestedScorePod (float64). -/
def mostRequestedScorePod (req cap : Int) : Float :=
  if cap = 0 then 0.0 else
  let ratio := Float.ofInt req / Float.ofInt cap
  if ratio >= 1.0 then 1.0 / ratio + 1.0 else ratio

/-- sorter.ResourceUsageScorerPod on a pod metric (cpu, memory) against the amounts by which the node
    exceeds its thresholds (`exRaw`, 0 = resource not overused: weight 0, capacity 0). -/
def podUsageScore (wts : List Int) (exRaw : List Int) (m : List Int) : Float :=
  let w (d : Nat) : Int := if exRaw.getD d 0 > 0 then wts.getD d 0 else 0
  let sum := [0, 1].foldl (fun (acc : Float) d =>
    acc + mostRequestedScorePod (m.getD d 0) (exRaw.getD d 0) * Float.ofInt (w d)) 0.0
  let wsum := w 0 + w 1
  if wsum = 0 then 0.0 else sum / Float.ofInt wsum

/-- by how much a source node exceeds its (prod) high thresholds, per raw resource. -/
def exceedRaw (dims : List Nat) (n : Node) : List Int :=
  let (u, h) := if classify n = Cls.prodHigh then (n.prodUsage, n.phigh) else (n.usage, n.high)
  (List.range 3).map fun d => match dims.idxOf? d with
    | some i => let x := u.getD i 0 - h.getD i 0; if x > 0 then x else 0
    | none => 0

def runRoundLines (a : Acc) (dc : DrvCfg) : Acc :=
  let dims := trackedDims dc.pcts
  let wpods := a.pods.reverse
  let wms := a.metrics.reverse
  let nodes := a.nodes.reverse.map (measure wpods wms)
  let pods := wpods.map (withMetric wms)
  let orders := a.orders.reverse
  let ns := nodes.map (buildNode dc dims nodes pods)
  let podOrd : Nat → List Nat := fun i => match orders.find? (·.1 = i) with
    | some (_, l) => l
    | none => []
  let wts := dc.wts.getD [0, 0, 0]
  let wnodes := a.nodes.reverse
  let scoreOf (sel : RawNode → List Int) (id : Nat) : Int :=
    match wnodes.find? (·.id = id), nodes.find? (·.id = id) with
    | some w, some n => nodeScoreOf wts dims w (sel n)
    | _, _ => 0
  -- pod sort keys: [class rank, priority, deletion cost, eviction cost, no metric, usage-score rank]
  let scored : List (Nat × Nat × Bool × Float) := pods.map fun rp =>
    let ex := match ns.find? (·.id = rp.node) with
      | some n => exceedRaw dims n
      | none => [0, 0, 0]
    (rp.node, rp.pod.id, rp.pod.hasMetric, podUsageScore wts ex rp.pod.metric)
  let podKey (id : Nat) : List Int :=
    match wpods.find? (·.id = id), scored.find? (·.2.1 = id) with
    | some wp, some (node, _, hm, sc) =>
      let rank := (scored.filter fun x => x.1 = node && x.2.2.1 && x.2.2.2 > sc).length
      [wp.cls, wp.prio, wp.delCost, wp.evCost, if hm then 0 else 1, if hm then (rank : Int) else 0]
    | _, _ => []
  let rin : RoundIn := ⟨a.total, a.nodeFit, dims.length, ns, orders.map (·.1), podOrd,
    scoreOf (·.usage), scoreOf (·.prodUsage), podKey⟩
  let ro := runRound dc.cfg a.st rin
  let st : St := ⟨observeDets dc.cfg.cond ro.st.nodeDet, observeDets dc.cfg.cond ro.st.prodDet⟩
  let useVec (v : List Int) : List Int := (List.range 3).map fun d =>
    if d == 2 || dims.contains d then v.getD d 0 else -1
  let lines : List String :=
    nodes.map (fun n => s!"use {n.id} {showInts (useVec n.usage ++ useVec n.prodUsage)}")
    ++ ns.map (fun n => s!"thr {n.id} {showInts (n.low ++ n.high ++ n.plow ++ n.phigh)}")
    ++ ns.map (fun n => s!"cls {n.id} {(classify n).code}")
    ++ ro.evs.map (fun e => s!"evict {e.node} {e.pod} {b2i e.ok}")
    ++ showDets 0 st.nodeDet ++ showDets 1 st.prodDet ++ ["end"]
  { a with st := st, nodes := [], pods := [], metrics := [], orders := [], out := a.out ++ lines.toArray }

def step (a : Acc) (line : String) : Acc :=
  if a.bad then a else
  let fail : Acc := { a with bad := true, out := a.out.push "bad-op" }
  match toks line with
  | "cfg" :: rest =>
    match ints? rest with
    | some [abn, norm, non, dry, dev] =>
      let cond := if abn ≤ 0 then none else some (⟨abn.toNat, norm.toNat⟩ : Cond)
      { a with dc := some { cfg := ⟨cond, non, dry ≠ 0⟩, dev := dev ≠ 0, pcts := [] } }
    | _ => fail
  | "pct" :: rest =>
    match ints? rest, a.dc with
    | some [d, l, h, pl, ph], some dc =>
      if d.toNat ≠ dc.pcts.length then fail else
      { a with dc := some { dc with pcts := dc.pcts ++ [⟨optPct l, optPct h, optPct pl, optPct ph⟩] } }
    | _, _ => fail
  | "cls1" :: rest =>
    match ints? rest with
    | some [us, u, pu, l, hi, pl, ph] =>
      let n : Node := ⟨0, us ≠ 0, false, [u], [pu], [l], [hi], [pl], [ph], []⟩
      { a with out := a.out.push s!"cls {(classify n).code}" }
    | _ => fail
  | "dcfg" :: rest =>
    match nats? rest with
    | some [abn, norm] => { a with dcond := some ⟨abn, norm⟩, dds := [] }
    | _ => fail
  | "dmark" :: rest =>
    match nats? rest, a.dcond with
    | some [k], some c =>
      if k > 2 then fail else
      let node : Node := ⟨0, false, false, [], [], [], [], [], [], []⟩
      let (ret, ds) : List Node × Dets :=
        if k = 0 then filterRealAbnormal (some c) a.dds [node]
        else if k = 1 then ([], markNormAll (some c) a.dds [0])
        else ([], resetAll a.dds [0])
      let ds := observeDets (some c) ds
      let line := match Dets.get? ds 0 with
        | some d => s!"dst {ret.length} {b2i d.anomaly} {d.cAbn} {d.cNorm}"
        | none => s!"dst {ret.length} -1"
      { a with dds := ds, out := a.out.push line }
    | _, _ => fail
  | "wts" :: rest =>
    match ints? rest, a.dc with
    | some [w0, w1, w2], some dc =>
      if dc.wts.isSome || w0 < 0 || w1 < 0 || w2 < 0 then fail else
      { a with dc := some { dc with wts := some [w0, w1, w2] } }
    | _, _ => fail
  | "round" :: rest =>
    match ints? rest with
    | some [total, nf] => { a with total := total.toNat, nodeFit := nf ≠ 0, nodes := [], pods := [], metrics := [], orders := [] }
    | _ => fail
  | "node" :: rest =>
    match ints? rest with
    | some [id, us, nf, c0, c1, c2, rk, r0, r1, r2, s0, s1] =>
      if rk < 0 || rk > 2 then fail else
      let anno : RawAnno := if rk = 0 then .absent else if rk = 1 then .parsed ([r0, r1, r2].map fun v => if v < 0 then none else some v) else .unparsable
      { a with nodes := ⟨id.toNat, us ≠ 0, nf ≠ 0, [c0, c1, c2], anno, [s0, s1]⟩ :: a.nodes }
    | _ => fail
  | "pod" :: rest =>
    match ints? rest with
    | some [node, id, ns, name, prod, f1, f2, ok, cls, prio, dc, ec] =>
      if ns < 0 || name < 0 then fail else
      { a with pods := ⟨node.toNat, id.toNat, (ns.toNat, name.toNat), prod ≠ 0, f1 ≠ 0, f2 ≠ 0, ok ≠ 0,
                        cls, prio, dc, ec⟩ :: a.pods }
    | _ => fail
  | "metric" :: rest =>
    match ints? rest with
    | some [node, ns, name, m0, m1] =>
      if node < 0 || ns < 0 || name < 0 then fail else
      { a with metrics := ⟨node.toNat, ⟨(ns.toNat, name.toNat), [m0, m1]⟩⟩ :: a.metrics }
    | _ => fail
  | "order" :: rest =>
    match nats? rest with
    | some (n :: ps) => { a with orders := (n, ps) :: a.orders }
    | _ => fail
  | ["go"] =>
    match a.dc with
    | some dc => if dc.pcts.length = 3 && dc.wts.isSome then runRoundLines a dc else fail
    | none => fail
  | _ => fail

def runCase (lines : List String) : List String :=
  (lines.foldl step {}).out.toList

end KoordVerif.C18

def main : IO Unit := KoordVerif.Proto.mainWith KoordVerif.C18.runCase
