import KoordVerif.Common.Proto
import KoordVerif.Model.C18
import KoordVerif.Model.C18Usage
import KoordVerif.Model.C18Pools
/-
Driver for C18.  One case = one history of balance rounds on one node pool.
  cfg <abn> <norm> <numberOfNodes> <dryRun> <deviation>        abn = 0 ⇒ AnomalyCondition nil
  pct <dim> <low> <high> <plow> <phigh>    dim 0=cpu 1=memory 2=pods; quarter-percent, -1 = key absent
  round <total> <nodeFit>
  node <id> <unsched> <noFit> <alloc×3> <rawKind> <raw×3> <sysCpu> <sysMem>
        alloc = status.allocatable; rawKind 0 = no raw-allocatable annotation, 1 = parsed (raw×3,
        -1 = the annotation does not name the resource), 2 = unparsable
  wts <wCpu> <wMem> <wPods>      nodePool.ResourceWeights (a missing key weighs 0), once after the pct lines
  pod <node> <id> <ns> <name> <prod> <filt1> <filt2> <evictOK> <cls> <prio> <delCost> <evCost>
        cls = koordPriorityClassOrder rank (free 1, batch 2, mid 3, prod 4, none 5), prio = spec.priority or 0,
        delCost / evCost = parsed pod-deletion-cost / eviction-cost annotation (0 when absent or invalid)
  metric <node> <ns> <name> <cpu> <mem>       one NodeMetric.Status.PodsMetric entry, in list order
  order <node> <pod>*        observed processing order; the model SORTS nodes and pods itself and uses the
                             observed order only among elements with equal sort keys (Go's sorts are unstable)
  go
  dcfg <abn> <norm>   /  dmark <k>      detector-only cases (exhaustive stream): k = 0 filterRealAbnormalNodes
        on the one node, 1 tryMarkNodesAsNormal, 2 resetNodesAsNormal; output `dst <returned> <state…>` per mark
  cls1 <unsched> <usage> <prodUsage> <low> <high> <plow> <phigh>     classification-only cases (exhaustive
        stream, one resource): output `cls <code>`
Several node pools (harnesses `config` and `pools`):
  mtop <dry> <numberOfNodes> <nodeFit> <expirationSeconds> <deviation> <abn> <norm>
        the v1alpha2 LowNodeLoadArgs document as written by the user; -1 = field absent (abn = -1 ⇒ no
        anomalyCondition; abn / norm = 0 ⇒ the number is absent inside a present anomalyCondition)
  mnon <v>     numberOfNodes written as the (negative) value v
  mpool <idx> <name> <deviation> <abn> <norm>       the idx-th entry of nodePools (name ≥ 1)
  msel <pool> <n> (<key> <value>)*     nodeSelector.matchLabels of pool (-1 = top level); no line = nil selector
  mpct <pool> <kind> <n> (<dim> <quarter-percent>)*   kind 0 low 1 high 2 prodLow 3 prodHigh; no line = nil map
  mwts <pool> <n> (<dim> <weight>)*
  mconv        output: `ctop`, then per internal pool `cpool` / `csel` / `cpct` / `cwts`, then `cvalid`
  mp <goneMode>      start of a multi-pool history over the converted pools (goneMode 1: the evictor's filter
                     rejects a pod once it has been evicted successfully in this Balance call)
  nlab <id> <n> (<key> <value>)*       labels of EVERY node of the cluster (with or without usable metric)
  fnodes <np> <processed id>*np (-1 | <n> (<key> <value>)*)      filterNodes on the nodes given by the `nlab` lines
                     before it, for a nil (-1) or matchLabels selector; output `fn <node ids>` (exhaustive stream)
  porder <seg> <node> <pod>*           observed processing order inside the seg-th pool that had nodes
  mgo          one Balance call over all pools; output: per pool with nodes `seg <k> <node ids>` and its
               `evict` lines, then the `det` lines and `end`
Output per round: `use` (measured usage / prod usage, -1 = resource not in the map), `thr`/`cls` per node, `evict` per Evict call, `det` per cached detector, `end`.
The percent→quantity step `int64(float64(pct)*0.01*float64(cap))` and the deviation-mode averages
use Lean's runtime Float (IEEE binary64, as Go).
-/
namespace KoordVerif.C18
open KoordVerif.Proto

def quarter (q : Int) : Float := Float.ofInt q / 4.0

def optPct (q : Int) : Option Float := if q < 0 then none else some (quarter q)

/-- resourceThreshold: int64(float64(threshold) * 0.01 * float64(capacity)). -/
def resourceThreshold (pct : Float) (cap : Int) : Int :=
  (pct * 0.01 * Float.ofInt cap).toInt64.toInt

def normalizePct (p : Float) : Float :=
  if p > 100.0 then 100.0 else if p < 0.0 then 0.0 else p

/-- a node after getNodeUsage: `cap` is what the percentage formulas divide by. -/
structure RawNode where
  id : Nat
  unsched : Bool
  noFit : Bool
  cap : List Int      -- capacity used by getNodeThresholds
  capAvg : List Int   -- capacity used by calcAverageResourceUsagePercent
  usage : List Int
  prodUsage : List Int

/-- a node as it comes over the wire. -/
structure WireNode where
  id : Nat
  unsched : Bool
  noFit : Bool
  alloc : List Int
  anno : RawAnno
  sys : List Int

structure WirePod where
  node : Nat
  id : Nat
  key : Key
  prod : Bool
  filt1 : Bool
  filt2 : Bool
  evictOK : Bool
  cls : Int
  prio : Int
  delCost : Int
  evCost : Int

structure WireMetric where
  node : Nat
  entry : MetricEntry

structure RawPod where
  node : Nat
  pod : Pod   -- metric/fitMetric still over the three raw dims

/-- getNodeUsage for one node (cpu, memory from the NodeMetric; pods = number of assigned pods). -/
def measure (pods : List WirePod) (ms : List WireMetric) (n : WireNode) : RawNode :=
  let refs : List PodRef := (pods.filter (·.node = n.id)).map fun p => ⟨p.key, p.prod⟩
  let es : List MetricEntry := (ms.filter (·.node = n.id)).map (·.entry)
  { id := n.id, unsched := n.unsched, noFit := n.noFit,
    cap := capacityFor .thresholds n.alloc n.anno,
    capAvg := capacityFor .poolAverage n.alloc n.anno,
    usage := measuredUsage n.sys es ++ [podCount false refs],
    prodUsage := measuredProdUsage [0, 0] refs es ++ [podCount true refs] }

/-- the pod with what `podMetrics[NamespacedName]` holds for it. -/
def withMetric (ms : List WireMetric) (p : WirePod) : RawPod :=
  let es : List MetricEntry := (ms.filter (·.node = p.node)).map (·.entry)
  let m := podMetric? es p.key
  let v := m.getD [0, 0]
  ⟨p.node, { id := p.id, prod := p.prod, hasMetric := m.isSome, metric := v ++ [1], fitMetric := v ++ [0],
             filt1 := p.filt1, filt2 := p.filt2, evictOK := p.evictOK }⟩

/-- calcAverageResourceUsagePercent for one raw dim. -/
def avgPct (sel : RawNode → List Int) (d : Nat) (ns : List RawNode) : Float :=
  let s := ns.foldl (fun acc n =>
    let cap := n.capAvg.getD d 0
    if cap = 0 then acc else acc + Float.ofInt ((sel n).getD d 0) / Float.ofInt cap * 100.0) 0.0
  s / Float.ofNat ns.length

structure DimThr where
  low : Int
  high : Int
  plow : Int
  phigh : Int

/-- getNodeThresholds for one node and one raw dim. -/
def dimThr (dev : Bool) (e : PctEff Float) (avg pavg : Float) (cap : Int) : DimThr :=
  if dev then
    let (l, h) := if e.low == 0.0 then (cap, cap)
      else (resourceThreshold (normalizePct (avg - e.low)) cap, resourceThreshold (normalizePct (avg + e.high)) cap)
    let (pl, ph) := if e.plow == 0.0 then (cap, cap)
      else (resourceThreshold (normalizePct (pavg - e.plow)) cap, resourceThreshold (normalizePct (pavg + e.phigh)) cap)
    ⟨l, h, pl, ph⟩
  else
    ⟨resourceThreshold e.low cap, resourceThreshold e.high cap,
     resourceThreshold e.plow cap, resourceThreshold e.phigh cap⟩

def proj (dims : List Nat) (v : List Int) : List Int := dims.map (fun d => v.getD d 0)

structure DrvCfg where
  cfg : Cfg
  dev : Bool
  pcts : List (PctIn Float)   -- three entries
  wts : Option (List Int) := none   -- three entries

def trackedDims (pcts : List (PctIn Float)) : List Nat :=
  (List.range 3).filter fun d =>
    match pcts[d]? with
    | some p => tracked (d == 1) p
    | none => false

def buildNode (dc : DrvCfg) (dims : List Nat) (raw : List RawNode) (pods : List RawPod) (n : RawNode) : Node :=
  let dflt : Float := Float.ofInt (dfltPct dc.dev)
  let thr : List DimThr := (List.range 3).map fun d =>
    let e := newThresholds dflt 0.0 (dc.pcts.getD d ⟨none, none, none, none⟩)
    dimThr dc.dev e (avgPct (·.usage) d raw) (avgPct (·.prodUsage) d raw) (n.cap.getD d 0)
  let pick (f : DimThr → Int) : List Int := dims.map fun d => match thr[d]? with
    | some t => f t
    | none => 0
  { id := n.id, unsched := n.unsched, noFit := n.noFit,
    usage := proj dims n.usage, prodUsage := proj dims n.prodUsage,
    low := pick (·.low), high := pick (·.high), plow := pick (·.plow), phigh := pick (·.phigh),
    pods := (pods.filter (·.node = n.id)).map fun rp =>
      { rp.pod with metric := proj dims rp.pod.metric, fitMetric := proj dims rp.pod.fitMetric } }

def showDets (tag : Nat) (ds : Dets) : List String :=
  let sorted := ds.toArray.qsort (fun a b => a.1 < b.1) |>.toList
  sorted.map fun (k, d) => s!"det {tag} {k} {b2i d.anomaly} {d.cAbn} {d.cNorm}"

structure Acc where
  dc : Option DrvCfg := none
  pcts : List (Nat × PctIn Float) := []
  st : St := ⟨[], []⟩
  total : Nat := 0
  nodeFit : Bool := false
  nodes : List WireNode := []
  pods : List WirePod := []
  metrics : List WireMetric := []
  orders : List (Nat × List Nat) := []
  out : Array String := #[]
  bad : Bool := false
  dcond : Option Cond := none
  dds : Dets := []
  va : Option VArgs := none                       -- the v1alpha2 document being read
  multi : Option Bool := none                     -- multi-pool history started; the value is goneMode
  labels : List (Nat × Labels) := []              -- every node of the cluster, reversed
  porders : List (Nat × Nat × List Nat) := []     -- (segment, node, pods), reversed

/-- sortNodesByUsage: the usage map has the tracked resources and always `pods`; capacity per
    `CapUse.nodeScore`. -/
def nodeScoreOf (wts : List Int) (dims : List Nat) (w : WireNode) (use : List Int) : Int :=
  let cap := capacityFor .nodeScore w.alloc w.anno
  usageScore (((List.range 3).filter fun d => d == 2 || dims.contains d).map fun d =>
    (use.getD d 0, cap.getD d 0, wts.getD d 0))

/-- sorter.mostRequestedScorePod (float64). -/
def mostRequestedScorePod (req cap : Int) : Float :=
  if cap = 0 then 0.0 else
  let ratio := Float.ofInt req / Float.ofInt cap
  if ratio >= 1.0 then 1.0 / ratio + 1.0 else ratio

/-- sorter.ResourceUsageScorerPod on a pod metric (cpu, memory) against the amounts by which the node
    exceeds its thresholds (`exRaw`, 0 = resource not overused: weight 0, capacity 0). -/
def podUsageScore (wts : List Int) (exRaw : List Int) (m : List Int) : Float :=
  let w (d : Nat) : Int := if exRaw.getD d 0 > 0 then wts.getD d 0 else 0
  let sum := [0, 1].foldl (fun (acc : Float) d =>
    acc + mostRequestedScorePod (m.getD d 0) (exRaw.getD d 0) * Float.ofInt (w d)) 0.0
  let wsum := w 0 + w 1
  if wsum = 0 then 0.0 else sum / Float.ofInt wsum

/-- by how much a source node exceeds its (prod) high thresholds, per raw resource. -/
def exceedRaw (dims : List Nat) (n : Node) : List Int :=
  let (u, h) := if classify n = Cls.prodHigh then (n.prodUsage, n.phigh) else (n.usage, n.high)
  (List.range 3).map fun d => match dims.idxOf? d with
    | some i => let x := u.getD i 0 - h.getD i 0; if x > 0 then x else 0
    | none => 0

structure PoolRun where
  lines   : List String   -- use / thr / cls
  evs     : List Ev
  st      : St
  exit    : Nat
  sources : List Nat      -- processedNodes.Insert: the nodes classified `high` / `prodHigh`, once the pool has marked them

/-- processOneNodePool on the nodes / pods / metrics / orders held in `a`. -/
def runPool (a : Acc) (dc : DrvCfg) : PoolRun :=
  let dims := trackedDims dc.pcts
  let wpods := a.pods.reverse
  let wms := a.metrics.reverse
  let nodes := a.nodes.reverse.map (measure wpods wms)
  let pods := wpods.map (withMetric wms)
  let orders := a.orders.reverse
  let ns := nodes.map (buildNode dc dims nodes pods)
  let podOrd : Nat → List Nat := fun i => match orders.find? (·.1 = i) with
    | some (_, l) => l
    | none => []
  let wts := dc.wts.getD [0, 0, 0]
  let wnodes := a.nodes.reverse
  let scoreOf (sel : RawNode → List Int) (id : Nat) : Int :=
    match wnodes.find? (·.id = id), nodes.find? (·.id = id) with
    | some w, some n => nodeScoreOf wts dims w (sel n)
    | _, _ => 0
  -- pod sort keys: [class rank, priority, deletion cost, eviction cost, no metric, usage-score rank]
  let scored : List (Nat × Nat × Bool × Float) := pods.map fun rp =>
    let ex := match ns.find? (·.id = rp.node) with
      | some n => exceedRaw dims n
      | none => [0, 0, 0]
    (rp.node, rp.pod.id, rp.pod.hasMetric, podUsageScore wts ex rp.pod.metric)
  let podKey (id : Nat) : List Int :=
    match wpods.find? (·.id = id), scored.find? (·.2.1 = id) with
    | some wp, some (node, _, hm, sc) =>
      let rank := (scored.filter fun x => x.1 = node && x.2.2.1 && x.2.2.2 > sc).length
      [wp.cls, wp.prio, wp.delCost, wp.evCost, if hm then 0 else 1, if hm then (rank : Int) else 0]
    | _, _ => []
  let rin : RoundIn := ⟨a.total, a.nodeFit, dims.length, ns, orders.map (·.1), podOrd,
    scoreOf (·.usage), scoreOf (·.prodUsage), podKey⟩
  let ro := runRound dc.cfg a.st rin
  let st : St := ⟨observeDets dc.cfg.cond ro.st.nodeDet, observeDets dc.cfg.cond ro.st.prodDet⟩
  let useVec (v : List Int) : List Int := (List.range 3).map fun d =>
    if d == 2 || dims.contains d then v.getD d 0 else -1
  let lines : List String :=
    nodes.map (fun n => s!"use {n.id} {showInts (useVec n.usage ++ useVec n.prodUsage)}")
    ++ ns.map (fun n => s!"thr {n.id} {showInts (n.low ++ n.high ++ n.plow ++ n.phigh)}")
    ++ ns.map (fun n => s!"cls {n.id} {(classify n).code}")
  ⟨lines, ro.evs, st, ro.exit,
   if ro.exit = 1 || ro.exit = 2 then [] else (ofClass .high ns).map (·.id) ++ (ofClass .prodHigh ns).map (·.id)⟩

def evLine (e : Ev) : String := s!"evict {e.node} {e.pod} {b2i e.ok}"

def runRoundLines (a : Acc) (dc : DrvCfg) : Acc :=
  let r := runPool a dc
  let lines : List String :=
    r.lines ++ r.evs.map evLine
    ++ showDets 0 r.st.nodeDet ++ showDets 1 r.st.prodDet ++ ["end"]
  { a with st := r.st, nodes := [], pods := [], metrics := [], orders := [], out := a.out ++ lines.toArray }


/-! ### several node pools -/

def pairs? : List Int → Option (List (Nat × Int))
  | [] => some []
  | [_] => none
  | k :: v :: rest => if k < 0 then none else (pairs? rest).map ((k.toNat, v) :: ·)

/-- `<n> (<k> <v>)*` -/
def counted? (xs : List Int) : Option (List (Nat × Int)) :=
  match xs with
  | [] => none
  | n :: rest => match pairs? rest with
    | some ps => if (ps.length : Int) = n then some ps else none
    | none => none

def sortedMap (ps : List (Nat × Int)) : IMap := ps.foldl (fun m kv => IMap.set m kv.1 kv.2) []

def optB (v : Int) : Option Bool := if v < 0 then none else some (v ≠ 0)
def optI (v : Int) : Option Int := if v < 0 then none else some v
def optCond (abn norm : Int) : Option ACond := if abn < 0 then none else some ⟨abn.toNat, norm.toNat⟩

def showMap (m : IMap) : String :=
  showInts ((m.length : Int) :: m.foldr (fun kv acc => (kv.1 : Int) :: kv.2 :: acc) [])

def showLabels (l : Labels) : String :=
  showInts ((l.length : Int) :: l.foldr (fun kv acc => (kv.1 : Int) :: (kv.2 : Int) :: acc) [])

def convLines (va : VArgs) : List String :=
  let (dry, non, nf, exp) := convertTop va
  let pools := convertPools va
  let idx := List.range pools.length
  let poolLines (ip : Nat × CPool) : List String :=
    let (i, p) := ip
    let c := p.cond.getD ⟨0, 0⟩
    [s!"cpool {i} {p.name} {b2i p.dev} {if p.cond.isSome then (c.abn : Int) else -1} {if p.cond.isSome then (c.norm : Int) else -1}"]
    ++ (match p.sel with | some l => [s!"csel {i} {showLabels l}"] | none => [])
    ++ ([(0, p.low), (1, p.high), (2, p.plow), (3, p.phigh)].filterMap fun (km : Nat × Option IMap) =>
          km.2.map fun m => s!"cpct {i} {km.1} {showMap m}")
    ++ (match p.wts with | some m => [s!"cwts {i} {showMap m}"] | none => [])
  [s!"ctop {b2i dry} {non} {b2i nf} {exp}"] ++ (idx.zip pools).flatMap poolLines ++ [s!"cvalid {b2i (validArgs va)}"]

def poolCfg (va : VArgs) (p : CPool) : DrvCfg :=
  let (dry, non, _, _) := convertTop va
  let cond : Option Cond := p.cond.map fun c => ⟨c.abn, c.norm⟩
  let pct (m : Option IMap) (d : Nat) : Option Float := (m.bind (IMap.get · d)).map quarter
  { cfg := ⟨cond, non, dry⟩, dev := p.dev,
    pcts := (List.range 3).map fun d => ⟨pct p.low d, pct p.high d, pct p.plow d, pct p.phigh d⟩,
    wts := some ((List.range 3).map fun d => ((p.wts.getD []).get d).getD 0) }

structure BalAcc where
  st : St
  seg : Nat := 0
  gone : List Nat := []
  lines : Array String := #[]

/-- processOneNodePool as `balancePools` wants it: the evictor's filter rejects the pods that are gone. -/
def runPoolOn (a : Acc) (va : VArgs) (gone : Bool) (_i : Nat) (p : CPool) (ids : List Nat) (b : BalAcc) :
    PoolOut BalAcc Ev :=
  let pods := a.pods.map fun wp =>
    if b.gone.contains wp.id then { wp with filt1 := false, filt2 := false } else wp
  let orders := (a.porders.filter (·.1 = b.seg)).map fun x => (x.2.1, x.2.2)
  let a' := { a with st := b.st, total := ids.length, nodes := a.nodes.filter (fun n => ids.contains n.id),
                     pods := pods, orders := orders }
  let r := runPool a' (poolCfg va p)
  let evicted := (r.evs.filter (·.ok)).map (·.pod)
  let lines := #[s!"seg {b.seg} {showNats ids}"] ++ (r.evs.map evLine).toArray
  ⟨{ st := r.st, seg := b.seg + 1, gone := if gone then b.gone ++ evicted else b.gone, lines := b.lines ++ lines },
   r.evs, r.sources⟩

/-- LowNodeLoad.Balance over the converted pools. -/
def runBalance (a : Acc) (va : VArgs) (gone : Bool) : Acc :=
  let pools := convertPools va
  let (b, _) := balancePools (·.sel) (runPoolOn a va gone) a.labels.reverse 0 pools { st := a.st } []
  let cond : Option Cond := (topPool va).cond.map fun c => ⟨c.abn, c.norm⟩
  let st : St := ⟨observeDets cond b.st.nodeDet, observeDets cond b.st.prodDet⟩
  let lines := b.lines ++ (showDets 0 st.nodeDet ++ showDets 1 st.prodDet ++ ["end"]).toArray
  { a with st := st, nodes := [], pods := [], metrics := [], orders := [], porders := [], labels := [],
           out := a.out ++ lines }

def emptyVPool (name : Nat) (dev : Bool) (cond : Option ACond) : VPool :=
  ⟨name, none, dev, none, none, none, none, none, cond⟩

def setAt {α} (l : List α) (i : Nat) (f : α → α) : List α :=
  (List.range l.length).zip l |>.map fun (j, x) => if j = i then f x else x

def step (a : Acc) (line : String) : Acc :=
  if a.bad then a else
  let fail : Acc := { a with bad := true, out := a.out.push "bad-op" }
  match toks line with
  | "cfg" :: rest =>
    match ints? rest with
    | some [abn, norm, non, dry, dev] =>
      let cond := if abn ≤ 0 then none else some (⟨abn.toNat, norm.toNat⟩ : Cond)
      { a with dc := some { cfg := ⟨cond, non, dry ≠ 0⟩, dev := dev ≠ 0, pcts := [] } }
    | _ => fail
  | "pct" :: rest =>
    match ints? rest, a.dc with
    | some [d, l, h, pl, ph], some dc =>
      if d.toNat ≠ dc.pcts.length then fail else
      { a with dc := some { dc with pcts := dc.pcts ++ [⟨optPct l, optPct h, optPct pl, optPct ph⟩] } }
    | _, _ => fail
  | "cls1" :: rest =>
    match ints? rest with
    | some [us, u, pu, l, hi, pl, ph] =>
      let n : Node := ⟨0, us ≠ 0, false, [u], [pu], [l], [hi], [pl], [ph], []⟩
      { a with out := a.out.push s!"cls {(classify n).code}" }
    | _ => fail
  | "dcfg" :: rest =>
    match nats? rest with
    | some [abn, norm] => { a with dcond := some ⟨abn, norm⟩, dds := [] }
    | _ => fail
  | "dmark" :: rest =>
    match nats? rest, a.dcond with
    | some [k], some c =>
      if k > 2 then fail else
      let node : Node := ⟨0, false, false, [], [], [], [], [], [], []⟩
      let (ret, ds) : List Node × Dets :=
        if k = 0 then filterRealAbnormal (some c) a.dds [node]
        else if k = 1 then ([], markNormAll (some c) a.dds [0])
        else ([], resetAll a.dds [0])
      let ds := observeDets (some c) ds
      let line := match Dets.get? ds 0 with
        | some d => s!"dst {ret.length} {b2i d.anomaly} {d.cAbn} {d.cNorm}"
        | none => s!"dst {ret.length} -1"
      { a with dds := ds, out := a.out.push line }
    | _, _ => fail
  | "wts" :: rest =>
    match ints? rest, a.dc with
    | some [w0, w1, w2], some dc =>
      if dc.wts.isSome || w0 < 0 || w1 < 0 || w2 < 0 then fail else
      { a with dc := some { dc with wts := some [w0, w1, w2] } }
    | _, _ => fail
  | "mtop" :: rest =>
    match ints? rest with
    | some [dry, non, nf, exp, dev, abn, norm] =>
      { a with va := some ⟨optB dry, optI non, optB nf, optI exp, none, optB dev, none, none, none, none, none,
                           optCond abn norm, []⟩ }
    | _ => fail
  | "mnon" :: rest =>
    match ints? rest, a.va with
    | some [v], some va => { a with va := some { va with non := some v } }
    | _, _ => fail
  | "mpool" :: rest =>
    match ints? rest, a.va with
    | some [idx, name, dev, abn, norm], some va =>
      if idx.toNat ≠ va.pools.length || idx < 0 || name < 1 then fail else
      { a with va := some { va with pools := va.pools ++ [emptyVPool name.toNat (dev ≠ 0) (optCond abn norm)] } }
    | _, _ => fail
  | "msel" :: rest =>
    match ints? rest, a.va with
    | some (pool :: xs), some va =>
      match counted? xs with
      | some ps =>
        let l : Labels := ps.map fun kv => (kv.1, kv.2.toNat)
        if pool < 0 then { a with va := some { va with sel := some l } }
        else if pool.toNat < va.pools.length then
          { a with va := some { va with pools := setAt va.pools pool.toNat fun p => { p with sel := some l } } }
        else fail
      | none => fail
    | _, _ => fail
  | "mpct" :: rest =>
    match ints? rest, a.va with
    | some (pool :: kind :: xs), some va =>
      match counted? xs with
      | some ps =>
        let m := some (sortedMap ps)
        if kind < 0 || kind > 3 then fail
        else if pool < 0 then
          { a with va := some (if kind = 0 then { va with low := m } else if kind = 1 then { va with high := m }
                               else if kind = 2 then { va with plow := m } else { va with phigh := m }) }
        else if pool.toNat < va.pools.length then
          { a with va := some { va with pools := setAt va.pools pool.toNat fun p =>
              if kind = 0 then { p with low := m } else if kind = 1 then { p with high := m }
              else if kind = 2 then { p with plow := m } else { p with phigh := m } } }
        else fail
      | none => fail
    | _, _ => fail
  | "mwts" :: rest =>
    match ints? rest, a.va with
    | some (pool :: xs), some va =>
      match counted? xs with
      | some ps =>
        let m := some (sortedMap ps)
        if pool < 0 then { a with va := some { va with wts := m } }
        else if pool.toNat < va.pools.length then
          { a with va := some { va with pools := setAt va.pools pool.toNat fun p => { p with wts := m } } }
        else fail
      | none => fail
    | _, _ => fail
  | ["mconv"] =>
    match a.va with
    | some va => { a with out := a.out ++ (convLines va).toArray }
    | none => fail
  | "mp" :: rest =>
    match ints? rest, a.va with
    | some [g], some va => if validArgs va then { a with multi := some (g ≠ 0) } else fail
    | _, _ => fail
  | "nlab" :: rest =>
    match ints? rest with
    | some (id :: xs) =>
      match counted? xs with
      | some ps => if id < 0 then fail else { a with labels := (id.toNat, ps.map fun kv => (kv.1, kv.2.toNat)) :: a.labels }
      | none => fail
    | _ => fail
  | "fnodes" :: rest =>
    match ints? rest with
    | some (np :: xs) =>
      if np < 0 || xs.length < np.toNat + 1 then fail else
      let proc := (xs.take np.toNat).map Int.toNat
      let selToks := xs.drop np.toNat
      let sel : Option (Option Labels) :=
        if selToks = [-1] then some none
        else (counted? selToks).map fun ps => some (ps.map fun kv => (kv.1, kv.2.toNat))
      match sel with
      | some sl => { a with labels := [], out := a.out.push s!"fn {showNats (filterNodes sl a.labels.reverse proc)}" }
      | none => fail
    | _ => fail
  | "porder" :: rest =>
    match nats? rest with
    | some (sg :: n :: ps) => { a with porders := (sg, n, ps) :: a.porders }
    | _ => fail
  | ["mgo"] =>
    match a.va, a.multi with
    | some va, some g => runBalance a va g
    | _, _ => fail
  | "round" :: rest =>
    match ints? rest with
    | some [total, nf] => { a with total := total.toNat, nodeFit := nf ≠ 0, nodes := [], pods := [], metrics := [], orders := [] }
    | _ => fail
  | "node" :: rest =>
    match ints? rest with
    | some [id, us, nf, c0, c1, c2, rk, r0, r1, r2, s0, s1] =>
      if rk < 0 || rk > 2 then fail else
      let anno : RawAnno := if rk = 0 then .absent else if rk = 1 then .parsed ([r0, r1, r2].map fun v => if v < 0 then none else some v) else .unparsable
      { a with nodes := ⟨id.toNat, us ≠ 0, nf ≠ 0, [c0, c1, c2], anno, [s0, s1]⟩ :: a.nodes }
    | _ => fail
  | "pod" :: rest =>
    match ints? rest with
    | some [node, id, ns, name, prod, f1, f2, ok, cls, prio, dc, ec] =>
      if ns < 0 || name < 0 then fail else
      { a with pods := ⟨node.toNat, id.toNat, (ns.toNat, name.toNat), prod ≠ 0, f1 ≠ 0, f2 ≠ 0, ok ≠ 0,
                        cls, prio, dc, ec⟩ :: a.pods }
    | _ => fail
  | "metric" :: rest =>
    match ints? rest with
    | some [node, ns, name, m0, m1] =>
      if node < 0 || ns < 0 || name < 0 then fail else
      { a with metrics := ⟨node.toNat, ⟨(ns.toNat, name.toNat), [m0, m1]⟩⟩ :: a.metrics }
    | _ => fail
  | "order" :: rest =>
    match nats? rest with
    | some (n :: ps) => { a with orders := (n, ps) :: a.orders }
    | _ => fail
  | ["go"] =>
    match a.dc with
    | some dc => if dc.pcts.length = 3 && dc.wts.isSome then runRoundLines a dc else fail
    | none => fail
  | _ => fail

def runCase (lines : List String) : List String :=
  (lines.foldl step {}).out.toList

end KoordVerif.C18

def main : IO Unit := KoordVerif.Proto.mainWith KoordVerif.C18.runCase
