import KoordVerif.Common.Proto
import KoordVerif.Model.C04
/-
Driver for C04.  A case is one history on one PodGroupManager + fake framework handle.
  args   d                               the manager was built with CoschedulingArgs.DefaultMatchPolicy = d (0 only-waiting
                                         1 waiting-and-running 2 once-satisfied 3 ""); only before the first op; absent = 2
  pgadd  g min pol alias mode shape k g1..gk   onPodGroupAdd   (pol / alias: the match-policy annotation and its alias,
  pgupd  g min pol alias mode shape k g1..gk   onPodGroupUpdate 0..2 legal 3 absent 4 other string 5 ""; mode: 0 NonStrict
                                         1 Strict 2 absent 3 other string 4 "" 5 / 6 Strict / NonStrict in another letter
                                         case; shape of the groups annotation: 0 absent 1 "" 2 null 3 [] 4 JSON list
                                         g1..gk 5 not JSON; k = 0 unless shape 4)
  pgdel  g [shape]                       onPodGroupDelete   (shape: what the registered handler's OnDelete was given — 0 the
                                                             object, 1 a DeletedFinalStateUnknown by value, 2 a shape the
                                                             code ignores; absent = direct call with the object)
  podadd p g node 0 anno [minOK min pol alias mode shape k g1..gk]    onPodAdd    (anno=1: annotation way, config follows)
  podupd p g node term anno [...]        onPodUpdate (term=1: terminated pod)
  poddel p g [shape]                     onPodDelete        (shape as for pgdel)
  rsvadd p g req sched phase anno [...]  a Reservation that is a gang member, through the reservation -> pod adapter the
  rsvupd p g req sched phase anno [...]  manager registers (req: spec.template.spec.nodeName set; sched: status.nodeName
  rsvdel p g shape                       set; phase 0 active 1 succeeded 2 failed); the tail as for podadd
  permit p g | unres p g | postbind p g | postfilter p g
  nogang k p                             entry point k on a pod without gang name (k=0 Permit -> verdict 3)
  # ...                                  trace record of the concurrency stream (observed order of completed calls of two
                                         racing goroutines; not a deterministic input): no model step, no output
Output after every op: `out <verdict> a <n> pods.. r <n> pods..`, one `g …` line per cached gang
(sorted by id, sets sorted), `fw <n> (pod gang)..`.
-/
namespace KoordVerif.C04
open KoordVerif.Proto

def showSet (tag : String) (xs : List Nat) : String :=
  let ys := sortNat xs
  s!"{tag} {ys.length}" ++ String.join (ys.map fun y => s!" {y}")

def showGang (s : State) (g : Gang) : String :=
  s!"g {g.id} {b2i g.init} {g.min} {g.policy} {b2i g.strict} {b2i (infoSat s g.info)} "
    ++ showSet "grp" g.group ++ " " ++ showSet "ch" g.ps.children ++ " " ++ showSet "pe" g.ps.pending
    ++ " " ++ showSet "wa" g.ps.waiting ++ " " ++ showSet "bo" g.ps.bound

def insGang (g : Gang) : List Gang → List Gang
  | [] => [g]
  | h :: hs => if g.id ≤ h.id then g :: h :: hs else h :: insGang g hs

def insFw (e : Pod × GangId) : List (Pod × GangId) → List (Pod × GangId)
  | [] => [e]
  | h :: hs => if e.1 ≤ h.1 then e :: h :: hs else h :: insFw e hs

def dump (s : State) (o : Out) : List String :=
  let fw := s.fw.foldr insFw []
  [s!"out {o.verdict} " ++ showSet "a" o.allowed ++ " " ++ showSet "r" o.rejected]
    ++ (s.gangs.foldr insGang []).map (showGang s)
    ++ [s!"fw {fw.length}" ++ String.join (fw.map fun e => s!" {e.1} {e.2}")]

def parseCfg : List Int → Option Cfg
  | mn :: pol :: al :: mode :: shape :: k :: rest =>
    if rest.length = k.toNat ∧ 0 ≤ pol ∧ pol ≤ 5 ∧ 0 ≤ al ∧ al ≤ 5 ∧ 0 ≤ mode ∧ mode ≤ 6 ∧ 0 ≤ shape ∧ shape ≤ 5 ∧ 0 ≤ k
        ∧ (shape = 4 ∨ k = 0) ∧ rest.all (fun x => decide (0 ≤ x)) then
      some { min := mn, policy := pol.toNat, palias := al.toNat, mode := mode.toNat, group := rest.map Int.toNat,
             gshape := shape.toNat }
    else none
  | _ => none

def parsePod : List Int → Option Op
  | p :: g :: node :: term :: anno :: rest =>
    if p < 0 ∨ g < 0 then none else
    if term ≠ 0 then
      (if anno = 0 ∧ rest = [] then some .nop else
        match rest with
        | _ :: cfg => (parseCfg cfg).map fun _ => .nop
        | [] => none)
    else if anno = 0 then
      (if rest = [] then some (.podEvt p.toNat g.toNat (node ≠ 0) none) else none)
    else
      match rest with
      | minOK :: cfg => (parseCfg cfg).map fun c => .podEvt p.toNat g.toNat (node ≠ 0) (some (minOK ≠ 0, c))
      | [] => none
  | _ => none

/-- `rsvadd / rsvupd p g req sched phase anno [...]`: a Reservation event, turned into the pod event by the model's
    adapter (deliverRsv, the code's rule 0) -/
def parseRsv (upd : Bool) : List Int → Option Op
  | p :: g :: req :: sched :: phase :: rest =>
    if p < 0 ∨ g < 0 ∨ phase < 0 ∨ phase > 2 ∨ req < 0 ∨ req > 1 ∨ sched < 0 ∨ sched > 1 then none else
    -- parse the tail exactly as a pod event of a live pod would be parsed, then let the adapter decide
    match parsePod (p :: g :: 0 :: 0 :: rest) with
    | some (.podEvt _ _ _ anno) =>
      some (deliverRsv 0 upd { req := req ≠ 0, sched := sched ≠ 0, phase := phase.toNat } p.toNat g.toNat anno)
    | _ => none
  | _ => none

def parseOp (line : String) : Option Op :=
  match toks line with
  | kind :: rest =>
    match ints? rest with
    | none => none
    | some xs =>
      match kind, xs with
      | "pgadd", g :: cfg => if g < 0 then none else (parseCfg cfg).map fun c => .pgAdd g.toNat c
      | "pgupd", g :: cfg => if g < 0 then none else (parseCfg cfg).map fun c => .pgUpd g.toNat c
      | "pgdel", [g] => if g < 0 then none else some (.pgDel g.toNat)
      | "pgdel", [g, shape] => if g < 0 ∨ shape < 0 then none else some (deliverDel 0 shape.toNat (.pgDel g.toNat))
      | "podadd", p :: g :: node :: term :: r => if term ≠ 0 then none else parsePod (p :: g :: node :: term :: r)
      | "podupd", xs => parsePod xs
      | "poddel", [p, g] => if p < 0 ∨ g < 0 then none else some (.podDel p.toNat g.toNat)
      | "poddel", [p, g, shape] =>
        if p < 0 ∨ g < 0 ∨ shape < 0 then none else some (deliverDel 0 shape.toNat (.podDel p.toNat g.toNat))
      | "rsvadd", xs => parseRsv false xs
      | "rsvupd", xs => parseRsv true xs
      | "rsvdel", [p, g, shape] =>
        if p < 0 ∨ g < 0 ∨ shape < 0 then none else some (deliverDel 0 shape.toNat (.podDel p.toNat g.toNat))
      | "permit", [p, g] => if p < 0 ∨ g < 0 then none else some (.permit p.toNat g.toNat)
      | "unres", [p, g] => if p < 0 ∨ g < 0 then none else some (.unreserve p.toNat g.toNat)
      | "postbind", [p, g] => if p < 0 ∨ g < 0 then none else some (.postBind p.toNat g.toNat)
      | "postfilter", [p, g] => if p < 0 ∨ g < 0 then none else some (.postFilter p.toNat g.toNat)
      | _, _ => none
  | [] => none

def stepLine (st : State × List String) (line : String) : State × List String :=
  let (s, out) := st
  match toks line with
  | "#" :: _ => (s, out)
  | ["args", d] =>
    -- NewGangCache(args, …): only a manager that has seen nothing yet can be (re)built
    match d.toNat? with
    | some n => if s = init ∧ out = [] ∧ n ≤ 3 then (initWith n, out) else (s, out ++ ["bad-op"])
    | none => (s, out ++ ["bad-op"])
  | ["nogang", k, _] =>
    -- util.IsPodNeedGang(pod) = false: Permit answers PodGroupNotSpecified (3), the others return at once
    (s, out ++ dump s { verdict := if k = "0" then 3 else 9 })
  | _ =>
    match parseOp line with
    | none => (s, out ++ ["bad-op"])
    | some op =>
      let r := step s op
      (r.1, out ++ dump r.1 r.2)

def runCase (lines : List String) : List String := (lines.foldl stepLine (init, [])).2

end KoordVerif.C04

def main : IO Unit := KoordVerif.Proto.mainWith KoordVerif.C04.runCase
