import KoordVerif.Common.Proto
import KoordVerif.Model.C07
import KoordVerif.Model.C07Hist
import KoordVerif.Model.C07RO
import KoordVerif.Model.C07Shape
import KoordVerif.Model.C07Glue
import KoordVerif.Model.C07Fill
/-
Driver for C07.  One case = one history on one node; three device types (0 gpu, 1 rdma, 2 fpga),
three resource dimensions per type.  A resource list is 3 tokens, `_` = key absent.
  ref <n> (<type> <minor> q q q)*                         inventory refresh (all types)
  add|rem|remq <pod> <nt> (<type> <k> (<minor> q q q)*k)*   updateCacheUsed add / remove (remq: no dump)
  alloc <type> <mode> <desired> <npcie> q q q <nreq> m* <npref> m* <view> <result>
  auto  <type> q q q <nreq> m* <npref> m* <view>            (DefaultDeviceHandler split, then as alloc mode 0)
     <view>   ::= 0 | 1 <hasminors> <nm> m* <npre> (<minor> q q q)* <nrr> (<minor> q q q)*
     <result> ::= (mode 0: nothing) | (mode 1: <ok> <k> m*)      the implementation's own choice, to be checked
  upd <pod> <hasOld> <oldAssigned> <newAssigned> <newTerminated> <groups old> <groups new>   onPodUpdate / onPodAdd
  del <pod> <assigned> <groups>                                                          onPodDelete
     (the model's updatePodOps / deletePodOps decide which ledger ops happen, per device type)
  addq / refq / updq / delq: as add / ref / upd / del without output (exhaustive stream: one dump per history)
  xh <k> (<code> <a> <b> <c>)*k    exhaustive small-scope stream: a whole history on device type 1, dimension 0, ONE
     output line.  code 0: add pod a minor b amount c; 1: rem pod a minor b amount c; 2: refresh totals a b of minors 0 1;
     3: allocate (request b per device, desired 1, nil scorer) and commit the result for pod a.
     output: xh <t f u of minor 0> <t f u of minor 1> | (<k> (<minor> <amount>)*k for pod 1, pod 2) | <wf> <exact> <sched> | <chosen minor or -1 per alloc>
  shape <nvidia-gpu> <koord-gpu> <gpu-shared> <gpu-core> <gpu-memory> <gpu-memory-ratio>   (`_` = absent) preparePod's request shape:
     shape err | shape skip | shape <count> <shared> <core> <memory> <ratio> 0      (per device, `_` = absent)
  events harness (device type 0 only; <shape> ::= 0 typed object | 1 tombstone by value | 2 POINTER to a tombstone |
      3 tombstone holding another type | 4 nil | 5 object of another type — Model/C07RO.lean `Shape`):
  evadd <shape> <pod> <assigned> <terminated> <groups>                                   onPodAdd(obj)
  evupd <shapeOld> <shapeNew> <pod> <oldAssigned> <newAssigned> <newTerminated> <groups old> <groups new>   onPodUpdate
  evdel <shape> <pod> <assigned> <groups>                                                onPodDelete(obj)
  rvadd <shape> <rsv> <valid> <active> <assigned> <terminated> <groups>                  reservation handler OnAdd
  rvupd <shO> <shN> <rsv> (<valid> <active> <assigned> <terminated>)old (…)new <groups old> <groups new>   OnUpdate
  rvdel <shape> <rsv> <valid> <active> <assigned> <terminated> <groups>                  OnDelete
  evbad <kind 0 add | 1 update, new annotation bad | 2 update, old annotation bad | 3 delete> <pod>   the annotation is not JSON
  dvref <kind 0 add | 1 update | 2 delete> <shapeA> <shapeB> <n> (<type> <minor> q q q)*   Device informer event; the entries are
     the inventory the event installs IF it is decoded (delete: the invalidated one)
     (sevOps / revOps / devOps decide which ledger ops happen)
  READ-ONLY steps (the model threads the ledger through them; `readonly_steps_preserve_state`):
  robegin                                            a new scheduling cycle (fresh preFilterState)
  roany                                              a read-only step whose result is not modelled (Filter with a restore state)
  rorm <pod> <hasRsv> <rsv>    roadd <pod> <hasRsv> <rsv>      Plugin.RemovePod / AddPod (rsv: what the reservation cache names)
  rorst <nm> (<rsv> <k> owner*k)*nm <nu> (<rsv> <k> owner*k)*nu     PreRestoreReservation + RestoreReservation
  rofil <hasminors> <nm> m* <desired> q q q          Plugin.Filter of the preemptor (no restore state): verdict
     after every ro line: the full ledger again (d / p / x lines), then
       rorm / roadd:  q <k> (<minor> v v v)*   qr <rsv> <k> (<minor> v v v)*  (non-empty reservations, by id)
       rorst:         ra|rb|rc <0 matched | 1 unmatched> <rsv> <k> (…)*   allocatable / allocated / remained, in order;
                      rm <0 mergedMatchedAllocatable | 1 mergedMatchedAllocated | 2 mergedUnmatchedUsed> <k> (…)*
       rofil:         filter <0|1>
  EXTENSION 3 (Model/C07Glue.lean):
  evtx <kind 0 add | 1 update (resync) | 2 delete> <shape> <pod> <terminated> <nann>      a pod event whose object went through the
     informer's transformer (TransformPodFactory) first;  <nann> ::= <nt> (<type> <k> (<minor> l l l c c c)*k)*  the annotation
     BY NAME: per dimension the amount under the deprecated (l) and under the current (c) resource name.
     output: tx <nann after the transformer>, then the ledger.
  dvtx <kind> <shapeA> <shapeB> <n> (<type> <minor> l l l c c c)*      as dvref, the Device object's resource lists BY NAME
     (deprecated / current); the event passes TransformDevice first (transformInv)
  sel <i>                                            switch to node i (every op works on the current node; each node has its
     own ledger and history predicates); no output
  cyb <hasAnnotation> <hint> <k> (<minor> q q q)*k   PreFilter of a new cycle (device type 0): designation kept only with a hint
  cyf <nm> m* <desired> q q q                        Plugin.Filter on the current node: `filter <0|1>`
  cyr <nm> m* <desired> q q q <ok> <k> m*            Plugin.Reserve on the current node, with the implementation's choice: checked
     against the view cycView of the current node's ledger (as alloc mode 1); the commit follows as an `add` line
  EXTENSION 4 (Model/C07Glue.lean (c)):
  cyrst <nu> (<rsv> <k> owner*k)*nu                  PreRestoreReservation + RestoreReservation on the current node for the pod of
     the running cycle, which matches NONE of the node's reservations (matched = none): `ra|rb|rc 1 <rsv> …` per reservation
     that holds devices and `rm 2 …` (mergedUnmatchedUsed) as for rorst; the amounts stay with the node until the next cyb
     and are the preemptible amounts of the views cyf / cyr run on (cycViewR)
After ref/add/rem/upd/del: the ledger, value-based (missing = 0), only devices with a non-zero entry:
  d <type> <minor> <total>*3 <free>*3 <used>*3        p <type> <pod> <k> (<minor> v v v)*
then  x <wf> <exact> <sched>   the history predicates so far (histWFB / histExact / histSched of Model/C07Hist.lean, all types)
alloc/auto print the filtered view (`v <minor> …` lines) when a view is used, then
  alloc fail | alloc ok <k> m*   (mode 0: in selection order; mode 1: sorted, or `alloc inconsistent <code>`),
  after `alloc ok` with k > 0:  cov <0|1>  = chosenCovered (every chosen device exposes every requested key).
-/
namespace KoordVerif.C07
open KoordVerif.Proto

def dims : Nat := 3
def ntypes : Nat := 3

def insSorted (x : Nat) : List Nat → List Nat
  | [] => [x]
  | y :: ys => if x < y then x :: y :: ys else if x = y then y :: ys else y :: insSorted x ys

def sortU (l : List Nat) : List Nat := l.foldl (fun acc x => insSorted x acc) []

def qTok? (t : String) : Option Q :=
  if t = "_" then some none else (t.toInt?).map some

def showVals (r : RL) : String :=
  " ".intercalate ((List.range dims).map (fun k => toString (rlVal r k)))

/-- a small token-stream parser -/
abbrev P := StateT (List String) Option

def pTok : P String := do
  match (← get) with
  | [] => failure
  | t :: ts => set ts; pure t

def pNat : P Nat := do
  match (← pTok).toNat? with
  | some n => pure n
  | none => failure

def pQ : P Q := do
  match qTok? (← pTok) with
  | some q => pure q
  | none => failure

def pRep {α} (n : Nat) (p : P α) : P (List α) := (List.range n).mapM (fun _ => p)

def pRL : P RL := pRep dims pQ

def pNats : P (List Nat) := do let n ← pNat; pRep n pNat

def pEntry : P (Nat × RL) := do let m ← pNat; let r ← pRL; pure (m, r)

def pEntries : P (List (Nat × RL)) := do let n ← pNat; pRep n pEntry

def pEnd : P Unit := do
  match (← get) with
  | [] => pure ()
  | _ => failure

structure View where
  minors   : Option (List Nat)
  preempt  : DevRes
  required : DevRes

def mkMap (es : List (Nat × RL)) : DevRes := es.foldl (fun acc p => drSet acc p.1 p.2) []

def pView : P (Option View) := do
  let f ← pNat
  if f = 0 then pure none else
    let hm ← pNat
    let ms ← pNats
    let pre ← pEntries
    let rr ← pEntries
    pure (some { minors := if hm = 0 then none else some ms, preempt := mkMap pre, required := mkMap rr })

abbrev Node := List TState

def nodeGet (n : Node) (t : Nat) : TState := n.getD t TState.empty
def nodeSet (n : Node) (t : Nat) (s : TState) : Node := n.set t s

def dumpT (tag : String) (showType : Bool) (t : Nat) (s : TState) : List String :=
  let minors := sortU ((s.total.map (·.1)) ++ (s.free.map (·.1)) ++ (s.used.map (·.1)))
  minors.filterMap fun m =>
    let a := drGetD s.total m; let b := drGetD s.free m; let c := drGetD s.used m
    if (List.range dims).all (fun k => rlVal a k == 0 && rlVal b k == 0 && rlVal c k == 0) then none
    else
      let pre := if showType then s!"{tag} {t} {m}" else s!"{tag} {m}"
      some s!"{pre} {showVals a} {showVals b} {showVals c}"

def dumpPods (t : Nat) (s : TState) : List String :=
  (sortU (s.pods.map (·.1))).filterMap fun p =>
    (s.pods.find? (fun e => e.1 == p)).map fun e =>
      let ms := sortU (e.2.map (·.1))
      let body := ms.map (fun m => s!" {m} {showVals (drGetD e.2 m)}")
      s!"p {t} {p} {ms.length}" ++ String.join body

def dump (n : Node) : List String :=
  ((List.range ntypes).flatMap fun t => dumpT "d" true t (nodeGet n t)) ++
  ((List.range ntypes).flatMap fun t => dumpPods t (nodeGet n t))

/-- driver state: the node + the history predicates evaluated so far -/
structure DState where
  node  : Node
  wf    : Bool
  exact : Bool
  sched : Bool
  cyc   : Cycle := Cycle.empty   -- the running scheduling cycle of the events harness (device type 0)
  pst   : PState := { designated := none, result := none }   -- extension 3: allocation result / designation of the running cycle
  parked : List (Nat × Node × Bool × Bool × Bool) := []      -- extension 3: the other nodes (index, ledger, wf, exact, sched)
  cur   : Nat := 0
  rpre  : List (Nat × DevRes) := []   -- extension 4: node index → mergedUnmatchedUsed of the running cycle's restore state

/-- apply ledger ops to one device type, evaluating `opWFB` / `opExact` on the way -/
def applyOps (d : DState) (t : Nat) (ops : List Op) : DState :=
  if t ≥ ntypes then d else
  ops.foldl (fun d op =>
    let s := nodeGet d.node t
    { d with node := nodeSet d.node t (step s op), wf := d.wf && opWFB op, exact := d.exact && opExact s op,
             sched := d.sched && schedOK s op }) d

def applyAllocs (d : DState) (p : Nat) (add : Bool) (groups : List (Nat × List (Nat × RL))) : DState :=
  groups.foldl (fun d g => applyOps d g.1 [if add then Op.add p g.2 else Op.remove p g.2]) d

def groupGet (groups : List (Nat × List (Nat × RL))) (t : Nat) : Option (List (Nat × RL)) :=
  (groups.find? (fun g => g.1 == t)).map (·.2)

def flagLine (d : DState) : String :=
  s!"x {if d.wf then 1 else 0} {if d.exact then 1 else 0} {if d.sched then 1 else 0}"

def covLine (w : TState) (a : AllocReq) : Option (List Nat) → List String
  | some (m :: ms) => [s!"cov {if chosenCovered w a (m :: ms) then 1 else 0}"]
  | _ => []

def pGroups : P (List (Nat × List (Nat × RL))) := do
  let nt ← pNat
  pRep nt (do let t ← pNat; let es ← pEntries; pure (t, es))

def showAlloc (ordered : Bool) : Option (List Nat) → String
  | none => "alloc fail"
  | some ms =>
    let ms := if ordered then ms else sortU ms
    if ms.isEmpty then "alloc ok 0" else s!"alloc ok {ms.length} {showNats ms}"

/-- state the allocation runs on + the lines describing the view -/
def viewOf (s : TState) : Option View → TState × List String
  | none => (s, [])
  | some v =>
    let w := filterT s v.minors v.preempt v.required
    -- hypotheses of `view_free` (Props/C07.lean), evaluated on every generated view: calcFreeWithPreemptible yields
    -- a map with non-negative entries.  Printed only when violated (the implementation never prints it).
    let fd := calcFree s v.preempt v.required
    let hyp := nodupB (fd.map (·.1)) && amountsOK fd
    (w, dumpT "v" false 0 w ++ (if hyp then [] else ["viewhyp 0"]))


def shapeOf? : Nat → Option Shape
  | 0 => some .obj | 1 => some .tomb | 2 => some .ptrTomb | 3 => some .tombOther | 4 => some .nil | 5 => some .other
  | _ => none

def pShape : P Shape := do
  match shapeOf? (← pNat) with
  | some s => pure s
  | none => failure

def pBool : P Bool := do let n ← pNat; pure (n != 0)

def showDR (d : DevRes) : String :=
  let ms := sortU (d.map (·.1))
  s!"{ms.length}" ++ String.join (ms.map (fun m => s!" {m} {showVals (drGetD d m)}"))

def dryLines (d : Dry) : List String :=
  [s!"q {showDR d.pre}"] ++
  (sortU (d.inRR.map (·.1))).filterMap (fun r =>
    let x := rrGet d.inRR r
    if x.isEmpty then none else some s!"qr {r} {showDR x}")

def reusableLines (side : Nat) (l : List Reusable) : List String :=
  l.flatMap fun a => [s!"ra {side} {a.rsv} {showDR a.allocatable}", s!"rb {side} {a.rsv} {showDR a.allocated}",
                      s!"rc {side} {a.rsv} {showDR a.remained}"]

def restoredLines (r : Restored) : List String :=
  reusableLines 0 r.matched ++ reusableLines 1 r.unmatched ++
  [s!"rm 0 {showDR r.mergedMatchedAllocatable}", s!"rm 1 {showDR r.mergedMatchedAllocated}",
   s!"rm 2 {showDR r.mergedUnmatchedUsed}"]

def pRsvList : P (List (Nat × List Nat)) := do
  let n ← pNat
  pRep n (do let r ← pNat; let os ← pNats; pure (r, os))

/-- a read-only step on device type 0: the ledger is whatever `roStep` returns (it is the identity on it) -/
def applyRo (d : DState) (st : RoStep) : DState :=
  let (s', c') := roStep (nodeGet d.node 0, d.cyc) st
  { d with node := nodeSet d.node 0 s', cyc := c' }

def podObjOf (groups : List (Nat × List (Nat × RL))) (t : Nat) (assigned terminated : Bool) : PodObj :=
  { assigned := assigned, terminated := terminated, alloc := groupGet groups t }

/-- shaped events on every device type -/
def applyShaped (d : DState) (f : Nat → List Op) : DState :=
  (List.range ntypes).foldl (fun d t => applyOps d t (f t)) d

/-- switch to node `i`: park the current node with its history predicates, load node `i` (a node never seen: empty) -/
def selNode (d : DState) (i : Nat) : DState :=
  if i = d.cur then d else
  let parked := (d.parked.filter (fun e => e.1 != d.cur)) ++ [(d.cur, d.node, d.wf, d.exact, d.sched)]
  match parked.find? (fun e => e.1 == i) with
  | some (_, n, wf, ex, sc) => { d with node := n, wf := wf, exact := ex, sched := sc, parked := parked.filter (fun e => e.1 != i), cur := i }
  | none => { d with node := List.replicate ntypes TState.empty, wf := true, exact := true, sched := true, parked := parked, cur := i }

def pNEntry : P NEntry := do
  let m ← pNat
  let ls ← pRep dims pQ
  let cs ← pRep dims pQ
  pure (m, ls.zip cs)

def pNAnn : P NAnn := do
  let nt ← pNat
  pRep nt (do let t ← pNat; let k ← pNat; let es ← pRep k pNEntry; pure (t, es))

def showQ (q : Q) : String := match q with | none => "_" | some v => toString v

def showNAnn (a : NAnn) : String :=
  s!"{a.length}" ++ String.join (a.map (fun g =>
    s!" {g.1} {g.2.length}" ++ String.join (g.2.map (fun e =>
      s!" {e.1} " ++ " ".intercalate ((legRL e.2).map showQ) ++ " " ++ " ".intercalate ((curRL e.2).map showQ)))))

/-- the hypotheses of `view_free` on the designated view of the running cycle (printed only when violated) -/
def cycViewHyp (s : TState) (c : PState) (pre : DevRes := []) : List String :=
  match c.designated, pre.isEmpty with
  | none, true => []
  | des, _ =>
    let fd := calcFree s pre (des.getD [])
    if nodupB (fd.map (·.1)) && amountsOK fd then [] else ["viewhyp 0"]

/-- memoryBytesToRatio: `int64(float64(bytes) / float64(total) * 100)` (Lean Float = Go float64) -/
def b2rFloat (b tot : Int) : Int := (Float.ofInt b / Float.ofInt tot * 100.0).toInt64.toInt

def runLine (d : DState) (line : String) : DState × List String :=
  let n := d.node
  match toks line with
  | kind :: rest =>
    if kind = "ref" || kind = "refq" then
      match (do let es ← pNat >>= fun k => pRep k (do let t ← pNat; let e ← pEntry; pure (t, e)); pEnd; pure es).run' rest with
      | some es =>
        let d' := (List.range ntypes).foldl (fun d t =>
          applyOps d t [Op.refresh (mkMap ((es.filter (fun e => e.1 == t)).map (·.2)))]) d
        (d', if kind = "refq" then [] else dump d'.node ++ [flagLine d'])
      | none => (d, ["bad-op"])
    else if kind = "add" || kind = "rem" || kind = "remq" || kind = "addq" then
      match (do let p ← pNat; let g ← pGroups; pEnd; pure (p, g)).run' rest with
      | some (p, g) =>
        let d' := applyAllocs d p (kind = "add" || kind = "addq") g
        (d', if kind = "remq" || kind = "addq" then [] else dump d'.node ++ [flagLine d'])
      | none => (d, ["bad-op"])
    else if kind = "upd" || kind = "updq" then
      match (do
          let p ← pNat; let hasOld ← pNat; let oa ← pNat; let na ← pNat; let nterm ← pNat
          let go ← pGroups; let gn ← pGroups; pEnd
          pure (p, hasOld, oa, na, nterm, go, gn)).run' rest with
      | some (p, hasOld, oa, na, nterm, go, gn) =>
        let d' := (List.range ntypes).foldl (fun d t =>
          let old : Option PodObj :=
            if hasOld = 0 then none else some { assigned := oa != 0, terminated := false, alloc := groupGet go t }
          let new : PodObj := { assigned := na != 0, terminated := nterm != 0, alloc := groupGet gn t }
          applyOps d t (updatePodOps p old new)) d
        (d', if kind = "updq" then [] else dump d'.node ++ [flagLine d'])
      | none => (d, ["bad-op"])
    else if kind = "del" || kind = "delq" then
      match (do let p ← pNat; let a ← pNat; let g ← pGroups; pEnd; pure (p, a, g)).run' rest with
      | some (p, a, g) =>
        let d' := (List.range ntypes).foldl (fun d t =>
          applyOps d t (deletePodOps p { assigned := a != 0, terminated := false, alloc := groupGet g t })) d
        (d', if kind = "delq" then [] else dump d'.node ++ [flagLine d'])
      | none => (d, ["bad-op"])
    else if kind = "alloc" then
      match (do
          let t ← pNat; let mode ← pNat; let desired ← pNat; let npcie ← pNat; let req ← pRL
          let required ← pNats; let preferred ← pNats; let view ← pView
          let res ← (if mode = 0 then pure none else do
            let ok ← pNat; let ms ← pNats; pure (some (if ok = 0 then none else some ms)))
          pEnd
          pure (t, mode, ({ req, desired, npcie, required, preferred } : AllocReq), view, res)).run' rest with
      | some (t, mode, a, view, res) =>
        if t ≥ ntypes || mode > 1 then (d, ["bad-op"]) else
        let (w, vlines) := viewOf (nodeGet n t) view
        match res with
        | none => (d, vlines ++ [showAlloc true (allocate w a)] ++ covLine w a (allocate w a))
        | some r =>
          let code := checkResult w a r
          (d, vlines ++ (if code = 0 then [showAlloc false r] ++ covLine w a r else [s!"alloc inconsistent {code}"]))
      | none => (d, ["bad-op"])
    else if kind = "auto" then
      match (do
          let t ← pNat; let podReq ← pRL
          let required ← pNats; let preferred ← pNats; let view ← pView
          pEnd
          pure (t, podReq, required, preferred, view)).run' rest with
      | some (t, podReq, required, preferred, view) =>
        if t = 0 || t ≥ ntypes then (d, ["bad-op"]) else
        let s := nodeGet n t
        -- calcRequestsAndCountByDeviceType: zero request ⇒ type skipped ⇒ nothing allocated;
        -- handler: no device of the type at all ⇒ unschedulable
        if rlIsZero podReq || s.total.isEmpty then (d, ["alloc fail"]) else
        let (req, cnt) := handlerSplit podReq
        let a : AllocReq := { req, desired := cnt, npcie := 0, required, preferred }
        let (w, _) := viewOf s view
        (d, [showAlloc true (allocate w a)] ++ covLine w a (allocate w a))
      | none => (d, ["bad-op"])
    else if kind = "xh" then
      match (do
          let k ← pNat
          let ops ← pRep k (do let c ← pNat; let a ← pNat; let b ← pNat; let x ← pNat; pure (c, a, b, x))
          pEnd
          pure ops).run' rest with
      | some ops =>
        let t := 1
        let (d', allocs) := ops.foldl (fun (acc : DState × List String) o =>
          let (d, allocs) := acc
          let (c, a, b, x) := o
          if c = 0 then (applyOps d t [Op.add a [(b, [some (x : Int)])]], allocs)
          else if c = 1 then (applyOps d t [Op.remove a [(b, [some (x : Int)])]], allocs)
          else if c = 2 then (applyOps d t [Op.refresh (mkMap [(0, [some (a : Int)]), (1, [some (b : Int)])])], allocs)
          else
            let rq : AllocReq := { req := [some (b : Int)], desired := 1, npcie := 0, required := [], preferred := [] }
            match allocate (nodeGet d.node t) rq with
            | none => (d, allocs ++ ["-1"])
            | some ms => (applyOps d t [Op.add a (allocList rq ms)], allocs ++ ms.map toString)) (d, [])
        let s := nodeGet d'.node t
        let dev (m : Nat) : String := s!"{drVal s.total m 0} {drVal s.free m 0} {drVal s.used m 0}"
        let pod (p : Nat) : String :=
          match s.pods.find? (fun e => e.1 == p) with
          | none => "-"
          | some e =>
            let ms := sortU (e.2.map (·.1))
            s!"{ms.length}" ++ String.join (ms.map (fun m => s!" {m} {drVal e.2 m 0}"))
        (d', [s!"xh {dev 0} {dev 1} | {pod 1} {pod 2} | {if d'.wf then 1 else 0} {if d'.exact then 1 else 0} {if d'.sched then 1 else 0} | {" ".intercalate allocs}"])
      | none => (d, ["bad-op"])
    else if kind = "evadd" then
      match (do let sh ← pShape; let p ← pNat; let a ← pBool; let tm ← pBool; let g ← pGroups; pEnd; pure (sh, p, a, tm, g)).run' rest with
      | some (sh, p, a, tm, g) =>
        let d' := applyShaped d (fun t => sevOps (.podAdd sh p (podObjOf g t a tm)))
        (d', dump d'.node ++ [flagLine d'])
      | none => (d, ["bad-op"])
    else if kind = "evupd" then
      match (do
          let so ← pShape; let sn ← pShape; let p ← pNat; let oa ← pBool; let na ← pBool; let nt ← pBool
          let go ← pGroups; let gn ← pGroups; pEnd
          pure (so, sn, p, oa, na, nt, go, gn)).run' rest with
      | some (so, sn, p, oa, na, nt, go, gn) =>
        let d' := applyShaped d (fun t => sevOps (.podUpdate so sn p (podObjOf go t oa false) (podObjOf gn t na nt)))
        (d', dump d'.node ++ [flagLine d'])
      | none => (d, ["bad-op"])
    else if kind = "evdel" then
      match (do let sh ← pShape; let p ← pNat; let a ← pBool; let g ← pGroups; pEnd; pure (sh, p, a, g)).run' rest with
      | some (sh, p, a, g) =>
        let d' := applyShaped d (fun t => sevOps (.podDelete sh p (podObjOf g t a false)))
        (d', dump d'.node ++ [flagLine d'])
      | none => (d, ["bad-op"])
    else if kind = "evtx" then
      match (do let k ← pNat; let sh ← pShape; let p ← pNat; let tm ← pBool; let a ← pNAnn; pEnd; pure (k, sh, p, tm, a)).run' rest with
      | some (k, sh, p, tm, a) =>
        if k > 2 then (d, ["bad-op"]) else
        let d' := applyShaped d (fun t =>
          if k = 0 then sevOps (.podAdd sh p (txPodObj a t true tm))
          else if k = 1 then sevOps (.podUpdate sh sh p (txPodObj a t true false) (txPodObj a t true tm))
          else sevOps (.podDelete sh p (txPodObj a t true false)))
        (d', [s!"tx {showNAnn (transformPodAnn a)}"] ++ dump d'.node ++ [flagLine d'])
      | none => (d, ["bad-op"])
    else if kind = "sel" then
      match (do let i ← pNat; pEnd; pure i).run' rest with
      | some i => (selNode d i, [])
      | none => (d, ["bad-op"])
    else if kind = "cyb" then
      match (do let ha ← pBool; let hint ← pBool; let es ← pEntries; pEnd; pure (ha, hint, es)).run' rest with
      | some (ha, hint, es) => ({ d with pst := cycPreFilter (if ha then some (mkMap es) else none) hint, rpre := [] }, [])
      | none => (d, ["bad-op"])
    else if kind = "cyf" then
      match (do let ms ← pNats; let desired ← pNat; let req ← pRL; pEnd; pure (ms, desired, req)).run' rest with
      | some (ms, desired, req) =>
        let a : AllocReq := { req := req, desired := desired, npcie := 0, required := [], preferred := [] }
        let (c', v) := cycFilterR (nodeGet n 0) ms a d.pst (rrGet d.rpre d.cur)
        ({ d with pst := c' }, cycViewHyp (nodeGet n 0) d.pst (rrGet d.rpre d.cur) ++ [s!"filter {if v then 1 else 0}"])
      | none => (d, ["bad-op"])
    else if kind = "cyr" then
      match (do
          let ms ← pNats; let desired ← pNat; let req ← pRL
          let ok ← pNat; let res ← pNats; pEnd
          pure (ms, desired, req, (if ok = 0 then none else some res : Option (List Nat)))).run' rest with
      | some (ms, desired, req, res) =>
        let a : AllocReq := { req := req, desired := desired, npcie := 0, required := [], preferred := [] }
        -- Reserve: with no result in the cycle state (`filter_clears_trial_result`) the allocator runs on the view of the
        -- current node's ledger; a result that survived is committed as it is
        match d.pst.result with
        | none =>
          let w := cycViewR (nodeGet n 0) ms d.pst (rrGet d.rpre d.cur)
          let code := checkResult w a res
          ({ d with pst := { d.pst with result := res } },
            cycViewHyp (nodeGet n 0) d.pst (rrGet d.rpre d.cur) ++
            (if code = 0 then [showAlloc false res] ++ covLine w a res else [s!"alloc inconsistent {code}"]))
        | some stale => (d, [showAlloc false (some stale)])
      | none => (d, ["bad-op"])
    else if kind = "cyrst" then
      match (do let u ← pRsvList; pEnd; pure u).run' rest with
      | some u =>
        let (_, r) := restore (nodeGet n 0) [] u
        ({ d with rpre := rrSet d.rpre d.cur r.mergedUnmatchedUsed },
          reusableLines 1 r.unmatched ++ [s!"rm 2 {showDR r.mergedUnmatchedUsed}"] ++
          -- hypotheses of `unmatched_discount_val` / `unmatched_reservation_remainder_not_free`, evaluated on every
          -- reservation of every generated restore state; printed only when violated (the implementation never prints it)
          (if r.unmatched.all rsvOK then [] else ["rsvhyp 0"]))
      | none => (d, ["bad-op"])
    else if kind = "rvadd" || kind = "rvdel" then
      match (do
          let sh ← pShape; let p ← pNat; let v ← pBool; let ac ← pBool; let a ← pBool; let tm ← pBool
          let g ← pGroups; pEnd
          pure (sh, p, v, ac, a, tm, g)).run' rest with
      | some (sh, p, v, ac, a, tm, g) =>
        let d' := applyShaped d (fun t =>
          let r : RsvObj := { valid := v, active := ac, pod := podObjOf g t a tm }
          revOps (if kind = "rvadd" then .rsvAdd sh p r else .rsvDelete sh p r))
        (d', dump d'.node ++ [flagLine d'])
      | none => (d, ["bad-op"])
    else if kind = "rvupd" then
      match (do
          let so ← pShape; let sn ← pShape; let p ← pNat
          let ov ← pBool; let oac ← pBool; let oa ← pBool; let ot ← pBool
          let nv ← pBool; let nac ← pBool; let na ← pBool; let nt ← pBool
          let go ← pGroups; let gn ← pGroups; pEnd
          pure (so, sn, p, (ov, oac, oa, ot), (nv, nac, na, nt), go, gn)).run' rest with
      | some (so, sn, p, (ov, oac, oa, ot), (nv, nac, na, nt), go, gn) =>
        let d' := applyShaped d (fun t =>
          revOps (.rsvUpdate so sn p { valid := ov, active := oac, pod := podObjOf go t oa ot }
                                     { valid := nv, active := nac, pod := podObjOf gn t na nt }))
        (d', dump d'.node ++ [flagLine d'])
      | none => (d, ["bad-op"])
    else if kind = "shape" then
      let optTok (t : String) : Option (Option Nat) := if t = "_" then some none else (t.toNat?).map some
      match rest.mapM optTok with
      | some [nv, kg, sh, co, me, ra] =>
        let showO (o : Option Nat) : String := match o with | some v => toString v | none => "_"
        match podShape { nv := nv, kg := kg, sh := sh, co := co, me := me, ra := ra } with
        | .skip => (d, ["shape skip"])
        | .err => (d, ["shape err"])
        | .ok g => (d, [s!"shape {g.count} {if g.shared then 1 else 0} {showO g.co} {showO g.me} {showO g.ra} 0"])
      | _ => (d, ["bad-op"])
    else if kind = "evbad" then
      match (do let k ← pNat; let p ← pNat; pEnd; pure (k, p)).run' rest with
      | some (_, p) =>
        let d' := applyShaped d (fun _ => sevOps (.unparsable p))
        (d', dump d'.node ++ [flagLine d'])
      | none => (d, ["bad-op"])
    else if kind = "dvref" then
      match (do
          let k ← pNat; let sa ← pShape; let sb ← pShape
          let es ← pNat >>= fun n => pRep n (do let t ← pNat; let e ← pEntry; pure (t, e))
          pEnd
          pure (k, sa, sb, es)).run' rest with
      | some (k, sa, sb, es) =>
        if k > 2 then (d, ["bad-op"]) else
        let d' := applyShaped d (fun t =>
          let nt := mkMap ((es.filter (fun e => e.1 == t)).map (·.2))
          devOps (if k = 0 then .devAdd sa nt else if k = 1 then .devUpdate sa sb nt else .devDelete sa nt))
        (d', dump d'.node ++ [flagLine d'])
      | none => (d, ["bad-op"])
    else if kind = "dvtx" then
      match (do
          let k ← pNat; let sa ← pShape; let sb ← pShape
          let es ← pNat >>= fun n => pRep n (do let t ← pNat; let e ← pNEntry; pure (t, e))
          pEnd
          pure (k, sa, sb, es)).run' rest with
      | some (k, sa, sb, es) =>
        if k > 2 then (d, ["bad-op"]) else
        let d' := applyShaped d (fun t =>
          let nt := mkMap (invCur (transformInv ((es.filter (fun e => e.1 == t)).map (·.2))))
          devOps (if k = 0 then .devAdd sa nt else if k = 1 then .devUpdate sa sb nt else .devDelete sa nt))
        (d', dump d'.node ++ [flagLine d'])
      | none => (d, ["bad-op"])
    else if kind = "robegin" then
      if rest.isEmpty then
        let d' := { d with cyc := Cycle.empty }
        (d', dump d'.node ++ [flagLine d'])
      else (d, ["bad-op"])
    else if kind = "roany" then
      if rest.isEmpty then
        let d' := applyRo d .unmodelled
        (d', dump d'.node ++ [flagLine d'])
      else (d, ["bad-op"])
    else if kind = "rorm" || kind = "roadd" then
      match (do let p ← pNat; let hr ← pBool; let r ← pNat; pEnd; pure (p, hr, r)).run' rest with
      | some (p, hr, r) =>
        let rsv := if hr then some r else none
        let d' := applyRo d (if kind = "rorm" then .removePod p rsv else .addPod p rsv)
        (d', dump d'.node ++ [flagLine d'] ++ dryLines d'.cyc.dry)
      | none => (d, ["bad-op"])
    else if kind = "rorst" then
      match (do let m ← pRsvList; let u ← pRsvList; pEnd; pure (m, u)).run' rest with
      | some (m, u) =>
        let d' := applyRo d (.restore m u)
        (d', dump d'.node ++ [flagLine d'] ++ (match d'.cyc.restored with | some r => restoredLines r | none => []))
      | none => (d, ["bad-op"])
    else if kind = "fill" then
      -- extension 6: fillGPUTotalMem on the allocator's answer `ms` x per-GPU request, on the GPU ledger of this moment
      match (do let ms ← pNats; let req ← pRL; pEnd; pure (ms, req)).run' rest with
      | some (ms, req) =>
        let s := nodeGet n 0
        match fillGPU b2rFloat s.total (ms.map (fun m => (m, req))) with
        | none => (d, ["fill err"])
        | some out => (d, [s!"fill {out.length}" ++ String.join (out.map (fun e => s!" {e.1} " ++ " ".intercalate ((List.range dims).map (fun k => showQ (rlAt e.2 k)))))])
      | none => (d, ["bad-op"])
    else if kind = "rofil" then
      match (do let hm ← pBool; let ms ← pNats; let desired ← pNat; let req ← pRL; pEnd; pure (hm, ms, desired, req)).run' rest with
      | some (hm, ms, desired, req) =>
        let a : AllocReq := { req := req, desired := desired, npcie := 0, required := [], preferred := [] }
        let d' := applyRo d (.filter (if hm then some ms else none) a)
        let v := d'.cyc.verdicts.getLast?.getD false
        (d', dump d'.node ++ [flagLine d'] ++ [s!"filter {if v then 1 else 0}"])
      | none => (d, ["bad-op"])
    else (d, ["bad-op"])
  | [] => (d, ["bad-op"])

def runLines : DState → List String → List String
  | _, [] => []
  | d, l :: ls =>
    let (d', out) := runLine d l
    out ++ runLines d' ls

def runCase (lines : List String) : List String :=
  runLines { node := List.replicate ntypes TState.empty, wf := true, exact := true, sched := true } lines

end KoordVerif.C07

def main : IO Unit := KoordVerif.Proto.mainWith KoordVerif.C07.runCase
