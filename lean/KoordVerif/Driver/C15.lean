import KoordVerif.Common.Proto
import KoordVerif.Model.C15
import KoordVerif.Model.C15Inf
import KoordVerif.Model.C15Race
/-
Driver for C15.  One case = one history.  Op lines (integer tokens, `_` = resource key absent / no label):
  add <name> <parentCode> <isParentCode> <tree> <forceCode> <rootCode> <swShape> <listErr>
      <npods> (<nsKind> <ns> <label|_>)*  <nsShape> <nns> <ns>*  <mnNil> <mxNil> <min>*3 <max>*3
  upd  (same layout)
  madd (same layout; the create passes fillQuotaDefaultInformation first)
  del <name> <listErr> <npods> (<nsKind> <ns> <label|_>)*
The codes are RAW shapes of the object (Model: `Raw`, `decodeQI`, `decodeOp`): parentCode 98 = label absent,
99 = label "", else a name; boolean labels 0 "false" / 1 "true" / 2 absent / 3 other string; swShape 0 absent /
1 negative / 2 malformed / 3 non-negative / 4 ""; nsShape 0 canonical / 1 other spelling / 2 malformed.
  compact                 (from here on: one observation line per request, parts joined by " | ")
  try <add|upd|del ...>   (evaluate on the current state, print, do NOT commit)
  echo <0|1>              (1: from here on the informer event of every ADMITTED request is delivered to the handlers
                           OnQuotaAdd / OnQuotaUpdate / OnQuotaDelete of the admitting replica right after the admission;
                           Model/C15Inf.lean `stepEcho`)
  two                     (two webhook replicas behind one API server, Model/C15Inf.lean `Sys` / `sysStep` with the
                           unfiltered handler registration; after every request: `res`, `rep0` + dump, `rep1` + dump;
                           `compact` and `try` work here too)
  rep <0|1>               (two-replica mode: the replica that handles the following requests)
  racedel <name> <listErr> <npods> (...)*   followed by ONE more line = the concurrent activity:
      add / upd / del (layouts above) or `evadd` (layout of add: informer OnQuotaAdd of that object).
      One-replica mode only.  The delete's pod List launches the other request (Model/C15Race.lean: `raceExec .atomic`
      with `harnessSched`); prints `res <delete>`, `overlap <0|1>` when the delete reached its pod list (1 = the other
      request ran while the list was in flight), `res <other>` (`ev` for an informer event), then the dump.
After every op: `res <0|1>`, then the recorded topology:
  `q <name> <parent> <isParent> <tree> <force> <treeRoot> <min>*3 <max>*3` (by name),
  `h <key> <child>*` (by key, children sorted), `n <ns> <quota>` (by ns).
Dimensions are fixed to d = 3 (cpu, memory, gpu).  Name 99 = the empty parent name "" (only the root-named object
can carry it); a create of the root-named object (name 0) runs the model like any other create.
-/
namespace KoordVerif.C15
open KoordVerif.Proto

def dims : Nat := 3

def insSorted (x : Nat) : List Nat → List Nat
  | [] => [x]
  | y :: ys => if x < y then x :: y :: ys else if x = y then y :: ys else y :: insSorted x ys

/-- sorted, duplicate-free -/
def sortU (l : List Nat) : List Nat := l.foldl (fun acc x => insSorted x acc) []

def optTok? (t : String) : Option (Option Int) :=
  if t = "_" then some none else (t.toInt?).map some

def showOpt : Option Int → String
  | none => "_"
  | some v => toString v

def showRL (r : RL) : String := " ".intercalate ((List.range dims).map (fun k => showOpt (r.get k)))

/-- `<npods> (<nsKind> <ns> <label|_>)*` followed by the rest -/
def parsePods (ts : List String) : Option (List Pod × List String) := do
  match ts with
  | n :: rest =>
    let n ← nat? n
    if rest.length < 3 * n then none else
    let rec go : Nat → List String → Option (List Pod)
      | 0, _ => some []
      | k+1, a :: b :: c :: more => do
        let a ← nat? a; let b ← nat? b
        let l ← if c = "_" then some none else (nat? c).map some
        let ps ← go k more
        some ({ nsKind := a, ns := b, label := l } :: ps)
      | _, _ => none
    let ps ← go n rest
    some (ps, rest.drop (3 * n))
  | _ => none

def parseReq (ts : List String) : Option (Raw × Bool × List Pod) := do
  match ts with
  | nm :: pa :: ip :: tr :: fo :: rt :: sw :: le :: rest =>
    let nm ← nat? nm; let pa ← nat? pa; let ip ← nat? ip; let tr ← nat? tr
    let fo ← nat? fo; let rt ← nat? rt; let sw ← nat? sw; let le ← nat? le
    let (pods, rest) ← parsePods rest
    match rest with
    | sh :: nn :: rest =>
      let sh ← nat? sh; let nn ← nat? nn
      if rest.length ≠ nn + 2 + 2 * dims then none else
      let ns ← nats? (rest.take nn)
      let rest := rest.drop nn
      match rest with
      | a :: b :: vals =>
        let a ← nat? a; let b ← nat? b
        let vals ← vals.mapM optTok?
        some ({ name := nm, parentCode := pa, isParentCode := ip, tree := tr, forceCode := fo, rootCode := rt,
                swShape := sw, nsShape := sh, nsList := ns, mnNil := a ≠ 0, mxNil := b ≠ 0,
                mn := vals.take dims, mx := vals.drop dims }, le ≠ 0, pods)
      | _ => none
    | _ => none
  | _ => none

def parseToks (ts : List String) : Option RawOp :=
  match ts with
  | "add" :: rest =>
    match parseReq rest with
    | some (r, _, _) => some (.add r)
    | none => none
  | "madd" :: rest =>
    match parseReq rest with
    | some (r, _, _) => some (.madd r)
    | none => none
  | "upd" :: rest =>
    match parseReq rest with
    | some (r, le, pods) => some (.upd r le pods)
    | none => none
  | "del" :: n :: le :: rest =>
    match nat? n, nat? le, parsePods rest with
    | some n, some le, some (pods, []) => some (.del n (le ≠ 0) pods)
    | _, _, _ => none
  | _ => none

def parseOp (line : String) : Option RawOp := parseToks (toks line)

def dump (s : Topo) : List String :=
  let names := sortU (s.info.map (·.name))
  let qs := names.filterMap (fun n => (find s.info n).map fun q =>
    s!"q {q.name} {q.parent} {b2i q.isParent} {q.tree} {b2i q.force} {b2i q.treeRoot} {showRL q.mn} {showRL q.mx}")
  let hs := (sortU s.hkeys).map (fun k =>
    let cs := sortU ((s.kids.filter (fun e => e.1 == k)).map (·.2))
    if cs.isEmpty then s!"h {k}" else s!"h {k} {showNats cs}")
  let nsKeys := sortU (s.nsMap.map (·.1))
  let nl := nsKeys.filterMap (fun n => (nsGet s.nsMap n).map fun q => s!"n {n} {q}")
  qs ++ hs ++ nl

/-- one executed request: verdict line + dump; `compact` = everything on one line (exhaustive stream). -/
def showRes (compact : Bool) (r : Topo × Bool) : List String :=
  let ls := s!"res {b2i r.2}" :: dump r.1
  if compact then [" | ".intercalate ls] else ls

/-- driver state: one replica `s` (with or without informer echo) or the two-replica system `sys`. -/
structure DS where
  s : Topo := init
  compact : Bool := false
  echo : Bool := false
  two : Bool := false
  sys : Sys := sysInit
  rep : Bool := false

/-- one raw request on one replica, with the informer echo when switched on. -/
def stepRawE (echo : Bool) (s : Topo) (r : RawOp) : Topo × Bool :=
  if echo then stepRawEcho dims s r else stepRaw dims s r

/-- one raw request handled by replica `rep` of the two-replica system (handlers registered unfiltered). -/
def sysStepRaw (σ : Sys) (rep : Bool) (r : RawOp) : Sys × Bool :=
  match decodeOp2 (if rep then σ.b else σ.a) σ.api r with
  | none => (σ, false)
  | some op => sysStep dims (fun _ => true) σ rep op

def showSys (compact : Bool) (r : Sys × Bool) : List String :=
  let ls := s!"res {b2i r.2}" :: "rep0" :: dump r.1.a ++ "rep1" :: dump r.1.b
  if compact then [" | ".intercalate ls] else ls

/-- `compact` switches to one-line dumps; `try <request>` evaluates a request on the current state
    WITHOUT committing it (the harness rebuilds the real topology from the committed prefix). -/
def parseOther (ts : List String) : Option Other :=
  match ts with
  | "evadd" :: rest =>
    match parseReq rest with
    | some (r, _, _) => some (.ev (.add (decodeQI r)))
    | none => none
  | ts => (parseToks ts).map .req

/-- the race step as the harness forces it (the code's lock shape: one section from the check to the removal). -/
def showRace (s : Topo) (n : Nat) (lp : Bool) (o : Other) : Topo × List String :=
  let run := raceExec dims .atomic n lp o
  let c1 := run { s := s } (harnessSched.take 2)
  let c2 := run c1 ((harnessSched.drop 2).take 1)
  let c3 := run c2 (harnessSched.drop 3)
  let ov := if c1.pc == 2 then [s!"overlap {b2i c2.ores.isSome}"] else []
  let ot := match o with
    | .ev _ => "ev"
    | .req _ => s!"res {b2i (c3.ores.getD false)}"
  (c3.s, [s!"res {b2i (c3.dres.getD false)}"] ++ ov ++ [ot] ++ dump c3.s)

def runLines : DS → List String → List String
  | _, [] => []
  | st, l :: ls =>
    match toks l with
    | "racedel" :: n :: le :: rest =>
      match ls with
      | [] => ["bad-op"]
      | l2 :: ls2 =>
        match nat? n, nat? le, parsePods rest, parseOther (toks l2) with
        | some n, some le, some (pods, []), some o =>
          if st.two then "bad-op" :: runLines st ls2 else
          let r := showRace st.s n (le ≠ 0 || labelPods pods n) o
          r.2 ++ runLines { st with s := r.1 } ls2
        | _, _, _, _ => "bad-op" :: runLines st ls2
    | ["compact"] => runLines { st with compact := true } ls
    | ["echo", v] => runLines { st with echo := v != "0" } ls
    | ["two"] => runLines { st with two := true } ls
    | ["rep", v] => runLines { st with rep := v != "0" } ls
    -- round 8: generated inputs the anchored code does not read (feature gate SupportParentQuotaSubmitPod; phase and
    -- node binding of the environment's pods: "a quota with pods") — recorded for the replay, no input of the model
    | ["gate", _] => runLines st ls
    | "podattrs" :: _ => runLines st ls
    | "try" :: rest =>
      match parseToks rest with
      | none => "bad-op" :: runLines st ls
      | some op =>
        if st.two then showSys st.compact (sysStepRaw st.sys st.rep op) ++ runLines st ls
        else showRes st.compact (stepRawE st.echo st.s op) ++ runLines st ls
    | ts =>
      match parseToks ts with
      | none => "bad-op" :: runLines st ls
      | some op =>
        if st.two then
          let r := sysStepRaw st.sys st.rep op
          showSys st.compact r ++ runLines { st with sys := r.1 } ls
        else
          let r := stepRawE st.echo st.s op
          showRes st.compact r ++ runLines { st with s := r.1 } ls

def runCase (lines : List String) : List String := runLines {} lines

end KoordVerif.C15

def main : IO Unit := KoordVerif.Proto.mainWith KoordVerif.C15.runCase
