import KoordVerif.Common.Proto
import KoordVerif.Model.C15
/-
Driver for C15.  One case = one history.  Op lines (integer tokens, `_` = resource key absent):
  add <name> <parent> <isParent> <tree> <force> <treeRoot> <swNeg> <hasPods> <nns> <ns>* <min>*3 <max>*3
  upd  (same layout)
  del <name> <labelPods>
  compact                 (from here on: one observation line per request, parts joined by " | ")
  try <add|upd|del ...>   (evaluate on the current state, print, do NOT commit)
After every op: `res <0|1>`, then the recorded topology:
  `q <name> <parent> <isParent> <tree> <force> <treeRoot> <min>*3 <max>*3` (by name),
  `h <key> <child>*` (by key, children sorted), `n <ns> <quota>` (by ns).
Dimensions are fixed to d = 3 (cpu, memory, gpu).  Name 99 = the empty parent name "" (only the root-named object
can carry it); a create of the root-named object (name 0) runs the model like any other create.
-/
namespace KoordVerif.C15
open KoordVerif.Proto

def dims : Nat := 3

def insSorted (x : Nat) : List Nat → List Nat
  | [] => [x]
  | y :: ys => if x < y then x :: y :: ys else if x = y then y :: ys else y :: insSorted x ys

/-- sorted, duplicate-free -/
def sortU (l : List Nat) : List Nat := l.foldl (fun acc x => insSorted x acc) []

def optTok? (t : String) : Option (Option Int) :=
  if t = "_" then some none else (t.toInt?).map some

def showOpt : Option Int → String
  | none => "_"
  | some v => toString v

def showRL (r : RL) : String := " ".intercalate ((List.range dims).map (fun k => showOpt (r.get k)))

def parseReq (ts : List String) : Option (QI × Bool × Bool) := do
  match ts with
  | nm :: pa :: ip :: tr :: fo :: rt :: sw :: hp :: nn :: rest =>
    let nm ← nat? nm; let pa ← nat? pa; let ip ← nat? ip; let tr ← nat? tr
    let fo ← nat? fo; let rt ← nat? rt; let sw ← nat? sw; let hp ← nat? hp; let nn ← nat? nn
    if rest.length ≠ nn + 2 * dims then none else
    let ns ← nats? (rest.take nn)
    let vals ← (rest.drop nn).mapM optTok?
    some ({ name := nm, parent := pa, isParent := ip ≠ 0, tree := tr, force := fo ≠ 0, treeRoot := rt ≠ 0,
            mn := vals.take dims, mx := vals.drop dims, ns := ns }, sw ≠ 0, hp ≠ 0)
  | _ => none

def parseToks (ts : List String) : Option Op :=
  match ts with
  | "add" :: rest =>
    match parseReq rest with
    | some (q, sw, _) => some (.add q sw)
    | none => none
  | "upd" :: rest =>
    match parseReq rest with
    | some (q, sw, hp) => some (.upd q sw hp)
    | none => none
  | ["del", n, lp] =>
    match nat? n, nat? lp with
    | some n, some lp => some (.del n (lp ≠ 0))
    | _, _ => none
  | _ => none

def parseOp (line : String) : Option Op := parseToks (toks line)

def dump (s : Topo) : List String :=
  let names := sortU (s.info.map (·.name))
  let qs := names.filterMap (fun n => (find s.info n).map fun q =>
    s!"q {q.name} {q.parent} {b2i q.isParent} {q.tree} {b2i q.force} {b2i q.treeRoot} {showRL q.mn} {showRL q.mx}")
  let hs := (sortU s.hkeys).map (fun k =>
    let cs := sortU ((s.kids.filter (fun e => e.1 == k)).map (·.2))
    if cs.isEmpty then s!"h {k}" else s!"h {k} {showNats cs}")
  let nsKeys := sortU (s.nsMap.map (·.1))
  let nl := nsKeys.filterMap (fun n => (nsGet s.nsMap n).map fun q => s!"n {n} {q}")
  qs ++ hs ++ nl

/-- one executed request: verdict line + dump; `compact` = everything on one line (exhaustive stream). -/
def showRes (compact : Bool) (r : Topo × Bool) : List String :=
  let ls := s!"res {b2i r.2}" :: dump r.1
  if compact then [" | ".intercalate ls] else ls

/-- `compact` switches to one-line dumps; `try <request>` evaluates a request on the current state
    WITHOUT committing it (the harness rebuilds the real topology from the committed prefix). -/
def runLines : Topo → Bool → List String → List String
  | _, _, [] => []
  | s, c, l :: ls =>
    match toks l with
    | ["compact"] => runLines s true ls
    | "try" :: rest =>
      match parseToks rest with
      | none => "bad-op" :: runLines s c ls
      | some op => showRes c (step dims s op) ++ runLines s c ls
    | ts =>
      match parseToks ts with
      | none => "bad-op" :: runLines s c ls
      | some op =>
        let r := step dims s op
        showRes c r ++ runLines r.1 c ls

def runCase (lines : List String) : List String := runLines init false lines

end KoordVerif.C15

def main : IO Unit := KoordVerif.Proto.mainWith KoordVerif.C15.runCase
