import KoordVerif.Common.Proto
import KoordVerif.Model.C06
import KoordVerif.Model.C06Pick
import KoordVerif.Model.C06Alloc
import KoordVerif.Model.C06Events
import KoordVerif.Model.C06Nrt
import KoordVerif.Model.C06Restore
import KoordVerif.Model.C06Preempt
/-
Driver for C06.  Op lines (integer tokens):

  numa <mode 0 milli|1 value|2 fullPCPUs> <cpc> <declared> <req> <nh> h… <nf> (id free)…
        -> numa <failed> <remaining> (id amt)…           (allocations sorted by node id)
  init <maxRef> <nt> cpu… <nr> reserved…                  (context of a ledger history; no output)
  add|upd <uid> <excl> <nc> cpu… <nn> (cell amt)…         -> ledger dump
  rel <uid>                                               -> ledger dump
  avail <np> (<n> cpu…)…                                  -> avail cpu…   (with preferred sets)
  navail <n> (cell capacity)…                             -> navail (cell available)…
  policy <policy> <cpc> <n> (cpu core)…                   -> policy <0|1>
  pick <n> <na> avail… <ns> result…                       -> pick <0|1>
  take <maxRef> <excl> <most> <bind> <need> <numCPUs> <numCores> <numNodes> <numSockets>
       <nt> (cpu core node socket)… <na> avail… <nal> (cpu ref excl)… <np> preferred…
                                                          -> take 1 cpu… | take 0   (takePreferredCPUs)
  cfg <maxRef> <most> <num> <den> <numCPUs> <numCores> <numNodes> <numSockets>
      <nt> (cpu core node socket)… <nr> reserved… <ncap> (cell rawCapacity)…
                                                          (context of a history through Allocate: topology, STORED
                                                           raw NUMA capacities, cpu amplification ratio num/den of the
                                                           node annotation; resets the ledger; no output)
  opts                                                    -> opts (cell capacity)…   (getResourceOptions: amplified copy)
  alloc <uid> <excl> <bind> <required> <cpuBind> <ncpu> <hasHint> <nh> h… <nreq> (dim milli)…
                                                          -> alloc 0 | alloc 1 <nc> cpu… <ncell> (cell amt)…  (Allocate)
  commit                                                  -> ledger dump   (Update with the model's own last allocation)
  navailx                                                 -> navail (cell available)…   (with cpu amplification)
  commitq                                                 (as commit, no output: the ledger cannot be read while other
                                                           goroutines run)
  dump                                                    -> ledger dump
  etopo <node> <present> <ncpus>                          -> events dump   (NodeResourceTopology event: the stored CPU topology of
                                                           the cluster node is valid iff present and ncpus > 0)
  epod <0 add|2 delete|3 tombstone> <snap>                -> events dump   (podEventHandler.OnAdd / OnDelete)
  epod 1 <snap old> <snap new>                            -> events dump   (OnUpdate)
  epod 4                                                  -> events dump   (objects of another type: no effect)
        snap = <uid> <node|0> <terminal> <status 0|1|2> <spec 0|1|2> <cpuset 0|1> <excl> <nc> cpu… <nn> (cell amt)…
        events dump = for cluster nodes 1 and 2: `n<k> pods u…` / `n<k> cpus (c ref excl)…` / `n<k> res (cell amt)…`
  fresh                                                   (a node name without ledger entry: the ledger is empty; no output)
  updq <uid> <excl> <nc> cpu… <nn> (cell amt)…            (as upd, no output: the ledger cannot be read while goroutines run)
  eupd <node> <uid> <excl> <nc> cpu… <nn> (cell amt)…     -> events dump   (resourceManager.Update on that cluster node: Reserve)
  erel <node> <uid>                                       -> events dump   (resourceManager.Release: Unreserve)
  esel <node>                                             (continue with the ledger of that cluster node: alloc / commit / dump)
  nrt <most> <nt> (cpu core node socket)… <ns> (managed hasUID cpusOK <n> cpu…)… <nk> kubeletReserved… <nn> nodeReserved…
      <sysqExclusive> <nq> sysqCPUs… <nz> (kind id cpuMilli|-1 memMilli|-1)…
                                                          -> nrt <numCPUs> <numCores> <numNodes> <numSockets> <nr> reserved… <ncap> (cell capacity)…
                                                           (NodeResourceTopology event → NewTopologyOptions; the details are the REPORTED
                                                            ones, core ids are re-encoded socket<<16|core; becomes the context of the
                                                            following alloc / ralloc / commit / rel ops; resets the ledger)
  ralloc <uid> <nh> h… <nreq> (dim milli)… <nm> (rsv <no> owner…)… <nu> (rsv <no> owner…)… <nominated rsv|-1>
                                                          -> rfilter <0|1> / ralloc 0 | ralloc 1 <ncell> (cell amt)…
                                                           (a pod without cpu bind through RestoreReservation → Filter → Reserve with
                                                            matched / unmatched reservations = (reserve pod uid, owner uids))
  pdry <maxRef> <nt> cpu…                                 (a preemption dry run starts: empty preemptible state, the CPU ids
                                                           of the node's topology; no output)
  prm <node> <uid>                                        -> pre cpu… / pavail cpu…   (Plugin.RemovePod of a victim: the CPUs reported
                                                           preemptible and GetAvailableCPUs(node, ∅, preemptible))
  pad <node> <uid>                                        -> pre cpu… / pavail cpu…   (Plugin.AddPod: the victim is reprieved)
ledger dump = `pods u…` / `cpus (c ref excl)…` / `res (cell amt)…` (non-zero) / `avail c…`,
every list sorted by key.  All amounts in milli-units.
-/
namespace KoordVerif.C06
open KoordVerif.Proto

def insNat (x : Nat) : List Nat → List Nat
  | [] => [x]
  | y :: ys => if x ≤ y then x :: y :: ys else y :: insNat x ys

def sortNat (l : List Nat) : List Nat := l.foldr insNat []

def insKey {α} (x : Nat × α) : List (Nat × α) → List (Nat × α)
  | [] => [x]
  | y :: ys => if x.1 ≤ y.1 then x :: y :: ys else y :: insKey x ys

def sortKey {α} (l : List (Nat × α)) : List (Nat × α) := l.foldr insKey []

/-- take a length-prefixed block `<n> x1 … xn` off the token list. -/
def takeBlock (mult : Nat) : List Int → Option (List Int × List Int)
  | [] => none
  | n :: rest =>
    if n < 0 then none else
    let k := n.toNat * mult
    if rest.length < k then none else some (rest.take k, rest.drop k)

def pairs : List Int → List (Nat × Int)
  | a :: b :: rest => (a.toNat, b) :: pairs rest
  | _ => []

def natPairs : List Int → List (Nat × Nat)
  | a :: b :: rest => (a.toNat, b.toNat) :: natPairs rest
  | _ => []

structure Ctx where
  maxRef   : Int := 1
  topo     : List Nat := []
  reserved : List Nat := []
  L        : Ledger := Ledger.empty
  cfg      : NodeCfg := { topo := [], cpc := 1, cpn := 1, cps := 1, maxRef := 1, most := true, reserved := [],
                          caps := [], num := 0, den := 1 }
  last     : Option PodAlloc := none
  M        : Mgr := Mgr.empty
  pre      : PreAlloc := PreAlloc.empty
  ptopo    : List Nat := []
  pmax     : Int := 1

def dump (c : Ctx) : List String :=
  let pods := sortNat (c.L.pods.map (·.uid))
  let cpus := sortKey c.L.cpus
  let res := sortKey (c.L.res.filter (fun e => e.2 != 0))
  [ "pods " ++ showNats pods,
    "cpus " ++ " ".intercalate (cpus.map fun (k, r) => s!"{k} {r.ref} {r.excl}"),
    "res " ++ " ".intercalate (res.map fun (k, v) => s!"{k} {v}"),
    "avail " ++ showNats (sortNat (availableCPUs c.topo c.L.cpus c.maxRef c.reserved [])) ]

def dumpDry (c : Ctx) (n : Nat) : List String :=
  [ "pre " ++ showNats (sortNat c.pre.preemptible),
    "pavail " ++ showNats (sortNat (dryAvailable c.ptopo c.pmax (c.M.L n) c.pre)) ]

def parsePod : List Int → Option PodAlloc
  | uid :: excl :: rest => do
    let (cs, rest) ← takeBlock 1 rest
    let (ns, rest) ← takeBlock 2 rest
    if rest ≠ [] || uid < 0 || excl < 0 || cs.any (· < 0) then none else
    some { uid := uid.toNat, excl := excl.toNat, cpus := cs.map Int.toNat, numa := pairs ns }
  | _ => none

partial def parseSets (n : Nat) (ts : List Int) (acc : List (List Nat)) : Option (List (List Nat)) :=
  match n with
  | 0 => if ts = [] then some acc.reverse else none
  | n+1 =>
    match takeBlock 1 ts with
    | some (b, rest) => parseSets n rest (b.map Int.toNat :: acc)
    | none => none

def runNuma : List Int → List String
  | mode :: cpc :: declared :: req :: rest =>
    match takeBlock 1 rest with
    | some (hint, rest) =>
      match takeBlock 2 rest with
      | some (fr, []) =>
        let m : Option SplitMode :=
          if mode = 0 then some .milli else if mode = 1 then some .value
          else if mode = 2 then some (.fullPCPUs cpc) else none
        match m with
        | some m =>
          let o := numaSplit m (declared ≠ 0) (getI (pairs fr)) (hint.map Int.toNat) req
          let al := sortKey o.allocs
          [s!"numa {b2i o.failed} {o.remaining}" ++
            String.join (al.map fun (k, v) => s!" {k} {v}")]
        | none => ["bad-op"]
      | _ => ["bad-op"]
    | none => ["bad-op"]
  | _ => ["bad-op"]

def quads : List Int → List CpuI
  | a :: b :: c :: d :: rest =>
    { cpu := a.toNat, core := b.toNat, node := c.toNat, socket := d.toNat } :: quads rest
  | _ => []

def triples : List Int → List (Nat × Int × Nat)
  | a :: b :: c :: rest => (a.toNat, b, c.toNat) :: triples rest
  | _ => []

def runTake : List Int → List String
  | maxRef :: excl :: most :: bind :: need :: nCPU :: nCore :: nNode :: nSock :: rest =>
    match takeBlock 4 rest with
    | some (t, rest) =>
      match takeBlock 1 rest with
      | some (av, rest) =>
        match takeBlock 3 rest with
        | some (al, rest) =>
          match takeBlock 1 rest with
          | some (pr, []) =>
            if nCore ≤ 0 || nNode ≤ 0 || nSock ≤ 0 || nCPU < 0 || excl < 0 then ["bad-op"] else
            let topo := quads t
            let ctx : PickCtx := { topo := topo, cpc := nCPU.toNat / nCore.toNat, cpn := nCPU.toNat / nNode.toNat,
                                   cps := nCPU.toNat / nSock.toNat, maxRef := maxRef, excl := excl.toNat,
                                   most := most ≠ 0 }
            let allocated : List CpuI := (triples al).map fun (c, r, e) =>
              { topoInfo ctx c with cpu := c, ref := r, excl := e }
            match takePreferredCPUs ctx (bind = 1) (av.map Int.toNat) (pr.map Int.toNat) allocated need with
            | some res => ["take 1" ++ String.join ((sortNat res).map fun c => s!" {c}")]
            | none => ["take 0"]
          | _ => ["bad-op"]
        | none => ["bad-op"]
      | none => ["bad-op"]
    | none => ["bad-op"]
  | _ => ["bad-op"]

def runCfg (c : Ctx) : List Int → Ctx × List String
  | maxRef :: most :: num :: den :: nCPU :: nCore :: nNode :: nSock :: rest =>
    match takeBlock 4 rest with
    | some (t, rest) =>
      match takeBlock 1 rest with
      | some (r, rest) =>
        match takeBlock 2 rest with
        | some (caps, []) =>
          if nCore ≤ 0 || nNode ≤ 0 || nSock ≤ 0 || nCPU < 0 || den ≤ 0 then (c, ["bad-op"]) else
          let topo := quads t
          let cfg : NodeCfg := { topo := topo, cpc := nCPU.toNat / nCore.toNat, cpn := nCPU.toNat / nNode.toNat,
                                 cps := nCPU.toNat / nSock.toNat, maxRef := maxRef, most := most ≠ 0,
                                 reserved := r.map Int.toNat, caps := pairs caps, num := num, den := den }
          ({ maxRef := maxRef, topo := topo.map (·.cpu), reserved := r.map Int.toNat, L := Ledger.empty,
             cfg := cfg, last := none }, [])
        | _ => (c, ["bad-op"])
      | none => (c, ["bad-op"])
    | none => (c, ["bad-op"])
  | _ => (c, ["bad-op"])

def showCells (l : List (Nat × Int)) : String :=
  String.join ((sortKey l).map fun (k, v) => s!" {k} {v}")

def runAlloc (c : Ctx) : List Int → Ctx × List String
  | uid :: excl :: bind :: required :: cpuBind :: ncpu :: hasHint :: rest =>
    match takeBlock 1 rest with
    | some (hint, rest) =>
      match takeBlock 2 rest with
      | some (reqs, []) =>
        if uid < 0 || excl < 0 || bind < 0 || hint.any (· < 0) then (c, ["bad-op"]) else
        let req : AllocReq := { uid := uid.toNat, excl := excl.toNat, bind := bind.toNat, required := required ≠ 0,
                                cpuBind := cpuBind ≠ 0, ncpu := ncpu,
                                hint := if hasHint ≠ 0 then some (hint.map Int.toNat) else none,
                                reqs := pairs reqs }
        match allocate c.cfg c.L req with
        | none => ({ c with last := none }, ["alloc 0"])
        | some p =>
          let cpus := sortNat p.cpus
          ({ c with last := some p },
           [s!"alloc 1 {cpus.length}" ++ String.join (cpus.map fun x => s!" {x}") ++ s!" {p.numa.length}" ++
              showCells p.numa])
      | _ => (c, ["bad-op"])
    | none => (c, ["bad-op"])
  | _ => (c, ["bad-op"])

/-- `<n> (managed hasUID cpusOK <k> cpu…)…` -/
partial def parseStatic (n : Nat) (ts : List Int) (acc : List StaticPod) : Option (List StaticPod × List Int) :=
  match n with
  | 0 => some (acc.reverse, ts)
  | n+1 =>
    match ts with
    | m :: u :: ok :: rest =>
      match takeBlock 1 rest with
      | some (cs, rest) =>
        if cs.any (· < 0) then none else
        parseStatic n rest ({ managed := m ≠ 0, hasUID := u ≠ 0, cpusOK := ok ≠ 0, cpus := cs.map Int.toNat } :: acc)
      | none => none
    | _ => none

def zonesOf : List Int → List Zone
  | k :: id :: c :: m :: rest =>
    { kind := k.toNat, id := id.toNat, cpu := if c < 0 then none else some c, mem := if m < 0 then none else some m } ::
      zonesOf rest
  | _ => []

def runNrt (c : Ctx) : List Int → Ctx × List String
  | most :: rest =>
    match takeBlock 4 rest with
    | some (t, ns :: rest) =>
      if ns < 0 then (c, ["bad-op"]) else
      match parseStatic ns.toNat rest [] with
      | some (static, rest) =>
        match takeBlock 1 rest with
        | some (kub, rest) =>
          match takeBlock 1 rest with
          | some (nrsv, sx :: rest) =>
            match takeBlock 1 rest with
            | some (sq, rest) =>
              match takeBlock 4 rest with
              | some (zs, []) =>
                if t.any (· < 0) || kub.any (· < 0) || nrsv.any (· < 0) || sq.any (· < 0) then (c, ["bad-op"]) else
                let topo := (quads t).map fun i => { i with core := i.socket * 65536 + i.core }
                let reserved := nrtReserved static (kub.map Int.toNat) (nrsv.map Int.toNat) (sq.map Int.toNat) (sx ≠ 0)
                let cfg := nrtCfg topo (most ≠ 0) reserved (zonesOf zs)
                let c' : Ctx := { maxRef := 1, topo := topo.map (·.cpu), reserved := reserved, L := Ledger.empty,
                                  cfg := cfg, last := none }
                (c', [s!"nrt {topo.length} {nrtNumCores topo} {nrtNumNodes topo} {nrtNumSockets topo} " ++
                        s!"{reserved.length}" ++ String.join ((sortNat reserved).map fun x => s!" {x}") ++
                        s!" {cfg.caps.length}" ++ showCells cfg.caps])
              | _ => (c, ["bad-op"])
            | none => (c, ["bad-op"])
          | _ => (c, ["bad-op"])
        | none => (c, ["bad-op"])
      | none => (c, ["bad-op"])
    | _ => (c, ["bad-op"])
  | _ => (c, ["bad-op"])

/-- `<n> (rsv <no> owner…)…` -/
partial def parseRsvs (n : Nat) (ts : List Int) (acc : List Rsv) : Option (List Rsv × List Int) :=
  match n with
  | 0 => some (acc.reverse, ts)
  | n+1 =>
    match ts with
    | u :: rest =>
      match takeBlock 1 rest with
      | some (os, rest) =>
        if u < 0 || os.any (· < 0) then none else
        parseRsvs n rest ({ uid := u.toNat, owners := os.map Int.toNat } :: acc)
      | none => none
    | _ => none

def runRalloc (c : Ctx) : List Int → Ctx × List String
  | uid :: rest =>
    match takeBlock 1 rest with
    | some (hint, rest) =>
      match takeBlock 2 rest with
      | some (reqs, nm :: rest) =>
        if nm < 0 || uid < 0 || hint.any (· < 0) then (c, ["bad-op"]) else
        match parseRsvs nm.toNat rest [] with
        | some (m, nu :: rest) =>
          if nu < 0 then (c, ["bad-op"]) else
          match parseRsvs nu.toNat rest [] with
          | some (um, [nom]) =>
            let q : RsvReq := { uid := uid.toNat, hint := hint.map Int.toNat, reqs := pairs reqs, matched := m,
                                unmatched := um, nominated := if nom < 0 then none else some nom.toNat }
            let f := filterRsv false c.cfg c.L q
            match reserveRsv false c.cfg c.L q with
            | none => ({ c with last := none }, [s!"rfilter {b2i f}", "ralloc 0"])
            | some p => ({ c with last := some p },
                         [s!"rfilter {b2i f}", s!"ralloc 1 {p.numa.length}" ++ showCells p.numa])
          | _ => (c, ["bad-op"])
        | _ => (c, ["bad-op"])
      | _ => (c, ["bad-op"])
    | none => (c, ["bad-op"])
  | _ => (c, ["bad-op"])

def parseSnap : List Int → Option (PodObj × List Int)
  | uid :: node :: term :: st :: sp :: cs :: excl :: rest => do
    let (cpus, rest) ← takeBlock 1 rest
    let (ns, rest) ← takeBlock 2 rest
    if uid < 0 || node < 0 || st < 0 || sp < 0 || cs < 0 || excl < 0 || cpus.any (· < 0) then none else
    some ({ uid := uid.toNat, node := node.toNat, term := term ≠ 0, st := st.toNat, sp := sp.toNat, cs := cs.toNat,
            excl := excl.toNat, cpus := cpus.map Int.toNat, numa := pairs ns }, rest)
  | _ => none

def parseEvent : List Int → Option Event
  | [4] => some .other
  | kind :: rest => do
    let (a, rest) ← parseSnap rest
    if kind = 0 then (if rest = [] then some (.podAdd a) else none)
    else if kind = 2 || kind = 3 then (if rest = [] then some (.podDelete a) else none)
    else if kind = 1 then do
      let (b, rest) ← parseSnap rest
      if rest = [] then some (.podUpdate a b) else none
    else none
  | _ => none

def dumpNode (M : Mgr) (n : Nat) : List String :=
  let L := M.L n
  let pods := sortNat (L.pods.map (·.uid))
  let cpus := sortKey L.cpus
  let res := sortKey (L.res.filter (fun e => e.2 != 0))
  [ s!"n{n} pods " ++ showNats pods,
    s!"n{n} cpus " ++ " ".intercalate (cpus.map fun (k, r) => s!"{k} {r.ref} {r.excl}"),
    s!"n{n} res " ++ " ".intercalate (res.map fun (k, v) => s!"{k} {v}") ]

def dumpEvents (M : Mgr) : List String := dumpNode M 1 ++ dumpNode M 2

def runLine (c : Ctx) (line : String) : Ctx × List String :=
  match toks line with
  | kind :: rest =>
    match ints? rest with
    | none => (c, ["bad-op"])
    | some xs =>
      match kind with
      | "numa" => (c, runNuma xs)
      | "take" => (c, runTake xs)
      | "cfg" => runCfg c xs
      | "alloc" => runAlloc c xs
      | "nrt" => runNrt c xs
      | "ralloc" => runRalloc c xs
      | "opts" =>
        match xs with
        | [] => (c, ["opts" ++ showCells c.cfg.capacity])
        | _ => (c, ["bad-op"])
      | "commit" =>
        match xs, c.last with
        | [], some p => let c' := { c with L := step c.L (.upd p), last := none }; (c', dump c')
        | _, _ => (c, ["bad-op"])
      | "commitq" =>
        match xs, c.last with
        | [], some p => ({ c with L := step c.L (.upd p), last := none }, [])
        | _, _ => (c, ["bad-op"])
      | "dump" =>
        match xs with
        | [] => (c, dump c)
        | _ => (c, ["bad-op"])
      | "fresh" =>
        match xs with
        | [] => ({ c with L := Ledger.empty, last := none }, [])
        | _ => (c, ["bad-op"])
      | "updq" =>
        match parsePod xs with
        | some p => ({ c with L := step c.L (.upd p) }, [])
        | none => (c, ["bad-op"])
      | "etopo" =>
        match xs with
        | [n, present, ncpus] =>
          if n < 0 || ncpus < 0 then (c, ["bad-op"]) else
          let c' := { c with M := handle c.M (.topo n.toNat (topoValid (present ≠ 0) ncpus.toNat)) }
          (c', dumpEvents c'.M)
        | _ => (c, ["bad-op"])
      | "epod" =>
        match parseEvent xs with
        | some e => let c' := { c with M := handle c.M e }; (c', dumpEvents c'.M)
        | none => (c, ["bad-op"])
      | "eupd" =>
        match xs with
        | n :: rest =>
          match parsePod rest with
          | some p => if n < 0 then (c, ["bad-op"]) else
            let c' := { c with M := c.M.apply (.update n.toNat p) }; (c', dumpEvents c'.M)
          | none => (c, ["bad-op"])
        | _ => (c, ["bad-op"])
      | "erel" =>
        match xs with
        | [n, u] => if n < 0 || u < 0 then (c, ["bad-op"]) else
          let c' := { c with M := c.M.apply (.release n.toNat u.toNat) }; (c', dumpEvents c'.M)
        | _ => (c, ["bad-op"])
      | "pdry" =>
        match xs with
        | maxRef :: rest =>
          match takeBlock 1 rest with
          | some (t, []) =>
            if t.any (· < 0) then (c, ["bad-op"]) else
            ({ c with pre := PreAlloc.empty, ptopo := t.map Int.toNat, pmax := maxRef }, [])
          | _ => (c, ["bad-op"])
        | _ => (c, ["bad-op"])
      | "prm" =>
        match xs with
        | [n, u] => if n < 0 || u < 0 then (c, ["bad-op"]) else
          let c' := { c with pre := removePodDry c.M n.toNat c.pre u.toNat }; (c', dumpDry c' n.toNat)
        | _ => (c, ["bad-op"])
      | "pad" =>
        match xs with
        | [n, u] => if n < 0 || u < 0 then (c, ["bad-op"]) else
          let c' := { c with pre := addPodDry c.M n.toNat c.pre u.toNat }; (c', dumpDry c' n.toNat)
        | _ => (c, ["bad-op"])
      | "esel" =>
        match xs with
        | [n] => if n < 0 then (c, ["bad-op"]) else ({ c with L := c.M.L n.toNat, last := none }, [])
        | _ => (c, ["bad-op"])
      | "navailx" =>
        match xs with
        | [] => (c, ["navail" ++ showCells (c.cfg.capacity.map fun (k, cap) =>
                        (k, availableCellAmp c.cfg.num c.cfg.den c.cfg.nodeOf cap c.L k))])
        | _ => (c, ["bad-op"])
      | "init" =>
        match xs with
        | maxRef :: rest =>
          match takeBlock 1 rest with
          | some (t, rest) =>
            match takeBlock 1 rest with
            | some (r, []) =>
              ({ maxRef := maxRef, topo := t.map Int.toNat, reserved := r.map Int.toNat,
                 L := Ledger.empty }, [])
            | _ => (c, ["bad-op"])
          | none => (c, ["bad-op"])
        | _ => (c, ["bad-op"])
      | "add" =>
        match parsePod xs with
        | some p => let c' := { c with L := step c.L (.add p) }; (c', dump c')
        | none => (c, ["bad-op"])
      | "upd" =>
        match parsePod xs with
        | some p => let c' := { c with L := step c.L (.upd p) }; (c', dump c')
        | none => (c, ["bad-op"])
      | "rel" =>
        match xs with
        | [u] => if u < 0 then (c, ["bad-op"]) else
          let c' := { c with L := step c.L (.rel u.toNat) }; (c', dump c')
        | _ => (c, ["bad-op"])
      | "avail" =>
        match xs with
        | np :: rest =>
          if np < 0 then (c, ["bad-op"]) else
          match parseSets np.toNat rest [] with
          | some prefs =>
            (c, ["avail " ++ showNats (sortNat (availableCPUs c.topo c.L.cpus c.maxRef c.reserved prefs))])
          | none => (c, ["bad-op"])
        | _ => (c, ["bad-op"])
      | "navail" =>
        match takeBlock 2 xs with
        | some (cells, []) =>
          (c, ["navail" ++ String.join ((pairs cells).map fun (k, cap) =>
                  s!" {k} {availableCell cap c.L.res k}")])
        | _ => (c, ["bad-op"])
      | "policy" =>
        match xs with
        | pol :: cpc :: rest =>
          match takeBlock 2 rest with
          | some (cc, []) =>
            if pol < 0 || cpc < 0 then (c, ["bad-op"]) else
            let m := natPairs cc
            let core : Nat → Nat := fun x => match m.find? (·.1 == x) with
              | some e => e.2
              | none => 0
            (c, [s!"policy {b2i (satisfiedPolicy pol.toNat core cpc.toNat (m.map (·.1)))}"])
          | _ => (c, ["bad-op"])
        | _ => (c, ["bad-op"])
      | "pick" =>
        match xs with
        | n :: rest =>
          match takeBlock 1 rest with
          | some (av, rest) =>
            match takeBlock 1 rest with
            | some (s, []) =>
              if n < 0 then (c, ["bad-op"]) else
              (c, [s!"pick {b2i (pickCheck (av.map Int.toNat) n.toNat (s.map Int.toNat))}"])
            | _ => (c, ["bad-op"])
          | none => (c, ["bad-op"])
        | _ => (c, ["bad-op"])
      | _ => (c, ["bad-op"])
  | [] => (c, ["bad-op"])

def runCase (lines : List String) : List String :=
  (lines.foldl (fun (acc : Ctx × List (List String)) l =>
      let (c', out) := runLine acc.1 l
      (c', out :: acc.2)) ({}, [])).2.reverse.flatten

end KoordVerif.C06

def main : IO Unit := KoordVerif.Proto.mainWith KoordVerif.C06.runCase
