import KoordVerif.Model.C19Rsv
-- private test driver of the reservation part of C19 (the real exe drv_c19 dispatches to Rsv.runCase)
def main : IO Unit := KoordVerif.Proto.mainWith KoordVerif.C19.Rsv.runCase
