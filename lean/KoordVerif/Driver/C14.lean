import KoordVerif.Common.Proto
import KoordVerif.Model.C14
import KoordVerif.Model.C14Entry
import KoordVerif.Model.C14Proxy
/-
Driver for C14.  A case is a history on one plugin instance:
  rule node <pct>      node meta callback, annotation "<pct/100>" (pct > 0) or absent (pct = -100)
  rule nodebad         node meta callback with an invalid annotation
  rule slo <0|1>       node SLO callback (1 = CFS quota enabled)
  rule sloshape <k> <enable> <policy>   node SLO callback given by its SHAPE: k 0 nil spec, 1 no BE strategy, 2 strategy
                       with `enable` and policy 0 unset / 1 cpuset / 2 cfsQuota (the model derives the switch)
  rule ratioann <k> <pct>   node meta callback given by the annotation: k 0 absent, 1 malformed, 2 value pct/100
  pod <be> <hasSpec> <n> (<req> <lim> <mem>)*     hook call under the rule in force
  entry <be> <ann> <v2> <s0> <q0> <m0> <n> (<declares + 2·no-status> <req> <lim> <mem>)*
                       one pod through all six entry paths of the protocol package (ann = annotation shape 0..7,
                       5 = the webhook's dump of this pod), cgroup v1/v2, initial file contents s0 q0 m0
  late <s0> <q0> <m0>  the reconciler's pod-level pass on the pod of the last `entry` whose cgroup dir was missing at a first
                       pass and then created with these contents (same values resubmitted; the files must be written)
  cb <0|1>             rule callback (0 = node SLO, 1 = node meta) on the pod of the last `entry` as an existing pod
  cricreate <period quota shares mem cpus mems> <k> <period quota shares mem cpus mems>
                       runtime-proxy CreateContainer: resources of the request, hook outcome k (0 no response, 1 response
                       without resources, 2 response with the resources that follow); cpuset strings are codes, 0 = ""
  criupdate <…same…>   runtime-proxy UpdateContainerResources on the container of this case
  crifailover          the container becomes known by fail-over (ParseContainer: no resources)
  cristop              StopContainer (checkpoint deleted)
                       output per cri step: `hk err|none|<6>` (what the hook sees) and `out <6>` (what the runtime gets)
Output: `upd <0|1>` per rule event; for a pod `eff <enabled> <pct>`, `pod …`, one `ctr …` per container.
Float parts use Lean's runtime Float (IEEE binary64, as Go): |a-b| >= 0.01 and ⌈q / ratio⌉.
-/
namespace KoordVerif.C14
open KoordVerif.Proto

def floatScale (pct : Int) (q : Int) : Int :=
  let r : Float := Float.ofInt pct / 100.0
  (Float.ceil (Float.ofInt q / r)).toInt64.toInt

def floatChanged (old new : Int) : Bool :=
  Float.abs (Float.ofInt old / 100.0 - Float.ofInt new / 100.0) >= 0.01

def showOut (tag : String) : Option Out → String
  | none => tag ++ " untouched"
  | some o => s!"{tag} {o.shares} {o.quota} {o.mem}"

def showFVal : FVal → String
  | .num n => toString n
  | .max => "max"
  | .pair q p => (if q == -1 then "max" else toString q) ++ "_" ++ toString p

def showFiles (f : Files) : String := s!"{showFVal f.shares} {showFVal f.quota} {showFVal f.mem}"

def showResp : Option Out → String
  | none => "none"
  | some o => s!"{o.shares} {o.quota} {o.mem}"

def showDec : Option (List (Nat × Ctr)) → Int
  | none => -1
  | some m => m.length

/-- the pod of the last `entry` line. -/
structure Entry where
  be  : Bool
  ann : Ann
  v2  : Bool
  s0  : Int
  q0  : Int
  m0  : Int
  pod : List (Option Ctr)
  ids : List Bool   -- per container: has a status with a container id

structure St where
  rule : Rule
  out  : List String
  last : Option Entry
  cb   : Option (Files × List Files) := none
  ck   : Ck := none

def annOf (code : Int) (pod : List (Option Ctr)) : Option Ann :=
  match code with
  | 0 => some .absent
  | 1 => some .emptyStr
  | 2 => some .emptyObj
  | 3 => some .nullCtrs
  | 4 => some .emptyCtrs
  | 5 => some (webhookDump pod)
  | 6 => some .invalid
  | 7 => some .jsonNull
  | _ => none

def cfgOf (r : Rule) : Bool × Int × Cfg :=
  let (en, pct) := r.effective
  (en, pct, { cfs := en, ratioGt1 := pct > 100, scale := floatScale pct })

def range (n : Nat) : List Nat := List.range n

def runEntry (r : Rule) (e : Entry) : List String :=
  let (en, pct, cfg) := cfgOf r
  let k := stdConsts
  let init := initFiles e.v2 e.s0 e.q0 e.m0
  let nri := podFromNri e.ann
  let prx := podFromProxy e.ann
  let rec_ := podFromReconciler e.pod e.ann
  let oN := podEntry k cfg e.be nri
  let oP := podEntry k cfg e.be prx
  let oR := podEntry k cfg e.be rec_
  [s!"eff {b2i en} {pct}",
   s!"pod nri {showDec nri} | {showFiles (applyOut e.v2 init oN)}",
   s!"pod proxy {showDec prx} | {showResp oP} | {showFiles (applyOut e.v2 init oP)}",
   s!"pod rec {if e.be then showDec rec_ else -2} | {showFiles (applyOut e.v2 init oR)}"]
  ++ (range e.pod.length).flatMap fun i =>
    [s!"ctr {i} nri {showResp (ctrEntry k cfg e.be (ctrFromNri e.ann i))}",
     s!"ctr {i} proxy {showResp (ctrEntry k cfg e.be (ctrFromProxy e.ann i))}",
     s!"ctr {i} rec {showFiles (applyOut e.v2 init (ctrEntry k cfg e.be (ctrFromReconcilerSt (e.ids.getD i true) e.pod e.ann i)))}"]

/-- files of the "existing pod" (pod, containers) the rule callbacks act on; they persist over the callback history. -/
def cbInit (e : Entry) : Files × List Files :=
  -- the harness starts the callback history on cgroup v2 from an unlimited cpu.max (see the harness comment)
  let q0 := if e.v2 then -1 else e.q0
  let init := initFiles e.v2 e.s0 q0 e.m0
  (init, e.pod.map (fun _ => init))

def runCb (r : Rule) (e : Entry) (cur : Files × List Files) : (Files × List Files) × List String :=
  let (_, _, cfg) := cfgOf r
  let k := stdConsts
  let pod' := applyQuota e.v2 cur.1 (podEntry k cfg e.be (podFromReconciler e.pod e.ann))
  let ctrs' := (cur.2.zip (range e.pod.length)).map fun (f, i) =>
    applyQuota e.v2 f (ctrEntry k cfg e.be (ctrFromReconcilerSt (e.ids.getD i true) e.pod e.ann i))
  ((pod', ctrs'), [s!"cb pod {showFiles pod'}"] ++ (ctrs'.zip (range e.pod.length)).map fun (f, i) => s!"cb ctr {i} {showFiles f}")

def stepLine (st : St) (line : String) : St :=
  let r := st.rule
  let emit (ls : List String) : St := { st with out := st.out ++ ls }
  match toks line with
  | ["rule", "node", p] =>
    match int? p with
    | some pct => let (r', u) := r.step floatChanged (.nodeRatio pct); { st with rule := r', out := st.out ++ [s!"upd {b2i u}"] }
    | none => emit ["bad-op"]
  | ["rule", "nodebad"] => let (r', u) := r.step floatChanged .nodeBad; { st with rule := r', out := st.out ++ [s!"upd {b2i u}"] }
  | ["rule", "sloshape", k, e, pol] =>
    match int? k, int? e, nat? pol with
    | some k, some e, some pol =>
      let shape? : Option SloShape := if k == 0 then some .nilSpec else if k == 1 then some .noStrategy
        else if k == 2 then some (.strategy (e ≠ 0) pol) else none
      match shape? with
      | some sh => let (r', u) := r.step floatChanged (.slo (sloEnablesCFS sh)); { st with rule := r', out := st.out ++ [s!"upd {b2i u}"] }
      | none => emit ["bad-op"]
    | _, _, _ => emit ["bad-op"]
  | ["rule", "ratioann", k, p] =>
    match int? k, int? p with
    | some k, some p =>
      let a? : Option RatioAnn := if k == 0 then some .absent else if k == 1 then some .malformed
        else if k == 2 then some (.value p) else none
      match a? with
      | some a => let (r', u) := r.step floatChanged (ratioEv a); { st with rule := r', out := st.out ++ [s!"upd {b2i u}"] }
      | none => emit ["bad-op"]
    | _, _ => emit ["bad-op"]
  | ["rule", "slo", e] =>
    match int? e with
    | some e => let (r', u) := r.step floatChanged (.slo (e ≠ 0)); { st with rule := r', out := st.out ++ [s!"upd {b2i u}"] }
    | none => emit ["bad-op"]
  | "pod" :: rest =>
    match ints? rest with
    | some (be :: hs :: n :: vals) =>
      if vals.length ≠ 3 * n.toNat then emit ["bad-op"] else
      let cs := (chunks 3 vals).filterMap fun
        | [a, b, c] => some ({ req := a, lim := b, mem := c } : Ctr)
        | _ => none
      let (en, pct, cfg) := cfgOf r
      emit ([s!"eff {b2i en} {pct}", showOut "pod" (podHook stdConsts cfg (be ≠ 0) (hs ≠ 0) cs)]
        ++ cs.map (fun c => showOut "ctr" (ctrHook stdConsts cfg (be ≠ 0) (hs ≠ 0) c)))
    | _ => emit ["bad-op"]
  | "entry" :: rest =>
    match ints? rest with
    | some (be :: ann :: v2 :: s0 :: q0 :: m0 :: n :: vals) =>
      if vals.length ≠ 4 * n.toNat then emit ["bad-op"] else
      let pod : List (Option Ctr) := (chunks 4 vals).map fun
        | [d, a, b, c] => if d % 2 ≠ 0 then some ({ req := a, lim := b, mem := c } : Ctr) else none
        | _ => none
      let ids : List Bool := (chunks 4 vals).map fun
        | d :: _ => decide (d < 2)
        | _ => true
      match annOf ann pod with
      | none => emit ["bad-op"]
      | some a =>
        let e : Entry := { be := be ≠ 0, ann := a, v2 := v2 ≠ 0, s0 := s0, q0 := q0, m0 := m0, pod := pod, ids := ids }
        { st with out := st.out ++ runEntry r e, last := some e, cb := none }
    | _ => emit ["bad-op"]
  | ["late", s0, q0, m0] =>
    -- the pod cgroup of the last `entry` pod did not exist at the first reconcile; the kubelet then created it with the
    -- given contents and the reconciler ran again with the same values: the files hold what a first run on them gives
    match int? s0, int? q0, int? m0, st.last with
    | some s0, some q0, some m0, some e =>
      let (_, _, cfg) := cfgOf r
      let oR := podEntry stdConsts cfg e.be (podFromReconciler e.pod e.ann)
      emit [s!"late pod {showFiles (applyOut e.v2 (initFiles e.v2 s0 q0 m0) oR)}"]
    | _, _, _, _ => emit ["bad-op"]
  | ["cb", m] =>
    match int? m, st.last with
    | some _, some e =>
      let (cur', ls) := runCb r e (st.cb.getD (cbInit e))
      { st with out := st.out ++ ls, cb := some cur' }
    | _, _ => emit ["bad-op"]
  | _ => emit ["bad-op"]

def showCri (r : CriRes) : String := s!"{r.period} {r.quota} {r.shares} {r.mem} {r.cpus} {r.mems}"

def showProxy (o : ProxyOut) : List String :=
  [match o.hook with
   | none => "hk err"
   | some none => "hk none"
   | some (some r) => "hk " ++ showCri r,
   "out " ++ showCri o.out]

def criArgs : List Int → Option (CriRes × HookResp)
  | [p, q, s, m, c, e, k, hp, hq, hs, hm, hc, he] =>
    if c < 0 || e < 0 || hc < 0 || he < 0 then none else
    let a : CriRes := ⟨p, q, s, m, c.toNat, e.toNat⟩
    let b : CriRes := ⟨hp, hq, hs, hm, hc.toNat, he.toNat⟩
    if k == 0 then some (a, .noResp) else if k == 1 then some (a, .noRes) else if k == 2 then some (a, .res b) else none
  | _ => none

def stepCri (st : St) (line : String) : Option St :=
  match toks line with
  | "cricreate" :: rest =>
    match (ints? rest).bind criArgs with
    | some (a, resp) => let (ck', o) := proxyCreate a resp; some { st with ck := ck', out := st.out ++ showProxy o }
    | none => none
  | "criupdate" :: rest =>
    match (ints? rest).bind criArgs with
    | some (a, resp) => let (ck', o) := proxyUpdate st.ck a resp; some { st with ck := ck', out := st.out ++ showProxy o }
    | none => none
  | ["crifailover"] => some { st with ck := some none }
  | ["cristop"] => some { st with ck := none }
  | _ => none

def stepLine2 (st : St) (line : String) : St :=
  match stepCri st line with
  | some st' => st'
  | none => stepLine st line

def runCase (lines : List String) : List String :=
  (lines.foldl stepLine2 { rule := Rule.init, out := [], last := none }).out

end KoordVerif.C14

def main : IO Unit := KoordVerif.Proto.mainWith KoordVerif.C14.runCase
