import KoordVerif.Common.Proto
import KoordVerif.Model.C14
/-
Driver for C14.  A case is a history on one plugin instance:
  rule node <pct>      node meta callback, annotation "<pct/100>" (pct > 0) or absent (pct = -100)
  rule nodebad         node meta callback with an invalid annotation
  rule slo <0|1>       node SLO callback (1 = CFS quota enabled)
  pod <be> <hasSpec> <n> (<req> <lim> <mem>)*     hook call under the rule in force
Output: `upd <0|1>` per rule event; for a pod `eff <enabled> <pct>`, `pod …`, one `ctr …` per container.
Float parts use Lean's runtime Float (IEEE binary64, as Go): |a-b| >= 0.01 and ⌈q / ratio⌉.
-/
namespace KoordVerif.C14
open KoordVerif.Proto

def floatScale (pct : Int) (q : Int) : Int :=
  let r : Float := Float.ofInt pct / 100.0
  (Float.ceil (Float.ofInt q / r)).toInt64.toInt

def floatChanged (old new : Int) : Bool :=
  Float.abs (Float.ofInt old / 100.0 - Float.ofInt new / 100.0) >= 0.01

def showOut (tag : String) : Option Out → String
  | none => tag ++ " untouched"
  | some o => s!"{tag} {o.shares} {o.quota} {o.mem}"

def stepLine (st : Rule × List String) (line : String) : Rule × List String :=
  let (r, out) := st
  match toks line with
  | ["rule", "node", p] =>
    match int? p with
    | some pct => let (r', u) := r.step floatChanged (.nodeRatio pct); (r', out ++ [s!"upd {b2i u}"])
    | none => (r, out ++ ["bad-op"])
  | ["rule", "nodebad"] => let (r', u) := r.step floatChanged .nodeBad; (r', out ++ [s!"upd {b2i u}"])
  | ["rule", "slo", e] =>
    match int? e with
    | some e => let (r', u) := r.step floatChanged (.slo (e ≠ 0)); (r', out ++ [s!"upd {b2i u}"])
    | none => (r, out ++ ["bad-op"])
  | "pod" :: rest =>
    match ints? rest with
    | some (be :: hs :: n :: vals) =>
      if vals.length ≠ 3 * n.toNat then (r, out ++ ["bad-op"]) else
      let cs := (chunks 3 vals).filterMap fun
        | [a, b, c] => some ({ req := a, lim := b, mem := c } : Ctr)
        | _ => none
      let (en, pct) := r.effective
      let cfg : Cfg := { cfs := en, ratioGt1 := pct > 100, scale := floatScale pct }
      (r, out ++ [s!"eff {b2i en} {pct}", showOut "pod" (podHook stdConsts cfg (be ≠ 0) (hs ≠ 0) cs)]
        ++ cs.map (fun c => showOut "ctr" (ctrHook stdConsts cfg (be ≠ 0) (hs ≠ 0) c)))
    | _ => (r, out ++ ["bad-op"])
  | _ => (r, out ++ ["bad-op"])

def runCase (lines : List String) : List String := (lines.foldl stepLine (Rule.init, [])).2

end KoordVerif.C14

def main : IO Unit := KoordVerif.Proto.mainWith KoordVerif.C14.runCase
