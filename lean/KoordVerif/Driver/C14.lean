import KoordVerif.Common.Proto
import KoordVerif.Model.C14
/-
Driver for C14.  One op line per case:
  pod <be> <hasSpec> <cfs> <ratioPct|-1> <n> (<req> <lim> <mem>)*
Output: `pod <shares quota mem | untouched>` then one `ctr …` line per container.
The scaling uses Lean's runtime Float (IEEE binary64, as Go): ⌈q / (pct/100)⌉.
-/
namespace KoordVerif.C14
open KoordVerif.Proto

def floatScale (pct : Int) (q : Int) : Int :=
  let r : Float := Float.ofInt pct / 100.0
  (Float.ceil (Float.ofInt q / r)).toInt64.toInt

def showOut (tag : String) : Option Out → String
  | none => tag ++ " untouched"
  | some o => s!"{tag} {o.shares} {o.quota} {o.mem}"

def runLine (line : String) : List String :=
  match toks line with
  | "pod" :: rest =>
    match ints? rest with
    | some (be :: hs :: cfs :: pct :: n :: vals) =>
      if vals.length ≠ 3 * n.toNat then ["bad-op"] else
      let cs := (chunks 3 vals).filterMap fun
        | [a, b, c] => some ({ req := a, lim := b, mem := c } : Ctr)
        | _ => none
      let cfg : Cfg := { cfs := cfs ≠ 0, ratioGt1 := pct > 100, scale := floatScale pct }
      showOut "pod" (podHook stdConsts cfg (be ≠ 0) (hs ≠ 0) cs)
        :: cs.map (fun c => showOut "ctr" (ctrHook stdConsts cfg (be ≠ 0) (hs ≠ 0) c))
    | _ => ["bad-op"]
  | _ => ["bad-op"]

def runCase (lines : List String) : List String := lines.flatMap runLine

end KoordVerif.C14

def main : IO Unit := KoordVerif.Proto.mainWith KoordVerif.C14.runCase
