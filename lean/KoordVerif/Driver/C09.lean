import KoordVerif.Common.Proto
import KoordVerif.Model.C09
import KoordVerif.Model.C09Plugin
import KoordVerif.Model.C09Reconcile
import KoordVerif.Model.C09Strategy
/-
Driver for C09.  A case is a sequence of scenario-building lines and `calc` lines:
  cfg  <cpuThr> <memThr> <cpuPol> <memPol> <cpuCapPct|-1> <memCapPct|-1> <degradeMinutes>
         (policy: 0 usage, 1 request, 2 maxUsageRequest, 3 nil/unknown)
  node <capC> <capM> <allocC> <allocM> <annoC> <annoM> <sysC> <sysM>     (cpu milli, memory bytes; missing = 0)
  time <hasUpdateTime> <now> <updateTime>                                  (seconds)
  pod  <key> <active> <prioLabel -1|0..3|4> <hasPrio> <prioVal> <qosLabel -1|0..4> <kubeQoS 0..2> <reqC> <reqM> <n> <numa id>*
  met  <key> <prio 0..4> <usedC> <usedM>
  host <prio 0..4> <usedC> <usedM>
  zone <hasC> <hasM> <allocC> <allocM>
  calc        -> `deg` | `batch <cpu> <mem>` then `zones none` | `zone <i> <cpuMilli> <memMilli>`*
  clear       -> forget the scenario (paired monotonicity runs)
  mids <cap> <reservedPct> <thrPct>                                   -> `mid <v>`
  midp <cap> <unallocated> <nodeUnused> <reclaimable> <unallocPct> <thrPct> -> `mid <v>`
plugin glue (Model/C09Plugin.lean):
  mcfg <static> <midCpuThr|-1> <midMemThr|-1> <cpuRes|-1> <memRes|-1> <unalloc|-1>      (-1 = nil pointer => default)
  mmet <hasReclaim> <recC> <recM> <usageValid> <useC> <useM>
  mnode <allocNil>
  mcalc       -> `merr` | `mdeg` | `mid <cpu> <mem>`                      (midresource Plugin.Calculate)
  mprep       -> `mpub <cpu|-1> <mem|-1>`                                   (… -> Plugin.Prepare; -1 = resource absent)
  msync <oldC|-1> <oldM|-1> <thrPermille> -> `msync <0|1>`                  (Plugin.NeedSync old vs prepared)
  bprep <ratioPct|-1> <annoNil> <tpKind 0 absent|1 bad|2 some> <tpC|-1> <tpM|-1>
              -> `bpub <cpu|-1> <mem|-1>` `origin none|<cpu> <mem>`         (batchresource Calculate -> Prepare)
  bsync <oldC|-1> <oldM|-1> <thrPermille> -> `bsync <0|1>`                  (after bprep)
  hcfg <enabled> <updateIntervalSec> <thrPermille>
  newround    -> forget the scenario but keep the node's published amounts and the last sync time
  rec         -> `node <bc> <bm> <mc> <mm>` `sync <0|1>` `ratio <kind> <pct>` `originanno none|<cpu> <mem>` [`zonesclear <0|1>` on a withdrawn round] (one Reconcile at `time`'s now; the
                 NodeResource is threaded through every prepare call site, Model/C09Reconcile.lean)
  norm <kind 0 absent|1 unparsable|2 pct> <pct>   cpu-normalization ratio annotation of the round's NodeResource
  noderatio <kind> <pct>                          somebody (not the controller) rewrites the node's ratio annotation
  nodewipe                                        somebody removes the controller-owned node annotations (ratio, origin)
  bfrac <cpuMilli> <memMilli>                     fractional part added to the stored batch quantities before `bprep`
  bagain      -> `bpub …` `origin …`              Prepare once more on the SAME NodeResource (fresh node copy)
  bnr <cpuMilli|-1> <memMilli|-1> <reset> <ratioKind> <pct> <annoNil> <tpKind> <tpC|-1> <tpM|-1>
              -> `bpub …` `origin …`              Prepare on a hand-built NodeResource (stored quantities in milli units)
per-node strategy resolution over a multi-node history (Model/C09Strategy.lean); a strategy is 16 integer tokens, -9999 = nil field:
  ccfg <16 fields>                                the cluster strategy the ConfigMap declares (starts a new declaration)
  ncfg <selKind 0 nil|1 empty|2 pool> <poolValue> <16 fields>      one more nodeConfigs entry of the declaration
  cmload <0 unparsable JSON|1 colocation-config key empty|2 the declaration>
              -> `cfgerr <0|1>` then the cache: `cache <16 fields>` `cachen <i> <16 fields>`*   (ConfigMap event -> syncConfig)
  cacheq      -> the cache again (`cache …` `cachen …`*): what GetCfgCopy returns now
  usenode <k>                                     switch to node k's published state (amounts, last sync, annotations)
  nmeta <pool|-1> <annoKind 0 absent/unparsable|1 parsed> <16 fields> <lblCpu|-1> <lblMem|-1>      the node's metadata
  resolve     -> `strat <enabled> <16 fields>`    GetNodeColocationStrategy + isColocationCfgDisabled for the node; the result
                 becomes the round's `cfg` / `mcfg` / `hcfg`
Float parameters are instantiated with Lean's runtime Float (IEEE binary64, as Go).
-/
namespace KoordVerif.C09
open KoordVerif.Proto

def floatOps : FloatOps where
  mulPct v k := (Float.ofInt v * (Float.ofInt k / 100.0)).toInt64.toInt
  divCeil v n := (Float.ceil (Float.ofInt v / Float.ofInt n)).toInt64.toInt

def diffOps : DiffOps where
  diffGt o n k := Float.abs (Float.ofInt (n - o)) > Float.ofInt o * (Float.ofInt k / 1000.0)

structure St where
  s : Option Strategy := none
  n : Option NodeIn := none
  t : Option (Bool × Int × Int) := none
  pods : Array PodIn := #[]
  mets : Array Metric := #[]
  hosts : Array HostApp := #[]
  zones : Array Zone := #[]
  ms : Option MidStrategy := none
  mm : Option MidMetric := none
  allocNil : Bool := false
  bprepared : Option BatchPrepared := none
  hcfg : Option (Bool × Int × Int) := none
  rst : RState := RState.init
  ratio : RatioAnno := .absent          -- the round's NodeResource annotation
  nodeRatio : RatioAnno := .absent      -- the node object's annotation (kept across rounds)
  nodeOrigin : Option (Int × Int) := none
  nrtZones : List (Int × Int) := [(0, 0), (0, 0)]   -- NRT zone batch amounts, abstracted: (1,1) = "whatever a fresh round wrote"
  frac : Int × Int := (0, 0)
  bnr : Option (Bool × ThirdParty × NRes) := none
  -- multi-node strategy resolution
  cache : CfgCache := defaultCache
  declC : StratV := []
  declN : Array (Sel × StratV) := #[]
  nmeta : NodeMeta := {}
  cur : Nat := 0
  saved : List (Nat × (RState × RatioAnno × Option (Int × Int) × List (Int × Int))) := []

def prio? : Int → Option Prio
  | 0 => some .prod | 1 => some .mid | 2 => some .batch | 3 => some .free | 4 => some .none | _ => none

def qos? : Int → Option QoS
  | -1 => some .none | 0 => some .lse | 1 => some .lsr | 2 => some .ls | 3 => some .be | 4 => some .system | _ => none

def kube? : Int → Option KubeQoS
  | 0 => some .guaranteed | 1 => some .burstable | 2 => some .bestEffort | _ => none

def pol? : Int → Option Policy
  | 0 => some .usage | 1 => some .request | 2 => some .maxUR | 3 => some .unset | _ => none

def optPct (x : Int) : Option Int := if x < 0 then none else some x

def bool? : Int → Option Bool
  | 0 => some false | 1 => some true | _ => none

def showCalc (st : St) : List String :=
  match st.s, st.n, st.t with
  | some s, some n, some (hu, now, upd) =>
    match calculate floatOps stdPrio s n st.hosts.toList st.pods.toList st.mets.toList st.zones.toList hu now upd with
    | .degraded => ["deg"]
    | .batch c m zs =>
      s!"batch {c} {m}" ::
        (match zs with
         | none => ["zones none"]
         | some l => mapIdxFrom (fun i (p : Int × Int) => s!"zone {i} {p.1} {p.2}") 0 l)
  | _, _, _ => ["bad-op"]

def optNeg (x : Int) : Option Int := if x < 0 then none else some x
def showExt (e : Ext) : String := match e with | none => "-1" | some v => toString v

def midOut? (st : St) : Option MidOut :=
  match st.s, st.n, st.t, st.ms, st.mm with
  | some s, some n, some (hu, now, upd), some ms, some mm =>
    some (midCalculate floatOps stdPrio stdMidDefaults ms s.degradeMin n st.allocNil st.hosts.toList st.pods.toList mm hu now upd)
  | _, _, _, _, _ => none

def batchOut? (st : St) : Option Out :=
  match st.s, st.n, st.t with
  | some s, some n, some (hu, now, upd) =>
    some (calculate floatOps stdPrio s n st.hosts.toList st.pods.toList st.mets.toList st.zones.toList hu now upd)
  | _, _, _ => none

def ratio? (kind pct : Int) : Option RatioAnno :=
  match kind with
  | 0 => some .absent | 1 => some .bad | 2 => some (.pct pct) | _ => none

def showRatio : RatioAnno → String
  | .absent => "ratio 0 0" | .bad => "ratio 1 0" | .pct r => s!"ratio 2 {r}"

def showBatchPrepared (b : BatchPrepared) : List String :=
  [s!"bpub {showExt b.cpu} {showExt b.mem}",
   match b.origin with | none => "origin none" | some (c, m) => s!"origin {c} {m}"]

def nilTok : Int := -9999
def stratV? (xs : List Int) : Option StratV :=
  if xs.length = nStratFields then some (xs.map (fun x => if x = nilTok then none else some x)) else none
def showStratV (s : StratV) : String := showInts (s.map (fun o => o.getD nilTok))
def sel? (kind v : Int) : Option Sel :=
  match kind with | 0 => some .nothing | 1 => some .everything | 2 => some (.pool v) | _ => none
def showCache (c : CfgCache) : List String :=
  s!"cache {showStratV c.cluster}" :: mapIdxFrom (fun i (e : Sel × StratV) => s!"cachen {i} {showStratV e.2}") 0 c.nodes

def showRec (st : St) : St × List String :=
  match st.s, st.n, st.t, st.ms, st.mm, st.hcfg with
  | some s, some n, some (hu, now, upd), some ms, some mm, some (en, interval, thr) =>
    let nr := nresOf floatOps stdPrio stdMidDefaults en s ms n st.allocNil st.hosts.toList st.pods.toList st.mets.toList mm hu now upd st.ratio
    let c := (prepareAll floatOps nr).1
    let r' := (reconcileNR floatOps diffOps thr interval now { r := st.rst, ratio := st.nodeRatio, origin := st.nodeOrigin } nr).1
    let zones' := preUpdateZones (fun old _ => old.map (fun _ => (1, 1))) nr.resetB (if nr.resetB then none else some []) st.nrtZones
    ({ st with rst := r'.r, nodeRatio := r'.ratio, nodeOrigin := r'.origin, nrtZones := zones' },
     [s!"node {showExt r'.r.pub.bc} {showExt r'.r.pub.bm} {showExt r'.r.pub.mc} {showExt r'.r.pub.mm}",
      s!"sync {b2i (commonNeedSync st.rst.lastSync now interval || pluginsNeedSync diffOps thr st.rst.pub c)}",
      showRatio r'.ratio,
      match r'.origin with | none => "originanno none" | some (c, m) => s!"originanno {c} {m}"] ++
      (if nr.resetB then [s!"zonesclear {b2i (zones'.all (fun z => z == (0, 0)))}"] else []))
  | _, _, _, _, _, _ => (st, ["bad-op"])

def step (st : St) (line : String) : St × List String :=
  let bad : St × List String := (st, ["bad-op"])
  match toks line with
  | ["calc"] => (st, showCalc st)
  | ["clear"] => ({}, [])
  | ["newround"] => ({ rst := st.rst, nodeRatio := st.nodeRatio, nodeOrigin := st.nodeOrigin, nrtZones := st.nrtZones,
                       cache := st.cache, declC := st.declC, declN := st.declN, cur := st.cur, saved := st.saved }, [])
  | ["cacheq"] => (st, showCache st.cache)
  | ["resolve"] =>
    let v := resolve st.cache st.nmeta
    let en := nodeEnabled st.cache st.nmeta
    ({ st with s := some (stratOfV v), ms := some (midOfV v), hcfg := some (en, (fld v 6).getD 0, (fld v 7).getD 0) },
     [s!"strat {b2i en} {showStratV v}"])
  | ["nodewipe"] => ({ st with nodeRatio := .absent, nodeOrigin := none }, [])
  | ["rec"] => showRec st
  | ["bagain"] =>
    match st.bnr with
    | some (an, tp, nr) =>
      let b := batchPrepareNR floatOps an tp nr
      ({ st with bnr := some (an, tp, b.2), bprepared := some b.1 }, showBatchPrepared b.1)
    | none => bad
  | ["mcalc"] =>
    match midOut? st with
    | some .error => (st, ["merr"])
    | some .degraded => (st, ["mdeg"])
    | some (.mid c m) => (st, [s!"mid {c} {m}"])
    | none => bad
  | ["mprep"] =>
    match midOut? st with
    | some o => let (c, m) := midPrepare o; (st, [s!"mpub {showExt c} {showExt m}"])
    | none => bad
  | kind :: rest =>
    match ints? rest with
    | none => bad
    | some xs =>
      match kind, xs with
      | "cfg", [ct, mt, cp, mp, cc, mc, dg] =>
        match pol? cp, pol? mp with
        | some cp, some mp =>
          ({ st with s := some { cpuThr := ct, memThr := mt, cpuPol := cp, memPol := mp,
                                 cpuCap := optPct cc, memCap := optPct mc, degradeMin := dg } }, [])
        | _, _ => bad
      | "node", [a, b, c, d, e, f, g, h] =>
        ({ st with n := some { capC := a, capM := b, allocC := c, allocM := d, annoC := e, annoM := f, sysC := g, sysM := h } }, [])
      | "time", [hu, now, upd] =>
        match bool? hu with
        | some hu => ({ st with t := some (hu, now, upd) }, [])
        | none => bad
      | "pod", key :: act :: pl :: hp :: pv :: ql :: kq :: rc :: rm :: nn :: ids =>
        if key < 0 ∨ ids.length ≠ nn.toNat then bad else
        let label : Option (Option Prio) := if pl = -1 then some none else (prio? pl).map some
        match bool? act, label, bool? hp, qos? ql, kube? kq with
        | some act, some label, some hp, some ql, some kq =>
          let pr := prioDefault stdPrio label (if hp then some pv else none) ql kq
          let q := qosDefault ql kq
          ({ st with pods := st.pods.push { key := key.toNat, active := act, prio := pr, qos := q, reqC := rc, reqM := rm, numa := ids } }, [])
        | _, _, _, _, _ => bad
      | "met", [key, pr, uc, um] =>
        match prio? pr with
        | some pr => if key < 0 then bad else
          ({ st with mets := st.mets.push { key := key.toNat, prio := pr, usedC := uc, usedM := um } }, [])
        | none => bad
      | "host", [pr, uc, um] =>
        match prio? pr with
        | some pr => ({ st with hosts := st.hosts.push { prio := pr, usedC := uc, usedM := um } }, [])
        | none => bad
      | "zone", [hc, hm, ac, am] =>
        match bool? hc, bool? hm with
        | some hc, some hm => ({ st with zones := st.zones.push { hasC := hc, hasM := hm, allocC := ac, allocM := am } }, [])
        | _, _ => bad
      | "mcfg", [sm, a, b, c, d, e] =>
        match bool? sm with
        | some sm => ({ st with ms := some { static := sm, cpuThr := optNeg a, memThr := optNeg b, cpuRes := optNeg c,
                                             memRes := optNeg d, unalloc := optNeg e } }, [])
        | none => bad
      | "mmet", [hr, rc, rm, uv, uc, um] =>
        match bool? hr, bool? uv with
        | some hr, some uv => ({ st with mm := some { hasReclaim := hr, recC := rc, recM := rm, usageValid := uv, useC := uc, useM := um } }, [])
        | _, _ => bad
      | "mnode", [an] =>
        match bool? an with
        | some an => ({ st with allocNil := an }, [])
        | none => bad
      | "msync", [oc, om, thr] =>
        match midOut? st with
        | some o =>
          let (c, m) := midPrepare o
          let old : Pub := { Pub.empty with mc := optNeg oc, mm := optNeg om }
          let new : Pub := { Pub.empty with mc := c, mm := m }
          (st, [s!"msync {b2i (midNeedSync diffOps thr old new)}"])
        | none => bad
      | "bprep", [ratio, an, tk, tc, tm] =>
        let tp : Option ThirdParty := match tk with
          | 0 => some .absent | 1 => some .bad | 2 => some (.some (optNeg tc) (optNeg tm)) | _ => none
        match batchOut? st, bool? an, tp with
        | some o, some an, some tp =>
          let (qc, qm, rs) := batchOutQuantities o
          let nr : NRes := { bc := qc.map (fun v => storeInt v + st.frac.1), bm := qm.map (fun v => storeInt v + st.frac.2),
                             mc := none, mm := none, resetB := rs, resetM := false,
                             ratio := if ratio < 0 then .absent else .pct ratio }
          let b := batchPrepareNR floatOps an tp nr
          ({ st with bprepared := some b.1, bnr := some (an, tp, b.2) }, showBatchPrepared b.1)
        | _, _, _ => bad
      | "bnr", [qc, qm, rs, rk, rp, an, tk, tc, tm] =>
        let tp : Option ThirdParty := match tk with
          | 0 => some .absent | 1 => some .bad | 2 => some (.some (optNeg tc) (optNeg tm)) | _ => none
        match bool? rs, ratio? rk rp, bool? an, tp with
        | some rs, some ra, some an, some tp =>
          let nr : NRes := { bc := optNeg qc, bm := optNeg qm, mc := none, mm := none, resetB := rs, resetM := false, ratio := ra }
          let b := batchPrepareNR floatOps an tp nr
          ({ st with bprepared := some b.1, bnr := some (an, tp, b.2) }, showBatchPrepared b.1)
        | _, _, _, _ => bad
      | "norm", [kind, pct] =>
        match ratio? kind pct with
        | some a => ({ st with ratio := a }, [])
        | none => bad
      | "noderatio", [kind, pct] =>
        match ratio? kind pct with
        | some a => ({ st with nodeRatio := a }, [])
        | none => bad
      | "bfrac", [fc, fm] => if fc < 0 ∨ fc ≥ 1000 ∨ fm < 0 ∨ fm ≥ 1000 then bad else ({ st with frac := (fc, fm) }, [])
      | "bsync", [oc, om, thr] =>
        match st.bprepared with
        | some b =>
          let old : Pub := { Pub.empty with bc := optNeg oc, bm := optNeg om }
          let new : Pub := { Pub.empty with bc := b.cpu, bm := b.mem }
          (st, [s!"bsync {b2i (batchNeedSync diffOps thr old new)}"])
        | none => bad
      | "ccfg", fs =>
        match stratV? fs with
        | some v => ({ st with declC := v, declN := #[] }, [])
        | none => bad
      | "ncfg", sk :: sv :: fs =>
        match sel? sk sv, stratV? fs with
        | some sel, some v => ({ st with declN := st.declN.push (sel, v) }, [])
        | _, _ => bad
      | "cmload", [kind] =>
        match kind with
        | 0 => (st, "cfgerr 1" :: showCache st.cache)
        | 1 =>
          let c := cmEvent st.cache (some none)
          ({ st with cache := c }, "cfgerr 0" :: showCache c)
        | 2 =>
          let d : Declared := some (st.declC, st.declN.toList)
          let c := cmEvent st.cache (some d)
          ({ st with cache := c }, s!"cfgerr {b2i (loadCfg d).isNone}" :: showCache c)
        | _ => bad
      | "usenode", [k] =>
        if k < 0 then bad else
        let cur := (st.rst, st.nodeRatio, st.nodeOrigin, st.nrtZones)
        let saved := (st.cur, cur) :: st.saved.filter (fun e => e.1 != st.cur)
        let (r, nr, no, nz) := match saved.find? (fun e => e.1 == k.toNat) with
          | some e => e.2
          | none => (RState.init, RatioAnno.absent, none, [(0, 0), (0, 0)])
        ({ st with cur := k.toNat, saved := saved, rst := r, nodeRatio := nr, nodeOrigin := no, nrtZones := nz }, [])
      | "nmeta", pool :: ak :: rest =>
        if rest.length ≠ nStratFields + 2 then bad else
        match stratV? (rest.take nStratFields), rest.drop nStratFields with
        | some v, [lc, lm] =>
          if ak ≠ 0 ∧ ak ≠ 1 then bad else
          ({ st with nmeta := { pool := optNeg pool, anno := if ak = 1 then some v else none, lblCpu := optNeg lc, lblMem := optNeg lm } }, [])
        | _, _ => bad
      | "hcfg", [en, interval, thr] =>
        match bool? en with
        | some en => ({ st with hcfg := some (en, interval, thr) }, [])
        | none => bad
      | "mids", [cap, rp, tp] => (st, [s!"mid {midStatic floatOps cap rp tp}"])
      | "midp", [cap, ua, nu, rc, up, tp] => (st, [s!"mid {midByPolicy floatOps cap ua nu rc up tp}"])
      | _, _ => bad
  | [] => bad

def runCase (lines : List String) : List String :=
  let rec go (st : St) : List String → List String → List String
    | [], acc => acc.reverse
    | l :: ls, acc =>
      let (st', out) := step st l
      go st' ls (out.reverse ++ acc)
  go {} lines []

end KoordVerif.C09

def main : IO Unit := KoordVerif.Proto.mainWith KoordVerif.C09.runCase
