import KoordVerif.Model.C08
/-
C08 — the plugin as the SCHEDULER drives it: one scheduling cycle through the k8s scheduler framework.

  k8s.io/kubernetes/pkg/scheduler/framework/runtime/framework.go
      RunPreFilterPlugins : a plugin whose PreFilter status IsSkip() is put into CycleState.SkipFilterPlugins;
                            a non-success, non-skip status aborts the cycle
      RunFilterPlugins    : `if state.GetSkipFilterPlugins().Has(pl.Name()) { continue }` — a skipped plugin's Filter is
                            not run for ANY node of the cycle, so every node passes as far as this plugin is concerned
  pkg/scheduler/plugins/loadaware/load_aware.go
      Plugin.PreFilter    : `_ = p.addEstimatedOfIncoming(EmptyVec(), state, pod); return nil, nil` — the estimate of the
                            incoming pod is cached in the cycle state; the status is Success on every path.

PreFilter sees the pod and the plugin-level configuration but NO particular node; Filter is the only place where a
node's `usage-thresholds` annotation is merged into the profile (generateUsageThresholdsFilterProfile).  Hence a Skip
is only safe when no node-level configuration could make Filter reject — which PreFilter cannot know (except for a
DaemonSet pod, which Filter lets pass on every node).  Core Lean only (linked into the driver).
-/
namespace KoordVerif.C08

/-- status of Plugin.PreFilter as far as the framework distinguishes it -/
inductive PreStatus where
  | success      -- nil status: Filter will be run for every node
  | skip         -- Skip: the framework leaves the plugin out of RunFilterPlugins for the whole cycle
  | reject       -- anything else: the cycle is aborted, no node is tried
deriving Repr, DecidableEq

/-- Plugin.PreFilter, as written: whatever the pod and the plugin-level thresholds are, the status is nil (Success).
The query is an argument because the function may read the pod and the plugin-level part of it (never the node part). -/
def preFilter (_q : FilterQ) : PreStatus := .success

/-- the verdict of the FRAMEWORK for the node of `q` in a cycle whose PreFilter status was `pre`
(RunPreFilterPlugins, then RunFilterPluginsWithNominatedPods; no nominated pods).  5 = cycle aborted before Filter. -/
def fwVerdict (pre : PreStatus) (cfg : Cfg) (c : Cache) (q : FilterQ) : Nat :=
  match pre with
  | .reject => 5
  | .skip => 0
  | .success => filter cfg c q

/-- one node of one cycle, with the plugin's own PreFilter -/
def fwFilter (cfg : Cfg) (c : Cache) (q : FilterQ) : Nat := fwVerdict (preFilter q) cfg c q

/-- what PreFilter can see of a query: everything but the node part (node, annotation, allocatable) -/
def FilterQ.withNodePart (q n : FilterQ) : FilterQ :=
  { q with node := n.node, hasNode := n.hasNode, customKind := n.customKind, custom := n.custom,
           alloc := n.alloc, rawKind := n.rawKind, raw := n.raw }

/-- NewUsageThresholdsFilterProfile(...) has no non-zero threshold in any of its three parts
(what a helper `usageThresholdsFilterProfile.disabled()` on the PLUGIN-level profile would report). -/
def profileDisabled (d : Nat) (a : ThrArgs) : Bool :=
  let p := argsProfile d a
  vEmpty p.usage && vEmpty p.prod && (match p.agg with | some g => vEmpty g.thr | none => true)

end KoordVerif.C08
