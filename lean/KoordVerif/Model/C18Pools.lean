import KoordVerif.Model.C18
/-
C18 — several node pools.  Model of
  pkg/descheduler/apis/config/v1alpha2/defaults.go
      SetDefaults_LowNodeLoadArgs, SetDefaults_LowNodeLoadNodePools
  pkg/descheduler/apis/config/v1alpha2/conversion_plugins.go
      Convert_v1alpha2_LowNodeLoadArgs_To_config_LowNodeLoadArgs   (the implicit
      `__default_node_pool__` built from the TOP-LEVEL fields is put IN FRONT of the user's pools)
  pkg/descheduler/apis/config/validation/validation_loadaware.go
      ValidateLowLoadUtilizationArgs
  pkg/descheduler/framework/plugins/loadaware/low_node_load.go
      Balance (loop over the pools with `processedNodes`), filterNodes, the processedNodes.Insert
      loops at the end of processOneNodePool
Resources are small naturals (0 cpu, 1 memory, 2 pods), percentages are integers in quarter
percents, label keys / values are small naturals; a label selector is its matchLabels list
(`none` = nil selector, `some []` = the empty selector, which matches every node).
A map is a key-sorted association list; `none` = nil map (Go distinguishes nil from empty when
it defaults a pool field from the top-level field).  Core-only.
-/
namespace KoordVerif.C18

abbrev Labels := List (Nat × Nat)
abbrev IMap := List (Nat × Int)

def IMap.get (m : IMap) (k : Nat) : Option Int := (m.find? (·.1 = k)).map (·.2)

/-- sorted insert / overwrite. -/
def IMap.set : IMap → Nat → Int → IMap
  | [], k, v => [(k, v)]
  | (a, x) :: rest, k, v =>
    if k < a then (k, v) :: (a, x) :: rest
    else if k = a then (a, v) :: rest
    else (a, x) :: IMap.set rest k v

def keysOf : Option IMap → List Nat
  | none => []
  | some m => m.map (·.1)

/-- v1alpha2.LoadAnomalyCondition as decoded: an absent number reads 0. -/
structure ACond where
  abn  : Nat
  norm : Nat
deriving Repr, DecidableEq

/-- v1alpha2.LowNodeLoadNodePool as decoded (before defaulting). -/
structure VPool where
  name  : Nat
  sel   : Option Labels
  dev   : Bool
  low   : Option IMap
  high  : Option IMap
  plow  : Option IMap
  phigh : Option IMap
  wts   : Option IMap
  cond  : Option ACond
deriving Repr, DecidableEq

/-- v1alpha2.LowNodeLoadArgs as decoded: the fields that matter for the pools and the round. -/
structure VArgs where
  dry     : Option Bool
  non     : Option Int     -- numberOfNodes
  nodeFit : Option Bool
  expire  : Option Int     -- nodeMetricExpirationSeconds
  sel     : Option Labels
  dev     : Option Bool
  low     : Option IMap
  high    : Option IMap
  plow    : Option IMap
  phigh   : Option IMap
  wts     : Option IMap
  cond    : Option ACond
  pools   : List VPool
deriving Repr, DecidableEq

/-- defaultLoadAnomalyCondition (5 / 3; tied to the source by Ties/C18). -/
def defaultCond : ACond := ⟨5, 3⟩

/-- SetDefaults_LowNodeLoadArgs, anomaly condition: nil ⇒ default; otherwise an `else if` chain:
    abnormalities 0 ⇒ 5 (and then a normalities 0 is NOT repaired), else normalities 0 ⇒ 3. -/
def defaultTopCond : Option ACond → ACond
  | none => defaultCond
  | some c => if c.abn = 0 then { c with abn := defaultCond.abn }
              else if c.norm = 0 then { c with norm := defaultCond.norm } else c

def dedupNat : List Nat → List Nat
  | [] => []
  | x :: xs => x :: (dedupNat xs).filter (· ≠ x)

/-- SetDefaults_LowNodeLoadArgs, resource weights: cpu, memory and every key of the top-level
    low / high thresholds weigh 1 unless the user gave a positive weight. -/
def defaultWeights (low high wts : Option IMap) : IMap :=
  let keys := dedupNat ([0, 1] ++ keysOf low ++ keysOf high)
  match wts with
  | none => keys.foldl (fun m k => IMap.set m k 1) []
  | some m => keys.foldl (fun m k => if (IMap.get m k).getD 0 ≤ 0 then IMap.set m k 1 else m) m

/-- SetDefaults_LowNodeLoadNodePools for one pool: nil maps are inherited from the top level (an
    EMPTY map is kept), anomaly numbers 0 are inherited one by one. -/
def defaultPool (low high plow phigh : Option IMap) (wts : IMap) (cond : ACond) (p : VPool) : VPool :=
  { p with
    high := p.high.orElse fun _ => high
    low := p.low.orElse fun _ => low
    phigh := p.phigh.orElse fun _ => phigh
    plow := p.plow.orElse fun _ => plow
    wts := some (p.wts.getD wts)
    cond := some (match p.cond with
      | none => cond
      | some c => ⟨if c.abn = 0 then cond.abn else c.abn, if c.norm = 0 then cond.norm else c.norm⟩) }

/-- config.LowNodeLoadNodePool (internal version). -/
structure CPool where
  name  : Nat          -- 0 = "__default_node_pool__"
  sel   : Option Labels
  dev   : Bool
  low   : Option IMap
  high  : Option IMap
  plow  : Option IMap
  phigh : Option IMap
  wts   : Option IMap
  cond  : Option ACond
deriving Repr, DecidableEq

def VPool.toC (p : VPool) : CPool := ⟨p.name, p.sel, p.dev, p.low, p.high, p.plow, p.phigh, p.wts, p.cond⟩

/-- the pool the conversion builds from the top-level fields (after defaulting). -/
def topPool (a : VArgs) : CPool :=
  ⟨0, a.sel, a.dev.getD false, a.low, a.high, a.plow, a.phigh,
   some (defaultWeights a.low a.high a.wts), some (defaultTopCond a.cond)⟩

/-- the user's pools after SetDefaults_LowNodeLoadNodePools, converted. -/
def userPools (a : VArgs) : List CPool :=
  a.pools.map fun p =>
    (defaultPool a.low a.high a.plow a.phigh (defaultWeights a.low a.high a.wts) (defaultTopCond a.cond) p).toC

/-- defaulting + Convert_v1alpha2_LowNodeLoadArgs_To_config_LowNodeLoadArgs: the internal NodePools. -/
def convertPools (a : VArgs) : List CPool := topPool a :: userPools a

/-- the converted scalar fields: dryRun, numberOfNodes, nodeFit, nodeMetricExpirationSeconds. -/
def convertTop (a : VArgs) : Bool × Int × Bool × Int :=
  (a.dry.getD false, a.non.getD 0, a.nodeFit.getD true, a.expire.getD 180)

/-! ### ValidateLowLoadUtilizationArgs (what NewLowNodeLoad refuses) -/

def allGe0 : Option IMap → Bool
  | none => true
  | some m => m.all fun kv => decide (kv.2 ≥ 0)

/-- every entry of `m` is at most the entry of `upper` for the same resource, when there is one. -/
def leWhere (m upper : Option IMap) : Bool :=
  match m, upper with
  | some m, some u => m.all fun kv => match IMap.get u kv.1 with
      | some h => decide (kv.2 ≤ h)
      | none => true
  | _, _ => true

def validPool (p : CPool) : Bool :=
  allGe0 p.high && allGe0 p.low && leWhere p.low p.high &&
  allGe0 p.phigh && leWhere p.phigh p.high &&
  allGe0 p.plow && leWhere p.plow p.phigh &&
  (match p.cond with
   | none => true
   | some c => decide (c.abn > 0) && decide (c.norm > 0))

def validArgs (a : VArgs) : Bool :=
  let (_, non, _, exp) := convertTop a
  decide (non ≥ 0) && decide (exp > 0) && (convertPools a).all validPool

/-! ### Balance over the pools -/

/-- labels.SelectorFromSet-style match of a matchLabels selector. -/
def selMatches (sel node : Labels) : Bool := sel.all fun kv => node.contains kv

/-- filterNodes (after fix db5fd43): a nil selector is `labels.Everything()`; a node already in
    `processedNodes` is skipped by EVERY pool, with or without selector. -/
def filterNodes (sel : Option Labels) (nodes : List (Nat × Labels)) (processed : List Nat) : List Nat :=
  (nodes.filter fun n => !processed.contains n.1 &&
    (match sel with
     | none => true
     | some s => selMatches s n.2)).map (·.1)

/-- what one processOneNodePool call leaves behind, as far as the loop of Balance cares. -/
structure PoolOut (σ ε : Type) where
  st      : σ
  evs     : List ε
  sources : List Nat   -- ids inserted into processedNodes (the nodes classified over the node-level
                       -- or the prod high threshold, once they have been marked abnormal)

/-- one pool's share of a Balance call. -/
structure Seg (ε : Type) where
  pool    : Nat
  ids     : List Nat
  evs     : List ε
  sources : List Nat

/-- LowNodeLoad.Balance: the pools in list order, `processedNodes` threaded through.  `run` is
    processOneNodePool on the filtered nodes (index of the pool, the pool, the node ids). -/
def balancePools {σ ε P : Type} (selOf : P → Option Labels) (run : Nat → P → List Nat → σ → PoolOut σ ε)
    (nodes : List (Nat × Labels)) : Nat → List P → σ → List Nat → σ × List (Seg ε)
  | _, [], st, _ => (st, [])
  | i, p :: ps, st, processed =>
    let ids := filterNodes (selOf p) nodes processed
    if ids.isEmpty then balancePools selOf run nodes (i + 1) ps st processed
    else
      let o := run i p ids st
      let (st', segs) := balancePools selOf run nodes (i + 1) ps o.st (processed ++ o.sources)
      (st', ⟨i, ids, o.evs, o.sources⟩ :: segs)

/-- processOneNodePool as the loop of Balance sees it: `processedNodes.Insert` happens for the nodes
    classified over the node-level high threshold (`sourceNodes`) and (fix 55e1bc4) for the nodes
    classified over the prod high threshold (`prodHighNodes`) - since fix 3c8e41b right after the two
    filterRealAbnormalNodes calls, i.e. as soon as these nodes have got their abnormal mark and whichever
    way the pool ends afterwards (only the exits "no nodes" and "no source nodes" come before). -/
def poolSources (r : RoundIn) : List Nat :=
  (ofClass .high r.nodes).map (·.id) ++ (ofClass .prodHigh r.nodes).map (·.id)

def poolStep (cfg : Cfg) (r : RoundIn) (st : St) : PoolOut St Ev :=
  let o := runRound cfg st r
  ⟨o.st, o.evs, if o.exit = 1 ∨ o.exit = 2 then [] else poolSources r⟩

/-- getNodeUsage only looks at the nodes filterNodes returned: the pool's round input holds no other
    node (the driver filters the wire nodes by the pool's ids in exactly this way). -/
def RoundIn.restrict (r : RoundIn) (ids : List Nat) : RoundIn :=
  { r with nodes := r.nodes.filter fun n => ids.contains n.id }

/-- LowNodeLoad.Balance with processOneNodePool = `runRound`; `mk` builds the pool's round input
    (measurement, thresholds, orders) from the filtered node ids. -/
def balanceAll {P : Type} (selOf : P → Option Labels) (cfgOf : P → Cfg) (mk : Nat → P → List Nat → RoundIn)
    (nodes : List (Nat × Labels)) (pools : List P) (st : St) : St × List (Seg Ev) :=
  balancePools selOf (fun i p ids st => poolStep (cfgOf p) (mk i p ids) st) nodes 0 pools st []

end KoordVerif.C18
