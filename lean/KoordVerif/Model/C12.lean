/-
C12 — hierarchical cgroup rewrites.  Model of
  pkg/koordlet/resourceexecutor/executor.go   LeveledUpdateBatch, needUpdate
  pkg/koordlet/resourceexecutor/updater.go    CgroupResourceUpdater.MergeUpdate, MergeFuncUpdateCgroup,
                                              MergeConditionIf{CPUSetIsLooser,ValueIsLarger,CFSQuotaIsLarger},
                                              CommonCgroupUpdateFunc, CgroupUpdateWithUnlimitedFunc
  pkg/koordlet/resourceexecutor/cgroup.go     cgroupFileWriteIfDifferent, cgroupFileWrite
Cgroup directories are small naturals; the content of the one file being rewritten is a value of
a per-resource domain `α` (CPU sets: bitmask `Nat`; limits/protections: `Int`, -1 = unlimited).
The output of a batch is the *sequence of file writes*.  Core-only.
An invalid new value (`IsValid` false) produces no write in either pass.  Directories that do not exist
(ignored cgroup-dir error, `continue` without caching) are in Model/C12Env.lean; the kubelet static-policy
branch of the BE suppression in Model/C12Static.lean; the string layer in Model/C12Parse.lean.  Hard write
failures and unparsable file contents are not modelled.
-/
namespace KoordVerif.C12

/-- per-resource behaviour of an updater (what the registry in updater.go `init()` wires up). -/
structure Dom (α : Type) where
  /-- `mergeUpdateFunc != nil` (registered through NewMergeableCgroupUpdater…) -/
  mergeable : Bool
  /-- MergeConditionFunc: `merge old new = (mergedValue, needMerge)` -/
  merge : α → α → α × Bool
  /-- cgroupFileWriteIfDifferent: current content counts as equal to the value (no write) -/
  same : α → α → Bool
  /-- needUpdate: `updater.Value() == preResourceUpdater.Value()` (cached, new) -/
  valEq : α → α → Bool
  /-- `Value()` of the updater after `update()` ran, as it is cached (CgroupUpdateWithUnlimitedFunc
      rewrites "-1" to "max" on cgroup-v2; `none` = a string no later target equals) -/
  afterUpdate : α → Option α
  /-- the file content as read by cgroupFileRead, as a `Value()` string of the clone that is cached when
      no merge is needed (`none` = a string no later target equals, e.g. cgroup-v2 "max 100000") -/
  readBack : α → Option α

/-- one ResourceUpdater of the batch: cgroup dir and new value (`none`: a string `IsValid` rejects). -/
structure Upd (α : Type) where
  node : Nat
  tgt : Option α

/-- file contents, ResourceCache (value of the cached updater per key), skipMerge map. -/
structure St (α : Type) where
  files : Nat → α
  cache : Nat → Option α
  skip : List Nat

abbrev Write (α : Type) := Nat × α

def setAt {β : Type} (f : Nat → β) (n : Nat) (v : β) : Nat → β := fun m => if m = n then v else f m

/-- executor.go needUpdate: no cached updater, or a different value, or the entry is older than
    ResourceForceUpdateSeconds (`expired`). -/
def needUpdate {α} (D : Dom α) (expired : Bool) (s : St α) (u : Upd α) : Bool :=
  match s.cache u.node, u.tgt with
  | none, _ => true
  | some _, none => true
  | some v, some t => !(D.valEq v t) || expired

/-- body of the first (top-down) loop of LeveledUpdateBatch for one updater:
    needUpdate → MergeUpdate → (skipMerge | cache the returned updater). -/
def step1 {α} (D : Dom α) (expired : Bool) (s : St α) (u : Upd α) : St α × List (Write α) :=
  if !needUpdate D expired s u then (s, []) else
  match u.tgt with
  | none => (s, [])            -- parse new value failed → err → continue
  | some t =>
    let cur := s.files u.node
    if D.mergeable then
      -- MergeFuncUpdateCgroup
      let r := D.merge cur t
      if r.2 then
        -- write mergedValue; the returned clone carries mergedValue and is cached
        ({ s with files := setAt s.files u.node r.1, cache := setAt s.cache u.node (some r.1) }, [(u.node, r.1)])
      else
        -- no write; the returned clone carries the old file content and is cached
        ({ s with cache := setAt s.cache u.node (D.readBack cur) }, [])
    else
      -- MergeUpdate = (nil, updateFunc(u)) → skipMerge[key] = true, the updater itself is cached
      if D.same cur t then
        ({ s with cache := setAt s.cache u.node (D.afterUpdate t), skip := u.node :: s.skip }, [])
      else
        ({ files := setAt s.files u.node t, cache := setAt s.cache u.node (D.afterUpdate t),
           skip := u.node :: s.skip }, [(u.node, t)])

/-- body of the second (bottom-up) loop: needUpdate → skipMerge → update() (write if different) → cache. -/
def step2 {α} (D : Dom α) (expired : Bool) (s : St α) (u : Upd α) : St α × List (Write α) :=
  if !needUpdate D expired s u then (s, []) else
  if s.skip.contains u.node then (s, []) else
  match u.tgt with
  | none => (s, [])
  | some t =>
    let cur := s.files u.node
    if D.same cur t then
      ({ s with cache := setAt s.cache u.node (D.afterUpdate t) }, [])
    else
      ({ s with files := setAt s.files u.node t, cache := setAt s.cache u.node (D.afterUpdate t) }, [(u.node, t)])

/-- one `for _, updater := range …` sweep: run `step` on every updater in order, collect the writes. -/
def runPass {α} (step : St α → Upd α → St α × List (Write α)) : List (Upd α) → St α → St α × List (Write α)
  | [], s => (s, [])
  | u :: us, s =>
    let r := step s u
    let r' := runPass step us r.1
    (r'.1, r.2 ++ r'.2)

def pass1 {α} (D : Dom α) (expired : Bool) : List (Upd α) → St α → St α × List (Write α) :=
  runPass (step1 D expired)

def pass2 {α} (D : Dom α) (expired : Bool) : List (Upd α) → St α → St α × List (Write α) :=
  runPass (step2 D expired)

/-- order of the second sweep of LeveledUpdateBatch: `for i := len(updaters)-1 .. 0` over the levels and
    `for j := len(updaters[i])-1 .. 0` inside a level (since fix 4d8d1bf; before it a level was walked forwards). -/
def sweep2 {β : Type} (levels : List (List β)) : List β := (levels.reverse.map List.reverse).flatten

/-- LeveledUpdateBatch(updaters [][]ResourceUpdater): `for i := 0..` over the levels (each level forwards) calling
    MergeUpdate, then the levels last to first, each level last to first (`sweep2`), calling update(). -/
def runBatch {α} (D : Dom α) (expired : Bool) (levels : List (List (Upd α))) (s : St α) :
    St α × List (Write α) :=
  let r1 := pass1 D expired levels.flatten { s with skip := [] }
  let r2 := pass2 D expired (sweep2 levels) r1.1
  (r2.1, r1.2 ++ r2.2)

/-- a history of LeveledUpdateBatch calls (expired flag, updaters) on the same executor: the
    ResourceCache survives from one call to the next. -/
def runHistory {α} (D : Dom α) : List (Bool × List (List (Upd α))) → St α → St α × List (Write α)
  | [], s => (s, [])
  | b :: bs, s =>
    let r := runBatch D b.1 b.2 s
    let r' := runHistory D bs r.1
    (r'.1, r.2 ++ r'.2)

/-- the file system after a sequence of writes. -/
def applyWrites {α} (f : Nat → α) : List (Write α) → Nat → α
  | [] => f
  | w :: ws => applyWrites (setAt f w.1 w.2) ws

/-! ### the registered domains -/

/-- cpuset.cpus (both cgroup versions): MergeConditionIfCPUSetIsLooser; CPU sets as bitmasks.
    cgroupFileWriteIfDifferent compares with cpuset.IsEqualStrCpus (set equality). -/
def cpusetDom : Dom Nat where
  mergeable := true
  merge old new :=
    if new == old then (new, false)                 -- v.Equals(old)
    else if (new ||| old) == old then (new, false)  -- v.IsSubsetOf(old)
    else (new ||| old, true)                        -- v.Union(old)
  same cur t := cur == t
  valEq v t := v == t
  afterUpdate t := some t
  readBack c := some c

/-- "max" / "-1" are read as math.MaxInt64. -/
def limKey (v : Int) : Int := if v = -1 then 9223372036854775807 else v

/-- memory.min/low/high (MergeConditionIfValueIsLarger) and cgroup-v1 cpu.cfs_quota_us
    (MergeConditionIfCFSQuotaIsLarger): merged value = new value, written only when larger. -/
def limDom : Dom Int where
  mergeable := true
  merge old new := (new, decide (limKey new > limKey old))
  same cur t := cur == t
  valEq v t := v == t
  afterUpdate t := some t
  readBack c := some c

/-- cgroup-v2 cpu.max: the kernel shows "<quota> <period>", the updater writes "<quota>" / "max", so the
    string comparison of cgroupFileWriteIfDifferent never matches; "-1" is cached as "max". -/
def cfsV2Dom : Dom Int :=
  { limDom with same := fun _ _ => false, afterUpdate := fun t => if t = -1 then none else some t,
                readBack := fun _ => none }

/-- a resource registered without merge function (memory.limit_in_bytes): written once, in pass 1. -/
def plainDom : Dom Int := { limDom with mergeable := false }

/-! ### BE cpuset two-phase rewrite (cpusuppress) -/

/-- executor.go updateByCache (used by `UpdateBatch(true, …)` / `Update(true, …)`):
    needUpdate → update() (write if different) → cache the updater. -/
def stepCached {α} (D : Dom α) (expired : Bool) (s : St α) (u : Upd α) : St α × List (Write α) :=
  if !needUpdate D expired s u then (s, []) else
  match u.tgt with
  | none => (s, [])
  | some t =>
    let cur := s.files u.node
    if D.same cur t then
      ({ s with cache := setAt s.cache u.node (D.afterUpdate t) }, [])
    else
      ({ s with files := setAt s.files u.node t, cache := setAt s.cache u.node (D.afterUpdate t) }, [(u.node, t)])

/-- qosmanager/plugins/cpusuppress/cpu_suppress.go applyCPUSetWithNonePolicy + writeBECgroupsCPUSet.
    `paths` = koordletutil.GetBECPUSetPathsByMaxDepth(2): the besteffort dir, BE pod dirs and their container
    dirs in filepath.Walk order (a dir before everything below it); `cpus` the new set, `old` = oldCPUSet
    (bitmasks).  Pass 1: cacheable UpdateBatch of the union over `paths`; pass 2: cacheable UpdateBatch of
    the new set over the reversed `paths`. -/
def nonePolicy (expired : Bool) (paths : List Nat) (cpus old : Nat) (s : St Nat) : St Nat × List (Write Nat) :=
  if cpus = 0 then (s, []) else      -- len(cpus) <= 0: skipped
  let m := old ||| cpus              -- cpuset.MergeCPUSet(oldCPUSet, cpus)
  let r1 := runPass (stepCached cpusetDom expired) (paths.map fun n => { node := n, tgt := some m }) s
  let r2 := runPass (stepCached cpusetDom expired) (paths.reverse.map fun n => { node := n, tgt := some cpus }) r1.1
  (r2.1, r1.2 ++ r2.2)

/-- resource index of the line protocol: 0 cpuset.cpus (see `cpusetDom`), 1 cpu.cfs_quota_us,
    2 memory.min, 3 memory.low, 4 memory.high, 5 memory.limit_in_bytes. -/
def intDomOf (res : Nat) (v2 : Bool) : Option (Dom Int) :=
  match res with
  | 1 => some (if v2 then cfsV2Dom else limDom)
  | 2 | 3 | 4 => some limDom
  | 5 => some plainDom
  | _ => none

end KoordVerif.C12
