import KoordVerif.Model.C13
import KoordVerif.Model.C13Handle
/-
C13 — the in-place-resize part of pod.status and what the validating webhook reads of it: NOTHING.  Model of
  k8s.io/component-helpers/resource/helpers.go  AggregateContainerRequests (the `opts.UseStatusResources` branches),
        determineEffectiveRequests, IsPodResizeInfeasible, max
  pkg/util/pod_resources_utils.go               GetPodRequest: `PodRequests(pod, PodResourcesOptions{})` — no option set
The option is a parameter (`useStatus`) of the model so that "the verdict is about the SPEC" is a statement with
content: with the option on, a container is judged by max(spec, status.resources, allocatedResources), or by the
status alone when the pod has a PodResizePending condition with reason Infeasible (`statusView`), and the protocol
breaks (Props: status_option_counterexample).  The unchanged tree passes no option (`getPodRequestUsesStatus`, tied to
the source by Ties tie_pod_request_options), hence `statusView false s p = p`.
Core-only.
-/
namespace KoordVerif.C13

/-- one entry of status.containerStatuses / status.initContainerStatuses -/
structure CtrStatus where
  name : Nat
  /-- resources.requests; `none` = the entry has no `resources` -/
  actuated : Option RL
  /-- allocatedResources (nil = empty) -/
  allocated : RL

/-- the in-place-resize part of pod.status -/
structure ResizeStatus where
  /-- `pending + 4 * inProgress`; pending: 0 no PodResizePending condition, 1 reason Deferred, 2 reason Infeasible,
      3 another reason; inProgress: a PodResizeInProgress condition exists -/
  cond : Nat := 0
  /-- containerStatuses ++ initContainerStatuses (the order in which PodRequests fills its map by name) -/
  ctrs : List CtrStatus := []
  /-- status.resources.requests and status.allocatedResources (pod level); read only under
      InPlacePodLevelResourcesVerticalScalingEnabled, which no caller in scope sets: carried, never read -/
  podLevel : Option (RL × RL) := none

/-- helpers.go IsPodResizeInfeasible -/
def ResizeStatus.infeasible (s : ResizeStatus) : Bool := s.cond % 4 = 2

/-- `containerStatuses[name]` of AggregateContainerRequests: a later entry of the same name overwrites an earlier one -/
def ResizeStatus.lookup (s : ResizeStatus) (name : Nat) : Option CtrStatus :=
  s.ctrs.reverse.find? (fun cs => cs.name = name)

/-- helpers.go determineEffectiveRequests on a container whose status entry has `resources`:
    max(Actuated, Allocated) when the resize is infeasible, max(Spec, Actuated, Allocated) otherwise
    (`max(a, b...)` = copy of a, then maxResourceList with every b). -/
def effectiveRequests (s : ResizeStatus) (c : Ctr) : RL :=
  match s.lookup c.name with
  | none => c.req
  | some cs => match cs.actuated with
    | none => c.req
    | some act => if s.infeasible then maxRL act cs.allocated else maxRL (maxRL c.req act) cs.allocated

/-- the pod as AggregateContainerRequests sees it under `useStatus` = opts.UseStatusResources: every main container and
    every restartable init container (sidecar) is read through `effectiveRequests`; ordinary init containers, overhead and
    pod-level resources are read from the spec. -/
def statusView (useStatus : Bool) (s : ResizeStatus) (p : Pod) : Pod :=
  if useStatus then
    { p with ctrs := p.ctrs.map (fun c => { c with req := effectiveRequests s c }),
             inits := p.inits.map (fun c => if c.sidecar then { c with req := effectiveRequests s c } else c) }
  else p

/-- util.GetPodRequest: `resourcehelper.PodRequests(pod, resourcehelper.PodResourcesOptions{})` — the options literal
    has no field, so UseStatusResources is false (Ties/C13.lean tie_pod_request_options). -/
def getPodRequestUsesStatus : Bool := false

/-- clusterColocationProfileValidatingPod on pods that carry a resize status: validateRequiredQoSClass and
    validateResources read the new pod through util.GetPodRequest; labels and priority are not touched by the view;
    the old pod's requests are never read. -/
def validateAllowedSt (k : Ranges) (useStatus gate : Bool) (op : Nat) (old new : Pod) (sNew : ResizeStatus) : Bool :=
  validateAllowed k gate op old (statusView useStatus sNew new)

/-- PodValidatingHandler.Handle on pods that carry a resize status (the status travels in the request's JSON). -/
def handleValidatingSt (k : Ranges) (e : Envelope) (sh : ObjShape) (useStatus gate : Bool) (old new : Pod) (sNew : ResizeStatus) : Bool :=
  handleValidating k e sh gate old (statusView useStatus sNew new)

end KoordVerif.C13
