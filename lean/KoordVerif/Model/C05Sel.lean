/-
C05, owner label selectors: model of how `ParseReservationOwnerMatchers` (pkg/util/reservation/reservation.go) turns the
`labelSelector` of an owner entry into a matcher - through the helper `util.GetFastLabelSelector` (pkg/util/selector.go) -
and how the matcher is evaluated on a pod's labels (k8s.io/apimachinery labels.Selector.Matches, as far as the generated
shapes go).  Core Lean only (linked into the driver).

Keys and values are small integers (the harness maps the generated strings).  Not modelled: the syntax validation of
label keys / values (every generated key and value is a valid label token), the operators Gt / Lt of labels.Requirement
(metav1.LabelSelector has no such operators: LabelSelectorAsSelector rejects everything but In / NotIn / Exists /
DoesNotExist).
-/
namespace KoordVerif.C05

/-- a label set / matchLabels: key-value pairs (keys distinct: Go maps) -/
abbrev Labels := List (Nat × Nat)

def lookupLabel (ls : Labels) (k : Nat) : Option Nat := (ls.find? (fun p => p.1 == k)).map (·.2)

/-- metav1.LabelSelectorRequirement; op: 0 In, 1 NotIn, 2 Exists, 3 DoesNotExist, anything else = an unknown operator -/
structure SelExpr where
  key  : Nat
  op   : Nat
  vals : List Nat

/-- metav1.LabelSelector (non-nil) -/
structure LabelSel where
  labels : Labels
  exprs  : List SelExpr

/-- metav1.LabelSelectorAsSelector's operator switch + labels.NewRequirement: In / NotIn need at least one value,
    Exists / DoesNotExist need none, any other operator is "not a valid label selector operator" -/
def exprValid (e : SelExpr) : Bool :=
  match e.op with
  | 0 => !e.vals.isEmpty
  | 1 => !e.vals.isEmpty
  | 2 => e.vals.isEmpty
  | 3 => e.vals.isEmpty
  | _ => false

/-- labels.Requirement.Matches -/
def exprHolds (e : SelExpr) (pod : Labels) : Bool :=
  match e.op with
  | 0 => match lookupLabel pod e.key with
         | some v => e.vals.contains v
         | none => false
  | 1 => match lookupLabel pod e.key with
         | some v => !e.vals.contains v
         | none => true
  | 2 => (lookupLabel pod e.key).isSome
  | 3 => (lookupLabel pod e.key).isNone
  | _ => false

/-- one matchLabels pair: the key is carried with exactly that value (ValidatedSetSelector.Matches / an `In [v]` requirement) -/
def labelHolds (p : Nat × Nat) (pod : Labels) : Bool := lookupLabel pod p.1 == some p.2

/-- a parsed labels.Selector: the pairs and requirements it kept; all of them are ANDed
    (labels.internalSelector.Matches, labels.ValidatedSetSelector.Matches; no requirement = Everything) -/
structure ParsedSel where
  labels : Labels
  exprs  : List SelExpr

def ParsedSel.matchesPod (s : ParsedSel) (pod : Labels) : Bool :=
  s.labels.all (fun p => labelHolds p pod) && s.exprs.all (fun e => exprHolds e pod)

/-- metav1.LabelSelectorAsSelector: empty selector = Everything; every matchLabels pair becomes an `In [v]` requirement,
    every expression is validated and kept; the first invalid expression is an error (`none`) -/
def labelSelectorAsSelector (s : LabelSel) : Option ParsedSel :=
  if s.exprs.all exprValid then some { labels := s.labels, exprs := s.exprs } else none

/-- util.GetFastLabelSelector, pkg/util/selector.go, as written:
      if len(ps.MatchExpressions) == 0 && len(ps.MatchLabels) != 0 { return labels.SelectorFromValidatedSet(ps.MatchLabels), nil }
      return metav1.LabelSelectorAsSelector(ps)
    The fast path keeps the matchLabels ONLY - it is taken only when there are no expressions to lose. -/
def getFastLabelSelector (s : LabelSel) : Option ParsedSel :=
  if s.exprs.isEmpty && !s.labels.isEmpty then some { labels := s.labels, exprs := [] }
  else labelSelectorAsSelector s

/-- ParseReservationOwnerMatchers on the label selectors of the owner entries (`none` = the entry has no selector):
    ONE unparsable selector makes the whole spec unparsable (ReservationInfo.ParseError; MatchOwners then answers false) -/
def parseOwnerSelectors : List (Option LabelSel) → Option (List (Option ParsedSel))
  | [] => some []
  | none :: rest => (parseOwnerSelectors rest).map (fun t => none :: t)
  | some s :: rest =>
    match getFastLabelSelector s, parseOwnerSelectors rest with
    | some p, some t => some (some p :: t)
    | _, _ => none

/-- reservationutil.MatchLabels: a nil selector (entry without labelSelector) accepts every pod -/
def ownerLabelsMatch (p : Option ParsedSel) (pod : Labels) : Bool :=
  match p with
  | none => true
  | some p => p.matchesPod pod

end KoordVerif.C05
