import KoordVerif.Model.C06
import KoordVerif.Model.C06Pick
/-
C06, glue around the three layers.  Executable model, core-only, of

  pkg/scheduler/plugins/nodenumaresource/util.go      amplifyNUMANodeResources
  apis/extension/node_resource_amplification.go       Amplify, AmplifyResourceList (cpu)
  pkg/scheduler/plugins/nodenumaresource/plugin.go    getResourceOptions (the NUMA capacities it hands on)
  pkg/scheduler/plugins/nodenumaresource/node_allocation.go
                                                      getAvailableNUMANodeResources (with cpu amplification,
                                                      no reusable resources)
  pkg/scheduler/plugins/nodenumaresource/resource_manager.go
                                                      Allocate, allocateResourcesByHint, trimNUMANodeResources,
                                                      tryBestToDistributeEvenly (all requested resources),
                                                      allocateCPUSet, filterCPUsByRequiredCPUBindPolicy

A cpu amplification ratio is a rational `num/den` (`den > 0`); the harness only uses ratios that
are exact in binary floating point (1, 1.5, 2, 3) and checks on every amount it meets that
`extension.Amplify` (float64 `math.Ceil(origin*ratio)`) equals the integer `⌈origin·num/den⌉`.
No annotation is `0/1`.  Cells are `node*16 + dim`, dim 0 = cpu (milli).
-/
namespace KoordVerif.C06

/-! ## amplification -/

/-- extension.Amplify: `ratio <= 1 → origin`, else `int64(math.Ceil(float64(origin) * ratio))`. -/
def amplify (num den : Int) (x : Int) : Int :=
  if num ≤ den then x else (x * num + den - 1) / den

def isCpuCell (k : Nat) : Bool := k % 16 == 0

/-- util.go `amplifyNUMANodeResources` on the flattened per-NUMA capacities: a NEW list; only the
    cpu cell has a ratio (AmplifyResourceList: ratio ≤ 1 or a zero quantity ⇒ unchanged, which
    `amplify` already gives). -/
def amplifyCaps (num den : Int) (caps : List (Nat × Int)) : List (Nat × Int) :=
  caps.map fun e => if isCpuCell e.1 then (e.1, amplify num den e.2) else e

/-- what the TopologyOptionsManager stores for the node: the RAW per-NUMA capacities. -/
structure Stored where
  caps : List (Nat × Int)
deriving Repr, DecidableEq

/-- plugin.go `getResourceOptions` → `amplifyNUMANodeResources(node, &topologyOptions)` on the
    by-value copy of the stored options: returns the capacities the resource manager will use and
    what the manager stores afterwards.  The code amplifies a deep copy, so the store is untouched. -/
def getOptions (num den : Int) (st : Stored) : List (Nat × Int) × Stored :=
  (amplifyCaps num den st.caps, st)

/-- the shape that must NOT be: amplify the resource maps shared with the store. -/
def getOptionsInPlace (num den : Int) (st : Stored) : List (Nat × Int) × Stored :=
  (amplifyCaps num den st.caps, { caps := amplifyCaps num den st.caps })

/-- `k` scheduling steps, each fetching its options; returns the options seen, in order. -/
def optionsSeen (get : Stored → List (Nat × Int) × Stored) : Nat → Stored → List (List (Nat × Int))
  | 0, _ => []
  | k + 1, st => (get st).1 :: optionsSeen get k (get st).2

/-! ## node configuration and requests -/

structure NodeCfg where
  topo     : List CpuI           -- topology.CPUDetails
  cpc      : Nat
  cpn      : Nat
  cps      : Nat
  maxRef   : Int
  most     : Bool                -- numaAllocateStrategy == NUMAMostAllocated
  reserved : List Nat
  caps     : List (Nat × Int)    -- STORED (raw) NUMANodeResources, flattened
  num      : Int                 -- cpu amplification ratio of the node annotation
  den      : Int
deriving Repr

def NodeCfg.cpuIds (cfg : NodeCfg) : List Nat := cfg.topo.map (·.cpu)

def NodeCfg.nodeOf (cfg : NodeCfg) (c : Nat) : Nat :=
  match cfg.topo.find? (·.cpu == c) with
  | some i => i.node
  | none => 0

def NodeCfg.coreOf (cfg : NodeCfg) (c : Nat) : Nat :=
  match cfg.topo.find? (·.cpu == c) with
  | some i => i.core
  | none => 0

/-- NUMA node ids of `topologyOptions.NUMANodeResources`. -/
def NodeCfg.numaNodes (cfg : NodeCfg) : List Nat := dedupNat (cfg.caps.map (·.1 / 16))

/-- capacity(node) as the resource manager sees it = a pure function of the stored topology. -/
def NodeCfg.capacity (cfg : NodeCfg) : List (Nat × Int) := (getOptions cfg.num cfg.den { caps := cfg.caps }).1

structure AllocReq where
  uid      : Nat
  excl     : Nat                 -- cpuExclusivePolicy enum (0 "", 1 None, 2 PCPULevel, 3 NUMANodeLevel)
  bind     : Nat                 -- cpuBindPolicy: 0 Default, 1 FullPCPUs, 2 SpreadByPCPUs
  required : Bool                -- requiredCPUBindPolicy
  cpuBind  : Bool                -- requestCPUBind
  ncpu     : Int                 -- numCPUsNeeded
  hint     : Option (List Nat)   -- hint.NUMANodeAffinity.GetBits()
  reqs     : List (Nat × Int)    -- (dim, milli): originalRequests if cpuBind else requests (the same list:
                                 -- getResourceOptions amplifies `requests` only for cpu-bind pods)
deriving Repr

/-! ## getAvailableNUMANodeResources with cpu amplification -/

/-- `n.allocatedResources[node] != nil`: some pod has recorded an amount on that node (entries are
    never deleted). -/
def nodeHasEntry (m : ResMap) (nd : Nat) : Bool := m.any (fun e => e.1 / 16 == nd)

/-- `n.allocatedCPUs.CPUsInNUMANodes(node).Size() * 1000`. -/
def allocCPUMilli (nodeOf : Nat → Nat) (cm : CpuMap) (nd : Nat) : Int :=
  ((cm.filter (fun e => nodeOf e.1 == nd)).length : Int) * 1000

/-- what `getAvailableNUMANodeResources` charges against the (amplified) capacity of one cell:
    the recorded amount, for cpu with ratio > 1 corrected by `- cpusets + Amplify(cpusets)`;
    nothing if the node has no ledger entry. -/
def chargedCell (num den : Int) (nodeOf : Nat → Nat) (L : Ledger) (k : Nat) : Int :=
  if nodeHasEntry L.res (k / 16) then
    if isCpuCell k && decide (num > den) then
      let c := allocCPUMilli nodeOf L.cpus (k / 16)
      getI L.res k - c + amplify num den c
    else getI L.res k
  else 0

/-- `SubtractWithNonNegativeResult(capacity, charged)` on one cell. -/
def availableCellAmp (num den : Int) (nodeOf : Nat → Nat) (cap : Int) (L : Ledger) (k : Nat) : Int :=
  max (cap - chargedCell num den nodeOf L k) 0

/-! ## required-policy filter and trim -/

/-- resource_manager.go `filterCPUsByRequiredCPUBindPolicy` (policy 1: CPUs of cores all of whose
    CPUs are available; policy 2: the lowest available CPU of every core; else unchanged). -/
def filterByPolicy (cfg : NodeCfg) (policy : Nat) (avail : List Nat) : List Nat :=
  let infos := cfg.topo.filter (fun i => avail.contains i.cpu)
  if policy = 1 then
    (infos.filter (fun i => (infos.filter (·.core == i.core)).length == cfg.cpc)).map (·.cpu)
  else if policy = 2 then
    (infos.filter (fun i => (infos.filter (fun j => j.core == i.core && decide (j.cpu < i.cpu))).isEmpty)).map (·.cpu)
  else avail

/-- `GetAvailableCPUs(node)` without restored CPUs. -/
def NodeCfg.availCPUs (cfg : NodeCfg) (L : Ledger) : List Nat :=
  availableCPUs cfg.cpuIds L.cpus cfg.maxRef cfg.reserved []

/-- resource_manager.go `trimNUMANodeResources` on the cpu amount of one NUMA node. -/
def trimCpu (cfg : NodeCfg) (L : Ledger) (req : AllocReq) (nd : Nat) (v : Int) : Int :=
  if !req.required then v
  else if v = 0 then v
  else
    let inNode := (cfg.availCPUs L).filter (fun c => cfg.nodeOf c == nd)
    let n : Int := ((filterByPolicy cfg req.bind inNode).length : Int) * 1000
    if n < v then n else v

/-- `totalAvailable[node][resource]` as `tryBestToDistributeEvenly` reads it (zero when absent). -/
def freeFor (cfg : NodeCfg) (L : Ledger) (req : AllocReq) (d : Nat) (nd : Nat) : Int :=
  let k := nd * 16 + d
  match cfg.capacity.find? (·.1 == k) with
  | none => 0
  | some e =>
    let a := availableCellAmp cfg.num cfg.den cfg.nodeOf e.2 L k
    if d = 0 then trimCpu cfg L req nd a else a

/-- which `splitQuantity` branch a requested resource takes. -/
def modeFor (cfg : NodeCfg) (req : AllocReq) (d : Nat) : SplitMode :=
  if d = 0 then
    if !req.cpuBind then .milli
    else if req.required && req.bind == 1 then .fullPCPUs cfg.cpc
    else .value
  else .value

/-- `resourceNamesByNUMA`: the names occurring in some `totalAvailable[node]`.  That list is
    `SubtractWithNonNegativeResult(capacity, allocated)`, which also carries (with zero) every name
    that only the ledger entry of the node has — so a name no NUMA node declares becomes "declared"
    (with nothing available) once some pod has recorded it on a node of the topology. -/
def declaredDim (cfg : NodeCfg) (L : Ledger) (d : Nat) : Bool :=
  cfg.caps.any (fun e => e.1 % 16 == d) ||
  L.res.any (fun e => e.1 % 16 == d && cfg.numaNodes.contains (e.1 / 16))

/-- `tryBestToDistributeEvenly` over all requested resources: `none` = some reason was produced. -/
def splitAll (cfg : NodeCfg) (L : Ledger) (req : AllocReq) (hint : List Nat) : Option (List (Nat × Int)) :=
  req.reqs.foldl (fun acc r =>
    match acc with
    | none => none
    | some cells =>
      let declared := declaredDim cfg L r.1
      let o := numaSplit (modeFor cfg req r.1) declared (freeFor cfg L req r.1) hint r.2
      if o.failed then none else some (cells ++ o.allocs.map (fun a => (a.1 * 16 + r.1, a.2)))) (some [])

/-! ## allocateCPUSet -/

def unionNat (a b : List Nat) : List Nat := a ++ b.filter (fun c => !a.contains c)

def NodeCfg.pickCtx (cfg : NodeCfg) (excl : Nat) : PickCtx :=
  { topo := cfg.topo, cpc := cfg.cpc, cpn := cfg.cpn, cps := cfg.cps, maxRef := cfg.maxRef, excl := excl, most := cfg.most }

/-- the `allocated CPUDetails` returned by `GetAvailableCPUs` (clone of `allocatedCPUs`). -/
def allocatedInfos (cfg : NodeCfg) (L : Ledger) : List CpuI :=
  L.cpus.map fun e => { topoInfo (cfg.pickCtx 0) e.1 with cpu := e.1, ref := e.2.ref, excl := e.2.excl }

/-- the CPUs `allocateCPUSet` picks from: `GetAvailableCPUs`, filtered when a bind policy is required. -/
def availFor (cfg : NodeCfg) (L : Ledger) (req : AllocReq) : List Nat :=
  if req.required then filterByPolicy cfg req.bind (cfg.availCPUs L) else cfg.availCPUs L

/-- one round of the loop over the NUMA nodes of the allocation. -/
def numaRound (cfg : NodeCfg) (ctx : PickCtx) (full : Bool) (allocated : List CpuI) (avail : List Nat)
    (acc : Option (List Nat)) (nq : Nat × Int) : Option (List Nat) :=
  match acc with
  | none => none
  | some res =>
    let inNode := avail.filter (fun c => cfg.nodeOf c == nq.1)
    let want := Int.tdiv nq.2 1000
    let n : Int := if want < (inNode.length : Int) then want else (inNode.length : Int)
    match takePreferredCPUs ctx full inNode [] allocated n with
    | none => none
    | some cpus => some (unionNat res cpus)

/-- the CPUs taken: per NUMA node of the allocation (then the count must be exact), or in one go. -/
def takenCPUs (cfg : NodeCfg) (ctx : PickCtx) (full : Bool) (allocated : List CpuI) (avail : List Nat)
    (ncpu : Int) (numaNodes : List (Nat × Int)) : Option (List Nat) :=
  if !numaNodes.isEmpty then
    match numaNodes.foldl (numaRound cfg ctx full allocated avail) (some []) with
    | none => none
    | some res => if ncpu - (res.length : Int) ≠ 0 then none else some res
  else if ncpu > 0 then takePreferredCPUs ctx full avail [] allocated ncpu
  else some []

/-- resource_manager.go `allocateCPUSet`; `numaNodes` = (node, cpu milli) of the NUMA allocation,
    sorted by node id.  `none` = error. -/
def allocateCPUSet (cfg : NodeCfg) (L : Ledger) (req : AllocReq) (numaNodes : List (Nat × Int)) :
    Option (List Nat) :=
  if ((availFor cfg L req).length : Int) < req.ncpu then none
  else
    match takenCPUs cfg (cfg.pickCtx req.excl) (req.bind == 1) (allocatedInfos cfg L) (availFor cfg L req)
        req.ncpu numaNodes with
    | none => none
    | some res =>
      if req.required && !satisfiedPolicy req.bind cfg.coreOf cfg.cpc res then none else some res

/-- resource_manager.go `Allocate`.  `none` = a non-success status. -/
def allocate (cfg : NodeCfg) (L : Ledger) (req : AllocReq) : Option PodAlloc :=
  let numa : Option (List (Nat × Int)) :=
    match req.hint with
    | none => some []
    | some hint => if cfg.caps.isEmpty then none else splitAll cfg L req hint
  match numa with
  | none => none
  | some cells =>
    if req.cpuBind then
      let nodes := sortAsc (dedupNat (cells.map (·.1 / 16)))
      match allocateCPUSet cfg L req (nodes.map fun nd => (nd, getI cells (nd * 16))) with
      | none => none
      | some cpus => some { uid := req.uid, excl := req.excl, cpus := cpus, numa := cells }
    else some { uid := req.uid, excl := req.excl, cpus := [], numa := cells }

end KoordVerif.C06
